#undef private
#undef protected
