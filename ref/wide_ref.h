// Minimal fixed-width natural-number arithmetic for oracles (384 bits, 64-bit limbs, little endian).
// Only operations whose shapes are concrete under symbolic execution: shift by a concrete amount, multiply by a 64-bit
// value (128-bit intermediate), add, compare. No division anywhere: quotients are specified by q*d <= n < (q+1)*d.
#pragma once
#include <stdint.h>

#define WREF_LIMBS 6
struct W { uint64_t l[WREF_LIMBS]; };

static inline W w_u64(uint64_t x) { W r; for (int i = 0; i < WREF_LIMBS; i++) r.l[i] = 0; r.l[0] = x; return r; }
static inline W w_le_bytes32(const uint8_t b[32])
{
    W r = w_u64(0);
    for (int i = 0; i < 32; i++) r.l[i / 8] |= (uint64_t)b[i] << (8 * (i % 8));
    return r;
}
// x * 2^s, s concrete; bits shifted beyond 384 must not exist (checked by w_shl_ok)
static inline W w_shl(const W& x, unsigned s)
{
    W r = w_u64(0);
    const unsigned k = s / 64, t = s % 64;
    for (int i = 0; i < WREF_LIMBS; i++) {
        if (i + k < WREF_LIMBS) r.l[i + k] |= x.l[i] << t;
        if (t != 0 && i + k + 1 < WREF_LIMBS) r.l[i + k + 1] |= x.l[i] >> (64 - t);
    }
    return r;
}
static inline W w_mul64(const W& x, uint64_t m)
{
    W r; unsigned __int128 carry = 0;
    for (int i = 0; i < WREF_LIMBS; i++) {
        const unsigned __int128 p = (unsigned __int128)x.l[i] * m + carry;
        r.l[i] = (uint64_t)p; carry = p >> 64;
    }
    return r;
}
static inline W w_add(const W& a, const W& b)
{
    W r; unsigned __int128 carry = 0;
    for (int i = 0; i < WREF_LIMBS; i++) {
        const unsigned __int128 p = (unsigned __int128)a.l[i] + b.l[i] + carry;
        r.l[i] = (uint64_t)p; carry = p >> 64;
    }
    return r;
}
// a - b (caller guarantees a >= b)
static inline W w_sub(const W& a, const W& b)
{
    W r; unsigned borrow = 0;
    for (int i = 0; i < WREF_LIMBS; i++) {
        const unsigned __int128 d = (unsigned __int128)a.l[i] - b.l[i] - borrow;
        r.l[i] = (uint64_t)d; borrow = (unsigned)((d >> 64) & 1);
    }
    return r;
}
static inline int w_cmp(const W& a, const W& b)
{
    int r = 0;
    for (int i = 0; i < WREF_LIMBS; i++) { if (a.l[i] < b.l[i]) r = -1; else if (a.l[i] > b.l[i]) r = 1; }
    return r;
}
static inline bool w_lt(const W& a, const W& b) { return w_cmp(a, b) < 0; }
static inline bool w_le(const W& a, const W& b) { return w_cmp(a, b) <= 0; }
