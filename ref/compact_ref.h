// Reference model of the "compact" (nBits) target encoding, written from the documentation comment of
// arith_uint256::SetCompact ("N = (-1^sign) * mantissa * 256^(exponent-3)", MPI-style sign bit) on little-endian
// byte arrays. Shares no code with arith_uint256.cpp. Used by C07 (proof of work) and C54 (chain work).
#pragma once
#include <stdint.h>

struct RefTarget {
    uint8_t b[32];   // value mod 2^256, little endian
    bool negative;   // sign bit set and the (truncated) magnitude is non-zero
    bool overflow;   // magnitude does not fit in 256 bits
};

static inline int ref_bitlen32(uint32_t x)
{
    int n = 0;
    for (int i = 0; i < 32; i++) if ((x >> i) & 1) n = i + 1;
    return n;
}

// decode: N = mantissa * 256^(exponent-3), fractions truncated
static inline RefTarget ref_decode_compact(uint32_t c)
{
    RefTarget r;
    for (int i = 0; i < 32; i++) r.b[i] = 0;
    const int e = (int)(c >> 24);
    uint32_t mant = c & 0x007fffffu;
    const bool sign = (c & 0x00800000u) != 0;
    int base = 0;                       // index of the least significant mantissa byte
    if (e < 3) { for (int k = e; k < 3; k++) mant /= 256; } else base = e - 3;
    for (int i = 0; i < 3; i++) {
        const int idx = base + i;
        const uint8_t byte = (uint8_t)((mant >> (8 * i)) & 0xff);
        for (int j = 0; j < 32; j++) if (j == idx) r.b[j] = byte;
    }
    r.negative = sign && mant != 0;
    r.overflow = mant != 0 && 8 * base + ref_bitlen32(mant) > 256;
    return r;
}

// encode: shortest byte length n such that the top bit of the top byte is clear (MPI sign convention), mantissa = the three
// most significant of those n bytes (value * 256^(3-n) when n < 3); zero encodes as 0.
static inline uint32_t ref_encode_compact(const uint8_t v[32], bool negative)
{
    int top = -1;
    for (int j = 0; j < 32; j++) if (v[j] != 0) top = j;
    if (top < 0) return 0;
    int n = top + 1;
    if (v[top] & 0x80) n++;
    uint32_t mant = 0;
    for (int i = 0; i < 3; i++) {
        const int idx = n - 3 + i;
        uint8_t byte = 0;
        for (int j = 0; j < 32; j++) if (j == idx) byte = v[j];
        mant |= (uint32_t)byte << (8 * i);
    }
    return ((uint32_t)n << 24) | mant | ((negative && mant != 0) ? 0x00800000u : 0u);
}

// big-endian comparison of two little-endian 32-byte numbers: -1, 0, 1
static inline int ref_cmp256(const uint8_t a[32], const uint8_t b[32])
{
    int r = 0;
    for (int j = 0; j < 32; j++) { if (a[j] < b[j]) r = -1; else if (a[j] > b[j]) r = 1; }   // the most significant differing byte decides (scanned last)
    return r;
}
static inline bool ref_is_zero256(const uint8_t a[32])
{
    bool z = true;
    for (int j = 0; j < 32; j++) if (a[j] != 0) z = false;
    return z;
}
