// Opt-in shadow header (spec: shadow=['smallbitdeque']): the REAL util/bitdeque.h template, with only the DEFAULT blob size of `bitdeque<>` shrunk from
// 4096*8 bits to 64 bits (std::bitset<64> words). Every member function is the real code; a 4 KiB std::bitset per deque element makes each
// element copy a 4096-iteration byte loop in the symbolic execution. Users that name an explicit size are unaffected.
#pragma once
#define bitdeque bitdeque_real_template
#include_next <util/bitdeque.h>
#undef bitdeque
template <int BITS_PER_WORD = 64>
using bitdeque = bitdeque_real_template<BITS_PER_WORD>;
