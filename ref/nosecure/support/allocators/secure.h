// Shadow of src/support/allocators/secure.h for harnesses that opt in (H(..., shadow=['nosecure'])): secure_allocator forwards to operator new / delete
// instead of the mlock()ed LockedPoolManager arena (std::call_once + arena pointer arithmetic; the locked pool is not the subject of those checks).
// The zeroisation on deallocation (memory_cleanse) is kept. Everything else is the real header's text.
#ifndef BITCOIN_SUPPORT_ALLOCATORS_SECURE_H
#define BITCOIN_SUPPORT_ALLOCATORS_SECURE_H

#include <support/cleanse.h>

#include <memory>
#include <new>
#include <string>

template <typename T>
struct secure_allocator {
    using value_type = T;

    secure_allocator() = default;
    template <typename U>
    secure_allocator(const secure_allocator<U>&) noexcept {}

    T* allocate(std::size_t n)
    {
        T* allocation = static_cast<T*>(::operator new(sizeof(T) * n));
        if (!allocation) {
            throw std::bad_alloc();
        }
        return allocation;
    }

    void deallocate(T* p, std::size_t n)
    {
        if (p != nullptr) {
            memory_cleanse(p, sizeof(T) * n);
        }
        ::operator delete(p);
    }

    template <typename U>
    friend bool operator==(const secure_allocator&, const secure_allocator<U>&) noexcept
    {
        return true;
    }
};

typedef std::basic_string<char, std::char_traits<char>, secure_allocator<char> > SecureString;

template<typename T>
struct SecureUniqueDeleter {
    void operator()(T* t) noexcept {
        secure_allocator<T>().deallocate(t, 1);
    }
};

template<typename T>
using secure_unique_ptr = std::unique_ptr<T, SecureUniqueDeleter<T>>;

template<typename T, typename... Args>
secure_unique_ptr<T> make_secure_unique(Args&&... as)
{
    T* p = secure_allocator<T>().allocate(1);

    // initialize in place, and return as secure_unique_ptr
    try {
        return secure_unique_ptr<T>(new (p) T(std::forward<Args>(as)...));
    } catch (...) {
        secure_allocator<T>().deallocate(p, 1);
        throw;
    }
}

#endif // BITCOIN_SUPPORT_ALLOCATORS_SECURE_H
