// Common environment stubs for Route-B harnesses (include in the harness TU when the linked real code references them).
//  - util/check.cpp: assertion_fail() -> CBMC assertion (the code's own Assert()/Assume() are checked on every path)
//  - random.cpp: FastRandomContext seeding / ChaCha20 keystream -> nondeterministic values
#pragma once
#include <verif.h>
#include <util/check.h>
#include <random.h>
#include <crypto/chacha20.h>
#include <source_location>
#include <string_view>
[[noreturn]] void assertion_fail(const std::source_location&, std::string_view)
{
    __CPROVER_assert(0, "Assert()/Assume() in code under test failed");
    __CPROVER_assume(0);
    __builtin_trap();
}
NonFatalCheckError::NonFatalCheckError(std::string_view, const std::source_location&) : std::runtime_error("") {}
#ifndef VERIF_NO_RANDOM_STUBS
FastRandomContext::FastRandomContext(bool) noexcept : requires_seed(false), rng(MakeByteSpan(uint256{})) {}
void FastRandomContext::RandomSeed() noexcept { requires_seed = false; }
ChaCha20::~ChaCha20() {}
void ChaCha20::Keystream(std::span<std::byte> out) noexcept { for (size_t i = 0; i < out.size(); i++) out[i] = (std::byte)nondet_u8(); }
ChaCha20Aligned::ChaCha20Aligned(std::span<const std::byte>) noexcept {}
ChaCha20Aligned::~ChaCha20Aligned() {}
#endif
