// Hash abstraction (a): CSHA256 with unconstrained output. Include in exactly one harness TU and do NOT link
// crypto/sha256.cpp. Sound for properties that do not depend on digest values: every digest is an arbitrary
// 32-byte value chosen by the solver (a superset of real SHA-256 behaviour except functional consistency).
#pragma once
#include <crypto/sha256.h>
#include <verif.h>
CSHA256::CSHA256() {}
CSHA256& CSHA256::Write(const unsigned char*, size_t len) { bytes += len; return *this; }
CSHA256& CSHA256::Reset() { bytes = 0; return *this; }
void CSHA256::Finalize(unsigned char hash[OUTPUT_SIZE])
{
    uint64_t v[4] = {nondet_u64(), nondet_u64(), nondet_u64(), nondet_u64()};
    __builtin_memcpy(hash, v, 32);
}
void SHA256D64(unsigned char* out, const unsigned char* in, size_t blocks)
{
    for (size_t b = 0; b < blocks; b++) { uint64_t v[4] = {nondet_u64(), nondet_u64(), nondet_u64(), nondet_u64()}; __builtin_memcpy(out + 32 * b, v, 32); }
}
