// Phantom node objects for the node-class harnesses (C19, C58, C57, C28) ("under stubs", DESIGN 2.1): zeroed aligned storage of sizeof(Class) in which only the
// members read by the functions under test are placement-constructed. Access to private members: the including TU defines
// private/protected as public before including validation.h (layout unchanged).
#pragma once
#include <new>
#include <string.h>
// The storage is a *typed* zero-initialised global (a union whose only non-trivial member is never constructed/destroyed by the
// compiler), not a byte array: CBMC keeps typed struct members field-sensitive, whereas typed accesses into a large byte array lose
// every constant (pointers, sizes) stored there. Use at namespace scope: `static PhantomStore<Chainstate> g_cs;`.
template <class T> union PhantomStore {
    T o;
    PhantomStore() {}
    ~PhantomStore() {}
    T& obj() { return o; }
};
// slot of a reference member of `obj` (of class Class) that directly follows member `prev` (reference members have no address of
// their own). Compile-time offset, pure pointer arithmetic (no integer casts of addresses: CBMC would lose the target object).
#pragma clang diagnostic ignored "-Winvalid-offsetof"
#define REF_SLOT_AFTER(obj, Class, prev) ((void**)((char*)(void*)&(obj) + ((__builtin_offsetof(Class, prev) + sizeof((obj).prev) + 7) & ~(size_t)7)))
// store a value into a const member
template <class T, class V> static inline void poke(const T& member, V v) { *const_cast<T*>(&member) = (T)v; }
// CChain of symbolic height without allocating blocks: std::vector<CBlockIndex*> {begin, end, cap} with end = begin + (height+1).
// Only size() is ever read by the code under test (CChain::Height()).
__attribute__((no_sanitize("bounds"))) static inline void set_chain_height(CChain& c, int64_t height)
{
    static CBlockIndex* one_slot;
    CBlockIndex** raw[3]; raw[0] = &one_slot; raw[1] = &one_slot + (height + 1); raw[2] = raw[1];
    static_assert(sizeof(c.vChain) == sizeof(raw), "libstdc++ vector layout");
    memcpy((void*)&c.vChain, raw, sizeof(raw));
}
// CChain of symbolic height whose Tip() is `tip`: begin = &slot - height, end = &slot + 1, slot = tip. Only size() and the last
// element are read by the code under test (Height(), Tip()); other elements do not exist.
__attribute__((no_sanitize("bounds"))) static inline void set_chain_tip(CChain& c, int64_t height, CBlockIndex* tip)
{
    static CBlockIndex* tip_slot;
    tip_slot = tip;
    CBlockIndex** raw[3]; raw[0] = &tip_slot - height; raw[1] = &tip_slot + 1; raw[2] = raw[1];
    static_assert(sizeof(c.vChain) == sizeof(raw), "libstdc++ vector layout");
    memcpy((void*)&c.vChain, raw, sizeof(raw));
}
