// Hash abstraction (b) for Merkle-tree harnesses: a collision-free (free-algebra) model of double-SHA256 on 64-byte inputs.
// A 32-byte "digest" is a label  [ level | leaf ids covered by the node, one byte each | zero padding ].
//   leaf label            = [0, id, 0...]
//   H(a, b) (64-byte msg) = [level(a)+1, ids(a) || ids(b), 0...]      (requires level(a) == level(b) <= 4)
//   SHA256 of a 32-byte message (the second pass of CHash256) is the identity (injective).
// Two labels are equal iff they were built from the same level and the same id sequence: "no SHA256d collision" holds by
// construction, which is exactly the assumption stated in consensus/merkle.cpp. Include in one harness TU; do not link crypto/sha256.cpp.
#pragma once
#include <crypto/sha256.h>
#include <verif.h>
#include <string.h>
static inline void verif_pair_label(unsigned char* out, const unsigned char* a, const unsigned char* b)
{
    const unsigned lvl = a[0];
    __CPROVER_assert(lvl == b[0] && lvl <= 4, "hash model: only same-level nodes up to level 4 are paired");
    unsigned char r[32]; memset(r, 0, 32);
    r[0] = (unsigned char)(lvl + 1);
    const unsigned n = 1u << lvl;
    for (unsigned i = 0; i < n && i < 15; i++) { r[1 + i] = a[1 + i]; r[1 + n + i] = b[1 + i]; }
    memcpy(out, r, 32);
}
CSHA256::CSHA256() { bytes = 0; }
CSHA256& CSHA256::Write(const unsigned char* data, size_t len)
{
    __CPROVER_assert(bytes + len <= 64, "hash model: messages of at most 64 bytes");
    for (size_t i = 0; i < len; i++) buf[bytes + i] = data[i];
    bytes += len; return *this;
}
CSHA256& CSHA256::Reset() { bytes = 0; return *this; }
void CSHA256::Finalize(unsigned char hash[OUTPUT_SIZE])
{
    __CPROVER_assert(bytes == 64 || bytes == 32, "hash model: 64-byte pair or 32-byte second pass");
    if (bytes == 64) verif_pair_label(hash, buf, buf + 32); else memcpy(hash, buf, 32);
}
void SHA256D64(unsigned char* out, const unsigned char* in, size_t blocks)
{
    for (size_t b = 0; b < blocks; b++) { unsigned char t[32]; verif_pair_label(t, in + 64 * b, in + 64 * b + 32); memcpy(out + 32 * b, t, 32); }
}
