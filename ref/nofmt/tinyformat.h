// Shadow of src/tinyformat.h for harnesses that opt in (H(..., nofmt=True)): formatting is never the subject of those
// checks, so every format call yields an empty string / writes nothing. Same public API as the real header's Bitcoin Core
// section. Listed in evidence as a stub ("tinyformat: strprintf/tfm::format return empty strings").
#ifndef TINYFORMAT_H_INCLUDED
#define TINYFORMAT_H_INCLUDED
#include <attributes.h>
#include <util/string.h>
#include <ostream>
#include <stdexcept>
#include <string>
namespace tinyformat {
struct RuntimeFormat {
    const std::string& fmt;
    explicit RuntimeFormat(LIFETIMEBOUND const std::string& str) : fmt{str} {}
};
template <unsigned num_params>
struct FormatStringCheck {
    constexpr FormatStringCheck(const char* str) : fmt{str} {}   // format-string checking is compile-time only in the real build
    FormatStringCheck(LIFETIMEBOUND const RuntimeFormat& run) : fmt{run.fmt.c_str()} {}
    FormatStringCheck(util::ConstevalFormatString<num_params> str) : fmt{str.fmt} {}
    operator const char*() { return fmt; }
    const char* fmt;
};
class format_error : public std::runtime_error
{
public:
    explicit format_error(const std::string& what) : std::runtime_error(what) {}
};
template <typename T>
inline void formatValue(std::ostream&, const char*, const char*, int, const T&) {}
template <typename... Args>
void format(std::ostream&, FormatStringCheck<sizeof...(Args)>, const Args&...) {}
template <typename... Args>
std::string format(FormatStringCheck<sizeof...(Args)>, const Args&...) { return std::string(); }
template <typename... Args>
void printf(FormatStringCheck<sizeof...(Args)>, const Args&...) {}
template <typename... Args>
void printfln(FormatStringCheck<sizeof...(Args)>, const Args&...) {}
} // namespace tinyformat
namespace tfm = tinyformat;
#define strprintf tfm::format
#endif
