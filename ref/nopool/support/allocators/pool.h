// Shadow of src/support/allocators/pool.h for harnesses that opt in (H(..., shadow=['nopool'])): the pool memory resource
// forwards every allocation to operator new (no 256 KiB chunks carved up by pointer arithmetic, which CBMC would have to
// model as byte arrays). The allocator is not the subject of those checks (PoolResource itself is decided under C61).
// PoolAllocator below is the real header's, except that allocate/deallocate call operator new/delete directly.
#ifndef BITCOIN_SUPPORT_ALLOCATORS_POOL_H
#define BITCOIN_SUPPORT_ALLOCATORS_POOL_H
#include <array>
#include <cassert>
#include <cstddef>
#include <list>
#include <memory>
#include <new>
#include <type_traits>
#include <utility>
#include <util/check.h>
#include <util/overflow.h>
template <std::size_t MAX_BLOCK_SIZE_BYTES, std::size_t ALIGN_BYTES>
class PoolResource final
{
    const size_t m_chunk_size_bytes;
public:
    explicit PoolResource(std::size_t chunk_size_bytes) : m_chunk_size_bytes(chunk_size_bytes) {}
    PoolResource() : PoolResource(262144) {}
    PoolResource(const PoolResource&) = delete;
    PoolResource& operator=(const PoolResource&) = delete;
    PoolResource(PoolResource&&) = delete;
    PoolResource& operator=(PoolResource&&) = delete;
    ~PoolResource() = default;
    void* Allocate(std::size_t bytes, std::size_t alignment) { return ::operator new(bytes); }
    void Deallocate(void* p, std::size_t bytes, std::size_t alignment) noexcept { ::operator delete(p); }
    [[nodiscard]] std::size_t NumAllocatedChunks() const { return 1; }
    [[nodiscard]] size_t ChunkSizeBytes() const { return m_chunk_size_bytes; }
};

/**
 * Forwards all allocations/deallocations to the PoolResource.
 */
template <class T, std::size_t MAX_BLOCK_SIZE_BYTES, std::size_t ALIGN_BYTES = alignof(T)>
class PoolAllocator
{
    PoolResource<MAX_BLOCK_SIZE_BYTES, ALIGN_BYTES>* m_resource;

    template <typename U, std::size_t M, std::size_t A>
    friend class PoolAllocator;

public:
    using value_type = T;
    using ResourceType = PoolResource<MAX_BLOCK_SIZE_BYTES, ALIGN_BYTES>;

    /**
     * Not explicit so we can easily construct it with the correct resource
     */
    PoolAllocator(ResourceType* resource) noexcept
        : m_resource(resource)
    {
    }

    PoolAllocator(const PoolAllocator& other) noexcept = default;
    PoolAllocator& operator=(const PoolAllocator& other) noexcept = default;

    template <class U>
    PoolAllocator(const PoolAllocator<U, MAX_BLOCK_SIZE_BYTES, ALIGN_BYTES>& other) noexcept
        : m_resource(other.resource())
    {
    }

    /**
     * The rebind struct here is mandatory because we use non type template arguments for
     * PoolAllocator. See https://en.cppreference.com/w/cpp/named_req/Allocator#cite_note-2
     */
    template <typename U>
    struct rebind {
        using other = PoolAllocator<U, MAX_BLOCK_SIZE_BYTES, ALIGN_BYTES>;
    };

    /**
     * Forwards each call to the resource.
     */
    T* allocate(size_t n)
    {
        return static_cast<T*>(::operator new(n * sizeof(T)));   // shadow: typed allocation directly (lets the translator type the heap object)
    }

    /**
     * Forwards each call to the resource.
     */
    void deallocate(T* p, size_t n) noexcept
    {
        ::operator delete(p);
    }

    ResourceType* resource() const noexcept
    {
        return m_resource;
    }
};

template <class T1, class T2, std::size_t MAX_BLOCK_SIZE_BYTES, std::size_t ALIGN_BYTES>
bool operator==(const PoolAllocator<T1, MAX_BLOCK_SIZE_BYTES, ALIGN_BYTES>& a,
                const PoolAllocator<T2, MAX_BLOCK_SIZE_BYTES, ALIGN_BYTES>& b) noexcept
{
    return a.resource() == b.resource();
}

#endif // BITCOIN_SUPPORT_ALLOCATORS_POOL_H
