// Environment stubs for "under stubs" harnesses of node classes (validation.cpp / node/blockstorage.cpp):
//  - logging sinks: whether a debug/trace category is enabled is nondeterministic (both branches of every LogDebug are explored,
//    so the evaluation of log arguments is covered); the sink itself drops the entry. Combine with
//    noop=[verif NOLOG patterns] in spec.py so that the formatting templates are emptied.
//  - std::__throw_system_error (reached from std::mutex::lock on a pthread error): cannot happen in the single-threaded model.
#pragma once
#include <verif.h>
#include <util/log.h>
namespace util::log {
bool ShouldDebugLog(Category) { return nondet_bool(); }
bool ShouldTraceLog(Category) { return nondet_bool(); }
void Log(Entry) {}
}
namespace std {
void __throw_system_error(int) { __CPROVER_assert(0, "std::system_error from a mutex operation"); __CPROVER_assume(0); __builtin_trap(); }
}
//  - pthread mutex primitives (reached from LOCK(cs_main) -> std::recursive_mutex): single-threaded model, always succeed.
#include <pthread.h>
extern "C" {
int pthread_mutex_lock(pthread_mutex_t*) noexcept { return 0; }
int pthread_mutex_unlock(pthread_mutex_t*) noexcept { return 0; }
int pthread_mutex_trylock(pthread_mutex_t*) noexcept { return 0; }
}
