// Elliptic-curve operations are outside SAT reach: harnesses over the script interpreter do not link pubkey.cpp/secp256k1 and
// use these nondeterministic stubs (each call returns an arbitrary verdict/value chosen by the solver).
#pragma once
#include <verif.h>
#include <pubkey.h>
bool CPubKey::Verify(const uint256&, const std::vector<unsigned char>&) const { return nondet_bool(); }
bool CPubKey::CheckLowS(const std::vector<unsigned char>&) { return nondet_bool(); }
bool XOnlyPubKey::VerifySchnorr(const uint256&, std::span<const unsigned char>) const { return nondet_bool(); }
uint256 XOnlyPubKey::ComputeTapTweakHash(const uint256*) const { uint256 r; for (int i = 0; i < 4; i++) { uint64_t v = nondet_u64(); __builtin_memcpy(r.data() + 8 * i, &v, 8); } return r; }
bool XOnlyPubKey::CheckTapTweak(const XOnlyPubKey&, const uint256&, bool) const { return nondet_bool(); }
