// C03: CheckTransaction accepts exactly the spec-valid transactions and names the first violated rule.
// Real code: consensus/tx_check.cpp, primitives/transaction.{h,cpp}, serialize.h, prevector.h, libstdc++ std::set.
#include <verif.h>
#include <verif_hash_nondet.h>
#include <consensus/tx_check.h>
#include <consensus/validation.h>
#include <consensus/amount.h>
#include <primitives/transaction.h>
#include <string.h>

#ifndef NIN
#define NIN 2
#endif
#ifndef NOUT
#define NOUT 2
#endif
#ifndef SSLEN   // scriptSig length of input 0
#define SSLEN 0
#endif
#ifndef WITLEN  // byte length of a single witness stack item on input 0 (0 = no witness); never counts towards the size rule
#define WITLEN 0
#endif
#ifndef PKLEN   // scriptPubKey length of every output
#define PKLEN 0
#endif

// read the reject reason in place (GetRejectReason() returns a copy whose heap size is symbolic after the path merge)
template <auto M> struct Rob { friend const std::string& reason_of(const ValidationState<TxValidationResult>& s) { return s.*M; } };
template struct Rob<&ValidationState<TxValidationResult>::m_reject_reason>;
const std::string& reason_of(const ValidationState<TxValidationResult>& s);

enum { R_NONE = 0, R_VIN_EMPTY, R_VOUT_EMPTY, R_OVERSIZE, R_NEG, R_TOOLARGE, R_TOTAL, R_DUP, R_CBLEN, R_NULL };
static const char* const REASON[] = {"", "bad-txns-vin-empty", "bad-txns-vout-empty", "bad-txns-oversize", "bad-txns-vout-negative",
                                     "bad-txns-vout-toolarge", "bad-txns-txouttotal-toolarge", "bad-txns-inputs-duplicate", "bad-cb-length", "bad-txns-prevout-null"};

static uint64_t cs_len(uint64_t n) { return n < 253 ? 1 : n <= 0xffff ? 3 : n <= 0xffffffffULL ? 5 : 9; }

// independent reference, written from the property text
static int spec(const uint8_t (*hsel)[1], const uint32_t* idx, const int64_t* val)
{
    const int64_t MAXM = 2100000000000000LL;
    if (NIN == 0) return R_VIN_EMPTY;
    if (NOUT == 0) return R_VOUT_EMPTY;
    uint64_t size = 4 + cs_len(NIN) + cs_len(NOUT) + 4;
    for (int i = 0; i < NIN; i++) { uint64_t l = (i == 0) ? SSLEN : 0; size += 36 + cs_len(l) + l + 4; }
    for (int i = 0; i < NOUT; i++) size += 8 + cs_len(PKLEN) + PKLEN;
    if (size * 4 > 4000000) return R_OVERSIZE;
    __int128 sum = 0;
    for (int i = 0; i < NOUT; i++) {
        if (val[i] < 0) return R_NEG;
        if (val[i] > MAXM) return R_TOOLARGE;
        sum += val[i];
        if (sum > MAXM) return R_TOTAL;
    }
    for (int i = 0; i < NIN; i++) for (int j = 0; j < i; j++) if (hsel[i][0] == hsel[j][0] && idx[i] == idx[j]) return R_DUP;
    const bool coinbase = NIN == 1 && hsel[0][0] == 0 && idx[0] == 0xffffffffu;
    if (coinbase) { if (SSLEN < 2 || SSLEN > 100) return R_CBLEN; }
    else for (int i = 0; i < NIN; i++) if (hsel[i][0] == 0 && idx[i] == 0xffffffffu) return R_NULL;
    return R_NONE;
}

extern "C" void h_checktx()
{
    uint8_t hsel[NIN + 1][1]; uint32_t idx[NIN + 1]; int64_t val[NOUT + 1];
    CMutableTransaction m;
    m.vin.resize(NIN); m.vout.resize(NOUT);
    m.version = nondet_u32(); m.nLockTime = nondet_u32();
    for (int i = 0; i < NIN; i++) {
        // prevout hash drawn from {null hash, 0x01.., 0x02..}: selector byte is the first byte of the hash
        hsel[i][0] = (uint8_t)nondet_range(0, 2);
        idx[i] = nondet_u32();
        uint256 u; u.data()[0] = hsel[i][0];
        m.vin[i].prevout.hash = Txid::FromUint256(u);
        m.vin[i].prevout.n = idx[i];
        m.vin[i].nSequence = nondet_u32();
    }
    if (NIN > 0 && SSLEN > 0) {
#if SSLEN > 1000
        m.vin[0].scriptSig.resize_uninitialized(SSLEN);   // content irrelevant to every rule; avoids a 1 MB fill loop
#else
        m.vin[0].scriptSig.resize(SSLEN);
        for (int k = 0; k < SSLEN && k < 4; k++) m.vin[0].scriptSig[k] = nondet_u8();
#endif
    }
#if WITLEN > 0 && NIN > 0
    m.vin[0].scriptWitness.stack.resize(1); m.vin[0].scriptWitness.stack[0].resize(WITLEN);
    for (int k = 0; k < WITLEN && k < 4; k++) m.vin[0].scriptWitness.stack[0][k] = nondet_u8();
#endif
    for (int i = 0; i < NOUT; i++) {
        val[i] = nondet_i64(); m.vout[i].nValue = val[i];
        if (PKLEN > 0) m.vout[i].scriptPubKey.resize(PKLEN);
    }
    const CTransaction tx(std::move(m));
    TxValidationState st;
    const bool ok = CheckTransaction(tx, st);
    const int want = spec(hsel, idx, val);
    verif_observe(ok); verif_observe(want);
    VASSERT(ok == (want == R_NONE), "CheckTransaction accepts iff every context-free rule holds");
    VASSERT(ok == st.IsValid(), "validation state agrees with return value");
    if (!ok) {
        const std::string& r = reason_of(st);
        VASSERT(st.GetResult() == TxValidationResult::TX_CONSENSUS, "context-free failures are consensus failures");
        bool match = false;
        for (int k = 1; k <= R_NULL; k++) if (want == k) match = r.size() == strlen(REASON[k]) && memcmp(r.data(), REASON[k], strlen(REASON[k])) == 0;
        VASSERT(match, "reject reason names the first violated rule in the documented order");
    }
#if NIN > 0 && NOUT > 0 && !defined(OVERSIZE)
    VWITNESS(ok, "some transaction of this shape is accepted");
#if NOUT > 1
    VWITNESS(!ok && want == R_TOTAL, "sum-overflow rejection reachable");
#endif
#if NIN > 1
    VWITNESS(!ok && want == R_DUP, "duplicate-input rejection reachable");
    VWITNESS(!ok && want == R_NULL, "null-prevout rejection reachable");
#endif
#if NIN == 1
    VWITNESS(want == R_CBLEN || (ok && tx.IsCoinBase()), "coinbase shape reachable");
#endif
#endif
#ifdef OVERSIZE
    VWITNESS(want == R_OVERSIZE, "oversize rejection reachable");
#endif
    VREACH("end");
}
