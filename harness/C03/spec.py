from vlib import H
PROPERTY = 'C03'
LEVEL = 'model_checking'
CLAIM = ('CheckTransaction (real tx_check.cpp + CTransaction + std::set<COutPoint> from libstdc++) accepts iff an independent reference '
         'predicate written from the property text accepts, and the reject reason equals the first violated rule, for every transaction of the '
         'enumerated shapes with all values (64-bit amounts, 32-bit prevout indexes, prevout-hash selector incl. null hash, version, locktime, sequences) symbolic.')
FN = ['CheckTransaction (consensus/tx_check.cpp)', 'MoneyRange', 'CTransaction::CTransaction(CMutableTransaction&&)', 'CTransaction::IsCoinBase', 'COutPoint::IsNull / operator<',
      'GetSerializeSize(TX_NO_WITNESS(tx)) (serialize.h, primitives/transaction.h)', 'std::set<COutPoint>::insert (libstdc++ headers + rt.c tree model)', 'ValidationState::Invalid/GetRejectReason']
ST = ['std::_Rb_tree<COutPoint>::_M_erase (node deallocation of the local std::set) replaced by a no-op; operator delete/free are no-ops', 'CSHA256 replaced by unconstrained-output model (txid/wtxid values are irrelevant to CheckTransaction)']
LINK = ['consensus/tx_check.cpp', 'primitives/transaction.cpp', 'script/script.cpp', 'uint256.cpp', 'hash.cpp']
ERASE = '_ZNSt8_Rb_treeI9COutPointS0_St9_IdentityIS0_ESt4lessIS0_ESaIS0_EE8_M_eraseEPSt13_Rb_tree_nodeIS0_E'
GETPOS = '_ZNSt8_Rb_treeI9COutPointS0_St9_IdentityIS0_ESt4lessIS0_ESaIS0_EE24_M_get_insert_unique_posERKS0_'
def shapes(nmax_in, nmax_out):
    v = []
    for i in range(0, nmax_in + 1):
        for o in range(0, nmax_out + 1):
            v.append({'NIN': i, 'NOUT': o})
    return v
cb = [{'NIN': 1, 'NOUT': 1, 'SSLEN': l} for l in (1, 2, 3, 100, 101)]
# non-witness size boundary: 4+1+(36+5+L+4)+1+(8+1)+4 = L+64 -> L = 999936 gives exactly 1,000,000 bytes (accepted), +1 rejected
wit = [{'NIN': 1, 'NOUT': 1, 'SSLEN': 999936, 'WITLEN': 1}, {'NIN': 2, 'NOUT': 2, 'WITLEN': 3}]   # witness bytes never count towards the 1,000,000-byte rule
big = [{'NIN': 1, 'NOUT': 1, 'SSLEN': 999936}, {'NIN': 1, 'NOUT': 1, 'SSLEN': 999937, 'OVERSIZE': 1}, {'NIN': 2, 'NOUT': 1, 'SSLEN': 999895}, {'NIN': 2, 'NOUT': 1, 'SSLEN': 999896, 'OVERSIZE': 1}]
HARNESSES = [
    H('checktx', 'checktx.cpp', 'h_checktx', link=LINK, variants=shapes(2, 2) + cb + big[:2] + wit, tvariants=shapes(3, 3) + cb + big + wit + [{'NIN': 4, 'NOUT': 1}, {'NIN': 1, 'NOUT': 4}],
      functions=FN, stubs=ST, unwind=12, memunwind=104, noop=[ERASE], unwindset=lambda v: '%s.0:%d' % (GETPOS, v.get('NIN', 2) + 2), timeout=600, objbits=10,
      bounds='shapes nin<=2,nout<=2 (thorough <=3, plus 4x1, 1x4), coinbase scriptSig lengths 1,2,3,100,101, size-boundary shapes (exactly 1,000,000 / 1,000,001 non-witness bytes, and 1,000,000 non-witness bytes plus a witness); all field values symbolic; prevout hashes from {null,h1,h2}',
      assumptions=['prevout hash drawn from a 3-value domain including the null hash (index fully symbolic)']),
]
