from vlib import H
import itertools
PROPERTY = 'C47'
LEVEL = 'model_checking'
CLAIM = ('The real PartiallySignedTransaction(const CMutableTransaction&, version) constructor, ComputeTimeLock() and GetUnsignedTx() (psbt.cpp, with the real PSBTInput/PSBTOutput objects and their libstdc++ containers) '
         'on PSBTs with <= 3 inputs: for every enumerated presence shape (PSBT version 0/2, fallback locktime present or not, per input: required time locktime / required height locktime / both / neither, sequence present or not) and all values '
         '(times >= 500000000, heights 1..499999999 as enforced by the decoder, fallback, sequences, prevouts, versions, amount) the computed lock time equals the BIP370 rule written down independently: fallback (0 if absent) when no input constrains it or for PSBTv0; '
         'maximum height when every constraining input allows a height (height preferred when both kinds are possible); otherwise maximum time when every constraining input allows a time; otherwise undetermined (nullopt). '
         'GetUnsignedTx() yields no transaction exactly in the undetermined case and otherwise a transaction with that nLockTime, the PSBT tx_version, the inputs\' prevouts and sequences (0xffffffff when absent) and the outputs. '
         'Not covered (kernel level only): PSBT (de)serialization round trips, Merge/Combine, AddInput/AddOutput, finalization and extraction.')
MN = {0: 'n', 1: 't', 2: 'h', 3: 'b'}   # per input: none / time only / height only / both
def lt(ver, fb, masks, sq=None):
    nin = len(masks); m = list(masks) + [0] * (3 - nin)
    if sq is None: sq = (1 << nin) - 1 if nin != 2 else 1      # 2-input shapes: second input without a sequence
    return ('v%d_f%d_%s_q%d' % (ver, fb, ''.join(MN[x] for x in masks) or 'noin', sq), ', '.join(str(x) for x in [ver, fb, nin] + m + [sq]))
LT_QUICK = [lt(2, 1, ()), lt(2, 0, ())]
for nin in (1, 2):
    for masks in itertools.product((0, 1, 2, 3), repeat=nin): LT_QUICK.append(lt(2, 1 if sum(masks) % 2 else 0, masks))
LT_QUICK += [lt(2, 1, (1, 2, 3)), lt(2, 0, (3, 3, 1)), lt(2, 1, (3, 2, 3)), lt(2, 1, (2, 0, 2)), lt(2, 1, (0, 0, 0), sq=5), lt(2, 0, (3, 0, 3)),
             lt(0, 1, (0, 0)), lt(0, 1, ())]
LT_THOROUGH = list(LT_QUICK) + [lt(2, 0, (0, 1, 1)), lt(2, 1, (1, 0, 2)), lt(0, 1, (0,)), lt(0, 0, (0, 0, 0))]
for masks in itertools.product((0, 1, 2, 3), repeat=3):          # every 3-input presence shape (order matters: early nullopt), fallback presence alternating
    e = lt(2, sum(masks) % 2, masks)
    if e[0] not in [x[0] for x in LT_THOROUGH]: LT_THOROUGH.append(e)
HARNESSES = [
    H('locktime', 'locktime.cpp', 'h_locktime', link=['psbt.cpp', 'primitives/transaction.cpp', 'script/script.cpp', 'uint256.cpp'], entries=LT_QUICK, tentries=LT_THOROUGH, shadow=['nofmt'], unwind=12, memunwind=72, timeout=600, objbits=11,
      functions=['PartiallySignedTransaction::PartiallySignedTransaction(const CMutableTransaction&, uint32_t)', 'PartiallySignedTransaction::ComputeTimeLock', 'PartiallySignedTransaction::GetUnsignedTx', 'PartiallySignedTransaction::GetVersion (psbt.cpp)',
                 'PSBTInput / PSBTOutput constructors and destructors (psbt.h)', 'CMutableTransaction, CTxIn, CTxOut (primitives/transaction.h)'],
      stubs=['memory_cleanse -> no-op', 'tinyformat -> empty strings', 'assertion_fail -> CBMC assertion', 'FastRandomContext/ChaCha20 stubs of ref/verif_stubs_common.h (unreached)'],
      assumptions=['required time locktimes are >= 500000000 and required height locktimes are in 1..499999999 (the PSBT decoder rejects anything else)', 'PSBTv0 inputs carry no required locktimes (rejected by the decoder)'],
      bounds='%d quick / %d thorough presence shapes: quick = every shape with <= 2 inputs for PSBTv2 plus selected 3-input and PSBTv0 shapes; thorough = all 4^n shapes for n <= 3 inputs (fallback presence alternating with the shape); all 32-bit values symbolic inside the decoder-enforced ranges' % (len(LT_QUICK), len(LT_THOROUGH))),
]
