// C47: BIP370 lock time determination. The REAL PartiallySignedTransaction constructor, ComputeTimeLock() and GetUnsignedTx() (src/psbt.cpp)
// on a PSBT with NIN <= 3 inputs. Concrete per entry (shape): PSBT version (0 / 2), presence of the fallback locktime, number of inputs and,
// per input, which of PSBT_IN_REQUIRED_TIME_LOCKTIME / PSBT_IN_REQUIRED_HEIGHT_LOCKTIME is present and whether a sequence is present.
// Symbolic: every value (fallback, required time locktimes >= 500000000, required height locktimes in 1..499999999 -- the ranges the
// decoder enforces --, sequences, prevouts, tx version, output amount).
// Reference, written from BIP370 "Determining Lock Time":
//   * no input has a required locktime (or PSBTv0)            -> the fallback locktime, 0 if absent
//   * otherwise consider the inputs that specify a locktime: if all of them have a height -> the maximum height (height is preferred when
//     both kinds are possible); else if all of them have a time -> the maximum time; else the lock time cannot be determined (nullopt,
//     and no unsigned transaction can be built).
// GetUnsignedTx(): nullopt iff the lock time is undetermined; otherwise nLockTime is the value above, version = tx_version, one input per
// PSBT input with its prevout and sequence (0xffffffff if absent), one output per PSBT output.
#include <verif.h>
#include <verif_stubs_common.h>
#include <psbt.h>
#include <primitives/transaction.h>
#include <optional>

void memory_cleanse(void*, size_t) {}   // support/cleanse.cpp (secure wiping in destructors of key containers): not the subject

static const uint32_t THRESHOLD = 500000000;   // BIP65/BIP370 boundary between heights and UNIX times

// shape-level part of the reference (depends only on which fields are present)
constexpr bool shape_determined(int ver, int nin, int m0, int m1, int m2)
{
    const int m[3] = {m0, m1, m2};
    bool any = false, all_height = true, all_time = true;
    for (int i = 0; i < 3; i++) if (i < nin && m[i] != 0) { any = true; if (!(m[i] & 2)) all_height = false; if (!(m[i] & 1)) all_time = false; }
    return !(ver >= 2 && any) || all_height || all_time;
}

template <int VER, int FB, int NIN, int M0, int M1, int M2, int SQ>
static void run()
{
    const int MASK[3] = {M0, M1, M2};
    CMutableTransaction mtx;
    mtx.version = nondet_u32();
    mtx.nLockTime = nondet_u32();
    uint32_t seq[3], pn[3]; uint8_t ph[3];
    mtx.vin.reserve(NIN);
    for (int i = 0; i < NIN; i++) {
        seq[i] = nondet_u32(); pn[i] = nondet_u32(); ph[i] = nondet_u8();
        uint256 h; h.data()[0] = ph[i]; h.data()[31] = (unsigned char)(i + 1);
        CTxIn in; in.prevout = COutPoint(Txid::FromUint256(h), pn[i]); in.nSequence = seq[i];
        mtx.vin.push_back(in);
    }
    const CAmount amt = (CAmount)nondet_u64();
    mtx.vout.reserve(1);
    { CTxOut out; out.nValue = amt; mtx.vout.push_back(out); }

    PartiallySignedTransaction psbt(mtx, VER);
    VASSERT(psbt.GetVersion() == (uint32_t)VER && psbt.inputs.size() == (size_t)NIN && psbt.outputs.size() == 1, "constructor: version, one PSBT input per transaction input, one output");
    VASSERT(psbt.fallback_locktime.has_value() && *psbt.fallback_locktime == mtx.nLockTime && psbt.tx_version == mtx.version, "constructor: the transaction's locktime becomes the fallback locktime");
    const uint32_t fallback = mtx.nLockTime;
    if (!FB) psbt.fallback_locktime.reset();

    uint32_t tl[3] = {0, 0, 0}, hl[3] = {0, 0, 0};
    for (int i = 0; i < NIN; i++) {
        if (MASK[i] & 1) { tl[i] = nondet_u32(); VASSUME(tl[i] >= THRESHOLD); psbt.inputs[i].time_locktime = tl[i]; }
        if (MASK[i] & 2) { hl[i] = nondet_u32(); VASSUME(hl[i] >= 1 && hl[i] < THRESHOLD); psbt.inputs[i].height_locktime = hl[i]; }
        if (!((SQ >> i) & 1)) psbt.inputs[i].sequence.reset();
    }

    // ---- reference (BIP370)
    bool any = false, all_height = true, all_time = true; uint32_t max_h = 0, max_t = 0;
    for (int i = 0; i < 3; i++) if (i < NIN && MASK[i] != 0) {
        any = true;
        if (MASK[i] & 2) { if (hl[i] > max_h) max_h = hl[i]; } else all_height = false;
        if (MASK[i] & 1) { if (tl[i] > max_t) max_t = tl[i]; } else all_time = false;
    }
    constexpr bool determined = shape_determined(VER, NIN, M0, M1, M2);
    uint32_t want = FB ? fallback : 0;
    if (VER >= 2 && any) {
        if (all_height) want = max_h;
        else if (all_time) want = max_t;
    }

    const std::optional<uint32_t> got = psbt.ComputeTimeLock();
    verif_observe(got.has_value()); verif_observe(got.value_or(0));
    VASSERT(got.has_value() == determined, "ComputeTimeLock: undetermined exactly when some input allows only a height and another only a time");
    if (got.has_value() && determined) VASSERT(*got == want, "ComputeTimeLock: maximum height if every constrained input allows a height, else maximum time, else the fallback (0 if absent)");

    const std::optional<CMutableTransaction> utx = psbt.GetUnsignedTx();
    VASSERT(utx.has_value() == determined, "GetUnsignedTx: no unsigned transaction iff the lock time is undetermined");
    if (utx.has_value() && determined) {
        bool ok = utx->nLockTime == want && utx->version == mtx.version && utx->vin.size() == (size_t)NIN && utx->vout.size() == 1;
        for (int i = 0; i < 3; i++) if (i < NIN && ok) {
            const CTxIn& in = utx->vin[i];
            if (in.prevout.n != pn[i] || in.prevout.hash.ToUint256().data()[0] != ph[i] || in.prevout.hash.ToUint256().data()[31] != (unsigned char)(i + 1)) ok = false;
            if (in.nSequence != (((SQ >> i) & 1) ? seq[i] : 0xffffffffu)) ok = false;
        }
        if (ok && utx->vout[0].nValue != amt) ok = false;
        VASSERT(ok, "GetUnsignedTx: nLockTime is the computed lock time; version, prevouts, sequences (0xffffffff if absent) and outputs are taken over");
    }
    if constexpr (determined) VWITNESS(got.has_value() && *got == want, "a lock time is computed");
    else VWITNESS(!got.has_value(), "undetermined");
    VREACH("end");
}
#define VERIF_ENTRY(name, ...) extern "C" void h_##name() { run<__VA_ARGS__>(); }
#include VERIF_ENTRIES_INC
