from vlib import H
PROPERTY = 'C18'
LEVEL = 'model_checking'
CLAIM = ('draft')
INT = ['cvc5int', 'cvc5int-di', 'cvc5int-bw', 'default']
HARNESSES = [
    H('amount', 'amount.cpp', 'h_amount', link=['compressor.cpp'], variants=[{'VEXP': e} for e in range(10)], backends=INT, witness_backends=['default'], unwind=12, timeout=300, diff_runs=12),
    H('amount_dec', 'amount.cpp', 'h_amount_dec', link=['compressor.cpp'], variants=[{'VEXP': e} for e in range(10)], backends=INT, witness_backends=['default'], unwind=12, timeout=300, diff_runs=12),
    H('amount_zero', 'amount.cpp', 'h_amount_zero', link=['compressor.cpp'], backends=INT, witness_backends=['default'], unwind=12, timeout=300, diff_runs=12),
    H('varint_write', 'amount.cpp', 'h_varint_write', variants=[{'VLEN': l, 'VBITS': 32} for l in range(1, 6)] + [{'VLEN': l, 'VBITS': 64} for l in (1, 2, 5, 9, 10)], backends=['default', 'kissat', 'z3'], unwind=14, timeout=300, diff_runs=12),
    H('varint_read', 'amount.cpp', 'h_varint_read', variants=[{'VLEN': l, 'VBITS': 32} for l in range(1, 6)] + [{'VLEN': l, 'VBITS': 64} for l in (1, 9, 10)], backends=['default', 'kissat', 'z3'], unwind=14, timeout=300, diff_runs=12),
]
