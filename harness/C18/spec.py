from vlib import H
PROPERTY = 'C18'
LEVEL = 'model_checking'
CLAIM = ('Real UTXO-encoding code executed symbolically against reference coders written from the format descriptions in compressor.h / serialize.h. '
         '(1) CompressAmount / DecompressAmount (compressor.cpp): for every amount in [0, 21e14] (amounts constructed as (10m+d)*10^e resp. m*10^9, e = 0..9 one query each, m and d symbolic: every amount has exactly one such form) '
         'CompressAmount equals the documented code and DecompressAmount inverts it; conversely every code whose decoding lies in the range re-encodes to itself. '
         '(2) VARINT (serialize.h WriteVarInt/ReadVarInt/GetSizeOfVarInt, real SpanWriter/SpanReader): all uint32 and uint64 values by encoded length: bytes match the documented MSB-base-128-minus-one formula, size function, round trip; '
         'any byte string of that length either is rejected as too large or re-encodes to exactly the bytes read (one-to-one). '
         '(3) CompressScript / DecompressScript / GetSpecialScriptSize: every script of length 0,1,22..26,34..36,66..68 with all bytes symbolic: special forms recognised exactly (P2PKH, P2SH, P2PK compressed, P2PK uncompressed when fully valid), '
         'compressed bytes equal the reference, decompression restores the identical script; every selector 0..3 with any payload decompresses to a script that compresses back to it. '
         '(4) Coin::Serialize/Unserialize and TxInUndoFormatter with TxOutCompression/ScriptCompression/AmountCompression: record layout equals the documented layout (reference decoder), deserialization returns the identical coin and consumes the record, '
         'for the listed (height, coinbase, amount-code) header tuples, symbolic amount and symbolic script bytes of the script kinds raw / P2PKH / P2SH / P2PK-compressed (whole records with an uncompressed key do not finish; that form is covered at the CompressScript/DecompressScript level). '
         'Conditional on stubs: secp256k1 point validity/decompression (uncompressed keys), amount codec cut out of (4). The MAX_SCRIPT_SIZE boundary of the read side (10000 bytes read back in full, 10001 replaced by OP_RETURN with the payload skipped) is decided by harness sizelimit on a counting stream. Not covered: LevelDB key encoding, symbolic VARINT lengths inside whole records.')
INT = ['cvc5int', 'cvc5int-di', 'cvc5int-bw']
WIT = ['cvc5int', 'kissat', 'default']
AUS = lambda v: '_Z14CompressAmountm.0:%d,_Z16DecompressAmountm.0:%d' % (v['VEXP'] + 2, v['VEXP'] + 2)
AM = [{'VEXP': e} for e in (0, 1, 2, 3, 5, 6, 7, 8, 9)] + [{'VEXP': 4, 'MLO': 0, 'MHI': '0xffffffULL'}, {'VEXP': 4, 'MLO': '0x1000000ULL'}]
AD_Q = [{'VEXP': 0, 'MLO': 0, 'MHI': '0xffffffffULL'}, {'VEXP': 0, 'MLO': '0x100000000ULL'}, {'VEXP': 8}, {'VEXP': 9}]
AD_T = AD_Q + [{'VEXP': e} for e in (1, 2, 3, 4, 5, 6, 7)]
ST_EC = ['CPubKey::IsFullyValid: unconstrained result (script harness) / true (record harness, KIND 4)', 'CPubKey::Decompress: returns the recorded key for the (x, parity) the harness compressed, fails otherwise (assumption: the curve has exactly one point with given x and parity)']
ST_AM = ['record harness only: CompressAmount returns an arbitrary fixed code for the coin amount, DecompressAmount maps that code back (the codec is decided by amount / amount_dec)']
LNK = ['compressor.cpp', 'script/script.cpp']


def rec(kind, sl, hv, cb, cv, undo=False):
    d = {'KIND': kind, 'SL': sl, 'HV': hv, 'CB': cb, 'CV': cv}
    if undo: d['UNDO'] = 1
    return d


R_Q = [rec(0, 3, 0, 0, 0), rec(1, 25, 840000, 1, '0x3fffffffffffffffULL'), rec(0, 3, 64, 0, 128, True), rec(2, 23, '0x7fffffff', 1, 127), rec(3, 35, 0, 1, 16511, True),
       rec(0, 25, 1, 0, 1)]
R_T = R_Q + [rec(0, 0, 0, 0, 0), rec(0, 67, 200000, 0, 300, True), rec(0, 200, 1, 1, 2113663), rec(1, 25, 0, 0, 0, True), rec(2, 23, 127, 0, '0x204081020407fULL', True), rec(0, 35, 64, 1, 0)]
HARNESSES = [
    H('amount', 'amount.cpp', 'h_amount', link=['compressor.cpp'], variants=AM, backends=INT, witness_backends=WIT, unwind=12, unwindset=AUS, timeout=400, diff_runs=12,
      functions=['CompressAmount', 'DecompressAmount (compressor.cpp)'], bounds='all amounts 0..2,100,000,000,000,000 (exponent e concrete per query, mantissa and last digit symbolic; e=4 split at mantissa 2^24)'),
    H('amount_dec', 'amount.cpp', 'h_amount_dec', link=['compressor.cpp'], variants=AD_Q, tvariants=AD_T, backends=INT, witness_backends=WIT, unwind=12, unwindset=AUS, timeout=400, diff_runs=12,
      bounds='all codes 1+10k+e whose decoding is <= 21e14; quick: e in {0,8,9}, thorough: e = 0..9'),
    H('amount_zero', 'amount.cpp', 'h_amount_zero', link=['compressor.cpp'], backends=INT + ['default'], witness_backends=WIT, unwind=12, timeout=300, diff_runs=12, bounds='amount 0 <-> code 0; no other amount <= 21e14 has code 0'),
    H('varint_write', 'amount.cpp', 'h_varint_write', variants=[{'VLEN': l, 'VBITS': 32} for l in (1, 2, 5)] + [{'VLEN': l, 'VBITS': 64} for l in (1, 9, 10)],
      tvariants=[{'VLEN': l, 'VBITS': 32} for l in range(1, 6)] + [{'VLEN': l, 'VBITS': 64} for l in range(1, 11)], backends=['default', 'kissat'], unwind=14, timeout=300, diff_runs=12,
      functions=['WriteVarInt', 'ReadVarInt', 'GetSizeOfVarInt', 'VarIntFormatter (serialize.h)', 'SpanWriter', 'SpanReader (streams.h)'], bounds='all values whose encoding has VLEN bytes; quick: uint32 lengths 1,2,5 and uint64 lengths 1,9,10; thorough: every length (i.e. all uint32 and all uint64 values)'),
    H('varint_read', 'amount.cpp', 'h_varint_read', variants=[{'VLEN': l, 'VBITS': 32} for l in (1, 5)] + [{'VLEN': l, 'VBITS': 64} for l in (9, 10)],
      tvariants=[{'VLEN': l, 'VBITS': 32} for l in range(1, 6)] + [{'VLEN': l, 'VBITS': 64} for l in range(1, 11)], backends=['default', 'kissat'], unwind=14, timeout=300, diff_runs=12,
      bounds='all well-formed byte strings of VLEN bytes (continuation bits set on all but the last)'),
    H('script_roundtrip', 'script.cpp', 'h_script_roundtrip', link=LNK, variants=[{'SL': l} for l in (0, 23, 24, 25, 35, 36, 67, 68)], tvariants=[{'SL': l} for l in (0, 1, 22, 23, 24, 25, 26, 34, 35, 36, 66, 67, 68)],
      backends=['default', 'kissat'], unwind=70, memunwind=72, timeout=300, diff_runs=12, stubs=ST_EC,
      functions=['CompressScript', 'DecompressScript', 'GetSpecialScriptSize', 'IsToKeyID/IsToScriptID/IsToPubKey (compressor.cpp)', 'CPubKey::Set', 'prevector/CScript'], bounds='script lengths listed, every byte symbolic'),
    H('script_decode', 'script.cpp', 'h_script_decode', link=LNK, variants=[{'SEL': k} for k in range(6)], backends=['default', 'kissat'], unwind=70, memunwind=72, timeout=300, diff_runs=12, stubs=ST_EC,
      bounds='selectors 0..5, every payload byte symbolic'),
    H('record', 'coin.cpp', 'h_record', link=LNK, variants=R_Q, tvariants=R_T, backends=['default', 'kissat'], unwind=12, memunwind=240, unwindset=','.join('h_record.%d:260' % i for i in range(24)), timeout=400, diff_runs=12,
      stubs=ST_EC + ST_AM, functions=['Coin::Serialize/Unserialize (coins.h)', 'TxInUndoFormatter (undo.h)', 'TxOutCompression', 'ScriptCompression', 'AmountCompression (compressor.h)', 'VARINT'],
      bounds='header tuples (kind, script length, height, coinbase, amount code, undo?) quick %s; amount symbolic 0..21e14; script bytes symbolic (first 8 and last 34)' % [tuple(v.values()) for v in R_Q]),
    H('sizelimit', 'sizelimit.cpp', 'h_sizelimit', link=LNK, variants=[{'L': l} for l in (9, 9999, 10000, 10001)], tvariants=[{'L': l} for l in (9, 100, 122, 123, 9999, 10000, 10001, 16505, 16506)], unwind=16600, memunwind=16600, timeout=600, objbits=10, diff_runs=8,
      functions=['ScriptCompression::Ser / Unser (compressor.h)', 'VARINT read/write (serialize.h)', 'CompressScript (no special form)', 'prevector::resize'],
      stubs=['stream = harness CountStream: header bytes (reads/writes of <= 8 bytes) exact, bulk payload only counted (first/last byte marked)', 'CPubKey::IsFullyValid/Decompress nondeterministic (unreached: first script byte is OP_1)'],
      bounds='script lengths 9, 9999, 10000 (= MAX_SCRIPT_SIZE), 10001 (thorough adds 100, 122/123 and 16505/16506: VARINT length boundaries); payload bytes are not materialised'),
]
