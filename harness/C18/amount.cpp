// C18: amount compression (real CompressAmount/DecompressAmount from compressor.cpp) and VARINT coding (serialize.h, real
// WriteVarInt/ReadVarInt through the real SpanWriter/SpanReader streams).
#include <verif.h>
#include <compressor.h>
#include <serialize.h>
#include <streams.h>
#include <consensus/amount.h>
#include <ios>

typedef unsigned __int128 u128;
#ifndef VEXP
#define VEXP 0
#endif
#ifndef VNMAX              // amounts 0..VNMAX
#define VNMAX 2100000000000000ULL
#endif
#ifndef MLO    // optional case split on the mantissa / code range (union of the variants = full range)
#define MLO 0ULL
#endif
#ifndef MHI
#define MHI (~0ULL)
#endif
static uint64_t umin(uint64_t a, uint64_t b) { return a < b ? a : b; }
static const uint64_t P10[10] = {1ULL, 10ULL, 100ULL, 1000ULL, 10000ULL, 100000ULL, 1000000ULL, 10000000ULL, 100000000ULL, 1000000000ULL};

// Reference encoder, from the format description in compressor.h: write the amount as  n = k * 10^e  with e the largest exponent <= 9;
//   e < 9: k = 10*m + d with last digit d in 1..9 :  code = 1 + 10*(9*m + d - 1) + e
//   e = 9: k = m >= 1                               :  code = 1 + 10*(m - 1) + 9        amount 0 : code 0
// Every amount > 0 has exactly one such representation, so amounts are *constructed* from (m, d, e) (e concrete per variant): no division in the oracle.
extern "C" void h_amount()
{
    const uint64_t m = nondet_range(MLO, umin(MHI, VNMAX / P10[VEXP]));
#if VEXP < 9
    const uint64_t d = nondet_range(1, 9);
    const uint64_t wide = (m * 10 + d) * P10[VEXP];   // m <= VNMAX/10^e: no wrap (VNMAX < 2^60)
    const uint64_t code = 1 + 10 * (9 * m + d - 1) + VEXP;
#else
    VASSUME(m >= 1);
    const uint64_t wide = m * P10[9];
    const uint64_t code = 1 + 10 * (m - 1) + 9;
#endif
    VASSUME(wide <= VNMAX);
    const uint64_t n = wide;
    const uint64_t x = CompressAmount(n);
    verif_observe(x);
    VASSERT(x == code, "CompressAmount equals the reference encoding");
    const uint64_t back = DecompressAmount(x);
    verif_observe(back);
    VASSERT(back == n, "DecompressAmount inverts CompressAmount");
    VASSERT(x <= n * 9 + 1, "compressed value is not larger than 9*amount+1 (no wrap)");
    VWITNESS(m > 1000, "large mantissa");
    VREACH("end");
}

// decoding direction: every code whose decoded amount is in range re-encodes to itself (the encoding is canonical); code = 1 + 10*k + VEXP
extern "C" void h_amount_dec()
{
    const uint64_t k = nondet_range(MLO, umin(MHI, (VNMAX / P10[VEXP] + 1) * 9));
    const uint64_t y = 1 + 10 * k + VEXP;
    const uint64_t n = DecompressAmount(y);
    VASSUME(n <= VNMAX);
    verif_observe(n);
    VASSERT(n > 0, "non-zero code decodes to a non-zero amount");
    VASSERT(CompressAmount(n) == y, "CompressAmount inverts DecompressAmount");
    VWITNESS(k > 100000, "large code");
    VREACH("end");
}

extern "C" void h_amount_zero()
{
    VASSERT(CompressAmount(0) == 0 && DecompressAmount(0) == 0, "zero is coded as zero");
    const uint64_t n = nondet_range(1, VNMAX);
    VASSERT(CompressAmount(n) != 0, "only zero is coded as zero");   // (follows from the formula, asserted directly on the real function)
    VREACH("end");
}

// ---------------------------------------------------------------------------------------------------------------- VARINT
// serialize.h: MSB base-128, high bit = "another digit follows", one is subtracted from all but the last digit:
//   value(a[0..len-1]) = (a[len-1] & 0x7F) + sum_{i=1..len-1} ((a[len-i-1] & 0x7F) + 1) * 128^i
#ifndef VLEN
#define VLEN 1
#endif
#ifndef VBITS
#define VBITS 64
#endif
#if VBITS == 64
typedef uint64_t VT;
#else
typedef uint32_t VT;
#endif
static u128 ref_value(const unsigned char* a, int len)
{
    u128 v = a[len - 1] & 0x7F, w = 128;
    for (int i = 1; i < len; i++) { v += (u128)((a[len - i - 1] & 0x7F) + 1) * w; w *= 128; }
    return v;
}
// smallest value with an encoding of VLEN bytes: sum_{i=1..VLEN-1} 128^i
static u128 first_of_len(int len) { u128 s = 0, w = 128; for (int i = 1; i < len; i++) { s += w; w *= 128; } return s; }

// write: every value whose encoding has VLEN bytes
extern "C" void h_varint_write()
{
    const u128 lo = first_of_len(VLEN), hi = first_of_len(VLEN + 1) - 1, tmax = (u128)(VT)~(VT)0;
    const VT n = (VT)nondet_range((uint64_t)lo, (uint64_t)(hi < tmax ? hi : tmax));
    unsigned char buf[12] = {0};
    SpanWriter w{std::as_writable_bytes(std::span<unsigned char>(buf, 12))};   // real stream (streams.h)
    w << VARINT(n);
    // number of bytes written: the first VLEN bytes follow the format, byte VLEN untouched
    for (int i = 0; i + 1 < VLEN; i++) VASSERT(buf[i] & 0x80, "all but the last byte have the continuation bit");
    VASSERT(!(buf[VLEN - 1] & 0x80), "last byte has no continuation bit");
    VASSERT(ref_value(buf, VLEN) == (u128)n, "written bytes encode the value per the documented formula");
    VASSERT((GetSizeOfVarInt<VarIntMode::DEFAULT, VT>(n)) == VLEN, "GetSizeOfVarInt equals the number of bytes written");
    SpanReader r{std::span<const unsigned char>(buf, VLEN)};
    VT back = 0;
    r >> VARINT(back);
    verif_observe(back);
    VASSERT(back == n && r.empty(), "ReadVarInt returns the value and consumes exactly the written bytes");
    VWITNESS(n == (VT)(hi < tmax ? hi : tmax), "largest value of this length");
    VWITNESS(n == (VT)lo, "smallest value of this length");
    VREACH("end");
}

// read: any VLEN bytes: either "size too large" or a value whose canonical encoding is exactly the consumed bytes (one-to-one)
extern "C" void h_varint_read()
{
    unsigned char in[12];
    for (int i = 0; i < VLEN; i++) in[i] = nondet_u8();
    for (int i = 0; i + 1 < VLEN; i++) VASSUME(in[i] & 0x80);
    VASSUME(!(in[VLEN - 1] & 0x80));
    const u128 val = ref_value(in, VLEN);
    SpanReader r{std::span<const unsigned char>(in, VLEN)};
    VT got = 0; bool threw = false;
    try { r >> VARINT(got); } catch (const std::ios_base::failure&) { threw = true; }
    verif_observe(threw); verif_observe(got);
    VASSERT(threw == (val > (u128)(VT)~(VT)0), "ReadVarInt fails exactly when the encoded value does not fit the type");
    if (!threw) {
        VASSERT((u128)got == val && r.empty(), "ReadVarInt decodes the documented value and consumes all bytes");
        unsigned char out[12] = {0};
        SpanWriter w{std::as_writable_bytes(std::span<unsigned char>(out, 12))};
        w << VARINT(got);
        bool same = true;
        for (int i = 0; i < VLEN; i++) same = same && out[i] == in[i];
        VASSERT(same, "re-encoding reproduces the bytes read (the code is one-to-one)");
    }
#if VLEN * 7 > VBITS
    VWITNESS(threw, "oversized value rejected");
#endif
    VWITNESS(!threw, "value accepted");
    VREACH("end");
}
