// C18: script compression (real CompressScript / DecompressScript / GetSpecialScriptSize from compressor.cpp, real CScript/prevector/CPubKey::Set).
// Elliptic-curve work is out of reach: CPubKey::IsFullyValid is an unconstrained predicate, CPubKey::Decompress is the inverse of "drop y, keep its parity"
// for the one key the harness compressed (see stubs). Everything else is the real code; all script bytes symbolic, length concrete per variant.
#include <verif.h>
#include <compressor.h>
#include <pubkey.h>
#include <script/script.h>
#include <string.h>

#ifndef SL
#define SL 25
#endif
static unsigned char g_key[65]; static bool g_have_key; static uint8_t g_valid;
bool CPubKey::IsFullyValid() const { return g_valid != 0; }
bool CPubKey::Decompress()
{
    // (x, parity) -> (x, y): defined here only for the x / parity of the recorded fully valid key (the curve equation has exactly one such y)
    bool match = g_have_key && g_valid && vch[0] == (2 | (g_key[64] & 1));
    for (int i = 1; i <= 32; i++) match = match && vch[i] == g_key[i];
    if (!match) return false;
    Set(g_key, g_key + 65);
    return true;
}

// reference encoder, from the format description in compressor.h: returns the compressed length (21 / 33) or 0 if the script has no special form
static int ref_compress(const unsigned char* s, int len, bool valid, unsigned char* out)
{
    if (len == 25 && s[0] == 0x76 && s[1] == 0xa9 && s[2] == 20 && s[23] == 0x88 && s[24] == 0xac) { out[0] = 0; memcpy(out + 1, s + 3, 20); return 21; }      // DUP HASH160 <20> EQUALVERIFY CHECKSIG
    if (len == 23 && s[0] == 0xa9 && s[1] == 20 && s[22] == 0x87) { out[0] = 1; memcpy(out + 1, s + 2, 20); return 21; }                                        // HASH160 <20> EQUAL
    if (len == 35 && s[0] == 33 && (s[1] == 2 || s[1] == 3) && s[34] == 0xac) { memcpy(out, s + 1, 33); return 33; }                                            // <33-byte compressed key> CHECKSIG
    if (len == 67 && s[0] == 65 && s[1] == 4 && s[66] == 0xac && valid) { out[0] = 4 | (s[65] & 1); memcpy(out + 1, s + 2, 32); return 33; }                    // <65-byte uncompressed valid key> CHECKSIG
    return 0;
}

extern "C" void h_script_roundtrip()
{
    unsigned char raw[SL + 1];
    CScript script;
    script.resize(SL);
    for (int i = 0; i < SL; i++) { raw[i] = nondet_u8(); script[i] = raw[i]; }
    g_valid = nondet_bool(); g_have_key = false;
#if SL == 67
    memcpy(g_key, raw + 1, 65); g_have_key = true;
#endif
    CompressedScript out;
    const bool c = CompressScript(script, out);
    unsigned char want[33];
    const int wl = ref_compress(raw, SL, g_valid != 0, want);
    verif_observe(c);
    VASSERT(c == (wl != 0), "CompressScript recognises exactly the four special forms (uncompressed keys only when fully valid)");
#if SL == 23 || SL == 25 || SL == 35 || SL == 67
    if (c) {
        VASSERT((int)out.size() == wl, "compressed length is 21 (hash forms) or 33 (key forms)");
        bool same = true;
        for (int i = 0; i < 33; i++) if (i < wl) same = same && out[i] == want[i];
        VASSERT(same, "compressed bytes equal the reference encoding");
        VASSERT(out[0] < 6 && GetSpecialScriptSize(out[0]) + 1 == out.size(), "first byte is the special-script selector and determines the payload size");
        CompressedScript payload(out.begin() + 1, out.end());
        CScript back;
        const bool d = DecompressScript(back, out[0], payload);
        VASSERT(d, "a compressed script decompresses");
        bool eq = back.size() == SL;
        for (int i = 0; i < SL; i++) if (i < (int)back.size()) eq = eq && back[i] == raw[i];
        VASSERT(eq, "DecompressScript(CompressScript(s)) == s");
    }
    VWITNESS(c, "special form recognised");
    VWITNESS(!c, "same length without special form");
#if SL == 67
    VWITNESS(!c && raw[0] == 65 && raw[1] == 4 && raw[66] == 0xac, "invalid uncompressed key is not compressed");
    VWITNESS(c && out[0] == 5, "odd y");
#endif
#else
    VASSERT(!c, "other lengths are never special");
#endif
    VREACH("end");
}

// decoding direction: any selector 0..3 with any payload decompresses to a script that compresses back to the same bytes (canonical);
// selector 4/5 fails unless the point decompresses
#ifndef SEL
#define SEL 0
#endif
extern "C" void h_script_decode()
{
    const unsigned int plen = (SEL < 2) ? 20 : 32;
    VASSERT(GetSpecialScriptSize(SEL) == plen, "payload size of the selector");
    CompressedScript payload;
    payload.resize(plen);
    unsigned char p[32];
    for (unsigned i = 0; i < plen; i++) { p[i] = nondet_u8(); payload[i] = p[i]; }
    g_have_key = false; g_valid = 0;
    CScript s;
    const bool d = DecompressScript(s, SEL, payload);
#if SEL < 4
    VASSERT(d, "selectors 0..3 always decompress");
    const unsigned want_len = SEL == 0 ? 25 : SEL == 1 ? 23 : 35;
    VASSERT(s.size() == want_len, "length of the decompressed script");
    CompressedScript again;
    VASSERT(CompressScript(s, again), "the decompressed script is a special form");
    bool same = again.size() == plen + 1 && again[0] == SEL;
    for (unsigned i = 0; i < plen; i++) same = same && again[i + 1] == p[i];
    VASSERT(same, "CompressScript(DecompressScript(x)) == x");
#else
    VASSERT(!d && s.size() == 0, "an x coordinate that does not decompress yields failure and leaves the script empty");
#endif
    VREACH("end");
}
