// C18: the read-side size decision of ScriptCompression::Unser (compressor.h) at the MAX_SCRIPT_SIZE boundary, and Ser/Unser agreement on the
// length prefix. Real code: ScriptCompression::Ser / Unser (templates on the stream type), VARINT reader/writer (serialize.h), prevector resize.
// The stream is a harness type: it serves/records the few header bytes exactly and only COUNTS bulk payload bytes (a 10 000-byte payload need
// not be materialised to decide which branch is taken and how many bytes are consumed). L (script length) is concrete per variant.
#include <verif.h>
#include <compressor.h>
#include <pubkey.h>
#include <script/script.h>
#include <serialize.h>
#include <string.h>
#ifndef L
#define L 10000
#endif
bool CPubKey::IsFullyValid() const { return nondet_bool(); }
bool CPubKey::Decompress() { return nondet_bool(); }

struct CountStream {
    uint8_t hdr[16]; unsigned hdr_len = 0, hdr_pos = 0;      // small writes/reads (<= 8 bytes): exact bytes
    size_t bulk_written = 0, bulk_read = 0, ignored = 0; unsigned bulk_writes = 0, bulk_reads = 0, ignores = 0;
    uint8_t fill = 0;
    void write(std::span<const std::byte> src)
    {
        if (src.size() <= 8) { for (size_t i = 0; i < src.size(); i++) { __CPROVER_assert(hdr_len < 16, "header capacity"); hdr[hdr_len++] = (uint8_t)src[i]; } }
        else { bulk_written += src.size(); bulk_writes++; }
    }
    void read(std::span<std::byte> dst)
    {
        if (dst.size() <= 8) { for (size_t i = 0; i < dst.size(); i++) { __CPROVER_assert(hdr_pos < hdr_len, "read past the header"); dst[i] = (std::byte)hdr[hdr_pos++]; } }
        else { bulk_read += dst.size(); bulk_reads++; dst[0] = (std::byte)fill; dst[dst.size() - 1] = (std::byte)fill; }
    }
    void ignore(size_t n) { ignored += n; ignores++; }
    template <typename T> CountStream& operator<<(const T& obj) { ::Serialize(*this, obj); return *this; }
    template <typename T> CountStream& operator>>(T&& obj) { ::Unserialize(*this, obj); return *this; }
};

extern "C" void h_sizelimit()
{
    // a non-special script of L bytes (first byte OP_1: none of the special templates), written by the real Ser
    CScript script; script.resize(L);
    if (L > 0) script[0] = 0x51;
    CountStream s; s.fill = nondet_u8();
    ScriptCompression{}.Ser(s, script);
    // reference: VARINT(L + 6) (MSB base-128 with the "minus one" rule), then L payload bytes
    uint8_t want[8]; int wn = 0; { uint64_t n = (uint64_t)L + 6; uint8_t tmp[10]; int len = 0; for (;;) { tmp[len] = (uint8_t)((n & 0x7f) | (len ? 0x80 : 0)); if (n <= 0x7f) break; n = (n >> 7) - 1; len++; } do { want[wn++] = tmp[len]; } while (len--); }
    bool hdr_ok = s.hdr_len == (unsigned)wn; for (int i = 0; i < wn; i++) hdr_ok = hdr_ok && s.hdr[i] == want[i];
    VASSERT(hdr_ok, "Ser writes VARINT(length + 6) for a script without special form");
    VASSERT(L <= 8 || (s.bulk_written == (size_t)L && s.bulk_writes == 1), "Ser writes the whole script after the prefix");
    // read it back with the real Unser
    CScript back;
    ScriptCompression{}.Unser(s, back);
    VASSERT(s.hdr_pos == (unsigned)wn || L <= 8, "Unser consumes exactly the length prefix");
    if (L <= 10000) {
        // "any spendable script is stored and loaded back unchanged": MAX_SCRIPT_SIZE (10 000) itself is still a spendable size
        VASSERT(back.size() == (size_t)L, "a script of at most MAX_SCRIPT_SIZE bytes is read back with its full length");
        VASSERT(s.ignores == 0 && (L <= 8 || (s.bulk_read == (size_t)L && s.bulk_reads == 1)), "its payload is read, not skipped");
        if (L > 8) VASSERT(back[0] == s.fill && back[L - 1] == s.fill, "the payload lands in the script");
    } else {
        // documented: overly long scripts (unspendable anyway) are replaced by OP_RETURN and their payload is skipped
        VASSERT(back.size() == 1 && back[0] == 0x6a, "a script longer than MAX_SCRIPT_SIZE is replaced by OP_RETURN");
        VASSERT(s.ignores == 1 && s.ignored == (size_t)L && s.bulk_reads == 0, "its payload is skipped completely");
    }
    verif_observe((uint64_t)back.size()); verif_observe((uint64_t)s.ignored);
    VREACH("end");
}
