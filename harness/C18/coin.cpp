// C18: on-disk record formats of the UTXO set: Coin::Serialize/Unserialize (coins.h), TxInUndoFormatter (undo.h), TxOutCompression / ScriptCompression /
// AmountCompression formatters (compressor.h), VARINT (serialize.h), through the real SpanWriter/SpanReader streams.
// The amount codec is cut out here (recorder stubs: CompressAmount returns an arbitrary code c for the amount, DecompressAmount(c) returns that amount);
// the codec itself is decided by harnesses amount / amount_dec. Uncompressed-key validity: see script.cpp.
// Oracle: a reference *decoder* of the documented record layout applied to the bytes the real serializer produced.
#include <verif.h>
#include <coins.h>
#include <undo.h>
#include <compressor.h>
#include <pubkey.h>
#include <streams.h>
#include <script/script.h>
#include <string.h>
#include <ios>

#ifndef KIND    // 0 raw script of length SL, 1 P2PKH, 2 P2SH, 3 P2PK compressed key, 4 P2PK uncompressed (valid) key
#define KIND 0
#endif
#ifndef SL
#define SL 3
#endif
#ifndef HV
#define HV 0
#endif
#ifndef CB
#define CB 0
#endif
#ifndef CV
#define CV 0
#endif
#define BUFSZ (SL + 40)
typedef unsigned __int128 u128;

static uint64_t g_amt, g_code; static int g_ncomp, g_ndecomp;
uint64_t CompressAmount(uint64_t n) { g_ncomp += (n == g_amt); return g_code; }
uint64_t DecompressAmount(uint64_t x) { g_ndecomp++; return x == g_code ? g_amt : nondet_u64(); }
static unsigned char g_key[65];
bool CPubKey::IsFullyValid() const { return true; }     // KIND 4 only: the key is assumed fully valid (validity itself: script.cpp, unconstrained)
bool CPubKey::Decompress()
{
    bool match = vch[0] == (2 | (g_key[64] & 1));
    for (int i = 1; i <= 32; i++) match = match && vch[i] == g_key[i];
    if (!match) return false;
    Set(g_key, g_key + 65);
    return true;
}
template <auto M> struct Rob { friend std::span<std::byte>& dest_of(SpanWriter& w) { return w.*M; } };
template struct Rob<&SpanWriter::m_dest>;
std::span<std::byte>& dest_of(SpanWriter& w);

// reference VARINT decoder (serialize.h format description); returns number of bytes, 0 on malformed/too long
static int ref_varint(const unsigned char* a, int avail, u128& v)
{
    int len = 0;
    for (int i = 0; i < 10; i++) if (len == 0 && i < avail && !(a[i] & 0x80)) len = i + 1;
    if (len == 0) return 0;
    v = a[len - 1] & 0x7F; u128 w = 128;
    for (int i = 1; i < 10; i++) if (i < len) { v += (u128)((a[len - i - 1] & 0x7F) + 1) * w; w *= 128; }
    return len;
}

extern "C" void h_record()
{
    // ---- the coin
    // header values are concrete per variant (HV, CB, CV): symbolic VARINT lengths make every later stream position symbolic, which symex cannot afford;
    // VARINT itself is decided for all values by varint_write / varint_read. Symbolic here: the amount and every script byte.
    const uint32_t height = HV;
    const bool coinbase = CB;
    g_amt = nondet_range(0, 2100000000000000ULL); g_code = CV; g_ncomp = g_ndecomp = 0;
    unsigned char raw[SL + 1];
    for (int i = 0; i < SL; i++) raw[i] = (i < 8 || i >= SL - 34) ? nondet_u8() : 0;
#if KIND == 0
#if SL == 23 || SL == 25 || SL == 35 || SL == 67
    raw[0] = 0x51;     // special length without the special pattern (concrete first byte: the pattern test must not fork the stream length)
#endif
#elif KIND == 1
    raw[0] = 0x76; raw[1] = 0xa9; raw[2] = 20; raw[23] = 0x88; raw[24] = 0xac;
#elif KIND == 2
    raw[0] = 0xa9; raw[1] = 20; raw[22] = 0x87;
#elif KIND == 3
    raw[0] = 33; raw[1] = 2 | (CB & 1); raw[34] = 0xac;   // key header concrete (2 or 3, tied to the CB macro) for the same reason
#elif KIND == 4
    raw[0] = 65; raw[1] = 4; raw[66] = 0xac; memcpy(g_key, raw + 1, 65);
#endif
    Coin coin;
    coin.out.nValue = (CAmount)g_amt;
    coin.out.scriptPubKey.resize(SL);
    for (int i = 0; i < SL; i++) coin.out.scriptPubKey[i] = raw[i];
    coin.nHeight = height; coin.fCoinBase = coinbase;
    // ---- write with the real serializer
    unsigned char buf[BUFSZ];
    memset(buf, 0xEE, BUFSZ);
    SpanWriter w{std::as_writable_bytes(std::span<unsigned char>(buf, BUFSZ))};
#ifdef UNDO
    w << Using<TxInUndoFormatter>(coin);
#else
    w << coin;
#endif
    const int written = BUFSZ - (int)dest_of(w).size();
    verif_observe(written);
    // ---- reference decoder of the documented layout
    int pos = 0; u128 v = 0;
    int l = ref_varint(buf + pos, written - pos, v);
    VASSERT(l > 0 && v == (u128)height * 2 + (coinbase ? 1 : 0), "first field: VARINT(height*2 + coinbase)");
    pos += l;
#ifdef UNDO
    if (height > 0) { VASSERT(pos < written && buf[pos] == 0, "undo records of height > 0 carry the legacy version byte 0"); pos += 1; }
#endif
    l = ref_varint(buf + pos, written - pos, v);
    VASSERT(l > 0 && v == (u128)g_code && g_ncomp == 1, "second field: VARINT(CompressAmount(value))");
    pos += l;
#if KIND == 0
    l = ref_varint(buf + pos, written - pos, v);
    VASSERT(l > 0 && v == (u128)SL + 6, "raw script: VARINT(length + 6)");
    pos += l;
    bool same = pos + SL == written;
    for (int i = 0; i < SL; i++) if (pos + i < BUFSZ) same = same && buf[pos + i] == raw[i];
    VASSERT(same, "raw script bytes follow, nothing else");
#elif KIND == 1 || KIND == 2
    bool same = pos + 21 == written && buf[pos] == KIND - 1;
    for (int i = 0; i < 20; i++) same = same && buf[pos + 1 + i] == raw[(KIND == 1 ? 3 : 2) + i];
    VASSERT(same, "hash forms: selector 0/1 followed by the 20-byte hash");
#elif KIND == 3
    bool same = pos + 33 == written;
    for (int i = 0; i < 33; i++) same = same && buf[pos + i] == raw[1 + i];
    VASSERT(same, "compressed key: the 33 key bytes (selector 2/3 is the key header)");
#else
    bool same = pos + 33 == written && buf[pos] == (4 | (raw[65] & 1));
    for (int i = 0; i < 32; i++) same = same && buf[pos + 1 + i] == raw[2 + i];
    VASSERT(same, "uncompressed key: selector 4/5 (parity of y) followed by x");
#endif
    // ---- read back with the real deserializer
    SpanReader r{std::span<const unsigned char>(buf, written)};
    Coin back;
    bool threw = false;
    try {
#ifdef UNDO
        r >> Using<TxInUndoFormatter>(back);
#else
        r >> back;
#endif
    } catch (const std::ios_base::failure&) { threw = true; }
    VASSERT(!threw && r.empty(), "the record deserializes and is consumed completely");
    bool eq = back.nHeight == height && back.fCoinBase == coinbase && back.out.nValue == (CAmount)g_amt && back.out.scriptPubKey.size() == SL;
    for (int i = 0; i < SL; i++) if (i < (int)back.out.scriptPubKey.size()) eq = eq && back.out.scriptPubKey[i] == raw[i];
    VASSERT(eq, "deserialized coin equals the stored coin (height, coinbase flag, amount, script)");
    VWITNESS(back.out.nValue == 2100000000000000LL, "largest amount");
    VREACH("end");
}
