// C51 (3): Golomb-Rice coding (util/golombrice.h) through the real BitStreamWriter/BitStreamReader (streams.h):
// the encoded bit string equals the reference "q ones, a zero, P-bit remainder" and decoding returns the encoded value.
// The quotient q (unary part) and the bit offset O at which the code word starts inside a byte are enumerated exhaustively (q in GQ0..GQ,
// O in 0..7) as template constants: one instantiation of the real (header-only, here force-inlined) encoder/decoder per (O,q), so that the
// compiler's known-bits folding makes every loop bound concrete for the symbolic execution. The P-bit remainder and the O preceding bits are symbolic.
#include <verif.h>
#include <serialize.h>
#include <streams.h>
#include <util/golombrice.h>
#include <utility>
#include "c51_stream.h"

#ifndef GP       // Rice parameter (BIP158 basic filter: 19)
#define GP 19
#endif
#ifndef GQ       // quotients GQ0..GQ are enumerated
#define GQ 6
#endif
#ifndef GQ0
#define GQ0 0
#endif
#ifndef GOSTEP   // start bit offsets 0, GOSTEP, 2*GOSTEP, ... < 8 are enumerated
#define GOSTEP 1
#endif
#define CAPB ((8 + GQ + 1 + GP + 7) / 8 + 2)

static bool ref_bit(const uint8_t* buf, size_t i) { return (buf[i >> 3] >> (7 - (i & 7))) & 1; }   // bits are packed most significant first

static bool g_bits_ok = true, g_len_ok = true, g_pad_ok = true, g_dec_ok = true, g_cons_ok = true;
static uint64_t g_rem, g_prefix;

// decode with the real reader (not force-inlined: its loops keep their own identifiers so that they can be given tight unwinding bounds,
// which the unwinding assertions then prove sufficient)
__attribute__((noinline)) static void decode_check(BufStream<CAPB>& s, int o, uint64_t pre, uint64_t x)
{
    BitStreamReader<BufStream<CAPB>> r(s);
    uint64_t got_pre = 0, got_x = 0; bool threw = false;
    try {
        got_pre = r.Read(o);                              // (calls first, then combine: no short-circuit around the side effects)
        got_x = GolombRiceDecode(r, GP);
    } catch (const std::ios_base::failure&) { threw = true; }   // running off the end of the encoded bytes is a decoding failure, not a harness abort
    g_dec_ok = g_dec_ok && !threw && got_pre == pre && got_x == x;
    g_cons_ok = g_cons_ok && s.rpos == s.wpos;
}

template <int O, uint64_t Q>
__attribute__((flatten, noinline)) static void pass()
{
    const uint64_t x = (Q << GP) | (g_rem & ((1ULL << GP) - 1));
    const uint64_t pre = g_prefix & ((1ULL << O) - 1);
    BufStream<CAPB> s;
    try {
        BitStreamWriter<BufStream<CAPB>> w(s);
        w.Write(pre, O);
        GolombRiceEncode(w, GP, x);
        w.Flush();
    } catch (const std::ios_base::failure&) { g_len_ok = false; }   // more bytes written than the reference length + slack
    // reference encoding, written from BIP158: quotient q = x >> P in unary (q ones then a zero), then the low P bits of x, most significant bit first
    size_t pos = 0;
    for (int b = O - 1; b >= 0; b--) { g_bits_ok = g_bits_ok && ref_bit(s.buf, pos) == (((pre >> b) & 1) != 0); pos++; }
    for (uint64_t j = 0; j < Q; j++) { g_bits_ok = g_bits_ok && ref_bit(s.buf, pos); pos++; }
    g_bits_ok = g_bits_ok && !ref_bit(s.buf, pos); pos++;
    for (int b = GP - 1; b >= 0; b--) { g_bits_ok = g_bits_ok && ref_bit(s.buf, pos) == (((x >> b) & 1) != 0); pos++; }
    g_len_ok = g_len_ok && s.wpos == (pos + 7) / 8;
    for (size_t j = pos; j < s.wpos * 8; j++) g_pad_ok = g_pad_ok && !ref_bit(s.buf, j);
    verif_observe(s.wpos); for (size_t j = 0; j < s.wpos; j++) verif_observe(s.buf[j]);
    decode_check(s, O, pre, x);
}
template <int O, uint64_t... Qs> static void passes_q(std::integer_sequence<uint64_t, Qs...>) { (pass<O, GQ0 + Qs>(), ...); }
template <int... Os> static void passes_o(std::integer_sequence<int, Os...>) { (passes_q<Os * GOSTEP>(std::make_integer_sequence<uint64_t, GQ - GQ0 + 1>{}), ...); }

extern "C" void h_golomb()
{
    g_rem = nondet_u64(); g_prefix = nondet_u64();
    passes_o(std::make_integer_sequence<int, (7 / GOSTEP) + 1>{});
    VASSERT(g_len_ok, "encoded length is the bit count rounded up to whole bytes");
    VASSERT(g_bits_ok, "encoded bits are q ones, one zero, then the P-bit remainder, at every bit offset");
    VASSERT(g_pad_ok, "padding bits are zero");
    VASSERT(g_dec_ok, "decode(encode(x)) == x");
    VASSERT(g_cons_ok, "decoding consumes exactly the encoded bytes");
    VWITNESS((g_rem & ((1ULL << GP) - 1)) == ((1ULL << GP) - 1), "all-ones remainder reachable");
    VWITNESS((g_rem & ((1ULL << GP) - 1)) == 0, "zero remainder reachable");
    VREACH("end");
}
