from vlib import H
PROPERTY = 'C51'
LEVEL = 'model_checking'
CLAIM = ('Real bloom/GCS building blocks executed symbolically: (1) MurmurHash3 (hash.cpp) equals a reference MurmurHash3_x86_32 for all seeds and keys of the listed lengths; '
         'CBloomFilter (real insert/contains/Hash, filter loaded and dumped through its real (un)serialiser): after insert(e), contains(e) holds and the filter bytes equal the BIP37 reference bit-set '
         '(so bits are only ever added: no element can be lost), for any prior filter content, tweak and key. (2) CRollingBloomFilter real insert/contains (generation roll-over, wipe, FastRange32 position, 2-bit cells): '
         'after RINS insertions the last nElements keys are contained; FastRange32(x,n) < n. (3) GolombRiceEncode/Decode with the real BitStreamWriter/Reader: bits equal the BIP158 reference (q ones, zero, P-bit remainder) '
         'at every start bit offset, zero padding, decode(encode(x)) = x, incl. quotients > 64 (chunked unary writes). Not covered: CBloomFilter/CRollingBloomFilter constructors (floating-point sizing), reset() (RNG), '
         'IsRelevantAndUpdate, GCSFilter end-to-end (sorted SipHash set), CPartialMerkleTree.')
COMMON = dict(nofmt=True, timeout=300, diff_runs=16)
def golomb_us(v):
    p, q = v['GP'], v['GQ']
    cap = (8 + q + 1 + p + 7) // 8 + 2
    bs = '9BufStreamILm%dEE' % cap
    b = 8 * cap + 2                    # the unary decode loop can at most consume every bit of the buffer (then the stream throws): generous bound so that a
                                       # decoder/encoder bug shows up as an assertion violation rather than as an unwinding-bound failure
    fns = ['_ZN15BitStreamReaderI%sE4ReadEi' % bs, '_Z16GolombRiceDecodeI%sEmR15BitStreamReaderIT_Eh' % bs, '_ZL12decode_checkR%smm' % bs.replace('9BufStreamILm', '9BufStreamILm'), '_ZL12decode_checkR%simm' % bs]
    return ','.join('%s.%d:%d' % (f, i, b) for f in fns for i in range(5))
BL = ['common/bloom.cpp', 'hash.cpp']
HARNESSES = [
    H('murmur', 'bloom.cpp', 'h_murmur', link=['hash.cpp'], variants=[{'KLEN': l} for l in (0, 1, 3, 4, 7, 8)], tvariants=[{'KLEN': l} for l in (0, 1, 2, 3, 4, 5, 6, 7, 8, 12, 32, 36)], unwind=12,
      functions=['MurmurHash3 (hash.cpp)'], bounds='key lengths 0..8 (thorough also 12, 32, 36); seed and all key bytes symbolic', backends=['default', 'kissat', 'z3', 'cvc5'], **COMMON),
    H('bloom', 'bloom.cpp', 'h_bloom', link=BL, variants=[{'FBYTES': 3, 'NHASH': 2, 'KLEN': 4}, {'FBYTES': 8, 'NHASH': 1, 'KLEN': 5}, {'FBYTES': 1, 'NHASH': 1, 'KLEN': 1}],
      tvariants=[{'FBYTES': 3, 'NHASH': 2, 'KLEN': 4}, {'FBYTES': 8, 'NHASH': 3, 'KLEN': 5}, {'FBYTES': 1, 'NHASH': 1, 'KLEN': 1}, {'FBYTES': 5, 'NHASH': 2, 'KLEN': 32}, {'FBYTES': 16, 'NHASH': 2, 'KLEN': 36}], unwind=40,
      functions=['CBloomFilter::insert', 'CBloomFilter::contains', 'CBloomFilter::Hash', 'MurmurHash3', 'CBloomFilter::Unserialize/Serialize'],
      bounds='filter of 1/3/8 bytes with arbitrary prior content, 1-3 hash functions, keys of 1/4/5 bytes, tweak symbolic', backends=['default', 'cvc5', 'kissat'], **COMMON),
    H('rolling', 'bloom.cpp', 'h_rolling', link=BL, variants=[{'RELEMS': 2, 'RINS': 3, 'RHASH': 2, 'RWORDS': 2}, {'RELEMS': 2, 'RINS': 5, 'RHASH': 1, 'RWORDS': 4}],
      tvariants=[{'RELEMS': 2, 'RINS': 3, 'RHASH': 2, 'RWORDS': 2}, {'RELEMS': 2, 'RINS': 5, 'RHASH': 1, 'RWORDS': 4}, {'RELEMS': 3, 'RINS': 6, 'RHASH': 2, 'RWORDS': 2}, {'RELEMS': 4, 'RINS': 7, 'RHASH': 1, 'RWORDS': 6}], unwind=12,
      functions=['CRollingBloomFilter::insert', 'CRollingBloomFilter::contains', 'RollingBloomHash', 'FastRange32'], stubs=['CRollingBloomFilter constructor (floating-point sizing, RNG tweak) replaced by a shape-parameterised initialiser; reset() not covered'],
      bounds='nElements 2, 3-5 insertions, 1-2 hash functions, 2-4 data words, 4-byte keys, tweak symbolic', backends=['default', 'cvc5', 'kissat'], **COMMON),
    H('fastrange', 'bloom.cpp', 'h_fastrange', link=BL, unwind=2, functions=['FastRange32'], variants=[{'NBITS': 12}], tvariants=[{'NBITS': 12}, {'NBITS': 20}], bounds='all 32-bit x, 0<n<2^12 (thorough 2^20)', backends=['default', 'cvc5int', 'z3', 'kissat'], **COMMON),
] + [
    H(name, 'golomb.cpp', 'h_golomb', link=[], variants=qv, tvariants=tv, unwind=max(max(v['GP'], v['GQ']) for v in tv + qv) + 4, unwindset=golomb_us, objbits=11, **dict(COMMON, timeout=600),
      functions=['GolombRiceEncode', 'GolombRiceDecode', 'BitStreamWriter::Write/Flush', 'BitStreamReader::Read'],
      bounds='Rice parameter P and quotient range per variant; every start bit offset 0..7 (step GOSTEP) x every quotient GQ0..GQ; remainder and preceding bits fully symbolic')
    for name, qv, tv in (
        ('golomb_p19', [{'GP': 19, 'GQ': 1}], [{'GP': 19, 'GQ': 8}, {'GP': 20, 'GQ': 4}]),
        ('golomb_p1', [{'GP': 1, 'GQ': 2}], [{'GP': 1, 'GQ': 12}, {'GP': 3, 'GQ': 9}, {'GP': 8, 'GQ': 8}]),
        ('golomb_long', [{'GP': 8, 'GQ0': 63, 'GQ': 65, 'GOSTEP': 3}], [{'GP': 19, 'GQ0': 62, 'GQ': 67, 'GOSTEP': 3}, {'GP': 2, 'GQ0': 127, 'GQ': 130, 'GOSTEP': 5}]))
]
