// C51 (1,2): bloom filters never produce false negatives. Real code: common/bloom.cpp (CBloomFilter::insert/contains/Hash,
// CRollingBloomFilter::insert/contains, RollingBloomHash), hash.cpp MurmurHash3, util/fastrange.h FastRange32, CBloomFilter (un)serialization.
#include <verif.h>
#include <common/bloom.h>
#include <hash.h>
#include <serialize.h>
#include <util/fastrange.h>
#include <bit>
#include <vector>
#include "c51_stream.h"

#ifndef KLEN      // key length in bytes (concrete shape)
#define KLEN 4
#endif

// ---------------------------------------------------------------------------------------------- MurmurHash3 x86_32 reference
// written from the public algorithm description (Appleby, MurmurHash3_x86_32), independent of hash.cpp
static uint32_t rotl32(uint32_t x, int r) { return std::rotl(x, r); }
static uint32_t ref_murmur3(uint32_t seed, const uint8_t* p, size_t len)
{
    uint32_t h = seed;
    const size_t nb = len / 4;
    for (size_t i = 0; i < nb; i++) {
        uint32_t k; memcpy(&k, p + 4 * i, 4);     // little-endian 32-bit block (host is little endian; asserted in h_murmur)
        k *= 0xcc9e2d51u; k = rotl32(k, 15); k *= 0x1b873593u;
        h ^= k; h = rotl32(h, 13); h = h * 5 + 0xe6546b64u;
    }
    uint32_t k = 0;
    const uint8_t* t = p + nb * 4;
    if ((len & 3) == 3) k ^= (uint32_t)t[2] << 16;
    if ((len & 3) >= 2) k ^= (uint32_t)t[1] << 8;
    if ((len & 3) >= 1) { k ^= t[0]; k *= 0xcc9e2d51u; k = rotl32(k, 15); k *= 0x1b873593u; h ^= k; }
    h ^= (uint32_t)len;
    h ^= h >> 16; h *= 0x85ebca6bu; h ^= h >> 13; h *= 0xc2b2ae35u; h ^= h >> 16;
    return h;
}

extern "C" void h_murmur()
{
    uint8_t key[KLEN + 1];
    for (int i = 0; i < KLEN; i++) key[i] = nondet_u8();
    const uint32_t seed = nondet_u32();
    const uint32_t got = MurmurHash3(seed, std::span<const unsigned char>(key, KLEN));
    verif_observe(got);
    VASSERT(got == ref_murmur3(seed, key, KLEN), "MurmurHash3 equals the reference MurmurHash3_x86_32");
    { const uint32_t one = 1; uint8_t b0; memcpy(&b0, &one, 1); VASSERT(b0 == 1, "little-endian host (assumed by the reference block load)"); }
    VWITNESS((got & 1) == 1, "odd hash reachable");
    VREACH("end");
}

// ---------------------------------------------------------------------------------------------- CBloomFilter
// Shape: FBYTES filter bytes (prior content symbolic: any earlier history), NHASH hash functions, key length KLEN; tweak, keys symbolic.
#ifndef FBYTES
#define FBYTES 3
#endif
#ifndef NHASH
#define NHASH 2
#endif
static void load_filter(CBloomFilter& f, const uint8_t* data, uint32_t nhash, uint32_t tweak, uint8_t flags)
{
    // through the real deserialiser: compact size, bytes, nHashFuncs, nTweak, nFlags (little endian)
    BufStream<FBYTES + 16> s;
    size_t n = 0;
    s.buf[n++] = FBYTES;
    for (int i = 0; i < FBYTES; i++) s.buf[n++] = data[i];
    for (int i = 0; i < 4; i++) s.buf[n++] = (uint8_t)(nhash >> (8 * i));
    for (int i = 0; i < 4; i++) s.buf[n++] = (uint8_t)(tweak >> (8 * i));
    s.buf[n++] = flags;
    s.wpos = n;
    s >> f;
}
static void dump_filter(const CBloomFilter& f, uint8_t* out)
{
    BufStream<FBYTES + 16> s;
    s << f;
    for (int i = 0; i < FBYTES; i++) out[i] = s.buf[1 + i];
}
extern "C" void h_bloom()
{
    uint8_t before[FBYTES], after[FBYTES], e[KLEN + 1];
    for (int i = 0; i < FBYTES; i++) before[i] = nondet_u8();
    for (int i = 0; i < KLEN; i++) e[i] = nondet_u8();
    const uint32_t tweak = nondet_u32();
    CBloomFilter f;
    load_filter(f, before, NHASH, tweak, 0);
    const std::span<const unsigned char> ke(e, KLEN);
    const bool e_before = f.contains(ke);
    f.insert(ke);
    const bool e_after = f.contains(ke);
    dump_filter(f, after);
    VASSERT(e_after, "an inserted element is always reported as contained (no false negative)");
    // bit-level reference (also shows that insertion only ever adds bits, so no other element can be lost): exactly the bits  murmur3(i * 0xFBA4C795 + tweak, key) mod (8 * bytes), i < nHashFuncs, are set in addition
    bool bits_ok = true;
    uint8_t want[FBYTES];
    for (int i = 0; i < FBYTES; i++) want[i] = before[i];
    for (uint32_t i = 0; i < NHASH; i++) {
        const uint32_t idx = ref_murmur3(i * 0xFBA4C795u + tweak, e, KLEN) % (FBYTES * 8);
        for (int b = 0; b < FBYTES; b++) if ((idx >> 3) == (uint32_t)b) want[b] |= (uint8_t)(1u << (idx & 7));
    }
    for (int i = 0; i < FBYTES; i++) { bits_ok = bits_ok && after[i] == want[i]; verif_observe(after[i]); }
    VASSERT(bits_ok, "filter bytes after insert equal the BIP37 reference (bit idx>>3 / 1<<(idx&7) for each hash)");
    VASSERT(f.IsWithinSizeConstraints(), "small filter within protocol limits");
    VWITNESS(!e_before, "the element was not contained before the insertion");
    VWITNESS(e_before, "the element was already contained (by earlier history)");
    VREACH("end");
}

// ---------------------------------------------------------------------------------------------- CRollingBloomFilter
// The constructor's floating-point sizing (log/exp/ceil) and reset()'s RNG are outside the symbolic engine: the constructor is replaced
// (link-time override, listed as stub) by one that takes the shape from macros: RWORDS 64-bit words, RHASH hash functions; nTweak symbolic.
#ifndef RWORDS
#define RWORDS 2
#endif
#ifndef RHASH
#define RHASH 2
#endif
#ifndef RELEMS    // nElements argument: the filter promises to remember the last RELEMS insertions
#define RELEMS 2
#endif
#ifndef RINS      // number of insertions performed
#define RINS 3
#endif
CRollingBloomFilter::CRollingBloomFilter(const unsigned int nElements, const double)
{
    nHashFuncs = RHASH;
    nEntriesPerGeneration = (nElements + 1) / 2;
    data.clear();
    data.resize(RWORDS);
    nTweak = nondet_u32();
    nEntriesThisGeneration = 0;
    nGeneration = 1;
}
extern "C" void h_rolling()
{
    uint8_t key[RINS][KLEN + 1];
    for (int i = 0; i < RINS; i++) for (int j = 0; j < KLEN; j++) key[i][j] = nondet_u8();
    CRollingBloomFilter f(RELEMS, 0.001);
    for (int i = 0; i < RINS; i++) f.insert(std::span<const unsigned char>(key[i], KLEN));
    bool ok = true;
    for (int i = RINS - 1; i >= 0 && i >= RINS - RELEMS; i--) { const bool c = f.contains(std::span<const unsigned char>(key[i], KLEN)); ok = ok && c; verif_observe(c); }
    VASSERT(ok, "the most recently inserted nElements elements are always contained");
#if RINS > RELEMS + 2
    VWITNESS(!f.contains(std::span<const unsigned char>(key[0], KLEN)), "an element older than the capacity can be forgotten");
#endif
    VREACH("end");
}

// ---------------------------------------------------------------------------------------------- FastRange32
#ifndef NBITS     // bound on the range argument: n < 2^NBITS (the filter sizes used with FastRange32 are the number of 64-bit words of a rolling filter)
#define NBITS 12
#endif
extern "C" void h_fastrange()
{
    const uint32_t x = nondet_u32(), n = nondet_u32();
    VASSUME(n > 0 && n < (1u << NBITS));
    const uint32_t r = FastRange32(x, n);
    VASSERT(r < n, "FastRange32 maps into [0, n)");
    verif_observe(r);
    VWITNESS(r == n - 1 && n > 1000, "top of range reachable");
    VWITNESS(r == 0 && x > 1000, "bottom of range reachable");
    VREACH("end");
}
