// minimal fixed-buffer byte stream for the C51 harnesses (the stream class is not under test)
#pragma once
#include <cstddef>
#include <cstdint>
#include <ios>
#include <span>
#include <string.h>
template <size_t CAP>
struct BufStream {
    uint8_t buf[CAP];
    size_t rpos{0}, wpos{0};
    void write(std::span<const std::byte> src)
    {
        if (wpos + src.size() > CAP) throw std::ios_base::failure("BufStream::write overflow");
        for (size_t i = 0; i < src.size(); i++) buf[wpos + i] = (uint8_t)src[i];
        wpos += src.size();
    }
    void read(std::span<std::byte> dst)
    {
        if (rpos + dst.size() > wpos) throw std::ios_base::failure("BufStream::read: end of data");
        if (dst.size() == 4) { const uint32_t v = (uint32_t)buf[rpos] | ((uint32_t)buf[rpos + 1] << 8) | ((uint32_t)buf[rpos + 2] << 16) | ((uint32_t)buf[rpos + 3] << 24); memcpy(dst.data(), &v, 4); }
        else for (size_t i = 0; i < dst.size(); i++) dst[i] = (std::byte)buf[rpos + i];
        rpos += dst.size();
    }
    void ignore(size_t n) { if (rpos + n > wpos) throw std::ios_base::failure("BufStream::ignore: end of data"); rpos += n; }
    bool empty() const { return rpos == wpos; }
    size_t size() const { return wpos - rpos; }
    template <typename T> BufStream& operator<<(const T& obj) { ::Serialize(*this, obj); return *this; }
    template <typename T> BufStream& operator>>(T&& obj) { ::Unserialize(*this, obj); return *this; }
};
