// C24: cluster linearizations are topological and never get worse.
// Real code: cluster_linearize.h (DepGraph, SetInfo, ChunkLinearization(Info), SpanningForestState, Linearize, PostLinearize) instantiated with
// bitset_detail::IntBitSet<uint8_t>, util/feefrac.{h,cpp} (FeeFrac, ByRatio, CompareChunks).
// Oracles (written from the definitions, not from the code):
//  * dependency closure: Warshall on the harness's own edge matrix;
//  * feerate diagram of a linearization: the concave hull of the cumulative (size, fee) prefix points; "A at least as good as B" iff the hull of A is
//    >= every prefix point of B (hull of B is the least concave function above B's points); all comparisons by cross-multiplication;
//  * chunking: chunk boundaries are exactly the prefix points that lie on the hull;
//  * optimality: universally quantified competing linearization (symbolic permutation constrained to be topological).
// The RNG of SpanningForestState is replaced by an unconstrained source: every sequence of random draws, a superset of what any seed produces.
#include <verif.h>
#define VERIF_NO_RANDOM_STUBS
#include <verif_stubs_common.h>
#include <random.h>
#include <concepts>

struct VerifNondetRng {
    explicit VerifNondetRng(uint64_t) noexcept {}
    uint64_t rand64() noexcept { return nondet_u64(); }
    bool randbool() noexcept { return nondet_bool() != 0; }
    template <int Bits> uint64_t randbits() noexcept { return nondet_u64() & ((uint64_t{1} << Bits) - 1); }
    template <std::integral I> I randrange(I range) noexcept { return (I)nondet_range(0, (uint64_t)range - 1); }
};
#define InsecureRandomContext VerifNondetRng
#include <cluster_linearize.h>
#undef InsecureRandomContext
#include <util/bitset.h>
#include <util/feefrac.h>

using namespace cluster_linearize;
using S = bitset_detail::IntBitSet<uint8_t>;

// libstdc++ growth policy stub: the first reallocation of these vectors allocates VCAP elements at once and a second one is asserted not to happen. Capacity is
// unobservable for the code under test; without this, every push_back site carries a symbolic-size reallocation-and-copy path.
#ifndef VCAP
#define VCAP 8
#endif
#define VERIF_VECTOR_PREALLOC(T)                                                                                              \
    template <> template <> void std::vector<T>::_M_realloc_insert<T>(iterator pos, T&& x)                                       \
    {                                                                                                                         \
        VASSERT(this->_M_impl._M_start == nullptr && pos.base() == nullptr, "vector grows at most once (preallocated capacity suffices)"); \
        VASSUME(this->_M_impl._M_start == nullptr);                                                                           \
        T* mem = static_cast<T*>(::operator new(sizeof(T) * VCAP));                                                           \
        ::new ((void*)mem) T(std::move(x));                                                                                   \
        this->_M_impl._M_start = mem; this->_M_impl._M_finish = mem + 1; this->_M_impl._M_end_of_storage = mem + VCAP;        \
    }
VERIF_VECTOR_PREALLOC(FeeFrac)
VERIF_VECTOR_PREALLOC(SetInfo<S>)

#ifndef FB   // fee bits (signed): fee in [-2^(FB-1), 2^(FB-1))
#define FB 6
#endif
#ifndef SB   // size bits: size in [1, 2^SB]
#define SB 3
#endif
#define MAXN 5

struct Pt { int32_t x, y; };
// Oracle product. Operands are small by construction (|fee sums| < 2^9, size sums < 2^6); the product is formed from 10-bit magnitudes so that the multiplier in the
// formula is 10x10 bits instead of 32x32 (or 128x128 with overflow instrumentation). The magnitude bound is asserted, not assumed.
static bool g_mul_in_range = true;
static inline int32_t mul(int32_t a, int32_t b)
{
    const uint32_t ma = (uint32_t)(a < 0 ? -a : a), mb = (uint32_t)(b < 0 ? -b : b);
    if (ma >= 1024 || mb >= 1024) g_mul_in_range = false;
    const uint32_t p = (ma & 1023) * (mb & 1023);
    return ((a < 0) != (b < 0)) ? -(int32_t)p : (int32_t)p;
}
struct Cluster {
    int n;
    int32_t fee[MAXN], size[MAXN];
    bool e[MAXN][MAXN];      // e[a][b]: a is a direct parent of b
    bool anc[MAXN][MAXN];    // anc[a][b]: a is a strict ancestor of b (closure of e)
};

static void prefix_points(const Cluster& c, const uint32_t* L, Pt* P)
{
    P[0].x = 0; P[0].y = 0;
    for (int k = 0; k < c.n; k++) {
        int32_t f = 0, s = 0;
        for (int t = 0; t < c.n; t++) if (L[k] == (uint32_t)t) { f = c.fee[t]; s = c.size[t]; }
        P[k + 1].x = P[k].x + s; P[k + 1].y = P[k].y + f;
    }
}
// is the concave hull of P[0..n] at abscissa x at least y?  (P[0].x <= x <= P[n].x)
static bool hull_ge(const Pt* P, int n, int32_t x, int32_t y)
{
    bool ok = false;
    for (int i = 0; i <= n; i++) {
        if (P[i].x == x && P[i].y >= y) ok = true;
        for (int j = i + 1; j <= n; j++)
            if (P[i].x <= x && x <= P[j].x && mul(y - P[i].y, P[j].x - P[i].x) <= mul(P[j].y - P[i].y, x - P[i].x)) ok = true;
    }
    return ok;
}
static bool diagram_ge(const Pt* A, const Pt* B, int n)
{
    bool ok = true;
    for (int k = 1; k <= n; k++) if (!hull_ge(A, n, B[k].x, B[k].y)) ok = false;
    return ok;
}
static bool on_hull(const Pt* P, int n, int k)
{
    bool ok = true;
    for (int i = 0; i < k; i++)
        for (int j = k + 1; j <= n; j++)
            if (mul(P[k].y - P[i].y, P[j].x - P[i].x) < mul(P[j].y - P[i].y, P[k].x - P[i].x)) ok = false;
    return ok;
}
static bool is_perm(const Cluster& c, const uint32_t* L)
{
    bool ok = true;
    for (int p = 0; p < c.n; p++) {
        if (L[p] >= (uint32_t)c.n) ok = false;
        for (int q = p + 1; q < c.n; q++) if (L[p] == L[q]) ok = false;
    }
    return ok;
}
static bool anc_at(const Cluster& c, uint32_t a, uint32_t b)
{
    bool r = false;
    for (int i = 0; i < c.n; i++) for (int j = 0; j < c.n; j++) if (a == (uint32_t)i && b == (uint32_t)j && c.anc[i][j]) r = true;
    return r;
}
static bool is_topo(const Cluster& c, const uint32_t* L)
{
    bool ok = true;
    for (int p = 0; p < c.n; p++) for (int q = p + 1; q < c.n; q++) if (anc_at(c, L[q], L[p])) ok = false;
    return ok;
}
// every chunk (run of the linearization between consecutive on-hull prefix points) is connected through ancestor/descendant relations
static bool chunks_connected(const Cluster& c, const uint32_t* L, const Pt* P)
{
    bool ok = true;
    int start = 0;
    for (int k = 1; k <= c.n; k++) {
        if (!on_hull(P, c.n, k)) continue;
        // chunk = L[start..k-1]; grow the component of L[start]
        bool in[MAXN], comp[MAXN];
        for (int t = 0; t < c.n; t++) { in[t] = false; comp[t] = false; }
        for (int p = 0; p < c.n; p++) if (p >= start && p < k) for (int t = 0; t < c.n; t++) if (L[p] == (uint32_t)t) { in[t] = true; if (p == start) comp[t] = true; }
        for (int round = 0; round < c.n; round++)
            for (int a = 0; a < c.n; a++) for (int b = 0; b < c.n; b++)
                if (in[a] && in[b] && (c.anc[a][b] || c.anc[b][a]) && (comp[a] || comp[b])) { comp[a] = true; comp[b] = true; }
        for (int t = 0; t < c.n; t++) if (in[t] && !comp[t]) ok = false;
        start = k;
    }
    return ok;
}

static int32_t sym_fee() { return (int32_t)(nondet_u32() & ((1u << FB) - 1)) - (1 << (FB - 1)); }
static int32_t sym_size() { return 1 + (int32_t)(nondet_u32() & ((1u << SB) - 1)); }

// DEPMASK >= 0: concrete dependency graph, bit (4*a + b) set <=> a is a direct parent of b.  DEPMASK < 0: symbolic graph, acyclic by construction
// (an edge a -> b only if rank[a] < rank[b] for a symbolic permutation rank).
template <int NTX, int DEPMASK, bool WITH_FEES>
static void make_cluster(Cluster& c, DepGraph<S>& dg)
{
    c.n = NTX;
    for (int i = 0; i < NTX; i++) { c.fee[i] = WITH_FEES ? sym_fee() : 0; c.size[i] = WITH_FEES ? sym_size() : 1; }
    if (DEPMASK >= 0) {
        for (int a = 0; a < NTX; a++) for (int b = 0; b < NTX; b++) c.e[a][b] = ((DEPMASK >> (4 * a + b)) & 1) != 0;
    } else {
        uint32_t rank[MAXN];
        for (int i = 0; i < NTX; i++) rank[i] = (uint32_t)nondet_range(0, NTX - 1);
        for (int i = 0; i < NTX; i++) for (int j = i + 1; j < NTX; j++) VASSUME(rank[i] != rank[j]);
        for (int a = 0; a < NTX; a++) for (int b = 0; b < NTX; b++) { const bool want = nondet_bool() != 0; c.e[a][b] = want && rank[a] < rank[b]; }
    }
    for (int a = 0; a < NTX; a++) for (int b = 0; b < NTX; b++) c.anc[a][b] = c.e[a][b];
    for (int k = 0; k < NTX; k++) for (int a = 0; a < NTX; a++) for (int b = 0; b < NTX; b++) if (c.anc[a][k] && c.anc[k][b]) c.anc[a][b] = true;
    for (int a = 0; a < NTX; a++) VASSERT(!c.anc[a][a], "harness: dependency graph is acyclic");
    for (int i = 0; i < NTX; i++) { const DepGraphIndex idx = dg.AddTransaction(FeeFrac{c.fee[i], c.size[i]}); VASSERT(idx == (DepGraphIndex)i, "AddTransaction hands out consecutive positions"); }
    for (int b = 0; b < NTX; b++) {
        S parents;
        for (int a = 0; a < NTX; a++) if (c.e[a][b]) parents.Set(a);
        dg.AddDependencies(parents, b);
    }
}
static void sym_perm(const Cluster& c, uint32_t* L)
{
    for (int p = 0; p < c.n; p++) L[p] = (uint32_t)nondet_range(0, c.n - 1);
    VASSUME(is_perm(c, L));
}

// MODE 0: ChunkLinearization / ChunkLinearizationInfo against the hull oracle (any permutation)      MODE 5: DepGraph closure / reduction against Warshall
// MODE 1: PostLinearize of a topological linearization
// MODE 2: Linearize improving a topological linearization     MODE 3: Linearize from scratch     MODE 4: Linearize from a non-topological order
template <int MODE, int NTX, int REAL, int DEPMASK, int WIT>
static void run()
{
    Cluster c; DepGraph<S> dg;
    make_cluster<NTX, DEPMASK, MODE != 5>(c, dg);
    uint32_t in[MAXN], out[MAXN], comp[MAXN];
    Pt Pin[MAXN + 1], Pout[MAXN + 1], Pcomp[MAXN + 1];
    if (MODE == 5) {
        bool closure_ok = true;
        for (int a = 0; a < NTX; a++) for (int b = 0; b < NTX; b++) {
            const bool want = (a == b) || c.anc[a][b];
            if (dg.Ancestors(b)[a] != want || dg.Descendants(a)[b] != want) closure_ok = false;
        }
        VASSERT(closure_ok, "DepGraph ancestors/descendants are the reflexive-transitive closure of the added dependencies");
        VASSERT(dg.IsAcyclic(), "DepGraph built from an acyclic edge set is acyclic");
        bool red_ok = true;
        for (int b = 0; b < NTX; b++) {
            const S red = dg.GetReducedParents(b);
            for (int a = 0; a < NTX; a++) {
                // a is a reduced parent of b iff a is an ancestor of b and no other ancestor of b has a as ancestor
                bool want = c.anc[a][b];
                for (int m = 0; m < NTX; m++) if (c.anc[a][m] && c.anc[m][b]) want = false;
                if (red[a] != want) red_ok = false;
            }
        }
        VASSERT(red_ok, "GetReducedParents = ancestors that are not ancestors of another ancestor (transitive reduction)");
        verif_observe(dg.Ancestors(NTX - 1).Count());
        if (NTX >= 2) VWITNESS(dg.Ancestors(NTX - 1).Count() == (unsigned)NTX, "last transaction depends on all others");
        VREACH("end");
        return;
    }
    if (MODE == 0) {
        sym_perm(c, in);
        prefix_points(c, in, Pin);
        const std::vector<FeeFrac> chunks = ChunkLinearization(dg, std::span<const DepGraphIndex>(in, NTX));
        const auto infos = ChunkLinearizationInfo(dg, std::span<const DepGraphIndex>(in, NTX));
        // expected chunks: differences between consecutive on-hull prefix points
        int nexp = 0, last = 0; bool same = true, same_info = true, sorted = true;
        for (int k = 1; k <= NTX; k++) if (on_hull(Pin, NTX, k)) {
            const int32_t f = Pin[k].y - Pin[last].y, s = Pin[k].x - Pin[last].x;
            uint8_t members = 0;
            for (int p = 0; p < NTX; p++) if (p >= last && p < k) members |= (uint8_t)(1u << in[p]);
            for (int ci = 0; ci < NTX; ci++) if (ci == nexp) {
                if (!(ci < (int)chunks.size() && chunks[ci].fee == f && chunks[ci].size == s)) same = false;
                if (!(ci < (int)infos.size() && infos[ci].feerate.fee == f && infos[ci].feerate.size == s)) same_info = false;
                if (ci < (int)infos.size()) { uint8_t got = 0; for (int t = 0; t < NTX; t++) if (infos[ci].transactions[t]) got |= (uint8_t)(1u << t); if (got != members) same_info = false; }
            }
            nexp++; last = k;
        }
        VASSERT((int)chunks.size() == nexp && same, "ChunkLinearization = segments of the concave hull of the prefix points (boundaries at every on-hull point)");
        VASSERT((int)infos.size() == nexp && same_info, "ChunkLinearizationInfo = same chunks with their transaction sets");
        for (int ci = 0; ci + 1 < NTX; ci++) if (ci + 1 < (int)chunks.size() && mul((int32_t)chunks[ci + 1].fee, chunks[ci].size) > mul((int32_t)chunks[ci].fee, chunks[ci + 1].size)) sorted = false;
        VASSERT(sorted, "chunk feerates are non-increasing");
        verif_observe(chunks.size()); for (int ci = 0; ci < NTX; ci++) if (ci < (int)chunks.size()) { verif_observe((uint64_t)chunks[ci].fee); verif_observe((uint64_t)chunks[ci].size); }
        if (NTX >= 2) { VWITNESS((int)chunks.size() == 1, "all merged into one chunk"); VWITNESS((int)chunks.size() == NTX, "every transaction its own chunk"); }
        VASSERT(g_mul_in_range, "oracle products stay within the 10-bit magnitudes they are computed with");
        VREACH("end");
        return;
    }
    // input linearization
    if (MODE != 3) {
        sym_perm(c, in);
        if (MODE == 4) VASSUME(!is_topo(c, in)); else VASSUME(is_topo(c, in));
        prefix_points(c, in, Pin);
    }
    bool optimal = false;
    if (MODE == 1) {
        for (int p = 0; p < NTX; p++) out[p] = in[p];
        PostLinearize(dg, std::span<DepGraphIndex>(out, NTX));
    } else {
        const uint64_t max_cost = nondet_u64();
        const uint64_t seed = nondet_u64();
        auto res = Linearize(dg, max_cost, seed, IndexTxOrder{}, MODE == 3 ? std::span<const DepGraphIndex>() : std::span<const DepGraphIndex>(in, NTX), MODE != 4);
        const std::vector<DepGraphIndex>& lin = std::get<0>(res);
        optimal = std::get<1>(res);
        VASSERT(lin.size() == (size_t)NTX, "Linearize returns every transaction");
        for (int p = 0; p < NTX; p++) out[p] = p < (int)lin.size() ? lin[p] : 0xffffffffu;
        verif_observe(optimal);
    }
    for (int p = 0; p < NTX; p++) verif_observe(out[p]);
    VASSERT(is_perm(c, out), "output is a permutation of the cluster");
    VASSERT(is_topo(c, out), "output is topological (no transaction before one of its ancestors)");
    prefix_points(c, out, Pout);
    if (REAL) {
        // the real chunking and the real diagram comparison on the result (REAL entries only: the hull oracle below states the same facts without them)
        const std::vector<FeeFrac> chunks = ChunkLinearization(dg, std::span<const DepGraphIndex>(out, NTX));
        bool sorted = true;
        for (int ci = 0; ci + 1 < NTX; ci++) if (ci + 1 < (int)chunks.size() && mul((int32_t)chunks[ci + 1].fee, chunks[ci].size) > mul((int32_t)chunks[ci].fee, chunks[ci + 1].size)) sorted = false;
        VASSERT(sorted, "chunk feerates of the output are non-increasing");
        if (MODE == 1 || MODE == 2) {
            const std::vector<FeeFrac> chunks_in = ChunkLinearization(dg, std::span<const DepGraphIndex>(in, NTX));
            const std::partial_ordering cmp = CompareChunks(chunks, chunks_in);
            VASSERT(cmp == std::partial_ordering::greater || cmp == std::partial_ordering::equivalent, "CompareChunks(output, input) is never worse or incomparable");
        }
    }
    if (MODE == 1 || MODE == 2) {
        const bool back = diagram_ge(Pin, Pout, NTX);
        if (WIT & 1) VWITNESS(!back, "strictly improved");
        VWITNESS(back, "unchanged diagram");
    }
    if (MODE == 1 || MODE == 2) VASSERT(diagram_ge(Pout, Pin, NTX), "feerate diagram of the output is >= the diagram of the input at every point (hull oracle)");
    if (MODE == 1) VASSERT(chunks_connected(c, out, Pout), "PostLinearize: every chunk of the result is connected");
    if (MODE >= 2) {
        // universally quantified competitor
        sym_perm(c, comp);
        VASSUME(is_topo(c, comp));
        prefix_points(c, comp, Pcomp);
        const bool best = diagram_ge(Pout, Pcomp, NTX);
        VASSERT(!optimal || best, "a result reported optimal has a diagram >= that of every topological order");
        VASSERT(!optimal || chunks_connected(c, out, Pout), "a result reported optimal has connected chunks");
        VWITNESS(optimal, "optimal reported");
        VWITNESS(!optimal, "budget exhausted: not reported optimal");
#ifdef W_BEATEN
        VWITNESS(!optimal && !best, "a non-optimal result that some topological order beats");
#endif
    }
    VASSERT(g_mul_in_range, "oracle products stay within the 10-bit magnitudes they are computed with");
    VREACH("end");
}
#define VERIF_ENTRY(name, ...) extern "C" void h_##name() { run<__VA_ARGS__>(); }
#include VERIF_ENTRIES_INC
