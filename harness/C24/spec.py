from vlib import H
PROPERTY = 'C24'
LEVEL = 'model_checking'
CLAIM = ('wip')
MODES = {'chunk': 0, 'post': 1, 'improve': 2, 'scratch': 3, 'fix': 4, 'closure': 5}
def mask(edges): return sum(1 << (4 * a + b) for a, b in edges)
def e(mode, n, real=0, g=None, tag=''):
    return ('%s_n%d%s%s' % (mode, n, '_' + tag if tag else '', '_real' if real else ''), '%d, %d, %d, %d' % (MODES[mode], n, real, -1 if g is None else mask(g)))
quick = [e('chunk', 2, g=[]), e('chunk', 3, g=[]), e('closure', 2), e('closure', 3), e('scratch', 2, g=[], tag='g0'), e('scratch', 2, g=[(0, 1)], tag='g01'), e('post', 2, g=[(0, 1)], tag='g01')]
HARNESSES = [
    H('lin', 'lin.cpp', 'h_lin', link=['util/feefrac.cpp'], entries=quick, defines={'ABORT_ON_FAILED_ASSUME': 1, 'VERIF_TALLOC_MAX': 8, 'VERIF_LL2C_INLINE_GEP': 1, 'VERIF_MUL128_NARROW': 12, 'FB': 4, 'SB': 2},
      unwind=5, unwindset='verif_cttz.0:10,verif_ctpop.0:10,verif_ctlz.0:10', memunwind=200, timeout=300, objbits=10, diff_runs=12,
      functions=['cluster_linearize.h'], stubs=['rng'], bounds='wip'),
]
