from vlib import H
PROPERTY = 'C24'
LEVEL = 'model_checking'
CLAIM = ('Real cluster_linearize.h code instantiated with bitset_detail::IntBitSet<uint8_t> (DepGraph::AddTransaction/AddDependencies/GetReducedParents/IsAcyclic, ChunkLinearization, ChunkLinearizationInfo, '
         'PostLinearize) plus CompareChunks (util/feefrac.cpp), executed symbolically on clusters of 2 (quick) and 3 (mostly thorough) transactions with symbolic fees (4-bit signed) and sizes (1..4). '
         'Oracles written from the definitions: dependency closure by Warshall; feerate diagram = concave hull of the cumulative (size, fee) prefix points, "A at least as good as B" iff hull(A) >= every prefix point of B '
         '(cross-multiplication, no division); chunk boundaries = prefix points on the hull. Asserted: (closure) for EVERY acyclic dependency matrix (symbolic, acyclic by construction through a symbolic rank permutation) '
         'ancestors/descendants are the reflexive-transitive closure, GetReducedParents is the transitive reduction, IsAcyclic holds; (chunk) for every permutation, ChunkLinearization/ChunkLinearizationInfo return exactly the hull '
         'segments (fee, size, transaction set), feerates non-increasing; (post) for every topological input order PostLinearize returns a permutation that is topological, whose diagram is >= the input diagram at every point, '
         'whose chunks are connected, and (real entries) CompareChunks(ChunkLinearization(out), ChunkLinearization(in)) is greater or equivalent; all Assume()s inside the code are checked (ABORT_ON_FAILED_ASSUME). '
         'NOT covered (out of reach of this pipeline, see bounds): Linearize / SpanningForestState (SFL) including the optimal flag; clusters above 3 transactions; FixLinearization does not exist at this commit.')
MODES = {'chunk': 0, 'post': 1, 'improve': 2, 'scratch': 3, 'fix': 4, 'closure': 5}
def mask(edges): return sum(1 << (4 * a + b) for a, b in edges)
def e(mode, n, real=0, g=None, tag='', wit=0):
    return ('%s_n%d%s%s' % (mode, n, '_' + tag if tag else '', '_real' if real else ''), '%d, %d, %d, %d, %d' % (MODES[mode], n, real, -1 if g is None else mask(g), wit))
DEFS = lambda n: {'ABORT_ON_FAILED_ASSUME': 1, 'VERIF_TALLOC_MAX': n + 1, 'VCAP': n + 1, 'VERIF_LL2C_INLINE_GEP': 1, 'VERIF_MUL128_NARROW': 12, 'FB': 4, 'SB': 2}
def HL(n, entries, tentries=None):
    return H('lin%d' % n, 'lin.cpp', 'h_lin', link=['util/feefrac.cpp'], entries=entries, tentries=tentries, backends=['default', 'cadical'], defines=DEFS(n), unwind=n + 2, unwindset='verif_cttz.0:10,verif_ctpop.0:10,verif_ctlz.0:10', memunwind=200, timeout=300, objbits=10, diff_runs=12,
             functions=['DepGraph<IntBitSet<uint8_t>>::AddTransaction/AddDependencies/GetReducedParents/IsAcyclic/Ancestors/Descendants', 'SetInfo', 'ChunkLinearization', 'ChunkLinearizationInfo', 'PostLinearize', 'CompareChunks (util/feefrac.cpp)', 'FeeFrac / ByRatio comparison operators'],
             stubs=['std::vector<FeeFrac>/<SetInfo>::_M_realloc_insert: first growth allocates n+1 elements at once, a second growth is asserted not to happen (capacity policy only)',
                    'typed heap allocations with non-constant count allocate VERIF_TALLOC_MAX=n+1 elements, count asserted <= that (translator option)',
                    '128-bit products computed from 12-bit magnitudes, operand magnitude asserted < 2^12 (translator option VERIF_MUL128_NARROW)',
                    'InsecureRandomContext replaced by an unconstrained source (only reachable from SpanningForestState, which no entry calls)'],
             assumptions=['fees in [-8, 7], sizes in [1, 4]', 'PostLinearize input is a topological permutation (its documented precondition)'],
             bounds='n=%d transactions; entries %s (thorough adds %s); dependency graph symbolic for closure entries, concrete per entry elsewhere (g01 = 0->1, chain 0->1->2, fork 0->{1,2}, join {0,1}->2); '
                    'Linearize/SFL: symex of one Linearize call on 2 transactions did not finish in 240 s (every m_tx_data/m_set_info/m_reachable access is a symbolic index into a heap array of structs, Activate/Deactivate are inlined at ~30 call sites with 4 nested set loops each)' % (n, [x[0] for x in entries], [x[0] for x in (tentries or []) if x not in entries]))
q2 = [e('chunk', 2, g=[]), e('closure', 2), e('post', 2, g=[], tag='g0', wit=1), e('post', 2, g=[(0, 1)], tag='g01'), e('post', 2, g=[(1, 0)], tag='g10'), e('post', 2, real=1, g=[], tag='g0', wit=1)]
q3 = [e('closure', 3)]
t3 = q3 + [e('post', 3, g=[(0, 1), (1, 2)], tag='chain'), e('chunk', 3, g=[]), e('post', 3, g=[(0, 2), (1, 2)], tag='join', wit=1)]   # post_n3 fork / g20 / g0: no verdict in 800 s
HARNESSES = [HL(2, q2), HL(3, q3, t3)]
