// C54: block index navigation. Real code: chain.cpp (included here so that the file-static GetSkipHeight / InvertLowestOne are callable),
// chain.h (CChain inline members), std::vector from libstdc++ headers. No stubs.
#include <verif.h>
#include <chain.cpp>
#include <climits>

// ---- oracles written from the comments ("turn the lowest '1' bit into a '0'", skip-height rule) and from the naive parent walk ----
static int ref_clear_lowest_one(int n)
{
    int r = n; bool found = false;          // (no early exit: CBMC does not reset the unwind counter of a loop that is left through a break)
    for (int i = 0; i < 31; i++) { const bool bit = ((n >> i) & 1) != 0; if (bit && !found) r = n & ~(1 << i); found = found || bit; }
    return r;     // n == 0 stays 0
}
static int ref_skip_height(int h)
{
    if (h < 2) return 0;
    if ((h & 1) == 0) return ref_clear_lowest_one(h);
    return ref_clear_lowest_one(ref_clear_lowest_one(h - 1)) + 1;
}

// (1) skip-height arithmetic, full width: every height 0 .. 2^31-1
extern "C" void h_skip()
{
    const int h = (int)nondet_range(0, INT_MAX);
    const int inv = InvertLowestOne(h);
    const int s = GetSkipHeight(h);
    verif_observe((uint64_t)inv); verif_observe((uint64_t)s);
    VASSERT(inv == ref_clear_lowest_one(h), "InvertLowestOne clears exactly the lowest set bit");
    VASSERT(s == ref_skip_height(h), "GetSkipHeight: 0 below 2; even: lowest one cleared; odd: two lowest ones of h-1 cleared, plus 1");
    VASSERT(s >= 0 && (h == 0 ? s == 0 : s < h), "skip height is a strictly lower non-negative height");
    if (h >= 2) VASSERT(h - s >= 1 && ((h & 1) == 0 || (s & 1) == 1), "odd heights skip to odd heights");
    VWITNESS(h - s > (1 << 29), "a skip of more than 2^29 blocks exists");
    VWITNESS(h >= 2 && h - s == 2, "a skip of two blocks exists");
    VREACH("end");
}
