from vlib import H
PROPERTY = 'C54'
LEVEL = 'model_checking'
CLAIM = ('Real chain.cpp/chain.h navigation code (GetSkipHeight, InvertLowestOne, CBlockIndex::BuildSkip/GetAncestor, LastCommonAncestor, CChain::SetTip/Contains/'
         'operator[]/Next/FindFork, LocatorEntries) and GetBitsProof / chain work accumulation, checked against the naive parent walk, the documented skip and locator '
         'rules and wide-integer arithmetic. Skip-height arithmetic for every 31-bit height; pointer walks on real CBlockIndex chains/trees of the listed shapes with the '
         'queried blocks and heights symbolic.')
LINK = ['arith_uint256.cpp', 'uint256.cpp']
NLINK = ['chain.cpp', 'arith_uint256.cpp', 'uint256.cpp']
FN = ['GetSkipHeight', 'InvertLowestOne', 'CBlockIndex::BuildSkip', 'CBlockIndex::GetAncestor', 'LastCommonAncestor', 'CChain::SetTip', 'CChain::FindFork', 'CChain::Contains/Next/operator[]/Height/Tip/Genesis',
      'LocatorEntries', 'GetBitsProof', 'GetBlockProof']
def trees(quick):
    t = [(5, 4, 3), (1, 3, 3), (9, 7, 0), (2, 1, 12), (8, 8, 8)]
    if not quick: t += [(16, 12, 12), (3, 20, 17), (33, 3, 4), (1, 1, 1), (1, 0, 0), (20, 0, 20)]
    return [{'TR': a, 'BA': b, 'BB': c} for a, b, c in t]
# loops of the code under test get exact bounds (checked by unwinding assertions); harness/oracle loops are concrete and covered by the global bound
REAL_LOOPS = ['_ZNK11CBlockIndex11GetAncestorEi.0', '_Z18LastCommonAncestorPK11CBlockIndexS1_.0', '_Z18LastCommonAncestorPK11CBlockIndexS1_.1', '_Z18LastCommonAncestorPK11CBlockIndexS1_.2',
              '_ZNK6CChain8FindForkERK11CBlockIndex.0', '_ZNK6CChain8FindForkERK11CBlockIndex.1', '_ZN6CChain6SetTipER11CBlockIndex.0', '_ZN6CChain6SetTipER11CBlockIndex.1',
              '_Z14LocatorEntriesPK11CBlockIndex.0', '_Z14LocatorEntriesPK11CBlockIndex.1']
def us(n):
    return ','.join('%s:%d' % (x, n) for x in REAL_LOOPS)
HARNESSES = [
    H('skip', 'c54.cpp', 'h_skip', link=LINK, functions=FN, unwind=34, bounds='all heights 0..2^31-1 (full domain), no loops in the code under test', timeout=300, backends=['default', 'kissat']),
    H('ancestor', 'c54_nav.cpp', 'h_ancestor', link=NLINK, functions=FN, variants=[{'NBLK': 24}], tvariants=[{'NBLK': 24}, {'NBLK': 40}, {'NBLK': 70}],
      unwind=1000, unwindset=lambda v: us(v['NBLK'] + 2), bounds='linear chains of 24 blocks (thorough 40, 70); every (start block, height) pair enumerated, out-of-range heights symbolic (any 32-bit int)', timeout=300),
    H('tree', 'c54_nav.cpp', 'h_tree', link=NLINK, functions=FN, variants=trees(True), tvariants=trees(False), unwind=1000,
      unwindset=lambda v: us(v['TR'] + v['BA'] + v['BB'] + 2),
      bounds='two-branch trees (trunk, branch a, branch b) of sizes (5,4,3) (1,3,3) (9,7,0) (2,1,12) (8,8,8), thorough up to 40 blocks; every pair of blocks and every (block, height) pair enumerated; chain index height symbolic', timeout=300),
    H('locator', 'c54_nav.cpp', 'h_locator', link=NLINK, functions=FN, variants=[{'LN': 40}], tvariants=[{'LN': 40}, {'LN': 100}], unwind=1000, unwindset=lambda v: us(v['LN'] + 2),
      bounds='chains of 40 blocks (thorough 100), every start block', timeout=300),
]
