from vlib import H as _H
def H(*a, **k):
    k.setdefault('diff_runs', 12)
    return _H(*a, **k)
PROPERTY = 'C54'
LEVEL = 'model_checking'
CLAIM = ('Real chain.cpp/chain.h navigation code (GetSkipHeight, InvertLowestOne, CBlockIndex::BuildSkip/GetAncestor, LastCommonAncestor, CChain::SetTip/Contains/'
         'operator[]/Next/FindFork, LocatorEntries) and GetBitsProof / chain work accumulation, checked against the naive parent walk, the documented skip and locator '
         'rules and wide-integer arithmetic. Skip-height arithmetic for every 31-bit height; pointer walks on real CBlockIndex chains/trees of the listed shapes with the '
         'queried blocks and heights symbolic.')
LINK = ['arith_uint256.cpp', 'uint256.cpp']
NLINK = ['chain.cpp', 'arith_uint256.cpp', 'uint256.cpp']
FN = ['GetSkipHeight', 'InvertLowestOne', 'CBlockIndex::BuildSkip', 'CBlockIndex::GetAncestor', 'LastCommonAncestor', 'CChain::SetTip', 'CChain::FindFork', 'CChain::Contains/Next/operator[]/Height/Tip/Genesis',
      'LocatorEntries', 'GetBitsProof', 'GetBlockProof']
def trees(quick):
    t = [(5, 4, 3), (1, 3, 3), (6, 5, 0), (2, 1, 8), (3, 0, 4)]
    if not quick: t += [(9, 7, 0), (2, 1, 12), (8, 8, 8), (1, 1, 1), (1, 0, 0), (10, 0, 10)]
    return [{'TR': a, 'BA': b, 'BB': c} for a, b, c in t]
# loops of the code under test get exact bounds (checked by unwinding assertions); harness/oracle loops are concrete and covered by the global bound
REAL_LOOPS = ['_ZNK11CBlockIndex11GetAncestorEi.0', '_Z18LastCommonAncestorPK11CBlockIndexS1_.0', '_Z18LastCommonAncestorPK11CBlockIndexS1_.1', '_Z18LastCommonAncestorPK11CBlockIndexS1_.2',
              '_ZNK6CChain8FindForkERK11CBlockIndex.0', '_ZNK6CChain8FindForkERK11CBlockIndex.1', '_ZN6CChain6SetTipER11CBlockIndex.0', '_ZN6CChain6SetTipER11CBlockIndex.1',
              '_Z14LocatorEntriesPK11CBlockIndex.0', '_Z14LocatorEntriesPK11CBlockIndex.1']
def us(n):
    return ','.join('%s:%d' % (x, n) for x in REAL_LOOPS)
HARNESSES = [
    H('skip', 'c54.cpp', 'h_skip', link=LINK, functions=FN, unwind=34, bounds='all heights 0..2^31-1 (full domain), no loops in the code under test', timeout=300, backends=['default', 'kissat']),
    H('ancestor', 'c54_nav.cpp', 'h_ancestor', link=NLINK, functions=FN, variants=[{'NBLK': 24, 'SYMK': 0}], tvariants=[{'NBLK': 24, 'SYMK': 9}, {'NBLK': 40, 'SYMK': 0}, {'NBLK': 70, 'SYMK': 0}],
      unwind=100000, unwindset=lambda v: us(v['NBLK'] + 2), bounds='linear chains of 24 blocks (thorough 40, 70); every (start block, height) pair enumerated, heights -1, height+1, INT_MAX, INT_MIN on every block, plus one block (genesis; thorough: height 9) queried with a fully symbolic 32-bit height', timeout=300),
    H('tree', 'c54_nav.cpp', 'h_tree', link=NLINK, functions=FN, variants=trees(True), tvariants=trees(False), unwind=100000,
      unwindset=lambda v: us(v['TR'] + v['BA'] + v['BB'] + 2),
      bounds='two-branch trees (trunk, branch a, branch b) of sizes (5,4,3) (1,3,3) (6,5,0) (2,1,8) (3,0,4), thorough up to 24 blocks; every pair of blocks and every (block, height) pair enumerated; chain index height symbolic', timeout=900),
    H('locator', 'c54_nav.cpp', 'h_locator', link=NLINK, functions=FN, variants=[{'LN': 24}], tvariants=[{'LN': 40}, {'LN': 100}], unwind=100000, unwindset=lambda v: us(v['LN'] + 2),
      bounds='chains of 24 blocks (thorough 40, 100), every start block', timeout=300),
    H('blockproof', 'c54_work.cpp', 'h_blockproof', link=NLINK, functions=FN, unwind=300,
      variants=[{'EXP': e} for e in (0x1d, 0x21, 0x22, 0x23)],    # quick: a mainnet-like exponent and the three exponents around the 256-bit overflow boundary (partial overflow: low mantissa bits survive)
      tvariants=[{'EXP': e} for e in (0, 1, 3, 4, 0x10, 0x17, 0x18, 0x19, 0x1a, 0x1b, 0x1c, 0x1d, 0x1e, 0x1f, 0x20, 0x21, 0x22, 0x23, 0x24, 0xff)],
      stubs=['base_uint<256>::operator/= replaced in harness blockproof by schoolbook long division (= floor(a/b), re-checked against q*b <= a < (q+1)*b on every native run); the real bit-serial operator is exercised by blockproof_real (short quotients) and C07 division'],
      bounds='every nBits with compact exponent 0x1d,0x21,0x22,0x23 (thorough: 0,1,3,4,0x10,0x17..0x24,0xff); mantissa and sign bit symbolic', timeout=900),
    H('blockproof_real', 'c54_work.cpp', 'h_blockproof', link=NLINK, functions=FN, unwind=300, defines={'REAL_DIV': 1, 'CANONICAL': 1}, ubsan=False,
      variants=[{'EXP': 0x20}], tvariants=[{'EXP': 0x20}, {'EXP': 0x21}],
      unwindset='_ZN9base_uintILj256EEdVERKS0_.10:14,_ZN9base_uintILj256EEdVERKS0_.9:14',
      bounds='real division: nBits with exponent 0x20 (thorough also 0x21) and mantissa >= 0x008000 (targets >= 2^247, work <= 2^10); longer quotients are beyond SAT', timeout=400, backends=['default', 'kissat']),
]
