// C54 (part): block proof (chain work contribution). Real chain.cpp GetBitsProof / GetBlockProof and real arith_uint256.cpp SetCompact, operator~,
// operator+ / ++, comparisons. Two modes:
//   REAL_DIV  : everything real, incl. the bit-serial base_uint<256>::operator/= ; result checked against  W*(t+1) <= 2^256 < (W+1)*(t+1).
//               In SAT's reach only while the quotient is short (targets >= 2^247, i.e. compact exponent 0x20 with a canonical mantissa).
//   otherwise : operator/= is replaced by schoolbook long division (= floor(a/b); re-checked against q*b <= a < (q+1)*b on every native run; the
//               real operator is checked against that contract, for the shapes in reach, by C07 `division` and by the REAL_DIV variants here);
//               the harness checks the operands GetBitsProof divides and what it does with the quotient, for every nBits of the exponent.
#include <verif.h>
#include <compact_ref.h>
#include <wide_ref.h>
#include <chain.h>
#include <arith_uint256.h>
#include <uint256.h>

#ifndef EXP
#define EXP 0x1d
#endif

static W w_of(const arith_uint256& x)
{
    const uint256 u = ArithToUint256(x);
    uint8_t b[32];
    for (int i = 0; i < 32; i++) b[i] = u.data()[i];
    return w_le_bytes32(b);
}
static bool w_eq(const W& a, const W& b) { return w_cmp(a, b) == 0; }

#ifndef REAL_DIV
struct DivRec { W a, b, q; };
static DivRec div_log[2];
static int div_calls;
static W w_long_div(const W& a, const W& d)      // schoolbook binary long division of 256-bit a by non-zero 256-bit d, most significant bit first
{
    W q = w_u64(0), r = w_u64(0);
    for (int i = 255; i >= 0; i--) {
        r = w_shl(r, 1); r.l[0] |= (a.l[i / 64] >> (i % 64)) & 1;
        if (w_le(d, r)) { r = w_sub(r, d); q.l[i / 64] |= (uint64_t)1 << (i % 64); }
    }
    return q;
}
struct Raw256 { uint32_t pn[8]; };
static_assert(sizeof(base_uint<256>) == sizeof(Raw256) && alignof(base_uint<256>) == alignof(Raw256));
Raw256* c54_div_spec(Raw256* self, const Raw256* bp) __asm__("_ZN9base_uintILj256EEdVERKS0_");
Raw256* c54_div_spec(Raw256* self, const Raw256* bp)
{
    W a = w_u64(0), d = w_u64(0);
    for (int i = 0; i < 8; i++) { a.l[i / 2] |= (uint64_t)self->pn[i] << (32 * (i % 2)); d.l[i / 2] |= (uint64_t)bp->pn[i] << (32 * (i % 2)); }
    VASSERT(!w_eq(d, w_u64(0)), "division by zero (uint_error) never requested by GetBitsProof");
    const W q = w_long_div(a, d);
    if (verif_native()) {
        // q*d <= a < (q+1)*d, checked natively with 512-bit schoolbook products
        unsigned __int128 acc = 0; uint64_t prod[8] = {0, 0, 0, 0, 0, 0, 0, 0};
        for (int i = 0; i < 4; i++) { unsigned __int128 carry = 0; for (int j = 0; j < 4; j++) { const unsigned __int128 t = (unsigned __int128)q.l[i] * d.l[j] + prod[i + j] + carry; prod[i + j] = (uint64_t)t; carry = t >> 64; } prod[i + 4] = (uint64_t)carry; }
        (void)acc;
        W p = w_u64(0); for (int i = 0; i < 6; i++) p.l[i] = prod[i];
        VASSERT(prod[6] == 0 && prod[7] == 0 && w_le(p, a) && w_lt(a, w_add(p, d)), "reference long division meets the floor-division contract (checked on every native run)");
    }
    if (div_calls < 2) { div_log[div_calls].a = a; div_log[div_calls].b = d; div_log[div_calls].q = q; }
    div_calls++;
    for (int i = 0; i < 8; i++) self->pn[i] = (uint32_t)(q.l[i / 2] >> (32 * (i % 2)));
    return self;
}
#endif

extern "C" void h_blockproof()
{
#ifdef CANONICAL
    const uint32_t m = (nondet_u32() & 0x007fffffu) | 0x00008000u;     // top mantissa byte or the bit below it set: a target of at least 2^(8*(EXP-3)+15)
#else
    const uint32_t m = nondet_u32() & 0x007fffffu;
#endif
    const uint32_t sign = nondet_bool() ? 0x00800000u : 0u;
    const uint32_t bits = ((uint32_t)EXP << 24) | sign | m;
    const RefTarget t = ref_decode_compact(bits);
    const W tv = w_le_bytes32(t.b);
#ifndef REAL_DIV
    div_calls = 0;
#endif
    CBlockIndex blk;
    blk.nBits = bits;
    const arith_uint256 work = GetBlockProof(blk);
    const W got = w_of(work);
    verif_observe(got.l[0]); verif_observe(got.l[3]);
    const bool valid = !t.negative && !t.overflow && !ref_is_zero256(t.b);
    if (!valid) {
        VASSERT(w_eq(got, w_u64(0)), "negative, overflowing or zero targets contribute no work");
    } else {
        const W t1 = w_add(tv, w_u64(1));                               // target + 1  (<= 2^256)
        const W two256 = w_shl(w_u64(1), 256);
#ifdef REAL_DIV
        // W = floor(2^256 / (t+1))  <=>  W*(t+1) <= 2^256 < (W+1)*(t+1);   here W < 2^32
        VASSERT(got.l[1] == 0 && got.l[2] == 0 && got.l[3] == 0 && got.l[0] < (((uint64_t)1) << 32), "work fits 32 bits for these targets");
        VASSERT(w_le(w_mul64(t1, got.l[0]), two256) && w_lt(two256, w_mul64(t1, got.l[0] + 1)), "work = floor(2^256 / (target + 1))");
#else
        // floor(2^256/(t+1)) = floor((2^256 - (t+1)) / (t+1)) + 1: the code must divide (2^256 - 1 - t) by (t + 1) and add one
        VASSERT(div_calls == 1, "one division");
        VASSERT(w_eq(div_log[0].a, w_sub(two256, t1)) && w_eq(div_log[0].b, t1), "dividend = 2^256 - (target+1), divisor = target+1");
        VASSERT(w_eq(got, w_add(div_log[0].q, w_u64(1))) && got.l[4] == 0, "work = quotient + 1 = floor(2^256 / (target + 1))");
#endif
#if EXP <= 34    // from exponent 0x23 on every non-zero mantissa overflows: no valid target exists in the shape
        VWITNESS(got.l[0] > 1 || got.l[1] != 0, "work above one");
#endif
    }
    VWITNESS(!valid && t.negative, "negative target");
#if EXP > 34
    VWITNESS(!valid && t.overflow, "overflowing target");
#endif
#ifndef CANONICAL
    VWITNESS(!valid && ref_is_zero256(t.b), "zero target");
#endif
    VREACH("end");
}
