// C54: block index navigation on real block-index chains and trees. Real code: chain.cpp (linked), chain.h (CChain inline members),
// std::vector from libstdc++ headers. No stubs.
#include <verif.h>
#include <chain.h>
#include <climits>

// ---- oracles written from the comments ("turn the lowest '1' bit into a '0'", skip-height rule) and from the naive parent walk ----
static int ref_clear_lowest_one(int n)
{
    int r = n; bool found = false;          // (no early exit: CBMC does not reset the unwind counter of a loop that is left through a break)
    for (int i = 0; i < 31; i++) { const bool bit = ((n >> i) & 1) != 0; if (bit && !found) r = n & ~(1 << i); found = found || bit; }
    return r;     // n == 0 stays 0
}
static int ref_skip_height(int h)
{
    if (h < 2) return 0;
    if ((h & 1) == 0) return ref_clear_lowest_one(h);
    return ref_clear_lowest_one(ref_clear_lowest_one(h - 1)) + 1;
}

// Selection of blocks is enumerated by concrete loops (a symbolically selected block is a pointer with symbolic offset into the block array, which the
// translation handles only through slow byte-level reads); requested heights stay symbolic. Every block / pair of blocks of the shape is covered.

// (2) GetAncestor / BuildSkip on a real linear chain of NBLK blocks: every start block, any int target height
#ifndef NBLK
#define NBLK 24
#endif
#ifndef SYMK
#define SYMK 0
#endif
extern "C" void h_ancestor()
{
    CBlockIndex blk[NBLK];
    for (int i = 0; i < NBLK; i++) { blk[i].nHeight = i; blk[i].pprev = i ? &blk[i - 1] : nullptr; blk[i].BuildSkip(); }
    for (int i = 0; i < NBLK; i++) VASSERT(blk[i].pskip == (i ? &blk[ref_skip_height(i)] : nullptr), "BuildSkip: pskip is the ancestor at the skip height");
    // heights inside [0, k] are enumerated (a symbolic height makes every walk fork at every step); heights outside are symbolic
    const int hout = (int)nondet_u32();
    int walks = 0;
    for (int k = 0; k < NBLK; k++) {
        for (int h = 0; h <= k; h++) {
            const CBlockIndex* got = blk[k].GetAncestor(h);
            VASSERT(got == &blk[h], "GetAncestor(h) is the block at height h on the path to genesis");
            walks++;
        }
        VASSERT(blk[k].GetAncestor(-1) == nullptr && blk[k].GetAncestor(k + 1) == nullptr && blk[k].GetAncestor(INT_MAX) == nullptr && blk[k].GetAncestor(INT_MIN) == nullptr,
                "GetAncestor: nullptr just outside [0, height] and at the int extremes");
    }
    {   // any int height, on one block (the walk loop is explored symbolically here: every step forks, so one moderately deep block only)
        const int k = NBLK - 1 < SYMK ? NBLK - 1 : SYMK;
        const CBlockIndex* got = blk[k].GetAncestor(hout);
        verif_observe(got ? (uint64_t)got->nHeight : 999);
        VASSERT(got == ((hout < 0 || hout > k) ? nullptr : &blk[(hout < 0 || hout > k) ? 0 : hout]), "GetAncestor with any int height: the block at that height or nullptr outside [0, height]");
        VWITNESS(got == nullptr && hout > k, "height above the block");
        VWITNESS(got == nullptr && hout < 0, "negative height");
#if SYMK > 2
        VWITNESS(got != nullptr && k - hout > k / 2, "a long walk");
#endif
        VWITNESS(got == &blk[k], "own height");
    }
    VASSERT(walks == NBLK * (NBLK + 1) / 2, "all (block, height) pairs visited");
    VREACH("end");
}

// (3) trees: trunk of TR blocks, branch a of BA blocks and branch b of BB blocks forking after the trunk tip.
//     ids: [0,TR) trunk, [TR,TR+BA) branch a, [TR+BA,TR+BA+BB) branch b
#ifndef TR
#define TR 5
#endif
#ifndef BA
#define BA 4
#endif
#ifndef BB
#define BB 3
#endif
#define NT (TR + BA + BB)
static int t_height(int id) { return id < TR + BA ? id : id - BA; }
static int t_parent(int id) { return id == 0 ? -1 : (id == TR + BA ? TR - 1 : id - 1); }
static int naive_lca(int x, int y)
{
    for (int s = 0; s < NT; s++) if (t_height(x) > t_height(y)) x = t_parent(x);
    for (int s = 0; s < NT; s++) if (t_height(y) > t_height(x)) y = t_parent(y);
    for (int s = 0; s < NT; s++) if (x != y) { x = t_parent(x); y = t_parent(y); }
    return x == y ? x : -1;
}
extern "C" void h_tree()
{
    static_assert(TR >= 1);
    CBlockIndex nd[NT];
    for (int i = 0; i < NT; i++) { nd[i].nHeight = t_height(i); nd[i].pprev = t_parent(i) >= 0 ? &nd[t_parent(i)] : nullptr; nd[i].BuildSkip(); }
    int crossings = 0;
    for (int ia = 0; ia < NT; ia++) for (int ib = 0; ib < NT; ib++) {
        const int x = naive_lca(ia, ib);
        const CBlockIndex* lca = LastCommonAncestor(&nd[ia], &nd[ib]);
        VASSERT(x >= 0 && lca == &nd[x], "LastCommonAncestor equals the naive parent-walk result");
        if (x == TR - 1 && ia >= TR && ib >= TR + BA) crossings++;
    }
    // ancestor lookup across the fork, every height 0..NT
    for (int ia = 0; ia < NT; ia++) for (int h = 0; h <= NT; h++) {
        int z = ia;
        for (int s = 0; s < NT; s++) if (z >= 0 && t_height(z) > h) z = t_parent(z);
        const CBlockIndex* anc = nd[ia].GetAncestor(h);
        VASSERT(anc == (h > t_height(ia) ? nullptr : &nd[z < 0 ? 0 : z]), "GetAncestor on a branch follows the path to genesis through the fork point");
    }
    const int h = (int)nondet_range(0, NT);
    // active chain = trunk + branch a
    CChain chain;
    chain.SetTip(nd[TR + BA - 1]);
    VASSERT(chain.Height() == TR + BA - 1 && chain.Tip() == &nd[TR + BA - 1] && chain.Genesis() == &nd[0], "SetTip: height, tip, genesis");
    VASSERT(chain[h] == (h < TR + BA ? &nd[h >= TR + BA ? 0 : h] : nullptr), "operator[]: block at that height of the active chain");
    int forks_at_trunk = 0;
    for (int ib = 0; ib < NT; ib++) {
        VASSERT(chain.Contains(nd[ib]) == (ib < TR + BA), "Contains: exactly the blocks on the path from the tip to genesis");
        VASSERT(chain.Next(nd[ib]) == (ib + 1 < TR + BA ? &nd[ib + 1 < NT ? ib + 1 : 0] : nullptr), "Next: successor on the active chain, nullptr for the tip and for blocks off the chain");
        const CBlockIndex* fork = chain.FindFork(nd[ib]);
        VASSERT(fork == (ib < TR + BA ? &nd[ib] : &nd[TR - 1]), "FindFork: the block itself if on the chain, else the last common block with the chain");
        if (fork == &nd[TR - 1] && ib >= TR + BA) forks_at_trunk++;
    }
    // re-org to branch b
    chain.SetTip(nd[NT - 1]);
    VASSERT(chain.Height() == t_height(NT - 1), "SetTip re-org: new height");
    for (int ia = 0; ia < NT; ia++) VASSERT(chain.Contains(nd[ia]) == (BB == 0 ? true : (ia < TR || ia >= TR + BA)), "SetTip re-org: chain is now trunk + branch b");
#if BA > 0 && BB > 0
    VASSERT(crossings == BA * BB && forks_at_trunk == BB, "blocks on different branches meet at the trunk tip (count)");
#endif
    verif_observe((uint64_t)crossings);
    VWITNESS(h == NT, "height above every block");
    VWITNESS(h == 0, "genesis height");
    VREACH("end");
}

// (4) locator: heights of the listed blocks, for every start block of a chain of LN blocks
#ifndef LN
#define LN 40
#endif
extern "C" void h_locator()
{
    CBlockIndex blk[LN];
    uint256 hash[LN];
    for (int i = 0; i < LN; i++) {
        hash[i].data()[0] = (unsigned char)(i & 0xff); hash[i].data()[1] = (unsigned char)(i >> 8); hash[i].data()[31] = 0xb1;
        blk[i].nHeight = i; blk[i].pprev = i ? &blk[i - 1] : nullptr; blk[i].phashBlock = &hash[i]; blk[i].BuildSkip();
    }
    int longest = 0;
    for (int k = 0; k < LN; k++) {
        const std::vector<uint256> loc = LocatorEntries(&blk[k]);
        // specification: start at the block, step back 1 block at a time until the list has more than 10 entries, then double the step after
        // every entry; heights are clamped at 0 and the genesis block is always the last entry
        int want[64]; int n = 0; int h = k; int step = 1; bool done = false;
        for (int it = 0; it < 64; it++) if (!done) {
            want[n++] = h;
            if (h == 0) done = true;
            else { h = h - step; if (h < 0) h = 0; if (n > 10) step *= 2; }
        }
        VASSERT(done && (int)loc.size() == n, "locator length");
        bool ok = true, dec = true;
        for (int i = 0; i < 64; i++) if (i < n && i < (int)loc.size()) {
            const int hh = loc[i].data()[0] | (loc[i].data()[1] << 8);
            if (hh != want[i] || loc[i].data()[31] != 0xb1) ok = false;
            if (i > 0 && !(want[i] < want[i - 1])) dec = false;
        }
        VASSERT(ok, "locator lists the blocks at the specified heights (dense for the first entries, then exponentially growing steps)");
        VASSERT(dec && want[0] == k && want[n - 1] == 0, "locator starts at the block, strictly descends and ends at genesis");
        if (n > longest) longest = n;
    }
    VASSERT(LocatorEntries(nullptr).empty(), "no block: empty locator");
    VASSERT(longest >= (LN > 20 ? 14 : 1), "long chains produce locators with doubled steps");
    verif_observe((uint64_t)longest);
    VREACH("end");
}
