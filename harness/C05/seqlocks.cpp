// C05 (2): BIP68 relative locktimes + BIP113 median-time-past on a real CBlockIndex chain.
// Real code: consensus/tx_verify.cpp CalculateSequenceLocks / EvaluateSequenceLocks / SequenceLocks,
//            chain.h CBlockIndex::GetMedianTimePast (std::sort from libstdc++), chain.cpp GetAncestor / BuildSkip.
#include <verif.h>
#include <verif_hash_nondet.h>
#include <consensus/tx_verify.h>
#include <consensus/consensus.h>
#include <primitives/transaction.h>
#include <chain.h>
#include <util/check.h>
#include <vector>

// Assert()/Assume() failure handler of util/check.cpp: reaching it is a failure of the code under test
void assertion_fail(const std::source_location&, std::string_view) { VASSERT(false, "Assert()/Assume() in code under test failed"); __builtin_trap(); }

#ifndef L        // number of existing blocks: heights 0..L-1; the block under evaluation has height L
#define L 3
#endif
#ifndef NIN
#define NIN 2
#endif

// reference median-time-past, written from BIP113: median of the timestamps of the block and its (up to) 10 predecessors;
// for an even count n the element of rank n/2 (0-based) of the sorted list, i.e. the upper median.
// Counting formulation (no sorting): m has rank n/2 iff #{< m} <= n/2 < #{<= m}.
static int64_t ref_mtp(const uint32_t* t, int h)
{
    const int lo = h - 10 > 0 ? h - 10 : 0;
    const int n = h - lo + 1;
    int64_t res = -1;
    for (int j = lo; j <= h; j++) {
        int lt = 0, le = 0;
        for (int k = lo; k <= h; k++) { if (t[k] < t[j]) lt++; if (t[k] <= t[j]) le++; }
        if (lt <= n / 2 && n / 2 < le) res = t[j];
    }
    return res;
}

extern "C" void h_seqlocks()
{
    uint32_t t[L + 1];
    CBlockIndex chain[L + 1];
    for (int i = 0; i <= L; i++) {
        t[i] = nondet_u32();
#ifdef MONO    // timestamps non-decreasing along the chain (values still full 32-bit)
        if (i) VASSUME(t[i - 1] <= t[i]);
#endif
        chain[i].nHeight = i;
        chain[i].nTime = t[i];
        chain[i].pprev = i ? &chain[i - 1] : nullptr;
        chain[i].BuildSkip();                       // real skip-list construction, so GetAncestor takes pskip edges
    }
    const CBlockIndex& block = chain[L];            // block being connected / next block after tip chain[L-1]

    uint32_t seq[NIN + 1]; int ch[NIN + 1];
    CMutableTransaction m;
    m.vin.resize(NIN); m.vout.resize(1);
    const uint32_t version = nondet_u32();
    m.version = version; m.nLockTime = nondet_u32();
    std::vector<int> prevHeights(NIN);
    for (int i = 0; i < NIN; i++) {
        seq[i] = nondet_u32(); m.vin[i].nSequence = seq[i];
        ch[i] = (int)nondet_range(0, L);           // confirmation height of the spent output (== L: created in this very block / mempool parent)
        prevHeights[i] = ch[i];
    }
    const CTransaction tx(std::move(m));
    const int flags = nondet_i32();

    // median-time-past of every block equals the reference
    int64_t mtp[L + 1];                             // reference MTP per height (concrete loop bounds)
    for (int i = 0; i < L; i++) {
        const int64_t got_mtp = chain[i].GetMedianTimePast();
        verif_observe((uint64_t)got_mtp);
        mtp[i] = ref_mtp(t, i);
        VASSERT(got_mtp == mtp[i], "GetMedianTimePast == median (rank n/2) of the last min(11,h+1) timestamps");
    }

    // The real functions are run once per concrete combination of coin heights (symex needs to know which CBlockIndex
    // GetAncestor lands on, otherwise the size of the array handed to std::sort is symbolic); everything else stays symbolic.
    std::pair<int, int64_t> lp{0, 0}; bool ev = false, sl = false;
#if NIN == 0
    { {
#elif NIN == 1
    for (int a = 0; a <= L; a++) { if (ch[0] == a) { prevHeights[0] = a;
#else
    for (int a = 0; a <= L; a++) for (int b = 0; b <= L; b++) { if (ch[0] == a && ch[1] == b) { prevHeights[0] = a; prevHeights[1] = b;
#endif
#ifdef COMPOSED
        sl = SequenceLocks(tx, flags, prevHeights, block);      // the composed entry point
#else
        lp = CalculateSequenceLocks(tx, flags, prevHeights, block);
        ev = EvaluateSequenceLocks(block, lp);
#endif
    } }

    // reference from BIP68 text
    const bool enforce = version >= 2 && (flags & 1);
    bool ok = true;
    int64_t want_h = -1, want_t = -1;
    for (int i = 0; i < NIN; i++) {
        const bool disabled = (seq[i] >> 31) & 1;
        if (!enforce) { VASSERT(prevHeights[i] == ch[i], "prevHeights untouched when BIP68 is not enforced"); continue; }
        if (disabled) { VASSERT(prevHeights[i] == 0, "disabled input: prevHeights entry zeroed"); continue; }
        VASSERT(prevHeights[i] == ch[i], "enabled input: prevHeights entry unchanged");
        const int64_t v = seq[i] & 0xffff;
        if ((seq[i] >> 22) & 1) {
            // time-based: 512-second units counted from the MTP of the block before the one containing the coin
            const int before = ch[i] >= 1 ? ch[i] - 1 : 0;
            int64_t coin_time = 0;
            for (int k = 0; k < L; k++) if (before == k) coin_time = mtp[k];
            const int64_t first_ok = coin_time + v * 512;   // first MTP(prev) at which the input is spendable
            if (!(first_ok <= mtp[L - 1])) ok = false;
            if (first_ok - 1 > want_t) want_t = first_ok - 1;
        } else {
            const int64_t first_ok = (int64_t)ch[i] + v;    // first block height at which the input is spendable
            if (!(first_ok <= L)) ok = false;
            if (first_ok - 1 > want_h) want_h = first_ok - 1;
        }
    }
    verif_observe((uint64_t)lp.first); verif_observe((uint64_t)lp.second);
#ifndef COMPOSED
    VASSERT(lp.first == want_h && lp.second == want_t, "CalculateSequenceLocks == (last invalid height, last invalid time) per BIP68");
    VASSERT(ev == ok, "EvaluateSequenceLocks(CalculateSequenceLocks) accepts iff every enabled relative lock is satisfied");
    sl = ev;
#else
    VASSERT(sl == ok, "SequenceLocks accepts iff every enabled relative lock is satisfied");
#endif

    verif_observe(sl);

    // EvaluateSequenceLocks alone on an arbitrary lock pair (full width)
    const int ah = nondet_i32(); const int64_t at = nondet_i64();
    const bool ev2 = EvaluateSequenceLocks(block, std::make_pair(ah, at));
    VASSERT(ev2 == ((int64_t)ah < L && at < mtp[L - 1]), "EvaluateSequenceLocks: both components strictly below height / MTP(prev)");

    VWITNESS(sl && enforce, "some enforced tx accepted");
#if NIN > 0
    VWITNESS(!sl, "some tx rejected");
    VWITNESS(sl && enforce && !((seq[0] >> 31) & 1) && !((seq[0] >> 22) & 1) && ch[0] + (int)(seq[0] & 0xffff) == L && (seq[0] & 0xffff) > 0, "height lock exactly satisfied accepted");
    VWITNESS(!sl && enforce && !((seq[0] >> 31) & 1) && !((seq[0] >> 22) & 1) && ch[0] + (int)(seq[0] & 0xffff) == L + 1, "height lock one block early rejected");
    VWITNESS(sl && enforce && !((seq[0] >> 31) & 1) && ((seq[0] >> 22) & 1) && (seq[0] & 0xffff) > 0 && want_t + 1 == mtp[L - 1], "time lock exactly satisfied accepted");
    VWITNESS(!sl && enforce && !((seq[0] >> 31) & 1) && ((seq[0] >> 22) & 1) && want_t == mtp[L - 1], "time lock one second early rejected");
    VWITNESS(sl && enforce && ((seq[0] >> 31) & 1) && (seq[0] & 0xffff) == 0xffff, "disable flag ignores lock");
    VWITNESS(sl && !enforce && version == 1 && seq[0] == 0xffff, "version 1 not subject to BIP68");
#endif
    VREACH("end");
}
