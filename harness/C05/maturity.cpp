// C05 (4): coinbase maturity branch of Consensus::CheckTxInputs (consensus/tx_verify.cpp): a coinbase output can be spent only
// with at least COINBASE_MATURITY (100) confirmations, i.e. spendHeight - coinHeight >= 100; non-coinbase outputs are unaffected.
// The coins view is the harness (CCoinsViewCache::HaveInputs/AccessCoin answered from a table; the cache itself is C15's subject).
#include <verif.h>
#include <verif_hash_nondet.h>
#include <coins.h>
#include <consensus/tx_verify.h>
#include <consensus/validation.h>
#include <primitives/transaction.h>
#include <util/moneystr.h>
#include <string.h>
#include <limits.h>

#ifndef NIN
#define NIN 2
#endif

template <auto M> struct Rob { friend const std::string& reason_of(const ValidationState<TxValidationResult>& s) { return s.*M; } };
template struct Rob<&ValidationState<TxValidationResult>::m_reject_reason>;
const std::string& reason_of(const ValidationState<TxValidationResult>& s);

static Coin g_coin[NIN + 1];
static const Coin g_empty;
bool CCoinsViewCache::HaveInputs(const CTransaction& tx) const { return true; }   // all inputs present and unspent (missing inputs: C01)
const Coin& CCoinsViewCache::AccessCoin(const COutPoint& o) const { return o.n < NIN ? g_coin[o.n] : g_empty; }
std::string FormatMoney(const CAmount) { return std::string(); }
static bool str_is(const std::string& s, const char* lit) { return s.size() == strlen(lit) && memcmp(s.data(), lit, strlen(lit)) == 0; }

extern "C" void h_maturity()
{
    const int64_t MAXM = 2100000000000000LL;
    uint32_t ch[NIN + 1]; bool cb[NIN + 1]; int64_t val[NIN + 1];
    CMutableTransaction m;
    m.vin.resize(NIN); m.vout.resize(1);
    m.vout[0].nValue = 0;
    for (int i = 0; i < NIN; i++) {
        uint256 u; u.data()[0] = (uint8_t)(i + 1);
        m.vin[i].prevout.hash = Txid::FromUint256(u); m.vin[i].prevout.n = i;
        ch[i] = (uint32_t)nondet_range(0, 0x7fffffff);      // Coin::nHeight is a 31-bit field: full domain
        cb[i] = nondet_bool();
        val[i] = (int64_t)nondet_range(0, MAXM / NIN);      // in-range values: the value rules are C01's subject
        g_coin[i].out.nValue = val[i]; g_coin[i].nHeight = ch[i]; g_coin[i].fCoinBase = cb[i];
    }
    const CTransaction tx(std::move(m));
    const int spend = (int)nondet_range(0, INT_MAX);          // height of the block that would include tx: every non-negative int
    CAmount fee = 0;
    alignas(16) static unsigned char view_storage[sizeof(CCoinsViewCache)];
    const CCoinsViewCache& view = *reinterpret_cast<const CCoinsViewCache*>(view_storage);
    TxValidationState st;
    const bool ok = Consensus::CheckTxInputs(tx, st, view, spend, fee);

    // reference from the property text: every spent coinbase output has at least 100 confirmations.
    // confirmations of a coin at height c when the spending tx is in block s: s - c (+1 counts the coin's own block: depth);
    // rule: s - c >= 100
    bool premature = false;
    for (int i = 0; i < NIN; i++) if (cb[i] && (int64_t)spend - (int64_t)ch[i] < 100) premature = true;
    verif_observe(ok); verif_observe(premature);
    VASSERT(ok == !premature, "CheckTxInputs (values in range) rejects iff some coinbase input has spendHeight - coinHeight < 100");
    if (!ok) {
        VASSERT(st.GetResult() == TxValidationResult::TX_PREMATURE_SPEND && str_is(reason_of(st), "bad-txns-premature-spend-of-coinbase"), "reject reason is premature spend of coinbase");
    }
    VWITNESS(ok && cb[0] && (int64_t)spend - ch[0] == 100, "coinbase spent at exactly 100 confirmations accepted");
    VWITNESS(!ok && cb[0] && (int64_t)spend - ch[0] == 99, "coinbase spent at 99 confirmations rejected");
    VWITNESS(ok && !cb[0] && spend == (int)ch[0], "non-coinbase output spendable immediately");
    VWITNESS(!ok && cb[0] && spend < (int)ch[0], "spend height below coin height rejected");
#if NIN > 1
    VWITNESS(!ok && !(cb[0] && (int64_t)spend - ch[0] < 100), "second input alone triggers the rejection");
#endif
    VREACH("end");
}
