// C05 (3): BIP113 median-time-past on a real CBlockIndex chain long enough to exercise the 11-block window.
// Real code: chain.h CBlockIndex::GetMedianTimePast (std::sort from libstdc++ headers).
#include <verif.h>
#include <chain.h>

#ifndef L        // chain heights 0..L-1
#define L 12
#endif

extern "C" void h_mtp()
{
    uint32_t t[L];
    CBlockIndex chain[L];
#ifdef TBITS   // timestamps = fixed base + symbolic TBITS-bit offset: every order pattern of 11 values incl. ties needs >= 4 bits
    const uint32_t base = 1600000000u;
#endif
    for (int i = 0; i < L; i++) {
#ifdef TBITS
        t[i] = base + (uint32_t)nondet_range(0, (1u << TBITS) - 1);
#else
        t[i] = nondet_u32();
#endif
#ifdef MONO    // timestamps non-decreasing along the chain (values still full 32-bit)
        if (i) VASSUME(t[i - 1] <= t[i]);
#endif
        chain[i].nHeight = i; chain[i].nTime = t[i];
        chain[i].pprev = i ? &chain[i - 1] : nullptr;
    }
    const int64_t got = chain[L - 1].GetMedianTimePast();
    verif_observe((uint64_t)got);
    // reference (BIP113): median of the timestamps of the block and its up-to-10 predecessors = element of rank n/2 (0-based) of
    // the ascending list. Independent computation: odd-even transposition network of compare-exchange steps (no data-dependent control flow).
    const int lo = L - 11 > 0 ? L - 11 : 0;
    const int n = L - lo;
    int64_t s[11];
    for (int k = 0; k < n; k++) s[k] = t[lo + k];
    for (int r = 0; r < n; r++)
        for (int k = r & 1; k + 1 < n; k += 2) { const int64_t x = s[k], y = s[k + 1]; s[k] = x < y ? x : y; s[k + 1] = x < y ? y : x; }
    VASSERT(got == s[n / 2], "MTP has rank n/2 among the last min(11,height+1) timestamps");
    int lt = 0, le = 0;
    for (int k = lo; k < L; k++) { if ((int64_t)t[k] < got) lt++; if ((int64_t)t[k] <= got) le++; }
#if L > 11 && defined(MONO)
    VASSERT(got == t[L - 6], "monotone chain: MTP is the timestamp of the 6th block from the tip");
    VWITNESS(t[L - 12] < t[L - 11] && t[L - 7] < t[L - 6] && t[L - 6] < t[L - 5], "strictly increasing around the median reachable");
#elif L > 11 && (!defined(TBITS) || TBITS >= 4)
    // a block outside the window has no influence: witness that it can be larger than everything and the MTP still is the window median
    VWITNESS(t[0] > got && lt == 5 && le == 6, "11 distinct window timestamps, MTP is the 6th smallest, block 12 back ignored");
#endif
#if L >= 3 && !defined(MONO)
    VWITNESS(t[L - 1] < t[L - 2] && got == t[L - 1], "non-monotone timestamps reachable");
#endif
    VREACH("end");
}
