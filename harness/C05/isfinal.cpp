// C05 (1): IsFinalTx == absolute-locktime rule of BIP65/BIP113 text. Real code: consensus/tx_verify.cpp IsFinalTx.
#include <verif.h>
#include <verif_hash_nondet.h>
#include <consensus/tx_verify.h>
#include <primitives/transaction.h>

#ifndef NIN
#define NIN 2
#endif

extern "C" void h_isfinal()
{
    uint32_t seq[NIN + 1];
    CMutableTransaction m;
    m.vin.resize(NIN); m.vout.resize(1);
    m.version = nondet_u32();
    const uint32_t lock = nondet_u32();
    m.nLockTime = lock;
    for (int i = 0; i < NIN; i++) { seq[i] = nondet_u32(); m.vin[i].nSequence = seq[i]; m.vin[i].prevout.n = nondet_u32(); }
    const CTransaction tx(std::move(m));
    const int height = nondet_i32();          // full 32-bit domain (callers pass heights >= 0; nothing is assumed)
    const int64_t time = nondet_i64();        // full 64-bit domain (block time, or median-time-past once BIP113 is active)

    const bool got = IsFinalTx(tx, height, time);

    // reference written from the rule text: nLockTime==0 -> final; nLockTime < 500,000,000 is a block height, otherwise a unix time;
    // the lock is satisfied when the locktime value is strictly less than the block's height resp. time;
    // an unsatisfied lock is ignored iff every input has nSequence == 0xffffffff.
    bool all_final = true;
    for (int i = 0; i < NIN; i++) if (seq[i] != 0xffffffffu) all_final = false;
    const __int128 L = lock;
    const bool is_height = lock < 500000000u;
    const bool satisfied = lock == 0 || (is_height ? L < (__int128)height : L < (__int128)time);
    const bool want = satisfied || all_final;
    verif_observe(got); verif_observe(want);
    VASSERT(got == want, "IsFinalTx == (locktime zero or strictly below height/time by the 500,000,000 threshold, or all inputs SEQUENCE_FINAL)");

    // named boundary cases from the property text: exactly at the lock is NOT final, one above is
#if NIN > 0
    if (seq[0] != 0xffffffffu && lock != 0) {
        if (is_height && height == (int64_t)lock) VASSERT(!got, "height lock: block at height == nLockTime is not final");
        if (is_height && (int64_t)height == (int64_t)lock + 1) VASSERT(got, "height lock: block at height == nLockTime+1 is final");
        if (!is_height && time == (int64_t)lock) VASSERT(!got, "time lock: time == nLockTime is not final");
        if (!is_height && time == (int64_t)lock + 1) VASSERT(got, "time lock: time == nLockTime+1 is final");
    }
    VWITNESS(!got && is_height && height == (int64_t)lock, "height lock exactly at boundary rejected");
    VWITNESS(got && is_height && lock != 0 && (int64_t)height == (int64_t)lock + 1 && seq[0] == 0, "height lock one past boundary accepted");
    VWITNESS(!got && lock == 500000000u && time == 500000000, "threshold value is a time lock, rejected at boundary");
    VWITNESS(got && lock == 499999999u && height == 500000000 && time == 0 && seq[0] == 0, "threshold-1 is a height lock");
    VWITNESS(got && !satisfied, "SEQUENCE_FINAL override reachable");
#if NIN > 1
    VWITNESS(!got && seq[0] == 0xffffffffu, "one final input is not enough");
#endif
#else
    VASSERT(got, "no inputs: vacuously final");
#endif
    VWITNESS(got && lock == 0, "zero locktime final");
    VREACH("end");
}
