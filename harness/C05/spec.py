from vlib import H
PROPERTY = 'C05'
LEVEL = 'model_checking'
CLAIM = ('placeholder')
LINK = ['consensus/tx_verify.cpp', 'primitives/transaction.cpp', 'script/script.cpp', 'uint256.cpp', 'hash.cpp']
HARNESSES = [
    H('isfinal', 'isfinal.cpp', 'h_isfinal', link=LINK, variants=[{'NIN': n} for n in (0, 1, 2, 3)],
      functions=['IsFinalTx (consensus/tx_verify.cpp)', 'CTransaction::CTransaction(CMutableTransaction&&)'],
      stubs=['CSHA256 replaced by unconstrained-output model (txid irrelevant)'],
      unwind=8, timeout=120, objbits=10,
      bounds='nin 0..3; nLockTime all 32 bits, nSequence all 32 bits, height all int32, time all int64'),
    H('seqlocks', 'seqlocks.cpp', 'h_seqlocks', link=LINK + ['chain.cpp'], variants=[{'L': 2, 'NIN': 1}, {'L': 3, 'NIN': 2}],
      functions=['CalculateSequenceLocks', 'EvaluateSequenceLocks', 'SequenceLocks (consensus/tx_verify.cpp)', 'CBlockIndex::GetMedianTimePast (chain.h, std::sort)', 'CBlockIndex::GetAncestor / BuildSkip (chain.cpp)'],
      unwind=16, unwindset='verif_ctlz.0:66', timeout=300, objbits=10,
      bounds='chain of L existing blocks'),
]
