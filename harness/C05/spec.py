from vlib import H
PROPERTY = 'C05'
LEVEL = 'model_checking'
CLAIM = ('Timelock and maturity kernels executed symbolically on the real code and compared with references written from BIP65/68/113 and the property text: '
         '(1) IsFinalTx == [nLockTime==0 or nLockTime strictly below the block height (nLockTime<500,000,000) resp. the cutoff time, or every input SEQUENCE_FINAL], full 32/32/64-bit domain, nin<=3, '
         'incl. the exactly-at-the-lock / one-past boundaries; (2) CBlockIndex::GetMedianTimePast (real std::sort) == rank-n/2 element of the last min(11,height+1) timestamps on real pprev-linked chains; '
         '(3) CalculateSequenceLocks/EvaluateSequenceLocks/SequenceLocks on a real CBlockIndex chain with real GetAncestor/BuildSkip/GetMedianTimePast: returned (height,time) pair and verdict equal the BIP68 reference '
         '(version>=2 and flag, disable bit 31, type bit 22, 16-bit value, 512 s granularity, time measured from the MTP of the block before the coin\'s block, first valid height = coinHeight+value) for all 32-bit nSequence values; '
         '(4) Consensus::CheckTxInputs rejects with bad-txns-premature-spend-of-coinbase iff some coinbase input has spendHeight-coinHeight<100, all 31-bit coin heights and non-negative spend heights.')
LINK = ['consensus/tx_verify.cpp', 'primitives/transaction.cpp', 'script/script.cpp', 'uint256.cpp', 'hash.cpp']
ISORT = '_ZSt22__final_insertion_sortIPlN9__gnu_cxx5__ops15_Iter_less_iterEEvT_S4_T0_'
HASHSTUB = 'CSHA256 replaced by unconstrained-output model (txid values are irrelevant to these functions)'
HARNESSES = [
    H('isfinal', 'isfinal.cpp', 'h_isfinal', link=LINK, variants=[{'NIN': n} for n in (0, 1, 2)], tvariants=[{'NIN': n} for n in (0, 1, 2, 3)],
      functions=['IsFinalTx (consensus/tx_verify.cpp)', 'CTransaction::CTransaction(CMutableTransaction&&)'],
      stubs=[HASHSTUB], unwind=8, timeout=300, objbits=10,
      bounds='nin 0..2 (thorough 0..3); nLockTime all 32 bits, every nSequence all 32 bits, height all int32, time all int64'),
    H('mtp', 'mtp.cpp', 'h_mtp', link=[],
      variants=[{'L': n} for n in (1, 2, 3, 6)] + [{'L': 12, 'MONO': 1}, {'L': 13, 'MONO': 1}, {'L': 12, 'TBITS': 3}],
      tvariants=[{'L': n} for n in (1, 2, 3, 4, 5, 6, 7)] + [{'L': n, 'MONO': 1} for n in (10, 11, 12, 13, 14)] + [{'L': 11, 'TBITS': 3}, {'L': 12, 'TBITS': 2}, {'L': 12, 'TBITS': 3}, {'L': 13, 'TBITS': 3}],
      functions=['CBlockIndex::GetMedianTimePast (chain.h, std::sort from libstdc++ headers)'],
      unwind=64, unwindset=','.join('%s.%d:13' % (ISORT, k) for k in (6, 7, 8, 9)), timeout=600, objbits=10,
      bounds='arbitrary (non-monotone) full 32-bit timestamps for chains of 1,2,3,6 blocks (thorough 1..7); 11-block window (chains of 12,13 blocks): '
             '(a) full 32-bit timestamps assumed non-decreasing, (b) arbitrary order with timestamps in [1600000000, 1600000000+7] (3-bit offsets; 4-bit offsets, which would cover '
             'every order pattern of 11 values, do not finish in 100 s and are NOT claimed)'),
    H('seqlocks', 'seqlocks.cpp', 'h_seqlocks', link=LINK + ['chain.cpp'],
      variants=[{'L': 2, 'NIN': 1}, {'L': 2, 'NIN': 2}, {'L': 3, 'NIN': 2, 'MONO': 1}, {'L': 3, 'NIN': 2, 'COMPOSED': 1, 'MONO': 1}],
      tvariants=[{'L': 2, 'NIN': 1}, {'L': 2, 'NIN': 2}, {'L': 2, 'NIN': 2, 'COMPOSED': 1}, {'L': 3, 'NIN': 1}, {'L': 3, 'NIN': 2, 'MONO': 1}, {'L': 3, 'NIN': 2, 'COMPOSED': 1, 'MONO': 1},
                 {'L': 4, 'NIN': 1}, {'L': 4, 'NIN': 2, 'MONO': 1}],
      functions=['CalculateSequenceLocks', 'EvaluateSequenceLocks', 'SequenceLocks (consensus/tx_verify.cpp)', 'CBlockIndex::GetMedianTimePast (chain.h, std::sort)', 'CBlockIndex::GetAncestor / BuildSkip (chain.cpp)'],
      stubs=[HASHSTUB, 'assertion_fail (util/check.cpp) replaced by a failing assertion'],
      unwind=8, unwindset=lambda v: ','.join('%s.%d:%d' % (ISORT, k, min(v['L'], 11) + 1) for k in (6, 7, 8, 9)), timeout=600, objbits=10,
      assumptions=['coin confirmation heights in [0, height of the evaluated block] (what ConnectBlock / the mempool pass)', 'MONO variants: block timestamps non-decreasing along the chain'],
      bounds='real chain of L existing blocks (heights 0..L-1, skip pointers built by BuildSkip) plus the evaluated block at height L; L=2: nin 1..2 with arbitrary 32-bit timestamps; '
             'L=3: nin=2 with non-decreasing 32-bit timestamps; version, flags, every nSequence full 32-bit symbolic; coin heights symbolic in 0..L (the real functions run once per coin-height combination)'),
    H('maturity', 'maturity.cpp', 'h_maturity', link=LINK, variants=[{'NIN': 1}, {'NIN': 2}], tvariants=[{'NIN': 1}, {'NIN': 2}, {'NIN': 3}], nofmt=True,
      functions=['Consensus::CheckTxInputs (consensus/tx_verify.cpp): coinbase maturity branch', 'Coin::IsCoinBase'],
      stubs=[HASHSTUB, 'CCoinsViewCache::HaveInputs/AccessCoin answered from a harness coin table (phantom view object)', 'FormatMoney -> empty string', 'tinyformat: strprintf returns empty strings (ref/nofmt/tinyformat.h)'],
      assumptions=['all inputs present/unspent with values in [0, MAX_MONEY/nin] and a zero-value output, so that only the maturity rule can fail (the other CheckTxInputs rules: C01)'],
      unwind=12, memunwind=104, timeout=600, objbits=10,
      bounds='nin 1..2 (thorough 3); coin height all 31 bits, spend height all of 0..INT_MAX, coinbase flag symbolic'),
]
