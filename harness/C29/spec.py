from vlib import H
PROPERTY = 'C29'
LEVEL = 'model_checking'
CLAIM = ('Context-free package checks of policy/packages.cpp executed symbolically on real CTransaction objects and the real libstdc++ unordered_set code, against predicates written from the property text and the '
         'documentation in policy/packages.h: IsWellFormedPackage accepts iff count <= 25, (count <= 1 or total weight <= 404,000), no duplicate txid, no transaction spends a same-or-later package transaction, and no prevout is spent by '
         'two different transactions, with the documented reject reason in the documented order; IsTopoSortedPackage / IsConsistentPackage equal their clauses; IsChildWithParents iff >= 2 transactions and every non-last '
         'transaction is spent by the last; IsChildWithParentsTree iff additionally no parent spends a parent. The topology (which txid and output index every input spends, over the package txids and two external txids) is symbolic.')
LINK = ['policy/packages.cpp', 'primitives/transaction.cpp', 'script/script.cpp', 'uint256.cpp', 'hash.cpp']
HT_TXID = '_ZNSt10_HashtableI22transaction_identifierILb0EES1_SaIS1_ENSt8__detail9_IdentityESt8equal_toIS1_E16SaltedTxidHasherNS3_18_Mod_range_hashingENS3_20_Default_ranged_hashENS3_20_Prime_rehash_policyENS3_17_Hashtable_traitsILb1ELb1ELb1EEEE13_M_rehash_auxEmSt17integral_constantIbLb1EE'
HT_OUTP = '_ZNSt10_HashtableI9COutPointS0_SaIS0_ENSt8__detail9_IdentityESt8equal_toIS0_E20SaltedOutpointHasherNS2_18_Mod_range_hashingENS2_20_Default_ranged_hashENS2_20_Prime_rehash_policyENS2_17_Hashtable_traitsILb0ELb1ELb1EEEE13_M_rehash_auxEmSt17integral_constantIbLb1EE'
# bucket arrays are initialised by a 13-iteration loop (first prime bucket count); every other loop walks at most (number of keys + 1) nodes / transactions / inputs
US = ','.join(['%s.0:16' % HT_TXID, '%s.0:16' % HT_OUTP, 'll_memset.0:112', 'll_memcpy.0:40', 'll_memmove.0:40', 'll_memmove.1:40', 'memcmp.0:34', 'strlen.0:40'])
FN = ['IsWellFormedPackage', 'IsTopoSortedPackage (both overloads)', 'IsConsistentPackage', 'IsChildWithParents', 'IsChildWithParentsTree (policy/packages.cpp)', 'GetTransactionWeight',
      'std::unordered_set<Txid, SaltedTxidHasher> / std::unordered_set<COutPoint, SaltedOutpointHasher> (libstdc++ hashtable headers)', 'CTransaction(CMutableTransaction&&), shared_ptr<const CTransaction>']
ST = ['CSHA256 replaced by a model returning the harness-chosen transaction id (txid = wtxid = id, no witnesses)', 'SipHash (PresaltedSipHasher) replaced by a constant hash; salts not drawn (SaltedTxidHasher/SaltedOutpointHasher constructors)',
      'std::_Prime_rehash_policy integer model (tool/models/stl_models.cpp)', 'assertion_fail -> CBMC assertion', 'tinyformat -> empty strings']
HARNESSES = [
    H('pkg', 'pkg.cpp', 'h_pkg', link=LINK, variants=[{'NTX': 1, 'NIN_CHILD': 1}, {'NTX': 1, 'NIN_CHILD': 2}, {'NTX': 2}, {'NTX': 2, 'DUP': 1}, {'NTX': 3, 'ONLY_CWP': 1}, {'NTX': 3, 'ONLY_WELLFORMED': 1}], tvariants=[{'NTX': 1, 'NIN_CHILD': 1}, {'NTX': 1, 'NIN_CHILD': 2}, {'NTX': 2}, {'NTX': 2, 'DUP': 1}, {'NTX': 3, 'ONLY_CWP': 1}, {'NTX': 3, 'ONLY_WELLFORMED': 1}, {'NTX': 3, 'DUP': 2}],
      functions=FN, stubs=ST, shadow=['nofmt'], unwind=15, memunwind=0, unwindset=US, timeout=900, objbits=11,
      assumptions=['package txids are pairwise distinct constants except in the DUP shapes (the public IsTopoSortedPackage documents this precondition)', 'no witnesses'],
      bounds='packages of 1 transaction (1 or 2 inputs), 2 transactions (1+2 inputs, all five functions), 3 transactions (1+1+2 inputs; IsWellFormedPackage and the two child-with-parents functions in separate queries); '
             'every input spends (txid selector over package txids + 2 external txids, output index 0..1), all symbolic; duplicate-txid shapes (tx1==tx0, thorough also tx2==tx0); '
             'mempool-level outcome of AcceptPackage is out of scope'),
    H('pkg_limits', 'pkg.cpp', 'h_pkg', link=LINK, defines={'FIXED_TOPOLOGY': 1, 'ONLY_WELLFORMED': 1},
      variants=[{'NTX': 25, 'NIN_CHILD': 1}, {'NTX': 26, 'NIN_CHILD': 1}, {'NTX': 2, 'BIGLEN': 100835}, {'NTX': 2, 'BIGLEN': 100836, 'OVERWEIGHT': 1}],
      functions=FN, stubs=ST, shadow=['nofmt'], unwind=40, memunwind=0, unwindset=US.replace('.0:16', '.0:40').replace('ll_memset.0:112', 'll_memset.0:260'), timeout=900, objbits=11,
      bounds='limit shapes with a fixed conflict-free topology: 25 / 26 one-input transactions; two transactions of total weight exactly 404,000 / 404,004'),
]
