// C29: context-free package checks (policy/packages.cpp): IsTopoSortedPackage, IsConsistentPackage, IsWellFormedPackage,
// IsChildWithParents, IsChildWithParentsTree on real CTransaction objects and real std::unordered_set<Txid/COutPoint, Salted*Hasher>
// (libstdc++ hashtable headers). Transaction ids are chosen by the harness through the hash model below; the topology (which txid and
// which output index every input spends) is symbolic.
#include <verif.h>
#define VERIF_NO_RANDOM_STUBS
#include <verif_stubs_common.h>
#include <policy/packages.h>
#include <policy/policy.h>
#include <consensus/validation.h>
#include <primitives/transaction.h>
#include <crypto/sha256.h>
#include <crypto/siphash.h>
#include <util/hasher.h>
#include <string.h>

#ifndef NTX
#define NTX 2
#endif
#ifndef NIN_CHILD     // inputs of the last transaction
#define NIN_CHILD 2
#endif
#ifndef NIN_PARENT    // inputs of every other transaction
#define NIN_PARENT 1
#endif
#ifndef BIGLEN        // scriptSig length of tx0's first input (weight-limit shapes)
#define BIGLEN 0
#endif
#define NIN_OF(i) ((i) == NTX - 1 ? NIN_CHILD : NIN_PARENT)
#define NIN_MAX (NIN_CHILD > NIN_PARENT ? NIN_CHILD : NIN_PARENT)
#define NEXT 2                        // external (non-package) txids

// ---- hash model: the digest of the next transaction is a harness-chosen id (first byte), so txids are known to the harness.
static uint8_t g_next_id;
CSHA256::CSHA256() {}
CSHA256& CSHA256::Write(const unsigned char*, size_t len) { bytes += len; return *this; }
CSHA256& CSHA256::Reset() { bytes = 0; return *this; }
void CSHA256::Finalize(unsigned char hash[OUTPUT_SIZE]) { memset(hash, 0, 32); hash[0] = g_next_id; }
// ---- salted hashers: SipHash replaced by a constant hash (a valid hash function: hash quality is irrelevant to the property; all keys
// share one bucket chain, so every lookup is decided by the real key-equality walk and no bucket index is symbolic), salts are not drawn
SaltedTxidHasher::SaltedTxidHasher() : m_hasher{0, 0} {}
SaltedOutpointHasher::SaltedOutpointHasher() : m_hasher{0, 0} {}
uint64_t PresaltedSipHasher::operator()(const uint256&) const noexcept { return 0; }
uint64_t PresaltedSipHasher::operator()(const uint256&, uint32_t) const noexcept { return 0; }

template <auto M> struct Rob { friend const std::string& reason_of(const ValidationState<PackageValidationResult>& s) { return s.*M; } };
template struct Rob<&ValidationState<PackageValidationResult>::m_reject_reason>;
const std::string& reason_of(const ValidationState<PackageValidationResult>& s);
static bool str_is(const std::string& s, const char* lit) { return s.size() == strlen(lit) && memcmp(s.data(), lit, strlen(lit)) == 0; }
static uint64_t cs_len(uint64_t n) { return n < 253 ? 1 : n <= 0xffff ? 3 : n <= 0xffffffffULL ? 5 : 9; }

extern "C" void h_pkg()
{
    // ids: package transaction i has txid first byte id[i]; externals 0xE0, 0xE1
    uint8_t id[NTX + 1];
    uint8_t pid[NTX][NIN_MAX + 1]; uint32_t pn[NTX][NIN_MAX + 1];   // prevout (txid first byte, index) of every input
    Package pkg;
    pkg.resize(NTX);
    for (int i = 0; i < NTX; i++) {
#ifdef DUP
        id[i] = (uint8_t)((i == DUP) ? 1 : i + 1);        // transaction DUP has the same txid as transaction 0
#else
        id[i] = (uint8_t)(i + 1);
#endif
    }
    for (int i = 0; i < NTX; i++) {
        CMutableTransaction m;
        m.vin.resize(NIN_OF(i)); m.vout.resize(1);
        for (int k = 0; k < NIN_OF(i); k++) {
#ifdef FIXED_TOPOLOGY   // many-transaction shapes: independent transactions spending distinct external outputs
            pid[i][k] = 0xE0; pn[i][k] = (uint32_t)(i * NIN_MAX + k);
#else
            const unsigned sel = (unsigned)nondet_range(0, NTX + NEXT - 1);   // which txid this input spends: a package member or an external one
            uint8_t b = 0; for (int q = 0; q < NTX; q++) if (sel == (unsigned)q) b = id[q];
            if (sel >= NTX) b = (uint8_t)(0xE0 + (sel - NTX));
            pid[i][k] = b; pn[i][k] = (uint32_t)nondet_range(0, 1);
#endif
            uint256 u; u.data()[0] = pid[i][k];
            m.vin[k].prevout.hash = Txid::FromUint256(u); m.vin[k].prevout.n = pn[i][k];
        }
#if BIGLEN > 0
        if (i == 0 && NIN_OF(0) > 0) m.vin[0].scriptSig.resize_uninitialized(BIGLEN);
#endif
        g_next_id = id[i];
        pkg[i] = CTransactionRef(new CTransaction(std::move(m)));
    }

    // ---- reference predicates, from the property text and the documentation in policy/packages.h
    bool dup = false;
    for (int i = 0; i < NTX; i++) for (int j = 0; j < i; j++) if (id[i] == id[j]) dup = true;
    // sorted: no transaction spends an output of a transaction at the same or a later position
    bool sorted = true;
    for (int i = 0; i < NTX; i++) for (int k = 0; k < NIN_OF(i); k++) for (int j = i; j < NTX; j++) if (pid[i][k] == id[j]) sorted = false;
    // consistent: every transaction has inputs, no outpoint is spent by two different transactions
    bool consistent = true;
    for (int i = 0; i < NTX; i++) if (NIN_OF(i) == 0) consistent = false;
    for (int i = 0; i < NTX; i++) for (int j = 0; j < i; j++) for (int k = 0; k < NIN_OF(i); k++) for (int l = 0; l < NIN_OF(j); l++)
        if (pid[i][k] == pid[j][l] && pn[i][k] == pn[j][l]) consistent = false;
    // weight (no witnesses): 4 * serialized size
    int64_t weight = 0;
    for (int i = 0; i < NTX; i++) {
        uint64_t sz = 4 + cs_len(NIN_OF(i)) + 1 + (8 + 1) + 4;
        for (int k = 0; k < NIN_OF(i); k++) { const uint64_t l = (i == 0 && k == 0) ? BIGLEN : 0; sz += 36 + cs_len(l) + l + 4; }
        weight += 4 * (int64_t)sz;
    }
    enum { P_OK, P_COUNT, P_WEIGHT, P_DUP, P_SORT, P_CONFLICT } want = P_OK;
    if (NTX > 25) want = P_COUNT;
    else if (NTX > 1 && weight > 404000) want = P_WEIGHT;
    else if (dup) want = P_DUP;
    else if (!sorted) want = P_SORT;
    else if (!consistent) want = P_CONFLICT;
    // child-with-parents: at least two transactions and every non-last one is spent by the last
    bool cwp = NTX >= 2;
    for (int i = 0; i + 1 < NTX; i++) { bool spent = false; for (int k = 0; k < NIN_CHILD; k++) if (pid[NTX - 1][k] == id[i]) spent = true; if (!spent) cwp = false; }
    // tree: additionally no parent spends a parent (itself included)
    bool tree = cwp;
    for (int i = 0; i + 1 < NTX; i++) for (int k = 0; k < NIN_PARENT; k++) for (int j = 0; j + 1 < NTX; j++) if (pid[i][k] == id[j]) tree = false;

    // ---- real functions
    PackageValidationState st;
#ifdef ONLY_CWP
    const bool wf = (want == P_OK);      // this shape runs only the child-with-parents functions
#else
    const bool wf = IsWellFormedPackage(pkg, st);
    verif_observe(wf); verif_observe(want);
    VASSERT(wf == (want == P_OK), "IsWellFormedPackage accepts iff count<=25, weight<=404000 (multi-tx), no duplicate txid, parents before children, no shared prevout");
    VASSERT(wf == st.IsValid(), "state agrees with verdict");
    if (!wf) {
        const std::string& r = reason_of(st);
        VASSERT(st.GetResult() == PackageValidationResult::PCKG_POLICY, "package policy failure");
        if (want == P_COUNT) VASSERT(str_is(r, "package-too-many-transactions"), "count limit reported");
        if (want == P_WEIGHT) VASSERT(str_is(r, "package-too-large"), "weight limit reported");
        if (want == P_DUP) VASSERT(str_is(r, "package-contains-duplicates"), "duplicates reported");
        if (want == P_SORT) VASSERT(str_is(r, "package-not-sorted"), "unsorted package reported");
        if (want == P_CONFLICT) VASSERT(str_is(r, "conflict-in-package"), "conflict reported");
    }
#endif
#if !defined(DUP) && !defined(ONLY_WELLFORMED)
#ifdef ONLY_CWP
    const bool ts = sorted, cs = consistent;
#else
    const bool ts = IsTopoSortedPackage(pkg);
    const bool cs = IsConsistentPackage(pkg);
#endif
    const bool c1 = IsChildWithParents(pkg);
    const bool c2 = IsChildWithParentsTree(pkg);
    verif_observe(ts); verif_observe(cs); verif_observe(c1); verif_observe(c2);
    VASSERT(ts == sorted, "IsTopoSortedPackage iff no transaction spends a same-or-later package transaction");
    VASSERT(cs == consistent, "IsConsistentPackage iff all have inputs and no prevout is spent by two transactions");
    VASSERT(c1 == cwp, "IsChildWithParents iff >=2 transactions and every non-last one is spent by the last");
    VASSERT(c2 == tree, "IsChildWithParentsTree iff child-with-parents and no parent spends a parent");
#endif

#if defined(FIXED_TOPOLOGY) || BIGLEN > 0
#if NTX > 25
    VWITNESS(want == P_COUNT, "26 transactions rejected");
#elif defined(OVERWEIGHT)
    VWITNESS(want == P_WEIGHT, "package one weight step over the limit rejected");
#else
    VWITNESS(wf, "package at the limit accepted");
#endif
#elif defined(DUP)
    VWITNESS(want == P_DUP, "duplicate txid rejected");
#else
    VWITNESS(wf, "some package accepted");
#if NTX >= 2
    VWITNESS(want == P_CONFLICT, "conflicting package reachable");
    VWITNESS(want == P_SORT && pid[0][0] == id[NTX - 1], "parent after child rejected");
    VWITNESS(want == P_SORT && pid[0][0] == id[0], "self-spend counts as unsorted");
#ifndef ONLY_WELLFORMED
    VWITNESS(wf && c1 && c2, "well-formed child-with-parents tree");
    VWITNESS(wf && !c1, "well-formed package that is not child-with-parents");
#if NTX >= 3
    VWITNESS(wf && c1 && !c2, "parents depending on each other: child-with-parents but not a tree");
#endif
#endif
#endif
#endif
    VREACH("end");
}
