// C32 (v1 transport): sender V1Transport -> wire bytes -> receiver V1Transport, real code of net.cpp / protocol.cpp / streams.h.
// One message (type of concrete length with symbolic characters, payload of concrete length <= 4 with symbolic bytes, symbolic network magic),
// the wire delivered in two fragments cut at every point of a concrete range; optionally one wire byte altered.
// The receiver is driven exactly as CNode::ReceiveMsgBytes drives it (ReceivedBytes until the span is empty, GetReceivedMessage whenever
// ReceivedMessageComplete()).
#include <verif.h>
#include <verif_stubs_common.h>
#include <crypto/sha256.h>
#include <string.h>
#include <string>
#include <vector>
#include <span>
#include <utility>
#define protected public
#include <kernel/chainparams.h>
#undef protected
#include <chainparams.h>
#include <deque>
#include <list>
#include <map>
#include <thread>
#include <condition_variable>
#include <unordered_set>
#include <queue>
#include <functional>
#include <optional>
#include <atomic>
#define private public
#include <net.h>
#undef private
#include <protocol.h>
#include <random.h>
#include <logging.h>
#include <util/strencodings.h>
#include <util/threadnames.h>
#include <util/time.h>
#include <support/cleanse.h>
#include <chrono>

// protocol.cpp is compiled inside this TU without optimisation: at -O1 clang rewrites the zero-padding loop of IsMessageTypeValid with an end pointer
// computed through integer address arithmetic (p + (uintptr)this + 16 - (uintptr)p), which symex cannot fold, so the loop bound becomes symbolic
#pragma clang optimize off
#include <protocol.cpp>
#pragma clang optimize on

// std::allocator<char> constructor/destructor: out of line (libstdc++.so) when called from unoptimised code; empty
extern "C" { void verif_alloc_char_ctor(void*) __asm__("_ZNSaIcEC2Ev"); void verif_alloc_char_ctor(void*) {} void verif_alloc_char_dtor(void*) __asm__("_ZNSaIcED2Ev"); void verif_alloc_char_dtor(void*) {} }

// ---- hash model (recording, deterministic): digest(x)[i] = x[i] ^ K[i] ^ g(len, i), x zero-padded to 32 bytes. Same bytes -> same digest whatever the
// fragmentation of Write(); injective on inputs of equal length <= 32. The transport's checksum is the first 4 bytes of digest(digest(payload)).
static inline uint8_t hk(size_t len, size_t i) { return (uint8_t)(0xA5 + 0x3B * len + 0x11 * i); }
static void model_digest(const unsigned char* in, size_t len, unsigned char out[32])
{
    for (size_t i = 0; i < 32; i++) out[i] = (uint8_t)((i < len ? in[i] : 0) ^ hk(len, i));
}
CSHA256::CSHA256() { bytes = 0; memset(buf, 0, sizeof(buf)); }
CSHA256& CSHA256::Write(const unsigned char* data, size_t len)
{
    for (size_t i = 0; i < len; i++) { VASSERT(bytes + i < 64, "hash model: input longer than the recording buffer"); buf[bytes + i] = data[i]; }
    bytes += len; return *this;
}
CSHA256& CSHA256::Reset() { bytes = 0; memset(buf, 0, sizeof(buf)); return *this; }
void CSHA256::Finalize(unsigned char hash[OUTPUT_SIZE]) { model_digest(buf, bytes, hash); }
static void model_checksum(const unsigned char* payload, size_t len, unsigned char out4[4])
{
    unsigned char d1[32], d2[32]; model_digest(payload, len, d1); model_digest(d1, 32, d2); memcpy(out4, d2, 4);
}

// ---- environment
alignas(16) static unsigned char g_params_storage[sizeof(CChainParams)];
const CChainParams& Params() { return *reinterpret_cast<const CChainParams*>(g_params_storage); }
void RandAddEvent(const uint32_t) noexcept {}
// logging is off (message text is not a subject); the formatting helpers only feed log lines
bool util::log::ShouldDebugLog(uint64_t) { return false; }
void util::log::Log(util::log::Entry) {}
std::string SanitizeString(std::string_view, int) { return std::string(); }
std::string HexStr(const std::span<const uint8_t>) { return std::string(); }
std::string util::ThreadGetInternalName() { return std::string(); }
std::chrono::seconds GetMockTime() { return std::chrono::seconds{0}; }
std::chrono::system_clock::time_point std::chrono::system_clock::now() noexcept { return {}; }
void memory_cleanse(void*, size_t) {}
namespace std { void __throw_system_error(int) { __CPROVER_assert(0, "mutex error"); __CPROVER_assume(0); __builtin_trap(); } }
NodeClock::time_point NodeClock::now() noexcept { return NodeClock::time_point{}; }
extern "C" {
int pthread_mutex_lock(pthread_mutex_t*) noexcept { return 0; }
int pthread_mutex_trylock(pthread_mutex_t*) noexcept { return 0; }
int pthread_mutex_unlock(pthread_mutex_t*) noexcept { return 0; }
}

#define MAXW 32   // 24 header + <= 4 payload

#ifdef VERIF_PROBE
template <int ID> __attribute__((noinline)) static void probe(size_t x) { for (size_t k = 0; k < x; k++) { __asm__ volatile(""); } }
#define PROBE(id, x) probe<id>((size_t)(x))
#else
#define PROBE(id, x)
#endif
// assert-then-pin: the constructor took the magic from Params() (a 760-byte phantom, beyond CBMC's field-sensitivity limit, so its bytes are not constant-propagated);
// after asserting that it equals the harness value the same value is stored back as a constant
static void pin_magic(V1Transport& t, const uint8_t* magic)
{
    bool same = true; for (int i = 0; i < 4; i++) if (t.m_magic_bytes[i] != magic[i]) same = false;
    VASSERT(same, "V1Transport takes the network magic from the chain parameters");
    for (int i = 0; i < 4; i++) const_cast<uint8_t&>(t.m_magic_bytes[i]) = magic[i];
}
struct RecvResult { int delivered; int rejected; bool disconnect; bool incomplete; CNetMessage* msg; };

// the caller contract of Transport on the receive side: CNode::ReceiveMsgBytes
static void feed(V1Transport& r, const uint8_t* p, size_t n, RecvResult& res)
{
    std::span<const uint8_t> bytes{p, n};
    int guard = 0;
    while (bytes.size() > 0 && !res.disconnect) {
        VASSERT(++guard <= 4, "receive loop makes progress");
        PROBE(10, bytes.size()); PROBE(11, r.nHdrPos); PROBE(12, n); PROBE(13, r.hdrbuf.size());
        if (!r.ReceivedBytes(bytes)) { res.disconnect = true; break; }
        PROBE(1, bytes.size()); PROBE(2, r.nHdrPos); PROBE(3, r.hdrbuf.size()); PROBE(4, r.hdr.nMessageSize); PROBE(5, r.vRecv.size()); PROBE(6, r.nDataPos); PROBE(7, r.in_data);
        if (r.ReceivedMessageComplete()) {
            bool reject = false;
            CNetMessage* m = new CNetMessage(r.GetReceivedMessage(NodeClock::time_point{}, reject));   // never destroyed
            if (reject) { res.rejected++; continue; }
            res.delivered++; res.msg = m;
        }
    }
}

// TLEN: message type length; PLEN: payload length; CUT_LO..CUT_HI: the stream is delivered as [0,cut) + [cut,end) for every cut in the range
// (cut == 0: one fragment); TAMPER: -1 none, else index of the wire byte that is altered; NEWLEN: for TAMPER in the length field the (concrete) length
// the altered field decodes to, -1 otherwise
// message types (concrete per entry: a symbolic character makes strnlen/std::string lengths symbolic on the receiver; magic, payload and checksum stay symbolic)
static constexpr const char* TYPES[] = {"", "tx", "verack", "filterclear", "abcdefghijkl", "bad\x7f", "sp ace~", "hi\x01x"};
static constexpr int cstrlen(const char* s) { int n = 0; while (s[n]) n++; return n; }
static constexpr bool printable(const char* s) { for (int i = 0; s[i]; i++) if (s[i] < 0x20 || s[i] > 0x7E) return false; return true; }
// MSYM: network magic symbolic (sender-only entries) or the concrete main-network value: the receiver compares the magic for equality, and a symbolic outcome makes symex carry
// both the reset and the normal receiver state through the rest of the run (symbolic buffer sizes)
// XMASK: concrete xor mask for the altered byte (0: symbolic non-zero mask). The magic is compared for equality inside ReceivedBytes; with a symbolic mask symex carries both outcomes
template <int TYPEID, int PLEN, int CUT_LO, int CUT_HI, int TAMPER, long NEWLEN, int MSYM, int XMASK>
static void h_v1_t()
{
    constexpr int TLEN = cstrlen(TYPES[TYPEID]);
    constexpr int WLEN = 24 + PLEN;
    uint8_t magic[4] = {0xf9, 0xbe, 0xb4, 0xd9}; if constexpr (MSYM != 0) { for (int i = 0; i < 4; i++) magic[i] = nondet_u8(); }
    CChainParams& cp = *reinterpret_cast<CChainParams*>(g_params_storage);
    for (int i = 0; i < 4; i++) cp.pchMessageStart[i] = magic[i];

    // ---- sender
    char type[13]; uint8_t payload[5];
    bool type_valid = true;
    // immediate constants, one store per character (a block copy out of the string literal is not constant-propagated by symex)
    [&]<size_t... I>(std::index_sequence<I...>) { ((type[I] = std::integral_constant<char, TYPES[TYPEID][I]>::value), ...); }(std::make_index_sequence<TLEN>{});
    for (int i = 0; i < TLEN; i++) if (type[i] < 0x20 || type[i] > 0x7E) type_valid = false;
    type[TLEN] = 0;
    for (int i = 0; i < PLEN; i++) payload[i] = nondet_u8();
    V1Transport& s = *new V1Transport(0); pin_magic(s, magic);
    // (no std::string::assign(const char*): its aliasing test compares pointers into different objects, which symex cannot decide)
    // heap-allocated string buffer: libstdc++'s in-object buffer is a union that LLVM types as {i64, [8 x i8]}; CBMC does not constant-propagate byte accesses to an i64
    CSerializedNetMsg msg; msg.m_type.reserve(32); for (int i = 0; i < TLEN; i++) msg.m_type.push_back(type[i]);
    msg.data.resize(PLEN); for (int i = 0; i < PLEN; i++) msg.data[i] = payload[i];
    VASSERT(s.SetMessageToSend(msg), "SetMessageToSend accepts a message when idle");
    { CSerializedNetMsg second; second.m_type.resize(4, 'p'); VASSERT(!s.SetMessageToSend(second), "no second message while one is being sent"); }
    uint8_t wire[MAXW]; int wn = 0; int rounds = 0;
    while (true) {
        const auto& [bytes, more, mtype] = s.GetBytesToSend(false);
        if (bytes.empty()) break;
        VASSERT(++rounds <= 2, "header then payload");
        VASSERT(mtype.size() == (size_t)TLEN, "GetBytesToSend reports the message type being sent");
        VASSERT(more == (rounds == 1 && PLEN > 0), "more-bytes flag: payload follows the header");
        for (size_t i = 0; i < bytes.size(); i++) { VASSERT(wn < WLEN, "sender emits exactly header + payload bytes"); if (wn < MAXW) wire[wn++] = bytes[i]; }
        s.MarkBytesSent(bytes.size());
    }
    VASSERT(wn == WLEN, "sender emits exactly header + payload bytes");
    // reference encoding (protocol documentation): magic | type zero padded to 12 | length LE32 | checksum | payload
    uint8_t ref[MAXW]; memset(ref, 0, sizeof(ref));
    for (int i = 0; i < 4; i++) ref[i] = magic[i];
    for (int i = 0; i < TLEN; i++) ref[4 + i] = (uint8_t)type[i];
    ref[16] = PLEN; model_checksum(payload, PLEN, ref + 20);
    for (int i = 0; i < PLEN; i++) ref[24 + i] = payload[i];
    { bool same = true; for (int i = 0; i < WLEN; i++) if (wire[i] != ref[i]) same = false; VASSERT(same, "wire bytes are magic|type|length|checksum|payload"); }
    for (int i = 0; i < WLEN; i++) verif_observe(wire[i]);

    // ---- optional tampering: one altered byte
    if constexpr (TAMPER >= 0) {
        if constexpr (NEWLEN >= 0) {
            constexpr uint32_t nl = (uint32_t)NEWLEN;
            static_assert(TAMPER >= 16 && TAMPER < 20, "NEWLEN only for the length field");
            static_assert(((nl ^ (uint32_t)PLEN) & ~(0xffu << (8 * (TAMPER - 16)))) == 0 && nl != (uint32_t)PLEN, "NEWLEN differs from PLEN in exactly the tampered byte");
            wire[TAMPER] = (uint8_t)(nl >> (8 * (TAMPER - 16)));
        } else {
            uint8_t mask = (uint8_t)XMASK; if constexpr (XMASK == 0) { mask = nondet_u8(); VASSUME(mask != 0); }
            wire[TAMPER] ^= mask;
        }
    }

    PROBE(20, wire[16]); PROBE(21, wire[4] & 15); PROBE(22, wire[0] & 15); PROBE(23, wire[17] + 1); PROBE(24, wire[3] & 15);
    // ---- receiver, for every cut point of the range
    bool all_ok = true;
    for (int cut = CUT_LO; cut <= CUT_HI; cut++) {
        V1Transport& r = *new V1Transport(1); pin_magic(r, magic);
        RecvResult res{0, 0, false, false, nullptr};
        if (cut > 0) feed(r, wire, (size_t)cut, res);
        if (!res.disconnect) feed(r, wire + cut, (size_t)(WLEN - cut), res);
        const bool pending = !res.disconnect && res.delivered + res.rejected == 0;
        verif_observe((uint64_t)res.delivered * 4 + res.rejected * 2 + (res.disconnect ? 1 : 0));
        if constexpr (TAMPER < 0) {
            // exactly what was sent
            VASSERT(!res.disconnect, "untampered stream: no transport error");
            VASSERT(res.delivered + res.rejected == 1, "untampered stream: exactly one message");
            VASSERT((res.delivered == 1) == type_valid, "untampered stream: delivered iff the message type is printable ASCII");
            if (res.delivered == 1) {
                CNetMessage& m = *res.msg;
                bool same = m.m_type.size() == (size_t)TLEN && m.m_recv.size() == (size_t)PLEN && m.m_message_size == (uint32_t)PLEN && m.m_raw_message_size == (uint32_t)WLEN;
                for (int i = 0; i < TLEN; i++) if (same && m.m_type[i] != type[i]) same = false;
                for (int i = 0; i < PLEN; i++) if (same && (uint8_t)m.m_recv[i] != payload[i]) same = false;
                if (!same) all_ok = false;
            }
            VASSERT(!r.ReceivedMessageComplete(), "receiver is reset after the message");
        } else if constexpr (TAMPER < 4) {
            VASSERT(res.disconnect && res.delivered == 0, "altered network magic: transport error, nothing delivered");
        } else if constexpr (TAMPER >= 20 && TAMPER < 24) {
            VASSERT(res.delivered == 0 && res.rejected == 1 && !res.disconnect, "altered checksum: the message is rejected, never delivered");
        } else if constexpr (TAMPER >= 24) {
            VASSERT(res.delivered == 0 && res.rejected == 1 && !res.disconnect, "altered payload byte: checksum mismatch, the message is rejected");
        } else if constexpr (TAMPER >= 16 && TAMPER < 20) {
            // altered length: too large -> transport error; larger than the stream -> nothing delivered yet; shorter -> a message is delivered only if its
            // (truncated) payload matches the checksum on the wire
            if (NEWLEN > 4000000) VASSERT(res.disconnect && res.delivered == 0, "length above MAX_PROTOCOL_MESSAGE_LENGTH: transport error");
            else if (NEWLEN > PLEN) VASSERT(pending && !r.ReceivedMessageComplete(), "length beyond the stream: nothing delivered");
            else {
                VASSERT(!res.disconnect && res.delivered + res.rejected == 1, "shorter length: one message is framed");
                unsigned char c4[4]; model_checksum(payload, (size_t)NEWLEN, c4);
                const bool match = memcmp(c4, wire + 20, 4) == 0;
                VASSERT((res.delivered >= 1) == (match && type_valid), "a message is delivered only if its payload matches the checksum on the wire");
            }
        } else {
            // altered type byte: v1 does not authenticate the type; framing and payload are unaffected and the message is delivered (under the altered type) iff the
            // altered 12-byte field is well-formed: printable ASCII up to the first zero byte, only zero bytes after it
            VASSERT(!res.disconnect && res.delivered + res.rejected == 1, "altered type byte: framing unaffected");
            bool wf = true, seen0 = false; int tl = 0;
            for (int i = 0; i < 12; i++) { const uint8_t c = wire[4 + i]; if (c == 0) seen0 = true; else if (seen0 || c < 0x20 || c > 0x7E) wf = false; if (!seen0) tl = i + 1; }
            VASSERT((res.delivered == 1) == wf, "altered type byte: delivered iff the altered type field is well-formed");
            if (res.delivered == 1) {
                bool same = res.msg->m_recv.size() == (size_t)PLEN && res.msg->m_type.size() == (size_t)tl;
                for (int i = 0; i < PLEN; i++) if (same && (uint8_t)res.msg->m_recv[i] != payload[i]) same = false;
                for (int i = 0; i < 12; i++) if (same && i < tl && (uint8_t)res.msg->m_type[i] != wire[4 + i]) same = false;
                VASSERT(same, "altered type byte: payload unchanged, type as on the wire");
            }
        }
        if constexpr (TAMPER < 0 && printable(TYPES[TYPEID])) VWITNESS(res.delivered == 1, "delivered");
        if constexpr (TAMPER < 0 && !printable(TYPES[TYPEID])) VWITNESS(res.rejected == 1, "invalid_type_rejected");
    }
    VASSERT(all_ok, "receiver yields exactly the type and payload that were sent");
    VREACH("end");
}

#ifdef VERIF_ENTRIES_INC
#define VERIF_ENTRY(name, ...) extern "C" void h_##name() { h_v1_t<__VA_ARGS__>(); }
#include VERIF_ENTRIES_INC
#endif
