from vlib import H
PROPERTY = 'C32'
LEVEL = 'model_checking'
CLAIM = ('V1 transport only: a real sender V1Transport (net.cpp SetMessageToSend/GetBytesToSend/MarkBytesSent, CMessageHeader serialization) produces exactly magic|type|length|checksum|payload; '
         'a real receiver V1Transport (ReceivedBytes/readHeader/readData/ReceivedMessageComplete/GetReceivedMessage, CMessageHeader deserialization, IsMessageTypeValid), driven as CNode::ReceiveMsgBytes drives it '
         'and fed the stream in two fragments at every cut point, yields exactly one message with the same type and payload (rejected iff the type is not printable ASCII). With one wire byte altered: '
         'magic -> transport error; checksum or payload -> rejected, never delivered; length -> transport error / nothing delivered / delivered only if the truncated payload matches the checksum on the wire; '
         'type byte -> framing and payload unchanged (v1 does not authenticate the type). The checksum is a recording deterministic hash model, so "matches its checksum" is exact. V2/BIP324 is not decided.')
def e(tlen, plen, lo, hi, tamper=-1, newlen=-1):
    nm = 't%d_p%d_c%d_%d' % (tlen, plen, lo, hi) + ('' if tamper < 0 else '_x%d' % tamper) + ('' if newlen < 0 else '_l%d' % newlen)
    return (nm, '%d, %d, %d, %d, %d, %dL' % (tlen, plen, lo, hi, tamper, newlen))
quick = [e(2, 4, 0, 0), e(2, 4, 1, 3)]
thorough = list(quick)
LINK = ['net.cpp', 'protocol.cpp']
HARNESSES = [
    H('v1xfer', 'v1xfer.cpp', 'h_v1', link=LINK, entries=quick, tentries=thorough, shadow=['nofmt'], unwind=34, memunwind=112, timeout=600, objbits=11,
      functions=['V1Transport::SetMessageToSend/GetBytesToSend/MarkBytesSent/ReceivedBytes/readHeader/readData/GetMessageHash/GetReceivedMessage/ReceivedMessageComplete/Reset (net.cpp, net.h)',
                 'CMessageHeader ctor/(de)serialization/GetMessageType/IsMessageTypeValid (protocol.cpp, protocol.h)', 'DataStream, VectorWriter (streams.h)', 'CHash256/Hash (hash.h)'],
      stubs=[], bounds=''),
]
