from vlib import H
PROPERTY = 'C32'
LEVEL = 'model_checking'
CLAIM = ('V1 transport only: a real sender V1Transport (net.cpp SetMessageToSend/GetBytesToSend/MarkBytesSent, CMessageHeader serialization) produces exactly magic|type|length|checksum|payload; '
         'a real receiver V1Transport (ReceivedBytes/readHeader/readData/ReceivedMessageComplete/GetReceivedMessage, CMessageHeader deserialization, IsMessageTypeValid), driven as CNode::ReceiveMsgBytes drives it '
         'and fed the stream in two fragments at every cut point, yields exactly one message with the same type and payload (rejected iff the type is not printable ASCII). With one wire byte altered: '
         'magic -> transport error; checksum or payload -> rejected, never delivered; length -> transport error / nothing delivered / delivered only if the truncated payload matches the checksum on the wire; '
         'type byte -> framing and payload unchanged (v1 does not authenticate the type). The checksum is a recording deterministic hash model, so "matches its checksum" is exact. V2/BIP324 is not decided.')
def e(tlen, plen, lo, hi, tamper=-1, newlen=-1, msym=0, xmask=0):
    nm = 't%d_p%d_c%d_%d' % (tlen, plen, lo, hi) + ('' if tamper < 0 else '_x%d' % tamper) + ('' if newlen < 0 else '_l%d' % newlen)
    return (nm + ('_ms' if msym else '') + ('_m%02x' % xmask if xmask else ''), '%d, %d, %d, %d, %d, %dL, %d, %d' % (tlen, plen, lo, hi, tamper, newlen, msym, xmask))
TY = dict(empty=0, tx=1, verack=2, filterclear=3, abcdefghijkl=4, bad7f=5, space=6, hi01=7)
quick = []
# sender only, symbolic network magic: wire format
for t, p in [('empty', 0), ('verack', 4), ('abcdefghijkl', 3)]: quick.append(e(TY[t], p, 1, 0, msym=1))
# untampered: every cut point
for lo, hi in [(0, 7), (8, 15), (16, 22), (23, 28)]: quick.append(e(TY['verack'], 4, lo, hi))
for lo, hi in [(0, 12), (13, 24)]: quick.append(e(TY['tx'], 0, lo, hi))
quick += [e(TY['filterclear'], 1, 20, 25), e(TY['abcdefghijkl'], 2, 14, 18), e(TY['abcdefghijkl'], 3, 23, 27), e(TY['empty'], 2, 0, 5), e(TY['space'], 4, 9, 12)]
quick += [e(TY['bad7f'], 4, 0, 2), e(TY['hi01'], 1, 24, 25)]
# one altered byte: magic, checksum, payload (symbolic non-zero xor mask), length (concrete new value), type byte
for x, m in ((0, 0x01), (3, 0x80), (1, 0xff)): quick.append(e(TY['verack'], 4, 0, 5, tamper=x, xmask=m))
for x in (20, 23): quick.append(e(TY['verack'], 4, 21, 24, tamper=x))
for x in (24, 27): quick.append(e(TY['verack'], 4, 24, 27, tamper=x))
for nl in (0, 3, 5, 255): quick.append(e(TY['verack'], 4, 16, 17, tamper=16, newlen=nl))
quick += [e(TY['verack'], 4, 0, 0, tamper=17, newlen=4 + 256), e(TY['verack'], 4, 18, 20, tamper=19, newlen=4 + (1 << 24)), e(TY['tx'], 0, 0, 0, tamper=16, newlen=1), e(TY['tx'], 0, 17, 17, tamper=19, newlen=255 << 24)]
for x, m in ((4, 0x01), (4, 0x76), (6, 0x80), (11, 0), (15, 0)): quick.append(e(TY['verack'], 4, 0, 0, tamper=x, xmask=m))
# quick keeps ~30 queries (budget); the rest of the first list runs in the thorough tier
DEFER = {'t1_p0_c0_12', 't2_p4_c16_17_x16_l0', 't2_p4_c16_17_x16_l5', 't2_p4_c0_5_x1_mff', 't2_p4_c21_24_x20', 't2_p4_c24_27_x24', 't2_p4_c0_0_x15'}
thorough = list(quick)
quick = [x for x in quick if x[0] not in DEFER]
for t, p in [('verack', 4), ('abcdefghijkl', 4), ('filterclear', 3), ('tx', 2), ('tx', 1), ('empty', 0)]:
    for lo in range(0, 24 + p + 1, 6): thorough.append(e(TY[t], p, lo, min(lo + 5, 24 + p)))
for x in list(range(20, 28)) + list(range(10, 16)): thorough.append(e(TY['verack'], 4, 0, 3, tamper=x))
for x in range(4, 10):
    for m in (0x01, 0x80, ord('verack'[x - 4])): thorough.append(e(TY['verack'], 4, 0, 3, tamper=x, xmask=m))
for x in range(0, 4):
    for m in (0x01, 0x10, 0x80, 0xff): thorough.append(e(TY['verack'], 4, 0, 5, tamper=x, xmask=m))
for nl in (1, 2, 6, 7, 8, 100): thorough.append(e(TY['verack'], 4, 16, 17, tamper=16, newlen=nl))
def uniq(l):
    seen = set(); out = []
    for x in l:
        if x[0] not in seen: seen.add(x[0]); out.append(x)
    return out
quick = uniq(quick); thorough = uniq(thorough)
FILL = '_ZNSt6vectorISt4byte25zero_after_free_allocatorIS0_EE14_M_fill_insertEN9__gnu_cxx17__normal_iteratorIPS0_S3_EEmRKS0_'
LINK = ['net.cpp']
HARNESSES = [
    H('v1xfer', 'v1xfer.cpp', 'h_v1', link=LINK, entries=quick, tentries=thorough, defines={'VERIF_MEMCPY_TYPED': 1}, opt='-O2', shadow=['nofmt'], unwind=34, unwindset=','.join('%s.%d:264' % (FILL, k) for k in range(0, 5)), memunwind=300, timeout=600, objbits=11,
      functions=['V1Transport::SetMessageToSend/GetBytesToSend/MarkBytesSent/ReceivedBytes/readHeader/readData/GetMessageHash/GetReceivedMessage/ReceivedMessageComplete/Reset (net.cpp, net.h)',
                 'CMessageHeader ctor/(de)serialization/GetMessageType/IsMessageTypeValid (protocol.cpp, protocol.h)', 'DataStream, VectorWriter (streams.h)', 'CHash256/Hash (hash.h)'],
      stubs=['CSHA256 -> recording deterministic model (digest = input xor length-dependent pad; independent of Write() fragmentation; injective on equal-length inputs <= 32 bytes)',
             'Params() -> phantom CChainParams holding the harness magic; after asserting that V1Transport copied it, the same bytes are stored back as constants (assert-then-pin)',
             'protocol.cpp compiled inside the harness TU without optimisation (clang -O1 rewrites the IsMessageTypeValid loop bound with integer address arithmetic)', 'net.cpp at -O2 (inlines DataStream::read into the field readers)',
             'rt.c opt-in VERIF_MEMCPY_TYPED: 2/4-byte copies as one typed load/store', 'logging off (ShouldDebugLog false; Log, SanitizeString, HexStr empty)', 'RandAddEvent, memory_cleanse -> no-op', 'pthread_mutex_* -> no-op',
             'util/btcsignals.h typename normalisation (tool/overlay.py header rule)', 'tinyformat -> empty strings', 'assertion_fail -> CBMC assertion'],
      assumptions=['receiver driven by the loop of CNode::ReceiveMsgBytes (replicated in the harness)', 'no hash collision is assumed anywhere: "delivered" is characterised exactly by checksum(model)(payload) == checksum on the wire'],
      bounds='%d quick / %d thorough queries: one message; message type one of 8 concrete strings (lengths 0,2,6,11,12; two with a non-printable character); payload 0..4 symbolic bytes; network magic symbolic for the sender-side wire-format queries and the concrete main-network value for receiver queries; '
             'two fragments at every cut point of the range named in the query; one altered byte: magic (concrete xor masks 01/80/ff), checksum and payload (symbolic non-zero mask), length (concrete new values incl. 0, +-1, 255, +256, > MAX_PROTOCOL_MESSAGE_LENGTH; 65536..4,000,000 not covered: needs a >= 64 KiB buffer fill), type byte (concrete masks for the first characters, symbolic for padding bytes)' % (len(quick), len(thorough))),
]
