from vlib import H
PROPERTY = 'C49'
LEVEL = 'model_checking'
CLAIM = ('Generic (portable C++/C) implementations in src/crypto executed symbolically against references transcribed from the standards, all inputs symbolic inside the listed bounds: '
         'SipHash-2-4 (CSipHasher byte/uint64 interfaces incl. every split into <= 3 writes for short messages, PresaltedSipHasher uint256 paths) vs the SipHash paper; '
         'ChaCha20Aligned Keystream/Crypt (1-2 blocks, all 20 rounds) vs the RFC 8439 block function; sha256::Transform (all 64 rounds, symbolic chaining value and block) vs the FIPS 180-4 '
         'compression function; CSHA256::Write/Finalize buffering and padding vs FIPS 180-4 5.1.1 for enumerated splits (compression function replaced by a checking recorder); '
         'ctaes SubBytes/ShiftRows/MixColumns/AddRoundKey (both directions) vs FIPS-197 on a symbolic state, and the FIPS-197 C.3 AES-256 vector. '
         'NOT claimed: SSE4/AVX2/SHA-NI/ARM back ends and SHA256AutoDetect dispatch, SHA256D64, SHA-512/SHA-1/SHA-3/RIPEMD-160, HMAC/HKDF, Poly1305 and the AEAD, ChaCha20 unaligned streaming / FSChaCha20 rekeying, '
         'AES-CBC padding, full symbolic AES-256 cipher equivalence (did not finish: neither 14 nor 2 rounds within 240 s).')
HARNESSES = [
    H('siphash_bytes', 'siphash.cpp', 'h_siphash_bytes', link=['crypto/siphash.cpp'], variants=[{'MLEN': n} for n in (0, 7, 8, 9, 16, 17)], tvariants=[{'MLEN': n} for n in range(0, 34)],
      unwind=40, timeout=600, opt='-O0', objbits=12, backends=['cvc5', 'kissat'], witness_backends=['default'], functions=['CSipHasher::CSipHasher', 'CSipHasher::Write(uint64_t)', 'CSipHasher::Write(std::span)', 'CSipHasher::Finalize', 'SipHashState::SipRound/Compress2/Finalize4'],
      bounds='message lengths 0,7,8,9,16,17 (thorough 0..33), all bytes and both key words symbolic'),
    H('siphash_chunks', 'siphash.cpp', 'h_siphash_chunks', link=['crypto/siphash.cpp'], variants=[{'MLEN': 5}, {'MLEN': 17, 'TWO_WRITES': 1}], tvariants=[{'MLEN': n} for n in (1, 5, 7, 8, 9, 16, 17)] + [{'MLEN': 33, 'TWO_WRITES': 1}],
      unwind=40, timeout=900, backends=['cvc5', 'kissat'], witness_backends=['default'], functions=['CSipHasher::Write(std::span)', 'CSipHasher::Finalize'],
      bounds='length 5: every pair of cut points 0 <= c1 <= c2 <= 5 (three writes); length 17: every single cut point (two writes); thorough: three writes for lengths 1,5,7,8,9,16,17, two writes at 33; bytes and keys symbolic'),
    H('siphash_u256', 'siphash.cpp', 'h_siphash_u256', link=['crypto/siphash.cpp', 'uint256.cpp'], unwind=40, timeout=600, opt='-O0', objbits=12, backends=['cvc5', 'kissat'], witness_backends=['default'],
      functions=['PresaltedSipHasher::operator()(uint256)', 'PresaltedSipHasher::operator()(uint256, uint32_t)'], bounds='all 256-bit values, 32-bit extra, 128-bit keys'),
    H('chacha20_block', 'chacha20.cpp', 'h_chacha20_block', variants=[{'NBLK': 1}, {'NBLK': 2}], unwind=140, timeout=900, backends=['kissat-sweep', 'kissat'],
      functions=['ChaCha20Aligned::ChaCha20Aligned/SetKey', 'ChaCha20Aligned::Seek', 'ChaCha20Aligned::Keystream', 'ChaCha20Aligned::Crypt'], stubs=['memory_cleanse replaced by memset (wiping is not observable here)'],
      bounds='256-bit key, 96-bit nonce, 32-bit counter all symbolic; 1 and 2 consecutive blocks; symbolic plaintext', assumptions=['block counter does not wrap within the call (RFC 8439 leaves that undefined)']),
    H('sha256_transform', 'sha256.cpp', 'h_sha256_transform', variants=[{'NBLK': 1}], tvariants=[{'NBLK': 1}, {'NBLK': 2}], unwind=70, timeout=900, opt='-O0', objbits=12, backends=['cvc5', 'kissat'], witness_backends=['default'],
      functions=['sha256::Transform (generic C++ compression function of crypto/sha256.cpp)'],
      bounds='256-bit chaining value and 512-bit block fully symbolic, all 64 rounds'),
    H('sha256_padding', 'sha256.cpp', 'h_sha256_padding', variants=[{'MLEN': n, 'WRITES': 2} for n in (0, 1, 55, 56, 63, 64, 65, 119, 120)] + [{'MLEN': 9, 'WRITES': 3}, {'MLEN': 70, 'WRITES': 3}],
      tvariants=[{'MLEN': n, 'WRITES': 2} for n in range(0, 131)] + [{'MLEN': n, 'WRITES': 3} for n in (3, 9, 24, 70, 130)],
      unwind=200, memunwind=136, timeout=900,
      functions=['CSHA256::CSHA256', 'CSHA256::Write', 'CSHA256::Finalize', 'sha256::Initialize'], stubs=['sha256 compression function replaced by a recorder via the dispatch pointer Transform (the real one is checked by sha256_transform)'],
      bounds='two writes: lengths 0,1,55,56,63,64,65,119,120 (thorough: every length 0..130); every cut point for lengths <= 65, for longer messages the cuts near block/padding boundaries (c mod 64 in {0,1,2,55,56,57,62,63}, c >= len-1); three writes: length 9 every pair of cuts, lengths 70 (thorough also 24, 130) boundary pairs; message bytes symbolic'),
    H('aes_round_ops', 'aes.c', 'h_aes_round_ops', route='A', unwind=260, timeout=600, cbmc=['--object-bits', '10'], backends=['default', 'kissat'],
      functions=['ctaes: LoadBytes', 'SaveBytes', 'SubBytes (both directions)', 'ShiftRows', 'InvShiftRows', 'MixColumns (both directions)', 'AddRoundKey'],
      bounds='fully symbolic 128-bit state (and round key); S-box compared on all 16 byte lanes for all 256 values each'),
    H('aes256_kat', 'aes.c', 'h_aes256_kat', route='A', unwind=260, timeout=300, cbmc=['--object-bits', '10'],
      functions=['AES256_init', 'AES256_encrypt', 'AES256_decrypt'], bounds='FIPS-197 C.3 vector (concrete), executed by constant propagation'),
]
