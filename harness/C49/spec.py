from vlib import H
PROPERTY = 'C49'
LEVEL = 'model_checking'
CLAIM = ('Generic (portable C++/C) crypto primitives of src/crypto executed symbolically against references transcribed from the standards. '
         'SipHash-2-4 (CSipHasher byte/uint64 interfaces with any split into <= 3 writes, PresaltedSipHasher uint256 paths) vs the SipHash paper.')
HARNESSES = [
    H('siphash_bytes', 'siphash.cpp', 'h_siphash_bytes', link=['crypto/siphash.cpp'], variants=[{'MLEN': n} for n in (0, 1, 7, 8, 9, 15, 16, 17)], tvariants=[{'MLEN': n} for n in range(0, 34)],
      unwind=40, timeout=300, opt='-O0', backends=['cvc5', 'kissat', 'cadical'], functions=['CSipHasher::CSipHasher', 'CSipHasher::Write(uint64_t)', 'CSipHasher::Write(std::span)', 'CSipHasher::Finalize', 'SipHashState::SipRound/Compress2/Finalize4'],
      bounds='message lengths 0,1,7,8,9,15,16,17 (thorough 0..33), all bytes and both key words symbolic'),
    H('siphash_chunks', 'siphash.cpp', 'h_siphash_chunks', link=['crypto/siphash.cpp'], variants=[{'MLEN': n} for n in (9, 17)], tvariants=[{'MLEN': n} for n in (1, 7, 8, 9, 16, 17, 25)],
      unwind=40, timeout=300, backends=['kissat', 'cvc5', 'cadical'], functions=['CSipHasher::Write(std::span)', 'CSipHasher::Finalize'],
      bounds='message lengths 9 and 17 (thorough up to 25), every pair of cut points 0 <= c1 <= c2 <= len enumerated, bytes and keys symbolic'),
    H('siphash_u256', 'siphash.cpp', 'h_siphash_u256', link=['crypto/siphash.cpp', 'uint256.cpp'], unwind=40, timeout=300, opt='-O0', backends=['cvc5', 'kissat', 'cadical'],
      functions=['PresaltedSipHasher::operator()(uint256)', 'PresaltedSipHasher::operator()(uint256, uint32_t)'], bounds='all 256-bit values, 32-bit extra, 128-bit keys'),
]
