// C49: generic C++ SHA-256 of crypto/sha256.cpp (included so that the anonymous-namespace Transform is reachable) vs FIPS 180-4.
#include <verif.h>
#include <crypto/sha256.cpp>
#include "sha256_ref.h"

// compression function: symbolic chaining value and symbolic 64-byte block(s)
#ifndef NBLK
#define NBLK 1
#endif
// lemma used by the reference (see sha256_ref.h): the mux/majority forms equal the FIPS 180-4 definitions of Ch and Maj for all inputs
static void lemma_ch_maj()
{
    const uint32_t x = nondet_u32(), y = nondet_u32(), z = nondet_u32();
    VASSERT(ref256::Ch(x, y, z) == ref256::Ch_fips(x, y, z), "reference Ch equals FIPS 180-4 Ch(x,y,z) = (x&y)^(~x&z)");
    VASSERT(ref256::Maj(x, y, z) == ref256::Maj_fips(x, y, z), "reference Maj equals FIPS 180-4 Maj(x,y,z) = (x&y)^(x&z)^(y&z)");
}

extern "C" void h_sha256_transform()
{
    lemma_ch_maj();
    uint32_t s[8], r[8], m[16 * NBLK];
    uint8_t blk[64 * NBLK];
    for (int i = 0; i < 8; i++) r[i] = s[i] = nondet_u32();
    // the block is drawn as sixteen 32-bit words M_t and laid out big-endian (FIPS 180-4 section 3.1 / 5.2.1)
    for (int i = 0; i < 16 * NBLK; i++) { m[i] = nondet_u32(); blk[4 * i] = (uint8_t)(m[i] >> 24); blk[4 * i + 1] = (uint8_t)(m[i] >> 16); blk[4 * i + 2] = (uint8_t)(m[i] >> 8); blk[4 * i + 3] = (uint8_t)m[i]; }
    sha256::Transform(s, blk, NBLK);
    for (int b = 0; b < NBLK; b++) ref256::compress_words(r, m + 16 * b);
    bool eq = true;
    for (int i = 0; i < 8; i++) { eq = eq && s[i] == r[i]; verif_observe(s[i]); }
    VASSERT(eq, "sha256::Transform equals the FIPS 180-4 compression function");
    VWITNESS((s[0] & 1) == 1, "odd first state word");
    VREACH("end");
}

// ---------------------------------------------------------------------------------------------------------------------
// Buffering / padding / streaming of CSHA256::Write + Finalize with the compression function replaced by a checking recorder
// (the dispatch pointer `Transform` of sha256.cpp is pointed at rec_transform): for a message of MLEN symbolic bytes fed in
// WRITES (2 or 3) Write calls, the blocks handed to the compression function are exactly the FIPS 180-4 5.1.1 padding of the
// message, in order, starting from the FIPS 5.3.3 initial hash value, and the digest is the big-endian serialisation of the final
// chaining value. Cut points are enumerated concretely inside the query (sizes stay constant for symex):
//   WRITES == 2: every cut 0..MLEN if MLEN <= 65 (or ALLCUTS), else the cuts with c mod 64 in {0,1,2,55,56,57,62,63} and c >= MLEN-1;
//   WRITES == 3: every pair c1 <= c2 if MLEN <= 24, otherwise c1 in {0,1,31,63,64,65} and c2 - c1 in {0,1,63,64,65} or c2 >= MLEN-1.
#ifndef MLEN
#define MLEN 0
#endif
#ifndef WRITES
#define WRITES 2
#endif
#define MAXBLK ((MLEN + 8) / 64 + 1)
static uint8_t g_exp[64 * MAXBLK];   // FIPS 180-4 padding of the message, computed once per query by the reference
static uint8_t g_exp_digest[32];
static unsigned g_nblk;
static bool g_ok;
static inline uint32_t mock_mix(uint32_t s, unsigned k, int i) { return (s << 1 | s >> 31) ^ (0x01000193u * (k + i)); }   // mock chaining update: any deterministic function of the call sequence
static void rec_transform(uint32_t* s, const unsigned char* chunk, size_t blocks)
{
    if (g_nblk == 0) for (int i = 0; i < 8; i++) g_ok = g_ok && s[i] == ref256::H0[i];          // FIPS 5.3.3 initial value
    for (size_t b = 0; b < blocks; b++) {
        if (g_nblk >= MAXBLK) { g_ok = false; return; }                                             // more blocks than the padded message has
        for (int i = 0; i < 64; i++) g_ok = g_ok && chunk[64 * b + i] == g_exp[64 * g_nblk + i];     // block content == padded message
        g_nblk++;
        for (int i = 0; i < 8; i++) s[i] = mock_mix(s[i], g_nblk, i);
    }
}
static bool run_split(const uint8_t* m, size_t c1, size_t c2)
{
    g_nblk = 0; g_ok = true;
    CSHA256 h;
    h.Write(m, c1).Write(m + c1, c2 - c1);
    if (WRITES == 3) h.Write(m + c2, MLEN - c2);
    uint8_t out[32];
    h.Finalize(out);
    bool ok = g_ok && g_nblk == MAXBLK;
    for (int i = 0; i < 32; i++) ok = ok && out[i] == g_exp_digest[i];
    verif_observe(out[0]);
    return ok;
}
static bool near_boundary(size_t c) { const size_t r = c % 64; return r <= 2 || (r >= 55 && r <= 57) || r >= 62; }
extern "C" void h_sha256_padding()
{
    Transform = rec_transform;
    uint8_t m[MLEN ? MLEN : 1];
    for (int i = 0; i < MLEN; i++) m[i] = nondet_u8();
    const size_t pl = ref256::padded_len(MLEN);
    VASSERT(pl == 64 * MAXBLK && pl % 64 == 0 && pl >= MLEN + 9 && pl < MLEN + 9 + 64, "reference padded length is the least multiple of 64 >= len + 9");
    for (size_t i = 0; i < pl; i++) g_exp[i] = ref256::padded_byte(m, MLEN, i);
    {   // expected digest = big-endian words of the mock chaining value after pl/64 compressions
        uint32_t s[8]; for (int i = 0; i < 8; i++) s[i] = ref256::H0[i];
        for (unsigned k = 1; k <= pl / 64; k++) for (int i = 0; i < 8; i++) s[i] = mock_mix(s[i], k, i);
        for (int i = 0; i < 8; i++) for (int j = 0; j < 4; j++) g_exp_digest[4 * i + j] = (uint8_t)(s[i] >> (24 - 8 * j));
    }
    bool all = true; unsigned runs = 0;
#if WRITES == 2
    for (size_t c = 0; c <= MLEN; c++) {
#if MLEN > 65 && !defined(ALLCUTS)
        if (!(near_boundary(c) || c + 1 >= MLEN)) continue;
#endif
        all = all && run_split(m, c, MLEN); runs++;
    }
#else
    for (size_t c1 = 0; c1 <= MLEN; c1++) {
        if (MLEN > 24 && !(c1 == 0 || c1 == 1 || c1 == 31 || c1 == 63 || c1 == 64 || c1 == 65)) continue;
        for (size_t c2 = c1; c2 <= MLEN; c2++) {
            const size_t d = c2 - c1;
            if (MLEN > 24 && !(d <= 1 || (d >= 63 && d <= 65) || c2 + 1 >= MLEN)) continue;
            all = all && run_split(m, c1, c2); runs++;
        }
    }
#endif
    VASSERT(all, "for every enumerated split: compressed blocks == FIPS 180-4 padding of the message, initial value == FIPS H(0), digest == big-endian final chaining value");
    verif_observe(runs);
    VWITNESS(runs >= 1 && g_nblk == (MLEN + 8) / 64 + 1, "splits executed; last run compressed the expected number of blocks");
    VREACH("end");
}
