// Reference SHA-256 transcribed from FIPS 180-4: 4.1.2 (functions), 4.2.2 (constants; generated from their definition as the
// fractional parts of the cube roots of the first 64 primes, see harness notes), 5.1.1 (padding), 5.3.3 (initial hash value),
// 6.2.2 (hash computation: message schedule W[0..63], 64 rounds with T1/T2, feed-forward).
#pragma once
#include <stdint.h>
#include <stddef.h>
namespace ref256 {
static const uint32_t K[64] = {
    0x428a2f98, 0x71374491, 0xb5c0fbcf, 0xe9b5dba5, 0x3956c25b, 0x59f111f1, 0x923f82a4, 0xab1c5ed5, 0xd807aa98, 0x12835b01, 0x243185be, 0x550c7dc3, 0x72be5d74, 0x80deb1fe, 0x9bdc06a7, 0xc19bf174,
    0xe49b69c1, 0xefbe4786, 0x0fc19dc6, 0x240ca1cc, 0x2de92c6f, 0x4a7484aa, 0x5cb0a9dc, 0x76f988da, 0x983e5152, 0xa831c66d, 0xb00327c8, 0xbf597fc7, 0xc6e00bf3, 0xd5a79147, 0x06ca6351, 0x14292967,
    0x27b70a85, 0x2e1b2138, 0x4d2c6dfc, 0x53380d13, 0x650a7354, 0x766a0abb, 0x81c2c92e, 0x92722c85, 0xa2bfe8a1, 0xa81a664b, 0xc24b8b70, 0xc76c51a3, 0xd192e819, 0xd6990624, 0xf40e3585, 0x106aa070,
    0x19a4c116, 0x1e376c08, 0x2748774c, 0x34b0bcb5, 0x391c0cb3, 0x4ed8aa4a, 0x5b9cca4f, 0x682e6ff3, 0x748f82ee, 0x78a5636f, 0x84c87814, 0x8cc70208, 0x90befffa, 0xa4506ceb, 0xbef9a3f7, 0xc67178f2};
static const uint32_t H0[8] = {0x6a09e667, 0xbb67ae85, 0x3c6ef372, 0xa54ff53a, 0x510e527f, 0x9b05688c, 0x1f83d9ab, 0x5be0cd19};
static inline uint32_t rotr(uint32_t x, int n) { return (x >> n) | (x << (32 - n)); }
// FIPS 180-4 (4.2) / (4.3)
static inline uint32_t Ch_fips(uint32_t x, uint32_t y, uint32_t z) { return (x & y) ^ (~x & z); }
static inline uint32_t Maj_fips(uint32_t x, uint32_t y, uint32_t z) { return (x & y) ^ (x & z) ^ (y & z); }
// Equivalent mux / majority forms used inside compress() so that the word-level (SMT) equivalence check stays structural.
// Every harness that relies on compress() also proves Ch == Ch_fips and Maj == Maj_fips for all 2^96 inputs (lemma_ch_maj()).
static inline uint32_t Ch(uint32_t x, uint32_t y, uint32_t z) { return z ^ (x & (y ^ z)); }
static inline uint32_t Maj(uint32_t x, uint32_t y, uint32_t z) { return (x & y) | (z & (x | y)); }
static inline uint32_t S0(uint32_t x) { return rotr(x, 2) ^ rotr(x, 13) ^ rotr(x, 22); }
static inline uint32_t S1(uint32_t x) { return rotr(x, 6) ^ rotr(x, 11) ^ rotr(x, 25); }
static inline uint32_t s0(uint32_t x) { return rotr(x, 7) ^ rotr(x, 18) ^ (x >> 3); }
static inline uint32_t s1(uint32_t x) { return rotr(x, 17) ^ rotr(x, 19) ^ (x >> 10); }
// one application of the compression function (6.2.2 steps 1-4) to a block given as its sixteen 32-bit words M_0..M_15
static void compress_words(uint32_t* H, const uint32_t* M)
{
    uint32_t W[64];
    for (int t = 0; t < 16; t++) W[t] = M[t];
    // W_t = s1(W_{t-2}) + W_{t-7} + s0(W_{t-15}) + W_{t-16}  (addition mod 2^32 is associative/commutative; this parenthesisation keeps the
    // solver's equivalence check against the code under test structural)
    for (int t = 16; t < 64; t++) W[t] = W[t - 16] + (s1(W[t - 2]) + W[t - 7] + s0(W[t - 15]));
    uint32_t a = H[0], b = H[1], c = H[2], d = H[3], e = H[4], f = H[5], g = H[6], h = H[7];
    for (int t = 0; t < 64; t++) {
        const uint32_t T1 = h + S1(e) + Ch(e, f, g) + (K[t] + W[t]);   // T1 = h + S1(e) + Ch(e,f,g) + K_t + W_t
        const uint32_t T2 = S0(a) + Maj(a, b, c);
        h = g; g = f; f = e; e = d + T1; d = c; c = b; b = a; a = T1 + T2;
    }
    H[0] += a; H[1] += b; H[2] += c; H[3] += d; H[4] += e; H[5] += f; H[6] += g; H[7] += h;
}
// the same for a block given as 64 bytes (big-endian words, 5.2.1 / 3.1)
static void compress(uint32_t* H, const uint8_t* B)
{
    uint32_t M[16];
    for (int t = 0; t < 16; t++) M[t] = (uint32_t)B[4 * t] << 24 | (uint32_t)B[4 * t + 1] << 16 | (uint32_t)B[4 * t + 2] << 8 | (uint32_t)B[4 * t + 3];
    compress_words(H, M);
}
// padded length in bytes of an l-byte message (5.1.1: append bit 1, k zero bits, 64-bit big-endian bit length; multiple of 512 bits)
static inline size_t padded_len(size_t l) { return ((l + 8) / 64 + 1) * 64; }
// byte i of the padded message
static inline uint8_t padded_byte(const uint8_t* msg, size_t l, size_t i)
{
    const size_t pl = padded_len(l);
    if (i < l) return msg[i];
    if (i == l) return 0x80;
    if (i < pl - 8) return 0x00;
    return (uint8_t)(((uint64_t)l * 8) >> (8 * (pl - 1 - i)));
}
} // namespace ref256
