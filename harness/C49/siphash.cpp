// C49: CSipHasher / PresaltedSipHasher (crypto/siphash.{h,cpp}) compute SipHash-2-4.
// Oracle: SipHash-2-4 transcribed from Aumasson & Bernstein, "SipHash: a fast short-input PRF" (section 2: initialisation,
// compression with c=2 SipRounds per 8-byte little-endian word, final word = remaining bytes | (len mod 256) << 56,
// finalisation v2 ^= 0xff, d=4 rounds, output v0^v1^v2^v3), over a byte array.
#include <verif.h>
#include <crypto/siphash.h>
#include <uint256.h>
#include <span>

#ifndef MLEN
#define MLEN 9
#endif

namespace ref {
static inline uint64_t rotl(uint64_t x, int b) { return (x << b) | (x >> (64 - b)); }
struct St { uint64_t v[4]; };
static void sipround(St& s)
{
    uint64_t &v0 = s.v[0], &v1 = s.v[1], &v2 = s.v[2], &v3 = s.v[3];
    v0 += v1; v2 += v3; v1 = rotl(v1, 13); v3 = rotl(v3, 16); v1 ^= v0; v3 ^= v2; v0 = rotl(v0, 32);
    v2 += v1; v0 += v3; v1 = rotl(v1, 17); v3 = rotl(v3, 21); v1 ^= v2; v3 ^= v0; v2 = rotl(v2, 32);
}
static uint64_t siphash24(uint64_t k0, uint64_t k1, const uint8_t* m, size_t len)
{
    St s{{k0 ^ 0x736f6d6570736575ULL, k1 ^ 0x646f72616e646f6dULL, k0 ^ 0x6c7967656e657261ULL, k1 ^ 0x7465646279746573ULL}};
    const size_t words = len / 8;
    for (size_t i = 0; i < words; i++) {
        uint64_t mi = 0;
        for (int j = 0; j < 8; j++) mi |= (uint64_t)m[8 * i + j] << (8 * j);
        s.v[3] ^= mi; sipround(s); sipround(s); s.v[0] ^= mi;
    }
    uint64_t b = (uint64_t)(len & 0xff) << 56;
    for (size_t j = 0; j < len % 8; j++) b |= (uint64_t)m[8 * words + j] << (8 * j);
    s.v[3] ^= b; sipround(s); sipround(s); s.v[0] ^= b;
    s.v[2] ^= 0xff;
    sipround(s); sipround(s); sipround(s); sipround(s);
    return s.v[0] ^ s.v[1] ^ s.v[2] ^ s.v[3];
}
} // namespace ref

// byte interface, one shot (and the uint64 interface when MLEN is a multiple of 8) against the reference
extern "C" void h_siphash_bytes()
{
    const uint64_t k0 = nondet_u64(), k1 = nondet_u64();
    uint8_t m[MLEN ? MLEN : 1];
    for (int i = 0; i < MLEN; i++) m[i] = nondet_u8();
    const uint64_t expect = ref::siphash24(k0, k1, m, MLEN);
    const uint64_t one = CSipHasher(k0, k1).Write(std::span<const unsigned char>(m, (size_t)MLEN)).Finalize();
    VASSERT(one == expect, "CSipHasher one-shot equals reference SipHash-2-4");
#if MLEN % 8 == 0 && MLEN > 0
    CSipHasher w(k0, k1);
    for (int i = 0; i < MLEN / 8; i++) { uint64_t v = 0; for (int j = 0; j < 8; j++) v |= (uint64_t)m[8 * i + j] << (8 * j); w.Write(v); }
    VASSERT(w.Finalize() == expect, "Write(uint64) equals writing its 8 little-endian bytes");
#endif
    verif_observe(one);
    VWITNESS((one & 1) == 1, "odd output");
    VREACH("end");
}

// streaming: EVERY split of the MLEN bytes into three spans (all cut points 0 <= c1 <= c2 <= MLEN enumerated concretely inside the
// query), with an intermediate const Finalize, gives the one-shot result
extern "C" void h_siphash_chunks()
{
    const uint64_t k0 = nondet_u64(), k1 = nondet_u64();
    uint8_t m[MLEN ? MLEN : 1];
    for (int i = 0; i < MLEN; i++) m[i] = nondet_u8();
    const uint64_t one = CSipHasher(k0, k1).Write(std::span<const unsigned char>(m, (size_t)MLEN)).Finalize();
    bool all = true;
    for (size_t c1 = 0; c1 <= MLEN; c1++) {
        for (size_t c2 = c1; c2 <= MLEN; c2++) {
#ifdef TWO_WRITES
            if (c2 != c1) continue;   // variant: only two writes (one cut point)
#endif
            CSipHasher h(k0, k1);
            h.Write(std::span<const unsigned char>(m, c1));
            h.Write(std::span<const unsigned char>(m + c1, c2 - c1));
            verif_observe(h.Finalize());   // Finalize is const: must not disturb the stream
            h.Write(std::span<const unsigned char>(m + c2, MLEN - c2));
            all = all && h.Finalize() == one;
        }
    }
    VASSERT(all, "CSipHasher result is independent of chunking (every split into three writes)");
    verif_observe(one);
    VWITNESS((one & 1) == 1, "odd output");
    VREACH("end");
}

// uint256 fast paths used for hash tables / short ids
extern "C" void h_siphash_u256()
{
    const uint64_t k0 = nondet_u64(), k1 = nondet_u64();
    uint8_t m[36];
    for (int i = 0; i < 32; i++) m[i] = nondet_u8();
    const uint32_t extra = nondet_u32();
    for (int j = 0; j < 4; j++) m[32 + j] = (uint8_t)(extra >> (8 * j));
    uint256 v; for (int i = 0; i < 32; i++) v.begin()[i] = m[i];
    const PresaltedSipHasher ps(k0, k1);
    const uint64_t a = ps(v), b = ps(v, extra);
    VASSERT(a == ref::siphash24(k0, k1, m, 32), "PresaltedSipHasher(uint256) equals SipHash-2-4 of the 32 bytes");
    VASSERT(b == ref::siphash24(k0, k1, m, 36), "PresaltedSipHasher(uint256, extra) equals SipHash-2-4 of the 32 bytes followed by LE32(extra)");
    verif_observe(a); verif_observe(b);
    VWITNESS(a != b, "outputs differ"); VREACH("end");
}
