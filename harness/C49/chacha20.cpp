// C49: ChaCha20Aligned / ChaCha20 (crypto/chacha20.cpp, included so that the inline members are visible) vs RFC 8439.
// Oracle: RFC 8439 section 2.1 (quarter round), 2.3 (block function: constants | key | counter | nonce, 10 double rounds,
// feed-forward addition, little-endian serialisation), 2.4 (encryption = XOR with the key stream, counter + 1 per block).
#include <verif.h>
#include <crypto/chacha20.cpp>
#include <string.h>

void memory_cleanse(void* ptr, size_t len) { memset(ptr, 0, len); }   // stub: wiping is not an observable of this property

#ifndef NBLK
#define NBLK 1
#endif

namespace ref {
static inline uint32_t rotl32(uint32_t x, int n) { return (x << n) | (x >> (32 - n)); }
static void qr(uint32_t* s, int a, int b, int c, int d)
{
    s[a] += s[b]; s[d] ^= s[a]; s[d] = rotl32(s[d], 16);
    s[c] += s[d]; s[b] ^= s[c]; s[b] = rotl32(s[b], 12);
    s[a] += s[b]; s[d] ^= s[a]; s[d] = rotl32(s[d], 8);
    s[c] += s[d]; s[b] ^= s[c]; s[b] = rotl32(s[b], 7);
}
static uint32_t le32(const uint8_t* p) { return (uint32_t)p[0] | (uint32_t)p[1] << 8 | (uint32_t)p[2] << 16 | (uint32_t)p[3] << 24; }
// key: 32 bytes, nonce: 12 bytes, out: 64 bytes
static void block(const uint8_t* key, uint32_t counter, const uint8_t* nonce, uint8_t* out)
{
    uint32_t st[16], w[16];
    st[0] = 0x61707865; st[1] = 0x3320646e; st[2] = 0x79622d32; st[3] = 0x6b206574;
    for (int i = 0; i < 8; i++) st[4 + i] = le32(key + 4 * i);
    st[12] = counter;
    for (int i = 0; i < 3; i++) st[13 + i] = le32(nonce + 4 * i);
    for (int i = 0; i < 16; i++) w[i] = st[i];
    for (int r = 0; r < 10; r++) {
        qr(w, 0, 4, 8, 12); qr(w, 1, 5, 9, 13); qr(w, 2, 6, 10, 14); qr(w, 3, 7, 11, 15);
        qr(w, 0, 5, 10, 15); qr(w, 1, 6, 11, 12); qr(w, 2, 7, 8, 13); qr(w, 3, 4, 9, 14);
    }
    for (int i = 0; i < 16; i++) { uint32_t v = w[i] + st[i]; out[4 * i] = (uint8_t)v; out[4 * i + 1] = (uint8_t)(v >> 8); out[4 * i + 2] = (uint8_t)(v >> 16); out[4 * i + 3] = (uint8_t)(v >> 24); }
}
} // namespace ref

struct Inputs { uint8_t key[32]; uint8_t nonce[12]; uint32_t n1; uint64_t n2; uint32_t ctr; };
static void draw(Inputs& in)
{
    for (int i = 0; i < 32; i++) in.key[i] = nondet_u8();
    in.n1 = nondet_u32(); in.n2 = nondet_u64(); in.ctr = nondet_u32();
    // Nonce96 = (32-bit first, 64-bit second) is the 12-byte nonce LE32(first) || LE64(second)
    for (int j = 0; j < 4; j++) in.nonce[j] = (uint8_t)(in.n1 >> (8 * j));
    for (int j = 0; j < 8; j++) in.nonce[4 + j] = (uint8_t)(in.n2 >> (8 * j));
}

// block function: NBLK consecutive key-stream blocks of ChaCha20Aligned::Keystream and Crypt against the RFC
extern "C" void h_chacha20_block()
{
    Inputs in; draw(in);
    VASSUME((uint64_t)in.ctr + NBLK - 1 <= 0xffffffffULL);   // RFC 8439 leaves counter wrap undefined (the code carries into the nonce; see h_chacha20_wrap)
    uint8_t exp[64 * NBLK], pt[64 * NBLK];
    for (int b = 0; b < NBLK; b++) ref::block(in.key, in.ctr + b, in.nonce, exp + 64 * b);
    std::byte out[64 * NBLK];
    ChaCha20Aligned c{std::span<const std::byte>((const std::byte*)in.key, 32)};
    c.Seek({in.n1, in.n2}, in.ctr);
    c.Keystream(out);
    bool eq = true;
    for (int i = 0; i < 64 * NBLK; i++) eq = eq && (uint8_t)out[i] == exp[i];
    VASSERT(eq, "ChaCha20Aligned::Keystream equals the RFC 8439 block function output");
    // Crypt: XOR of the same stream with the plaintext (2.4)
    for (int i = 0; i < 64 * NBLK; i++) pt[i] = nondet_u8();
    std::byte ct[64 * NBLK];
    c.Seek({in.n1, in.n2}, in.ctr);
    c.Crypt(std::span<const std::byte>((const std::byte*)pt, sizeof pt), ct);
    bool eqc = true;
    for (int i = 0; i < 64 * NBLK; i++) eqc = eqc && (uint8_t)ct[i] == (uint8_t)(pt[i] ^ exp[i]);
    VASSERT(eqc, "ChaCha20Aligned::Crypt equals plaintext XOR RFC 8439 key stream");
    for (int i = 0; i < 64 * NBLK; i += 8) verif_observe((uint8_t)out[i]);
    VWITNESS(((uint8_t)out[0] & 1) == 1, "odd first key-stream byte"); VWITNESS(in.ctr == 0xffffffffu - (NBLK - 1), "largest admissible counter");
    VREACH("end");
}
