// Reference sigop counter over a raw byte string, written from the script format description:
//  opcode byte; 0x01..0x4b push that many bytes; 0x4c/0x4d/0x4e (PUSHDATA1/2/4) are followed by a 1/2/4-byte little-endian length and
//  that many bytes; a truncated instruction ends the scan (what was counted so far stays); bytes inside push data are never opcodes.
//  CHECKSIG(0xac)/CHECKSIGVERIFY(0xad) count 1; CHECKMULTISIG(0xae)/CHECKMULTISIGVERIFY(0xaf) count 20, or in "accurate" mode
//  (P2SH redeem scripts / witness scripts) n when the directly preceding opcode is OP_n (0x51..0x60, n=1..16).
// The scan is written position-wise (for pos = 0..len-1: "is pos the start of an instruction?") so every loop bound is concrete.
#pragma once
#include <stdint.h>
struct ScanResult { unsigned sigops; bool parse_ok; bool push_only; int last_push_off; int last_push_len; bool last_is_data; };
template <int MAXLEN>
static ScanResult ref_scan(const uint8_t* b, int len, bool accurate)
{
    ScanResult r{0, true, true, 0, 0, false};
    int next = 0;           // offset of the next instruction
    int last = 0xff;        // previous opcode (0xff: none / invalid)
    bool stopped = false;
    for (int pos = 0; pos < MAXLEN; pos++) {
        if (pos >= len || stopped || pos != next) continue;
        const int op = b[pos];
        int after = pos + 1;
        if (op <= 0x4e) {
            int lenbytes = op < 0x4c ? 0 : op == 0x4c ? 1 : op == 0x4d ? 2 : 4;
            if (len - after < lenbytes) { stopped = true; r.parse_ok = false; continue; }
            uint64_t size = op < 0x4c ? (uint64_t)op : 0;
            for (int k = 0; k < 4; k++) if (k < lenbytes) { uint8_t v = 0; for (int q = 0; q < MAXLEN; q++) if (q == after + k) v = b[q]; size |= (uint64_t)v << (8 * k); }
            after += lenbytes;
            if ((uint64_t)(len - after) < size) { stopped = true; r.parse_ok = false; continue; }
            r.last_push_off = after; r.last_push_len = (int)size; r.last_is_data = true;
            after += (int)size;
        } else {
            r.last_is_data = false; r.last_push_len = 0;
            if (op > 0x60) r.push_only = false;
        }
        if (op == 0xac || op == 0xad) r.sigops += 1;
        else if (op == 0xae || op == 0xaf) r.sigops += (accurate && last >= 0x51 && last <= 0x60) ? (unsigned)(last - 0x50) : 20u;
        last = op;
        next = after;
    }
    return r;
}
