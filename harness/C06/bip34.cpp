// C06 (2): BIP34 height commitment. ContextualCheckBlock builds the expected prefix as `CScript() << nHeight` and requires the coinbase
// scriptSig to start with it. The real encoder is decided in three pieces (a single symbolic run of `CScript() << h` makes the prevector
// growth path with a symbolic size feasible for symex and does not finish):
//  MODE 1  CScriptNum::serialize(h) for every h in 17..2^31-1 == minimal little-endian sign-magnitude bytes (BIP34 / script number rules)
//  MODE 2  CScript() << vector of NB (concrete 1..5) symbolic bytes == [NB][bytes] (real AppendDataSize + prevector insert), and the
//          real prefix test of ContextualCheckBlock (same expression) against a symbolic scriptSig accepts iff it starts with those bytes
//  MODE 3  the composed CScript() << h (push_int64 dispatch) for every h in 0..16 and for the boundary heights of every length class
#include <verif.h>
#include <script/script.h>
#include <algorithm>
#include <limits.h>

#ifndef MODE
#define MODE 1
#endif
#ifndef NB
#define NB 3
#endif
#ifndef SSLEN
#define SSLEN 6
#endif

// reference encoding of a block height (BIP34: "serialized CScript" number push): 0 -> OP_0; 1..16 -> OP_1..OP_16 (what every node has
// implemented since BIP34); otherwise [len][little-endian magnitude, plus a 0x00 byte if the top bit of the last byte is set]
static int ref_mag(uint32_t v, uint8_t* mag) { int ml = 0; for (int k = 0; k < 4; k++) if (v) { mag[ml++] = (uint8_t)(v & 0xff); v >>= 8; } if (ml && (mag[ml - 1] & 0x80)) mag[ml++] = 0x00; return ml; }
static int ref_push(int height, uint8_t* out)
{
    if (height == 0) { out[0] = 0x00; return 1; }
    if (height <= 16) { out[0] = (uint8_t)(0x50 + height); return 1; }
    uint8_t mag[5]; const int ml = ref_mag((uint32_t)height, mag);
    out[0] = (uint8_t)ml; for (int k = 0; k < ml; k++) out[1 + k] = mag[k];
    return 1 + ml;
}

extern "C" void h_bip34()
{
#if MODE == 1
    const int height = (int)nondet_range(17, INT_MAX);
    const std::vector<unsigned char> v = CScriptNum::serialize(height);
    uint8_t mag[5]; const int ml = ref_mag((uint32_t)height, mag);
    verif_observe(v.size());
    VASSERT((int)v.size() == ml, "serialize(height) has the minimal length");
    bool same = true;
    for (int k = 0; k < 5; k++) if (k < ml && k < (int)v.size() && v[k] != mag[k]) same = false;
    VASSERT(same, "serialize(height) is the little-endian magnitude with sign padding byte when the top bit is set");
    VWITNESS(height == 17 && ml == 1, "height 17: 1 byte");
    VWITNESS(height == 128 && ml == 2 && v[1] == 0, "height 128 needs a padding byte");
    VWITNESS(height == 32768 && ml == 3, "height 32768 needs a padding byte");
    VWITNESS(height == 8388608 && ml == 4, "height 2^23 needs 4 bytes");
    VWITNESS(height == INT_MAX && ml == 4, "maximum height: 4 bytes");
#elif MODE == 2
    uint8_t d[NB]; std::vector<unsigned char> v(NB);
    for (int k = 0; k < NB; k++) { d[k] = nondet_u8(); v[k] = d[k]; }
    const CScript expect = CScript() << v;
    verif_observe(expect.size());
    VASSERT(expect.size() == NB + 1 && expect[0] == NB, "data push of 1..5 bytes is prefixed by its length");
    bool same = true;
    for (int k = 0; k < NB; k++) if (expect[1 + k] != d[k]) same = false;
    VASSERT(same, "pushed bytes follow unchanged");
    // acceptance test of ContextualCheckBlock (same expression) against a symbolic coinbase scriptSig
    CScript sig; sig.resize(SSLEN);
    uint8_t sb[SSLEN + 1];
    for (int k = 0; k < SSLEN; k++) { sb[k] = nondet_u8(); sig[k] = sb[k]; }
    const bool rejected = sig.size() < expect.size() || !std::equal(expect.begin(), expect.end(), sig.begin());
    bool starts = SSLEN >= NB + 1 && sb[0] == NB;
    for (int k = 0; k < NB; k++) if (1 + k < SSLEN && sb[1 + k] != d[k]) starts = false;
    verif_observe(rejected);
    VASSERT(rejected == !starts, "bad-cb-height test rejects iff scriptSig does not start with the encoded height");
#if SSLEN >= NB + 1
    VWITNESS(!rejected, "matching scriptSig accepted");
    VWITNESS(rejected && sb[0] == NB && (NB < 2 || sb[1] == d[0]), "scriptSig differing only in the last height byte rejected");
#else
    VWITNESS(rejected, "too-short scriptSig rejected");
#endif
#else
    static const int HS[] = {0, 1, 2, 3, 4, 5, 6, 7, 8, 9, 10, 11, 12, 13, 14, 15, 16, 17, 127, 128, 255, 256, 32767, 32768, 65535, 65536, 227931 /* BIP34 activation */,
                             8388607, 8388608, 16777215, 16777216, 2147483647};
    int covered = 0;
    for (unsigned i = 0; i < sizeof(HS) / sizeof(HS[0]); i++) {
        const CScript e = CScript() << HS[i];
        uint8_t ref[6]; const int rl = ref_push(HS[i], ref);
        bool same = (int)e.size() == rl;
        for (int k = 0; k < 6; k++) if (k < rl && k < (int)e.size() && e[k] != ref[k]) same = false;
        VASSERT(same, "CScript() << height equals the BIP34 encoding at 0..16 and at every length-class boundary");
        covered++;
    }
    verif_observe(covered);
    VWITNESS(covered == 32, "all listed heights executed");
#endif
    VREACH("end");
}
