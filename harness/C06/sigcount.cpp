// C06 (1): CScript::GetSigOpCount(bool) over every script of SLEN symbolic bytes == reference counter.
// Real code: script/script.cpp CScript::GetSigOpCount, GetScriptOp (via CScript::GetOp), DecodeOP_N; prevector.
#include <verif.h>
#include <script/script.h>
#include "sigref.h"

#ifndef SLEN
#define SLEN 4
#endif

extern "C" void h_sigcount()
{
    uint8_t b[SLEN + 1];
    CScript s;
#ifdef SYMLEN   // every length 0..SLEN in one query (prevector direct storage: no allocation)
    const int len = (int)nondet_range(0, SLEN);
#else
    const int len = SLEN;
#endif
    s.resize(len);
    for (int k = 0; k < SLEN; k++) { b[k] = nondet_u8(); if (k < len) s[k] = b[k]; }
    const bool accurate = nondet_bool();
    const unsigned got = s.GetSigOpCount(accurate);
    const ScanResult want = ref_scan<SLEN>(b, len, accurate);
    verif_observe(got); verif_observe(want.sigops);
    VASSERT(got == want.sigops, "GetSigOpCount == reference count (push data skipped, truncated push ends scan, OP_n before CHECKMULTISIG only in accurate mode)");
    VASSERT(got <= 20u * len, "at most 20 per byte");
#if SLEN >= 1
    VWITNESS(got == 1, "single checksig");
    VWITNESS(got == 20u * SLEN && len == SLEN, "all-CHECKMULTISIG script counts 20 each");
#endif
#if SLEN >= 2
    VWITNESS(got == 0 && b[1] == 0xac, "CHECKSIG byte inside push data is not counted");
    VWITNESS(got == 16 && accurate, "OP_16 CHECKMULTISIG counts 16 in accurate mode");
    VWITNESS(got == 20 && !accurate && b[0] == 0x52 && b[1] == 0xae, "OP_2 CHECKMULTISIG counts 20 in legacy mode");
    VWITNESS(got == 1 && b[0] == 0x6a && b[1] == 0xac, "CHECKSIG after OP_RETURN is still counted");
    VWITNESS(got == 1 && b[0] == 0xac && !want.parse_ok, "sigops before a truncated push stay counted");
#endif
#if SLEN >= 3
    VWITNESS(got == 0 && b[0] == 0x4c && b[2] == 0xae, "PUSHDATA1 payload skipped");
    VWITNESS(got == 20 && accurate && b[0] == 0x01 && b[1] == 0x52 && b[2] == 0xae, "data push equal to OP_2 byte does not make the multisig accurate");
#endif
    VREACH("end");
}
