// C06 (4): CheckBlock (validation.cpp): coinbase position, size limit and the legacy-sigop limit arithmetic.
// Real code: CheckBlock, GetSerializeSize(TX_NO_WITNESS(block)), CTransaction::IsCoinBase, ValidationState.
// Stubs: GetLegacySigOpCount returns a recorded symbolic value per transaction (its exactness: harnesses sigcount/sigcost), so that the sum and the
// "* 4 > 80000" comparison are decided at full width; CheckTransaction always passes (its rules: C03).
#include <verif.h>
#include <verif_hash_nondet.h>
#include <validation.h>
#include <consensus/validation.h>
#include <consensus/tx_verify.h>
#include <consensus/tx_check.h>
#include <consensus/params.h>
#include <primitives/block.h>
#include <primitives/transaction.h>
#include <string.h>

#ifndef NTX
#define NTX 2
#endif
#ifndef SSLEN    // scriptSig length of vtx[0]'s input (to reach the size limit)
#define SSLEN 2
#endif

template <auto M> struct Rob { friend const std::string& reason_of(const ValidationState<BlockValidationResult>& s) { return s.*M; } };
template struct Rob<&ValidationState<BlockValidationResult>::m_reject_reason>;
const std::string& reason_of(const ValidationState<BlockValidationResult>& s);
static bool str_is(const std::string& s, const char* lit) { return s.size() == strlen(lit) && memcmp(s.data(), lit, strlen(lit)) == 0; }

static unsigned g_sigops[NTX + 1]; static int g_sig_calls;
static int g_chk_calls;
unsigned int GetLegacySigOpCount(const CTransaction&) { return g_sigops[g_sig_calls < NTX ? g_sig_calls++ : NTX]; }
bool CheckTransaction(const CTransaction&, TxValidationState&) { g_chk_calls++; return true; }   // per-transaction rules and their reasons: C03
// formatting / unreachable externals of CheckBlock's TU
#include <util/strencodings.h>
#include <consensus/merkle.h>
std::string HexStr(const std::span<const uint8_t>) { return std::string(); }                      // only feeds the debug message of a failed tx check
#include <pow.h>
#include <signet.h>
bool CheckProofOfWork(uint256, unsigned int, const Consensus::Params&) { VASSERT(false, "proof of work is not evaluated (fCheckPOW=false)"); return false; }
bool CheckSignetBlockSolution(const CBlock&, const Consensus::Params&) { VASSERT(false, "signet solution is not evaluated (signet_blocks=false)"); return false; }
uint256 BlockMerkleRoot(const CBlock&, bool*) { VASSERT(false, "merkle root is not computed (fCheckMerkleRoot=false)"); return uint256(); }
static uint64_t cs_len(uint64_t n) { return n < 253 ? 1 : n <= 0xffff ? 3 : n <= 0xffffffffULL ? 5 : 9; }

extern "C" void h_checkblock()
{
    CBlock block;
    bool is_cb[NTX + 1];
    block.vtx.resize(NTX);
    for (int i = 0; i < NTX; i++) {
        CMutableTransaction m;
        m.vin.resize(1); m.vout.resize(1);
        const uint8_t hsel = (uint8_t)nondet_range(0, 1); const uint32_t n = nondet_u32();
        uint256 u; u.data()[0] = hsel;
        m.vin[0].prevout.hash = Txid::FromUint256(u); m.vin[0].prevout.n = n;
        is_cb[i] = hsel == 0 && n == 0xffffffffu;          // coinbase: single input with null prevout (all-zero hash, index 2^32-1)
        if (i == 0 && SSLEN > 0) {
#if SSLEN > 1000
            m.vin[0].scriptSig.resize_uninitialized(SSLEN);
#else
            m.vin[0].scriptSig.resize(SSLEN);
#endif
        }
        g_sigops[i] = (unsigned)nondet_range(0, 20000000);   // <= 20 sigops per byte of a <= 1,000,000-byte block: no 32-bit wrap of the sum is possible for real blocks
        block.vtx[i] = CTransactionRef(new CTransaction(std::move(m)));   // not make_shared: its in-place storage is an untyped byte buffer, which defeats symex constant propagation
    }
    g_sig_calls = 0; g_chk_calls = 0;
    Consensus::Params params;           // signet_blocks = false
    BlockValidationState st;
    const bool ok = CheckBlock(block, st, params, /*fCheckPOW=*/false, /*fCheckMerkleRoot=*/false);

    // reference from the property text
    uint64_t size = 80 + cs_len(NTX);
    for (int i = 0; i < NTX; i++) { const uint64_t l = i == 0 ? SSLEN : 0; size += 4 + 1 + (36 + cs_len(l) + l + 4) + 1 + (8 + 1) + 4; }
    enum { E_OK, E_LEN, E_CBMISSING, E_CBMULT, E_TX, E_SIGOPS } want = E_OK;
    uint64_t sum = 0; for (int i = 0; i < NTX; i++) sum += g_sigops[i];
    bool other_cb = false; for (int i = 1; i < NTX; i++) if (is_cb[i]) other_cb = true;
    if (NTX == 0 || (uint64_t)NTX * 4 > 4000000 || size * 4 > 4000000) want = E_LEN;
    else if (!is_cb[0]) want = E_CBMISSING;
    else if (other_cb) want = E_CBMULT;
    else if (sum * 4 > 80000) want = E_SIGOPS;
    verif_observe(ok); verif_observe(want);
    VASSERT(ok == (want == E_OK), "CheckBlock accepts iff non-empty, within size, exactly one coinbase in first position, all tx checks pass, legacy sigops*4 <= 80000");
    VASSERT(ok == st.IsValid(), "state agrees");
    if (want == E_OK || want == E_SIGOPS) VASSERT(g_chk_calls == NTX && g_sig_calls == NTX, "every transaction is checked and counted once");
    if (!ok) {
        const std::string& r = reason_of(st);
        VASSERT(st.GetResult() == BlockValidationResult::BLOCK_CONSENSUS, "consensus failure");
        if (want == E_LEN) VASSERT(str_is(r, "bad-blk-length"), "oversize reported");
        if (want == E_CBMISSING) VASSERT(str_is(r, "bad-cb-missing"), "missing coinbase reported");
        if (want == E_CBMULT) VASSERT(str_is(r, "bad-cb-multiple"), "second coinbase reported");
        if (want == E_SIGOPS) VASSERT(str_is(r, "bad-blk-sigops"), "sigop excess reported");
    }
#ifdef OVERSIZE
    VWITNESS(want == E_LEN, "one byte over the size limit rejected");
#else
    VWITNESS(ok && sum == 20000, "exactly 80000 sigop cost accepted");
    VWITNESS(want == E_SIGOPS && sum == 20001, "one sigop over rejected");
    VWITNESS(want == E_CBMISSING, "missing coinbase reachable");
#if NTX > 1
    VWITNESS(want == E_CBMULT, "second coinbase reachable");
    VWITNESS(ok && g_sigops[0] == 1 && g_sigops[1] == 19999, "sum across transactions");
#endif
#endif
    VREACH("end");
}
