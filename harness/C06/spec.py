from vlib import H
PROPERTY = 'C06'
LEVEL = 'model_checking'
CLAIM = 'placeholder'
HARNESSES = [
    H('sigcount', 'sigcount.cpp', 'h_sigcount', link=['script/script.cpp'], variants=[{'SLEN': n} for n in (0, 1, 2, 3, 4, 6)], tvariants=[{'SLEN': n} for n in range(0, 11)],
      functions=['CScript::GetSigOpCount(bool) (script/script.cpp)', 'GetScriptOp / CScript::GetOp', 'CScript::DecodeOP_N', 'prevector<36,uint8_t>'],
      unwind=16, timeout=300, objbits=10,
      bounds='every script of length 0..4 bytes (thorough 0..7), all bytes symbolic, both counting modes'),
    H('bip34', 'bip34.cpp', 'h_bip34', link=['script/script.cpp'],
      variants=[{'MODE': 1}, {'MODE': 2, 'NB': 1, 'SSLEN': 4}, {'MODE': 2, 'NB': 3, 'SSLEN': 6}, {'MODE': 2, 'NB': 4, 'SSLEN': 4}, {'MODE': 3}],
      tvariants=[{'MODE': 1}, {'MODE': 3}] + [{'MODE': 2, 'NB': n, 'SSLEN': l} for n in (1, 2, 3, 4, 5) for l in (n, n + 1, 8)],
      functions=['CScriptNum::serialize', 'CScript::operator<<(int64_t) / push_int64', 'CScript::operator<<(vector) / AppendDataSize / prevector::insert', 'std::equal prefix test of ContextualCheckBlock (same expression)'],
      unwind=40, unwindset='_ZN10CScriptNum9serializeERKl.0:5', memunwind=12, cbmc=['-D', 'VERIF_ALLOC_MAX=32'], timeout=300, objbits=10,
      bounds='MODE 1: every height 17..2^31-1; MODE 2: every 1/3/4-byte (thorough 1..5) pushed value, coinbase scriptSig of 4/6 symbolic bytes; MODE 3: the composed CScript()<<h on 32 concrete heights (0..16 and all length-class boundaries) only'),
    H('sigcost', 'sigcost.cpp', 'h_sigcost', link=['consensus/tx_verify.cpp', 'script/interpreter.cpp', 'script/script.cpp', 'primitives/transaction.cpp', 'uint256.cpp', 'hash.cpp'],
      variants=[{'SPK': 0, 'SSLEN': 2, 'CLEN': 2}, {'SPK': 1, 'SSLEN': 3}],
      functions=['GetLegacySigOpCount', 'GetP2SHSigOpCount', 'GetTransactionSigOpCost (consensus/tx_verify.cpp)', 'CountWitnessSigOps / WitnessSigOps (script/interpreter.cpp)',
                 'CScript::GetSigOpCount(const CScript&)', 'CScript::IsPayToScriptHash', 'CScript::IsWitnessProgram', 'CScript::IsPushOnly', 'GetScriptOp'],
      stubs=['CCoinsViewCache::AccessCoin answered from a harness coin (phantom view object)', 'CSHA256 unconstrained-output model (txid irrelevant)', 'assertion_fail (util/check.cpp) replaced by a failing assertion'],
      assumptions=['flags never contain WITNESS without P2SH (GetBlockScriptFlags; asserted by CountWitnessSigOps)'],
      unwind=10, memunwind=40, cbmc=['-D', 'VERIF_ALLOC_MAX=128'], timeout=300, objbits=10, nofmt=True,
      bounds='one input, one output'),
]
