from vlib import H
PROPERTY = 'C06'
LEVEL = 'model_checking'
CLAIM = ('Block-structure and resource-limit kernels executed symbolically on the real code against references written from the script format, BIP16, BIP34 and BIP141: '
         '(1) CScript::GetSigOpCount(bool) == reference count for every script of 0..4 and 6 symbolic bytes (every opcode, truncated pushes, CHECKSIG bytes inside push data, OP_n before CHECKMULTISIG, both modes); '
         '(2) GetLegacySigOpCount / GetP2SHSigOpCount / GetTransactionSigOpCost / CountWitnessSigOps == 4*legacy + 4*accurate redeem-script count + witness sigops (P2WPKH 1, P2WSH accurate witness-script count, P2SH-wrapped forms, other versions 0, coinbase legacy only) with all flag bits symbolic; '
         '(3) BIP34: CScriptNum::serialize(h) is the minimal encoding for every height 17..2^31-1, CScript()<<data prefixes the length, the bad-cb-height prefix test accepts iff the scriptSig starts with the encoded height, composed CScript()<<h on 0..16 and all length-class boundaries; '
         '(4) CheckBlock accepts iff the block is non-empty, at most 1,000,000 non-witness bytes (x4 <= 4,000,000), starts with exactly one coinbase, and the summed legacy sigops x4 <= 80,000, with the documented reject reason; '
         'smallest violations (20001 sigops, 1,000,001 bytes, second coinbase, no coinbase) are rejected.')
ASSIGN = '_ZNSt6vectorIhSaIhEE13_M_assign_auxIN9prevectorILj36EhjiE14const_iteratorEEEvT_S6_St20forward_iterator_tag'
def sigcost_unwindset(v):
    big = 'WRAP' in v or v.get('SPK', 0) >= 1
    m = 40 if big else max(v.get('SSLEN', 3), v.get('WLEN', 0)) + 2
    us = ['h_sigcost.%d:44' % k for k in range(0, 40)] + ['ll_memset.0:44']
    us += ['%s:%d' % (l, m) for l in ('ll_memcpy.0', 'll_memmove.0', 'll_memmove.1', ASSIGN + '.0', ASSIGN + '.1', ASSIGN + '.2')]
    # the reference scanner is instantiated per length (template parameter): its position loops run exactly that many times
    for n in set([v.get('SSLEN', 3), v.get('PKLEN', 2), v.get('WLEN', 3)]):
        us += ['_ZL8ref_scanILi%dEE10ScanResultPKhib.%d:%d' % (n, k, max(n, 4) + 2) for k in (0, 1, 2)]
    if 'WRAP' in v:
        us += ['_ZNK7CScript13GetSigOpCountERKS_.%d:40' % k for k in (0, 1, 2)] + ['_Z18CountWitnessSigOpsRK7CScriptS1_RK14CScriptWitness19script_verify_flags.%d:40' % k for k in (0, 1, 2)]
    return ','.join(us)
HARNESSES = [
    H('sigcount', 'sigcount.cpp', 'h_sigcount', link=['script/script.cpp'], variants=[{'SLEN': n} for n in (2, 3, 4, 6)], tvariants=[{'SLEN': n} for n in range(0, 11)],
      functions=['CScript::GetSigOpCount(bool) (script/script.cpp)', 'GetScriptOp / CScript::GetOp', 'CScript::DecodeOP_N', 'prevector<36,uint8_t>'],
      unwind=16, timeout=300, objbits=10,
      bounds='every script of length 2,3,4,6 bytes (thorough every length 0..10), all bytes symbolic, both counting modes'),
    H('bip34', 'bip34.cpp', 'h_bip34', link=['script/script.cpp'],
      variants=[{'MODE': 1}, {'MODE': 2, 'NB': 3, 'SSLEN': 6}, {'MODE': 2, 'NB': 4, 'SSLEN': 4}, {'MODE': 3}],
      tvariants=[{'MODE': 1}, {'MODE': 3}] + [{'MODE': 2, 'NB': n, 'SSLEN': l} for n in (1, 2, 3, 4, 5) for l in (n, n + 1, 8)],
      functions=['CScriptNum::serialize', 'CScript::operator<<(int64_t) / push_int64', 'CScript::operator<<(vector) / AppendDataSize / prevector::insert', 'std::equal prefix test of ContextualCheckBlock (same expression)'],
      unwind=40, unwindset='_ZN10CScriptNum9serializeERKl.0:5', memunwind=12, cbmc=['-D', 'VERIF_ALLOC_MAX=32'], timeout=300, objbits=10,
      bounds='MODE 1: every height 17..2^31-1; MODE 2: every 1/3/4-byte (thorough 1..5) pushed value, coinbase scriptSig of 4/6 symbolic bytes; MODE 3: the composed CScript()<<h on 32 concrete heights (0..16 and all length-class boundaries) only'),
    H('sigcost', 'sigcost.cpp', 'h_sigcost', link=['consensus/tx_verify.cpp', 'script/interpreter.cpp', 'script/script.cpp', 'primitives/transaction.cpp', 'uint256.cpp', 'hash.cpp'],
      variants=[{'SPK': 0, 'SSLEN': 2, 'SIG': 'S,S', 'CLEN': 2}, {'SPK': 1, 'SSLEN': 3, 'SIG': '0x02,S,S', 'W_REDEEM': 1}, {'SPK': 1, 'SSLEN': 3, 'SIG': '0x01,S,0xac', 'W_TRAILOP': 1}, {'SPK': 1, 'SSLEN': 3, 'SIG': '0x01,S,0x51', 'W_TRAILN': 1},
                {'SPK': 1, 'SSLEN': 23, 'WRAP': 1}, {'SPK': 1, 'SSLEN': 24, 'WRAP': 1, 'WRAPPRE': 1}, {'SPK': 2, 'SSLEN': 1, 'SIG': 'S'}, {'SPK': 3, 'SSLEN': 0, 'WN': 2, 'WLEN': 3}, {'SPK': 3, 'SSLEN': 0, 'WN': 1, 'WLEN': 3},
                {'COINBASE': 1, 'SPK': 1, 'SSLEN': 3, 'SIG': '0x02,S,S'}],
      tvariants=[{'SPK': 0, 'SSLEN': 2, 'SIG': 'S,S', 'CLEN': 2}, {'SPK': 0, 'SSLEN': 4, 'SIG': 'S,S,S,S', 'CLEN': 4}, {'SPK': 1, 'SSLEN': 3, 'SIG': '0x02,S,S', 'W_REDEEM': 1}, {'SPK': 1, 'SSLEN': 5, 'SIG': '0x04,S,S,S,S', 'W_REDEEM': 1},
                 {'SPK': 1, 'SSLEN': 5, 'SIG': '0x4c,0x03,S,S,S', 'W_REDEEM': 1}, {'SPK': 1, 'SSLEN': 6, 'SIG': '0x01,S,0x51,0x02,S,S', 'W_REDEEM': 1}, {'SPK': 1, 'SSLEN': 3, 'SIG': '0x01,S,0xac', 'W_TRAILOP': 1}, {'SPK': 1, 'SSLEN': 3, 'SIG': '0x01,S,0x51', 'W_TRAILN': 1},
                 {'SPK': 1, 'SSLEN': 23, 'WRAP': 1}, {'SPK': 1, 'SSLEN': 24, 'WRAP': 1, 'WRAPPRE': 1}, {'SPK': 1, 'SSLEN': 35, 'WRAP': 1, 'WN': 1, 'WLEN': 3},
                 {'SPK': 2, 'SSLEN': 1, 'SIG': 'S'}, {'SPK': 3, 'SSLEN': 0, 'WN': 2, 'WLEN': 3}, {'SPK': 3, 'SSLEN': 0, 'WN': 1, 'WLEN': 5}, {'SPK': 3, 'SSLEN': 1, 'SIG': 'S', 'WN': 0}, {'COINBASE': 1, 'SPK': 1, 'SSLEN': 3, 'SIG': '0x02,S,S'}],
      functions=['GetLegacySigOpCount', 'GetP2SHSigOpCount', 'GetTransactionSigOpCost (consensus/tx_verify.cpp)', 'CountWitnessSigOps / WitnessSigOps (script/interpreter.cpp)',
                 'CScript::GetSigOpCount(const CScript&)', 'CScript::IsPayToScriptHash', 'CScript::IsWitnessProgram', 'CScript::IsPushOnly', 'GetScriptOp'],
      stubs=['CCoinsViewCache::AccessCoin answered from a harness coin (phantom view object)', 'CSHA256 unconstrained-output model (txid irrelevant)', 'assertion_fail (util/check.cpp) replaced by a failing assertion'],
      assumptions=['flags never contain WITNESS without P2SH (GetBlockScriptFlags; asserted by CountWitnessSigOps)'],
      unwind=10, memunwind=0, unwindset=sigcost_unwindset,
      cbmc=['-D', 'VERIF_ALLOC_MAX=128'], timeout=600, objbits=10, nofmt=True,
      bounds='one input, one output (2 symbolic bytes), all flag bits symbolic; spent script: 2 arbitrary bytes / 23-byte with the three P2SH template bytes symbolic / 22- and 34-byte with version and push-length bytes symbolic; '
             'scriptSig: opcode skeleton concrete per variant (SIG template), data bytes symbolic: for P2SH every 2-byte redeem script (thorough: 3- and 4-byte, PUSHDATA1, two pushes), a push followed by CHECKSIG or OP_1, or one push whose redeem-script version/length bytes are symbolic (P2SH-wrapped witness); legacy counting over all 2-byte scriptSigs; witness script of 3 symbolic bytes'),
    H('checkblock', 'checkblock.cpp', 'h_checkblock', link=['validation.cpp', 'primitives/block.cpp', 'primitives/transaction.cpp', 'script/script.cpp', 'uint256.cpp', 'hash.cpp'],
      variants=[{'NTX': 1}, {'NTX': 2}, {'NTX': 1, 'SSLEN': 999855}, {'NTX': 1, 'SSLEN': 999856, 'OVERSIZE': 1}], tvariants=[{'NTX': 1}, {'NTX': 2}, {'NTX': 3}, {'NTX': 1, 'SSLEN': 999855}, {'NTX': 1, 'SSLEN': 999856, 'OVERSIZE': 1}],
      functions=['CheckBlock (validation.cpp)', 'GetSerializeSize(TX_NO_WITNESS(block))', 'CTransaction::IsCoinBase', 'BlockValidationState'],
      stubs=['GetLegacySigOpCount -> recorded symbolic per-transaction value in [0, 20,000,000]', 'CheckTransaction -> always passes (its rules and reject reasons: C03)', 'CSHA256 unconstrained-output model'],
      assumptions=['per-transaction legacy sigop count <= 20,000,000 (20 per script byte of a <= 1,000,000-byte block), so the 32-bit sum cannot wrap', 'fCheckPOW=false, fCheckMerkleRoot=false (header/merkle rules are other properties)'],
      unwind=12, unwindset='_ZNK9base_blobILj256EE8ToStringB5cxx11Ev.0:34', memunwind=104, timeout=600, objbits=10, nofmt=True,
      bounds='blocks of 1..2 transactions (thorough 3), each 1-in/1-out with symbolic prevout (null or not); size-boundary shapes of exactly 1,000,000 / 1,000,001 non-witness bytes'),
]
