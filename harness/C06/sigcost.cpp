// C06 (3): per-transaction sigop cost: GetLegacySigOpCount, GetP2SHSigOpCount, GetTransactionSigOpCost (consensus/tx_verify.cpp),
// CScript::GetSigOpCount(const CScript& scriptSig), IsPayToScriptHash, IsWitnessProgram, IsPushOnly (script/script.cpp),
// CountWitnessSigOps / WitnessSigOps (script/interpreter.cpp) == reference written from BIP16 / BIP141 ("Sigops" section):
//   cost = 4 * legacy(scriptSigs + output scripts, inaccurate mode)
//        + 4 * accurate count of the redeem script (last scriptSig push) for P2SH outputs spent, when P2SH is enforced
//        + witness sigops when WITNESS is enforced: P2WPKH 1; P2WSH accurate count of the witness script (last witness item);
//          same for the P2SH-wrapped forms; other witness versions 0.          Coinbase: legacy part only.
// The coins view is the harness (CCoinsViewCache::AccessCoin answered from a table).
#include <verif.h>
#include <verif_hash_nondet.h>
#include <coins.h>
#include <consensus/tx_verify.h>
#include <script/interpreter.h>
#include <primitives/transaction.h>
#include <util/check.h>
#include "sigref.h"

// scriptSig template: -DSIG=b0,b1,... with S for a symbolic byte, e.g. SIG=0x02,S,S (one push of two symbolic bytes); -DSSLEN=its length.
// Opcode positions that determine push sizes are concrete (shape), everything else symbolic.
#ifndef SSLEN
#define SSLEN 3
#define SIG S,S,S
#endif
#define S nondet_u8()
#ifndef PKLEN   // length of the tx's own output script
#define PKLEN 2
#endif
#ifndef SPK     // spent coin's scriptPubKey: 0 short arbitrary (CLEN symbolic bytes), 1 23-byte (P2SH template bytes symbolic), 2 22-byte, 3 34-byte (first two bytes symbolic)
#define SPK 0
#endif
#ifndef CLEN
#define CLEN 3
#endif
#ifndef WN      // witness stack items
#define WN 0
#endif
#ifndef WLEN    // length of the last witness item
#define WLEN 3
#endif
#define CSZ (SPK == 0 ? CLEN : SPK == 1 ? 23 : SPK == 2 ? 22 : 34)

static Coin g_coin;
const Coin& CCoinsViewCache::AccessCoin(const COutPoint&) const { return g_coin; }
void assertion_fail(const std::source_location&, std::string_view) { VASSERT(false, "Assert()/Assume() in code under test failed"); __builtin_trap(); }

static bool ref_witprog(const uint8_t* b, int n, int& version, int& plen)
{
    if (n < 4 || n > 42) return false;
    if (b[0] != 0 && (b[0] < 0x51 || b[0] > 0x60)) return false;
    if ((int)b[1] + 2 != n) return false;
    version = b[0] ? b[0] - 0x50 : 0; plen = n - 2;
    return true;
}

extern "C" void h_sigcost()
{
    uint8_t sb[SSLEN + 1], pb[PKLEN + 1], cb[CSZ + 1], wb[WLEN + 1];
    CMutableTransaction m;
    m.vin.resize(1); m.vout.resize(1);
#ifdef COINBASE
    m.vin[0].prevout.SetNull();
#else
    { uint256 u; u.data()[0] = 1; m.vin[0].prevout.hash = Txid::FromUint256(u); m.vin[0].prevout.n = nondet_u32(); }
#endif
    m.vin[0].scriptSig.resize(SSLEN);
#if SSLEN > 0
#ifdef WRAP     // P2SH-wrapped witness program shape: one push of SSLEN-1 bytes; the redeem script's version and length bytes are symbolic
#ifdef WRAPPRE  // same, preceded by a non-push opcode (OP_NOP): the scriptSig is not push-only, so neither BIP16 nor BIP141 look at the pushed program
    for (int k = 0; k < SSLEN; k++) sb[k] = k == 0 ? 0x61 : k == 1 ? (uint8_t)(SSLEN - 2) : (k == 2 || k == 3) ? nondet_u8() : 0x4b;
#else
    for (int k = 0; k < SSLEN; k++) sb[k] = k == 0 ? (uint8_t)(SSLEN - 1) : (k == 1 || k == 2) ? nondet_u8() : 0x4b;
#endif
#else
    { const uint8_t init[SSLEN] = {SIG}; for (int k = 0; k < SSLEN; k++) sb[k] = init[k]; }
#endif
    for (int k = 0; k < SSLEN; k++) m.vin[0].scriptSig[k] = sb[k];
#endif
    m.vout[0].scriptPubKey.resize(PKLEN);
    for (int k = 0; k < PKLEN; k++) { pb[k] = nondet_u8(); m.vout[0].scriptPubKey[k] = pb[k]; }
#if WN > 0
    m.vin[0].scriptWitness.stack.resize(WN);
    m.vin[0].scriptWitness.stack[WN - 1].resize(WLEN);
    for (int k = 0; k < WLEN; k++) { wb[k] = nondet_u8(); m.vin[0].scriptWitness.stack[WN - 1][k] = wb[k]; }
#endif
    g_coin.out.nValue = 1; g_coin.nHeight = 1; g_coin.fCoinBase = false;
    g_coin.out.scriptPubKey.resize(CSZ);
    for (int k = 0; k < CSZ; k++) {
#if SPK == 0
        cb[k] = nondet_u8();
#elif SPK == 1
        cb[k] = (k == 0 || k == 1 || k == 22) ? nondet_u8() : 0x4b;   // filler 0x4b = push of 75 bytes: a (never taken) legacy scan of this script stops at once
#else
        cb[k] = (k == 0 || k == 1) ? nondet_u8() : 0x77;
#endif
        g_coin.out.scriptPubKey[k] = cb[k];
    }
    const CTransaction tx(std::move(m));
    const uint64_t fl = nondet_u64();
    const uint64_t F_P2SH = script_verify_flags{SCRIPT_VERIFY_P2SH}.as_int(), F_WIT = script_verify_flags{SCRIPT_VERIFY_WITNESS}.as_int();
    VASSUME(!(fl & F_WIT) || (fl & F_P2SH));    // GetBlockScriptFlags never sets WITNESS without P2SH (asserted by CountWitnessSigOps)
    alignas(16) static unsigned char view_storage[sizeof(CCoinsViewCache)];
    const CCoinsViewCache& view = *reinterpret_cast<const CCoinsViewCache*>(view_storage);

    const unsigned legacy = GetLegacySigOpCount(tx);
    const int64_t cost = GetTransactionSigOpCost(tx, view, script_verify_flags::from_int(fl));

    // ---- reference
    const ScanResult ss = ref_scan<SSLEN>(sb, SSLEN, false);
    const ScanResult ps = ref_scan<PKLEN>(pb, PKLEN, false);
    const unsigned want_legacy = ss.sigops + ps.sigops;
    int64_t want = 4 * (int64_t)want_legacy;
#ifndef COINBASE
    const bool is_p2sh = CSZ == 23 && cb[0] == 0xa9 && cb[1] == 0x14 && cb[CSZ - 1] == 0x87;
    // redeem script = data of the last push of a push-only, well-formed scriptSig (a last item produced by OP_0/OP_1NEGATE/OP_1..16 is a
    // 0/1-byte value with no sigops and no witness program; OP_RESERVED can never validate: all of these count as the empty script)
    uint8_t red[SSLEN + 1]; int rlen = 0;
    const bool have_redeem = ss.parse_ok && ss.push_only;
    if (have_redeem && ss.last_is_data) {
        rlen = ss.last_push_len;
        for (int k = 0; k < SSLEN; k++) { uint8_t v = 0; for (int q = 0; q < SSLEN; q++) if (q == ss.last_push_off + k) v = sb[q]; red[k] = v; }
    }
    if ((fl & F_P2SH) && is_p2sh && have_redeem) want += 4 * (int64_t)ref_scan<SSLEN>(red, rlen, true).sigops;
    if (fl & F_WIT) {
        int ver = -1, plen = 0; bool prog = ref_witprog(cb, CSZ, ver, plen);
        if (!prog && is_p2sh && have_redeem) prog = ref_witprog(red, rlen, ver, plen);
        if (prog && ver == 0) {
            if (plen == 20) want += 1;
#if WN > 0
            else if (plen == 32) want += ref_scan<WLEN>(wb, WLEN, true).sigops;
#endif
        }
    }
#endif
    verif_observe(legacy); verif_observe((uint64_t)cost);
    VASSERT(legacy == want_legacy, "GetLegacySigOpCount == inaccurate count over scriptSig and output scripts");
    VASSERT(cost == want, "GetTransactionSigOpCost == 4*legacy + 4*P2SH redeem-script sigops + witness sigops (BIP16/BIP141)");

    VWITNESS(cost == 4 * (int64_t)legacy && legacy > 0, "pure legacy cost");
#ifndef COINBASE
#if SPK == 1 && defined(W_REDEEM)      // shapes ending in a data push of >= 2 symbolic bytes
    VWITNESS(cost == 4 && legacy == 0 && have_redeem, "single CHECKSIG inside the redeem script costs 4");
    VWITNESS(cost == 8 && legacy == 0 && red[rlen - 1] == 0xae, "OP_2 CHECKMULTISIG redeem script counts accurately");
    VWITNESS(cost == 0 && !is_p2sh && cb[0] == 0xa9 && cb[1] == 0x14 && have_redeem && red[0] == 0xac, "23-byte script that is not exactly the P2SH template is not P2SH");
    VWITNESS(cost == 0 && is_p2sh && !(fl & F_P2SH) && red[0] == 0xac, "P2SH flag off: redeem script not counted");
#endif
#if SPK == 1 && defined(W_TRAILOP)     // shape: data push followed by a concrete non-push opcode (CHECKSIG)
    VWITNESS(cost == 4 && legacy == 1 && is_p2sh && (fl & F_P2SH) && sb[1] == 0xac, "non-push-only scriptSig: redeem script not counted");
#endif
#if SPK == 1 && defined(W_TRAILN)      // shape: data push followed by OP_1
    VWITNESS(cost == 0 && is_p2sh && (fl & F_P2SH) && sb[1] == 0xac && have_redeem && !ss.last_is_data, "last item from OP_n: empty redeem script");
#endif
#if SPK == 2
    VWITNESS(cost == 4 * (int64_t)legacy + 1, "P2WPKH spend costs 1");
    VWITNESS(cost == 4 * (int64_t)legacy && (fl & F_WIT) && cb[0] == 0x51 && cb[1] == 20, "witness v1 program costs nothing");
    VWITNESS(cost == 4 * (int64_t)legacy && !(fl & F_WIT) && cb[0] == 0 && cb[1] == 20, "witness flag off: no witness cost");
#endif
#if SPK == 3 && WN > 0 && WLEN >= 2
    VWITNESS(cost == 4 * (int64_t)legacy + 3 && legacy == 0, "P2WSH: OP_3 CHECKMULTISIG witness script costs 3");
#endif
#if SPK == 3 && WN == 0
    VWITNESS(cost == 0 && (fl & F_WIT) && cb[0] == 0 && cb[1] == 32, "P2WSH with empty witness costs nothing");
#endif
#if SPK == 1 && defined(WRAPPRE)
    VWITNESS(cost == 0 && is_p2sh && (fl & F_WIT) && sb[2] == 0 && sb[3] == 20 && !ss.push_only, "non-push-only scriptSig: wrapped P2WPKH program not counted");
#endif
#if SPK == 1 && SSLEN == 23 && defined(WRAP) && !defined(WRAPPRE)
    VWITNESS(cost == 1 && legacy == 0, "P2SH-wrapped P2WPKH costs 1");
    VWITNESS(cost == 0 && is_p2sh && (fl & F_WIT) && sb[1] == 0x51 && sb[2] == 20, "P2SH-wrapped v1 program costs nothing");
    VWITNESS(cost == 0 && !is_p2sh && (fl & F_WIT) && sb[1] == 0 && sb[2] == 20, "not P2SH: wrapped program ignored");
#endif
#if SPK == 1 && SSLEN == 35 && defined(WRAP) && WN > 0 && WLEN >= 2
    VWITNESS(cost == 2 && legacy == 0, "P2SH-wrapped P2WSH: OP_2 CHECKMULTISIG witness script costs 2");
#endif
#else
    VWITNESS(tx.IsCoinBase(), "coinbase shape");
#endif
    VREACH("end");
}
