// C52 (1): the REAL util::LineReader (src/util/string.cpp: constructor, ReadLine, ReadLength, Remaining, Consumed) over EVERY buffer of a
// concrete length NB <= 8 (all bytes symbolic) with a concrete max_line_length ML, driven by a concrete sequence of <= 4 operations
// (L = ReadLine, R = ReadLength with a symbolic length 0..NB+1). The reference is written from the documentation in util/string.h:
//   ReadLine at position p with r = NB - p bytes left:
//     r == 0                                        -> nullopt
//     first LF at offset k (from p) with k <= ML    -> the k bytes before it, minus one trailing CR; position moves to p + k + 1
//     no LF among the first ML+1 bytes, r >= ML+1   -> throws std::runtime_error ("max_line_length + 1 bytes are read without finding \n"),
//                                                      position unchanged
//     otherwise (no LF at all, r <= ML)             -> nullopt, position unchanged ("end of buffer is reached without finding a \n")
//   ReadLength(len): len == 0 -> empty view; len > r -> throws, position unchanged; else the len bytes at p, position p + len.
// Asserted after every operation: outcome kind, the returned view (address and length, hence content), Consumed() and Remaining(),
// and 0 <= Consumed() <= NB (the iterator never passes the end).
#include <verif.h>
#include <util/string.h>
#include <stdexcept>
#include <string_view>
#include <optional>

#define MAXB 8
enum { K_NONE = 0, K_LINE = 1, K_LEN = 2 };
enum { R_NULL = 0, R_VIEW = 1, R_THROW = 2 };

template <int NB, int ML>
struct Drv {
    char buf[MAXB + 1];
    unsigned p = 0;                       // the model: current position
    bool ok_kind = true, ok_view = true, ok_pos = true, ok_bound = true;
    bool saw_line = false, saw_null = false, saw_throw = false, saw_cr = false;

    void after(util::LineReader& r)
    {
        if (r.Consumed() != p || r.Remaining() != (size_t)NB - p) ok_pos = false;
        if (r.Consumed() > (size_t)NB) ok_bound = false;
    }
    template <int kind> void step(util::LineReader& r)
    {
        if constexpr (kind == K_NONE) return;
        const unsigned rem = NB - p;
        if constexpr (kind == K_LINE) {
            // reference
            int want = R_NULL; unsigned k = 0; bool found = false;
            for (unsigned i = 0; i < MAXB; i++) if (i < rem && !found && buf[p + i] == '\n') { found = true; k = i; }
            unsigned len = 0;
            if (rem == 0) want = R_NULL;
            else if (found && k <= (unsigned)ML) { want = R_VIEW; len = k; if (len > 0 && buf[p + len - 1] == '\r') len--; }
            else if (rem >= (unsigned)ML + 1) want = R_THROW;     // no LF within the first ML+1 bytes
            else want = R_NULL;
            // real
            int got = R_NULL; const char* gp = nullptr; size_t gl = 0;
            try { std::optional<std::string_view> l = r.ReadLine(); if (l) { got = R_VIEW; gp = l->data(); gl = l->size(); } }
            catch (const std::runtime_error&) { got = R_THROW; }
            verif_observe((uint64_t)got); verif_observe(gl);
            if (got != want) ok_kind = false;
            if (got == R_VIEW && want == R_VIEW) { if (gp != buf + p || gl != len) ok_view = false; if (len != k) saw_cr = true; p = p + k + 1; saw_line = true; }
            if (got == R_NULL) saw_null = true;
            if (got == R_THROW) saw_throw = true;
        } else {
            const unsigned len = (unsigned)nondet_range(0, NB + 1);
            const int want = (len == 0) ? R_VIEW : (len > rem ? R_THROW : R_VIEW);
            int got = R_NULL; const char* gp = nullptr; size_t gl = 0;
            try { std::string_view v = r.ReadLength(len); got = R_VIEW; gp = v.data(); gl = v.size(); }
            catch (const std::runtime_error&) { got = R_THROW; }
            verif_observe((uint64_t)got); verif_observe(gl);
            if (got != want) ok_kind = false;
            if (got == R_VIEW && want == R_VIEW) { if (gl != len || (len > 0 && gp != buf + p)) ok_view = false; p += len; }
            if (got == R_THROW) saw_throw = true;
        }
        after(r);
    }
};

template <int NB, int ML, int WIT, int K1, int K2, int K3, int K4>
static void run()
{
    Drv<NB, ML> d;
    for (int i = 0; i <= MAXB; i++) d.buf[i] = 0;
    for (int i = 0; i < NB; i++) d.buf[i] = (char)nondet_u8();
    util::LineReader r(std::string_view(d.buf, NB), ML);
    d.after(r);
    d.template step<K1>(r); d.template step<K2>(r); d.template step<K3>(r); d.template step<K4>(r);
    VASSERT(d.ok_kind, "ReadLine/ReadLength return a view, nullopt or throw exactly when the documentation says");
    VASSERT(d.ok_view, "the returned view starts at the current position and has the documented length (LF excluded, one trailing CR stripped)");
    VASSERT(d.ok_pos, "Consumed()/Remaining() equal the reference position after every operation (unchanged on nullopt/throw)");
    VASSERT(d.ok_bound, "the reader never moves past the end of the buffer");
    if (WIT & 1) VWITNESS(d.saw_line, "a line is returned");
    if (WIT & 2) VWITNESS(d.saw_null, "nullopt is returned");
    if (WIT & 4) VWITNESS(d.saw_throw, "an operation throws");
    if (WIT & 8) VWITNESS(d.saw_cr, "a trailing CR is stripped");
    VREACH("end");
}
#define VERIF_ENTRY(name, ...) extern "C" void h_##name() { run<__VA_ARGS__>(); }
#include VERIF_ENTRIES_INC
