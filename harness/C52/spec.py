from vlib import H
import itertools
PROPERTY = 'C52'
LEVEL = 'model_checking'
CLAIM = ('The real util::LineReader (util/string.cpp: constructor, ReadLine, ReadLength, Remaining, Consumed) executed over EVERY buffer of each length 0..8 (all bytes symbolic) for the listed max_line_length values and operation sequences, '
         'compared after every operation with a reference written from the documentation in util/string.h: ReadLine returns the bytes before the first LF (one trailing CR stripped) and moves past the LF iff that LF lies within the first max_line_length+1 bytes; '
         'throws (position unchanged) iff max_line_length+1 bytes can be read without meeting an LF; returns nullopt (position unchanged) otherwise, i.e. at the end of the buffer or when the LF-free rest is not longer than max_line_length; '
         'ReadLength(len) returns exactly the next len bytes or throws (position unchanged) when fewer remain; the returned views alias the buffer at the reference position; Consumed()/Remaining() track the reference position and never pass the end. '
         'NOT covered: HTTPRequest::LoadControlData/LoadHeaders/LoadBody and HTTPRemoteClient::ReadRequest (httpserver.cpp). The TU was made to compile (overlay rule for std::ranges::remove_if) and translate, but every byte of the control data / header section '
         'decides the heap shape (util::Split into std::vector<string_view>, std::vector<std::pair<std::string,std::string>> growth, TrimString): with symbolic bytes the libstdc++ relocation loops run to the unwinding bound, and even with a fully concrete header section '
         'the vector<pair<string,string>> relocation did not fold; no query finished within 250 s. Fragmentation independence of the request parser is therefore not claimed; ClientAllowed and RPC authentication are out of scope.')
def reach(nb, ml, seq):
    """which witnesses (line, nullopt, throw, CR stripped) some input can reach: brute force over the alphabet {LF, CR, 'a'} with the documented semantics"""
    w = 0
    rls = [range(0, nb + 2) if k == 'R' else [0] for k in seq]
    for buf in itertools.product('\n\ra', repeat=nb):
        for lens in itertools.product(*rls):
            p = 0
            for k, ln in zip(seq, lens):
                rem = nb - p
                if k == 'L':
                    idx = next((i for i in range(rem) if buf[p + i] == '\n'), None)
                    if rem == 0: w |= 2
                    elif idx is not None and idx <= ml:
                        w |= 1
                        if idx > 0 and buf[p + idx - 1] == '\r': w |= 8
                        p += idx + 1
                    elif rem >= ml + 1: w |= 4
                    else: w |= 2
                else:
                    if ln > rem: w |= 4
                    else: p += ln
        if w == 15: break
    return w
def lr(nb, ml, seq):
    ks = [{'L': 1, 'R': 2}[k] for k in seq] + [0] * (4 - len(seq))
    return ('n%d_m%d_%s' % (nb, ml, seq.lower()), ', '.join([str(nb), str(ml), str(reach(nb, ml, seq))] + [str(k) for k in ks]))
LR_QUICK = [lr(nb, 3, 'LLLL') for nb in range(0, 9)] + [lr(nb, 3, 'RLRL') for nb in (1, 4, 8)] + [lr(8, 0, 'LLLL'), lr(8, 1, 'LRLL'), lr(5, 8, 'LLRL'), lr(8, 7, 'LLLL'), lr(8, 8, 'LLLL'), lr(4, 4, 'RRLL')]
LR_THOROUGH = list(LR_QUICK)
for nb in range(0, 9):
    for ml in (0, 1, 3, 8, 9):
        for seq in ('LLLL', 'RLRL', 'LLRL'):
            e = lr(nb, ml, seq)
            if e[0] not in [x[0] for x in LR_THOROUGH]: LR_THOROUGH.append(e)
HARNESSES = [
    H('linereader', 'linereader.cpp', 'h_linereader', link=['util/string.cpp'], entries=LR_QUICK, tentries=LR_THOROUGH, unwind=12, memunwind=40, timeout=300, objbits=10,
      functions=['util::LineReader::LineReader', 'util::LineReader::ReadLine', 'util::LineReader::ReadLength', 'util::LineReader::Remaining', 'util::LineReader::Consumed (util/string.cpp)'],
      stubs=[], assumptions=['the buffer outlives the reader (string_view contract)'],
      bounds='%d quick / %d thorough entries: buffer length 0..8 (every byte symbolic) x max_line_length in {0,1,3,4,7,8} (thorough adds 9 and all lengths) x operation sequences of 4 operations over {ReadLine, ReadLength(symbolic 0..len+1)}' % (len(LR_QUICK), len(LR_THOROUGH))),
]
