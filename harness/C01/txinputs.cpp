// C01 (per-transaction step): Consensus::CheckTxInputs never lets a transaction create value.
// Real code: consensus/tx_verify.cpp CheckTxInputs, CTransaction::GetValueOut, MoneyRange, consensus/tx_check.cpp CheckTransaction
// (as the documented precondition). The coins view is the harness (CCoinsViewCache::HaveInputs/AccessCoin stubbed): the cache
// contract itself is the subject of C15/C02.
#include <verif.h>
#include <verif_hash_nondet.h>
#include <coins.h>
#include <consensus/tx_verify.h>
#include <consensus/validation.h>
#include <consensus/amount.h>
#include <primitives/transaction.h>
#include <util/moneystr.h>
#include <string.h>
#include <limits.h>

#ifndef NIN
#define NIN 2
#endif
#ifndef NOUT
#define NOUT 2
#endif

template <auto M> struct Rob { friend const std::string& reason_of(const ValidationState<TxValidationResult>& s) { return s.*M; } };
template struct Rob<&ValidationState<TxValidationResult>::m_reject_reason>;
const std::string& reason_of(const ValidationState<TxValidationResult>& s);

static Coin g_coin[NIN + 1];
static bool g_present[NIN + 1];
static const Coin g_empty;

// --- stubs: the view answers from the harness table; outpoint i of the transaction is (hash_i, n = i)
bool CCoinsViewCache::HaveInputs(const CTransaction& tx) const
{
    if (tx.IsCoinBase()) return true;
    for (size_t i = 0; i < tx.vin.size(); i++) { uint32_t n = tx.vin[i].prevout.n; if (n >= NIN || !g_present[n] || g_coin[n].IsSpent()) return false; }
    return true;
}
const Coin& CCoinsViewCache::AccessCoin(const COutPoint& o) const { return (o.n < NIN && g_present[o.n]) ? g_coin[o.n] : g_empty; }
std::string FormatMoney(const CAmount) { return std::string(); }

static bool str_is(const std::string& s, const char* lit) { return s.size() == strlen(lit) && memcmp(s.data(), lit, strlen(lit)) == 0; }

extern "C" void h_txinputs()
{
    const int64_t MAXM = 2100000000000000LL;
    int64_t vin[NIN + 1], vout[NOUT + 1]; uint32_t ch[NIN + 1]; bool cb[NIN + 1];
    CMutableTransaction m;
    m.vin.resize(NIN); m.vout.resize(NOUT);
    for (int i = 0; i < NIN; i++) {
        uint256 u; u.data()[0] = (uint8_t)(i + 1);
        m.vin[i].prevout.hash = Txid::FromUint256(u); m.vin[i].prevout.n = i;
        vin[i] = nondet_i64(); VASSUME(vin[i] >= -(1LL << 62) && vin[i] <= (1LL << 62)); ch[i] = (uint32_t)nondet_range(0, 0x7fffffff); cb[i] = nondet_bool(); g_present[i] = nondet_bool();
        g_coin[i].out.nValue = vin[i]; g_coin[i].nHeight = ch[i]; g_coin[i].fCoinBase = cb[i];
        // an unspent coin never has the null value; a spent one is exactly Coin::Clear()ed (nValue == -1)
    }
    // documented precondition of CheckTxInputs: the output-range rules of CheckTransaction hold (decided by C03)
    { __int128 so = 0; for (int i = 0; i < NOUT; i++) { vout[i] = nondet_i64(); m.vout[i].nValue = vout[i]; VASSUME(vout[i] >= 0 && vout[i] <= MAXM); so += vout[i]; } VASSUME(so <= MAXM); }
    const CTransaction tx(std::move(m));
    const int spend = (int)nondet_range(0, INT_MAX);
    CAmount fee = -12345;
    alignas(16) static unsigned char view_storage[sizeof(CCoinsViewCache)];
    const CCoinsViewCache& view = *reinterpret_cast<const CCoinsViewCache*>(view_storage);
    TxValidationState st;
    const bool ok = Consensus::CheckTxInputs(tx, st, view, spend, fee);

    // reference, from the property text: inputs exist; coinbase inputs are 100 deep; every input and the running sum in range;
    // inputs >= outputs; fee = difference
    enum { E_OK, E_MISSING, E_PREMATURE, E_RANGE, E_BELOW } want = E_OK;
    __int128 sin = 0, sout = 0;
    for (int i = 0; i < NOUT; i++) sout += vout[i];
    bool missing = false;
    for (int i = 0; i < NIN; i++) if (!g_present[i] || vin[i] == -1) missing = true;   // nValue == -1 <=> Coin::IsSpent()
    if (missing) want = E_MISSING;
    else {
        for (int i = 0; i < NIN && want == E_OK; i++) {
            if (cb[i] && (int64_t)spend - (int64_t)ch[i] < 100) { want = E_PREMATURE; break; }
            sin += vin[i];
            if (vin[i] < 0 || vin[i] > MAXM || sin > MAXM) { want = E_RANGE; break; }
        }
        if (want == E_OK && sin < sout) want = E_BELOW;
    }
    verif_observe(ok); verif_observe((uint64_t)fee); verif_observe(want);
    VASSERT(ok == (want == E_OK), "CheckTxInputs accepts iff inputs exist, are mature, in range and cover the outputs");
    if (ok) {
        VASSERT((__int128)fee == sin - sout, "fee equals inputs minus outputs (128-bit reference)");
        VASSERT(fee >= 0 && fee <= MAXM, "fee in money range");
        VASSERT(sin >= sout, "an accepted transaction never creates value");
        VASSERT(st.IsValid(), "state valid on success");
    } else {
        VASSERT(fee == -12345, "fee output untouched on failure");
        const std::string& r = reason_of(st);
        if (want == E_MISSING) VASSERT(st.GetResult() == TxValidationResult::TX_MISSING_INPUTS && str_is(r, "bad-txns-inputs-missingorspent"), "missing/spent inputs reported as such");
        if (want == E_PREMATURE) VASSERT(st.GetResult() == TxValidationResult::TX_PREMATURE_SPEND && str_is(r, "bad-txns-premature-spend-of-coinbase"), "immature coinbase spend reported as such");
        if (want == E_RANGE) VASSERT(st.GetResult() == TxValidationResult::TX_CONSENSUS && str_is(r, "bad-txns-inputvalues-outofrange"), "out-of-range input values reported as such");
        if (want == E_BELOW) VASSERT(st.GetResult() == TxValidationResult::TX_CONSENSUS && str_is(r, "bad-txns-in-belowout"), "inputs below outputs reported as such");
    }
    VWITNESS(ok && fee > 0, "accepted with positive fee");
    VWITNESS(want == E_PREMATURE, "premature spend reachable");
    VWITNESS(want == E_BELOW, "in-below-out reachable");
    VWITNESS(want == E_MISSING, "missing input reachable");
#if NIN > 1
    VWITNESS(want == E_RANGE && vin[0] >= 0 && vin[0] <= MAXM && vin[1] >= 0 && vin[1] <= MAXM, "input sum overflow of MAX_MONEY reachable");
#endif
    VREACH("end");
}
