// C01 (2): the block-level money rule of Chainstate::ConnectBlock (validation.cpp): "coinbase pays at most subsidy(height) + total fees".
// Scaffolding shared with harness/C57/scriptchecks.cpp (the whole real ConnectBlock runs on a phantom Chainstate under stubs); here the
// observation is the verdict on the coinbase amount. Symbolic: coinbase output value, the fee reported by CheckTxInputs for the one ordinary
// transaction, the subsidy halving interval (1..8, so that the connected block at height 2/3/4 is the first/last block of an era or far from
// a boundary, and halvings range from 0 to 4), fJustCheck. The real GetBlockSubsidy runs (its formula for all heights: C31).
#include <verif.h>
#include <verif_open_access.h>
#include <validation.h>
#include <node/blockstorage.h>
#include <kernel/chainparams.h>
#include <consensus/tx_verify.h>
#include <checkqueue.h>
#include <undo.h>
#include <coins.h>
#include <script/interpreter.h>
#include <script/script_error.h>
#include <util/strencodings.h>
#include <verif_close_access.h>
#include <verif_stubs_common.h>
#include <verif_stubs_node.h>
#include <verif_phantom.h>
#include <verif_hash_nondet.h>

RecursiveMutex cs_main;
const TranslateFn G_TRANSLATION_FUN{nullptr};

static PhantomStore<ChainstateManager> cm_store; static PhantomStore<Chainstate> cs_store; static PhantomStore<CChainParams> cp_store; static PhantomStore<CBlock> block_store;
#define NB 7
static constexpr int PARENT[NB] = {-1, 0, 1, 2, 3, 1, 5};
static constexpr int HEIGHT[NB] = {0, 1, 2, 3, 4, 2, 3};
static uint256 HASH(int i) { uint256 u; u.data()[0] = (unsigned char)(0x10 + i); u.data()[31] = 0x5a; return u; }
static CBlockIndex g_blk[NB]; static uint256 g_hash[NB]; static CBlockIndex* B[NB];

// ---- recorders / stubs
struct Rec { int scripts, equiv, update, undo, checkblock; const CBlockIndex *eq_to, *eq_from, *eq_tip; unsigned flags; };
static Rec g_rec;
static bool g_script_ok; static int64_t g_equiv; static uint256 g_blockhash; static int g_txsel;
uint256 CBlockHeader::GetHash() const { return g_blockhash; }
Txid CTransaction::ComputeHash() const { uint256 u; u.data()[0] = (unsigned char)(0x71 + g_txsel); return Txid::FromUint256(u); }
Wtxid CTransaction::ComputeWitnessHash() const { uint256 u; u.data()[0] = (unsigned char)(0x71 + g_txsel); return Wtxid::FromUint256(u); }
bool CheckBlock(const CBlock&, BlockValidationState&, const Consensus::Params&, bool, bool) { g_rec.checkblock++; return true; }
bool CheckInputScripts(const CTransaction&, TxValidationState& state, const CCoinsViewCache&, script_verify_flags flags, bool, bool, PrecomputedTransactionData&, ValidationCache&, std::vector<CScriptCheck>*)
{
    g_rec.scripts++;
    if (!g_script_ok) { state.Invalid(TxValidationResult::TX_CONSENSUS, ""); return false; }   // empty reason: string lengths stay concrete after the paths merge
    return true;
}
int64_t GetBlockProofEquivalentTime(const CBlockIndex& to, const CBlockIndex& from, const CBlockIndex& tip, const Consensus::Params&)
{
    g_rec.equiv++; g_rec.eq_to = &to; g_rec.eq_from = &from; g_rec.eq_tip = &tip;
    return g_equiv;
}
void UpdateCoins(const CTransaction&, CCoinsViewCache&, CTxUndo&, int) { g_rec.update++; }
bool node::BlockManager::WriteBlockUndo(const CBlockUndo&, BlockValidationState&, CBlockIndex&) { g_rec.undo++; return true; }
static CAmount g_fee; static int g_inputs_height = -1;
bool Consensus::CheckTxInputs(const CTransaction&, TxValidationState&, const CCoinsViewCache&, int h, CAmount& txfee) { txfee = g_fee; g_inputs_height = h; return true; }
bool SequenceLocks(const CTransaction&, int, std::vector<int>&, const CBlockIndex&) { return true; }
int64_t GetTransactionSigOpCost(const CTransaction&, const CCoinsViewCache&, script_verify_flags) { return 0; }
namespace std { namespace chrono { inline namespace _V2 { steady_clock::time_point steady_clock::now() noexcept { return steady_clock::time_point{}; } } } }
bool FatalError(kernel::Notifications&, BlockValidationState&, const bilingual_str&) { VASSERT(false, "FatalError reached"); return false; }

// the parallel script-check queue path (CCheckQueueControl) is compiled in but not taken: the phantom queue has no worker threads
std::string HexStr(const std::span<const uint8_t>) { return std::string(); }
std::string ScriptErrorString(const ScriptError) { return std::string(); }
std::optional<std::pair<ScriptError, std::string>> CScriptCheck::operator()() { VASSERT(false, "CScriptCheck::operator() reached"); return std::nullopt; }
namespace std {
void condition_variable::notify_one() noexcept {}
void condition_variable::notify_all() noexcept {}
void condition_variable::wait(unique_lock<mutex>&) { __CPROVER_assert(0, "condition_variable::wait reached"); __CPROVER_assume(0); }
}

struct EmptyView : public CCoinsView {
    std::optional<Coin> GetCoin(const COutPoint&) const override { return std::nullopt; }
    std::optional<Coin> PeekCoin(const COutPoint&) const override { return std::nullopt; }
    bool HaveCoin(const COutPoint&) const override { return false; }
    uint256 GetBestBlock() const override { return uint256(); }
    std::vector<uint256> GetHeadBlocks() const override { return {}; }
    void BatchWrite(CoinsViewCacheCursor&, const uint256&) override {}
    size_t EstimateSize() const override { return 0; }
};

static arith_uint256 sym256() { arith_uint256 a; for (int i = 0; i < 8; i++) a.pn[i] = nondet_u32(); return a; }
static bool ge256(const arith_uint256& x, const arith_uint256& y)
{
    bool ge = true;
    for (int i = 0; i < 8; i++) { if (x.pn[i] > y.pn[i]) ge = true; else if (x.pn[i] < y.pn[i]) ge = false; }
    return ge;
}
// reference ancestor relation on the fixed tree (x is y or an ancestor of y)
static constexpr bool anc(int x, int y) { while (y >= 0 && y != x) y = PARENT[y]; return y == x; }

template <int PINDEX, int AV, int BEST>
static void run()
{
    ChainstateManager& cm = cm_store.obj(); Chainstate& cs = cs_store.obj(); CChainParams& cp = cp_store.obj(); node::BlockManager& bm = cm.m_blockman;
    memset(&g_rec, 0, sizeof(g_rec));
    // ---- parameters: every buried deployment inactive, no script-flag exceptions; real subsidy schedule
    *(void**)&cm.m_options = &cp;
    VASSERT(&cm.GetParams() == &cp, "phantom chainparams wired");
    cp.consensus.BIP34Height = cp.consensus.BIP65Height = cp.consensus.BIP66Height = cp.consensus.CSVHeight = cp.consensus.SegwitHeight = INT_MAX;
    const int interval = (int)nondet_range(1, 8);
    cp.consensus.nSubsidyHalvingInterval = interval;
    new (&cp.consensus.script_flag_exceptions) std::map<uint256, script_verify_flags>();
    // ---- block index: the assumed-valid block (if any) and a decoy live in the real BlockMap, the other blocks are plain objects
    new (&bm.m_block_index) node::BlockMap();
    new (&bm.m_dirty_blockindex) std::set<CBlockIndex*>();
    { uint256 d; d.data()[0] = 0xee; bm.m_block_index.try_emplace(d); }
    for (int i = 0; i < NB; i++) {
        g_hash[i] = HASH(i);
        if (i == AV) { auto r = bm.m_block_index.try_emplace(g_hash[i]); B[i] = &r.first->second; B[i]->phashBlock = &r.first->first; }
        else { B[i] = &g_blk[i]; B[i]->phashBlock = &g_hash[i]; }
    }
    for (int i = 0; i < NB; i++) {
        B[i]->nHeight = HEIGHT[i]; B[i]->pprev = PARENT[i] >= 0 ? B[PARENT[i]] : nullptr; B[i]->nStatus = BLOCK_VALID_TRANSACTIONS | BLOCK_HAVE_DATA;
        B[i]->BuildSkip();
    }
    CBlockIndex* pindex = B[PINDEX];
    const arith_uint256 bestwork{2}, minwork{1};     // assumevalid is disabled in every entry: work values are irrelevant here (their role: C57)
    B[BEST]->nChainWork = bestwork; cm.m_best_header = B[BEST];
    new ((void*)&cm.m_options.minimum_chain_work) std::optional<arith_uint256>(minwork);
    uint256 avhash; if (AV >= 0) avhash = HASH(AV); else if (AV == -2) { avhash.data()[0] = 0xcc; }
    new ((void*)&cm.m_options.assumed_valid_block) std::optional<uint256>(avhash);
    g_equiv = 0; g_script_ok = true;
    // ---- chainstate
    void** slot = REF_SLOT_AFTER(cs, Chainstate, m_last_script_check_reason_logged); slot[0] = &bm; slot[1] = &cm;
    const unsigned au = 0; cs.m_assumeutxo = au == 0 ? Assumeutxo::VALIDATED : au == 1 ? Assumeutxo::UNVALIDATED : Assumeutxo::INVALID;
    uint256 th; th.data()[0] = 1;
    new (&cs.m_target_blockhash) std::optional<uint256>(); (void)th;
    new (&cs.m_last_script_check_reason_logged) std::optional<const char*>();
    // ---- the block: coinbase + one ordinary transaction
    CBlock& block = block_store.obj();
    new (&block.vtx) std::vector<CTransactionRef>();
    const CAmount cbval = (CAmount)nondet_range(0, 2100000000000000ULL); g_fee = (CAmount)nondet_range(0, 2100000000000000ULL);
    { g_txsel = 0; CMutableTransaction m; m.vin.resize(1); m.vout.resize(1); m.vout[0].nValue = cbval; m.vin[0].scriptSig.resize(2); block.vtx.emplace_back(new CTransaction(std::move(m))); }
    { g_txsel = 1; CMutableTransaction m; m.vin.resize(1); uint256 p; p.data()[0] = 0x33; m.vin[0].prevout = COutPoint(Txid::FromUint256(p), 0); m.vout.resize(1); m.vout[0].nValue = 0; block.vtx.emplace_back(new CTransaction(std::move(m))); }
    VASSERT(block.vtx[0]->IsCoinBase() && !block.vtx[1]->IsCoinBase(), "test block shape");
    g_blockhash = *pindex->phashBlock;
    EmptyView base; CCoinsViewCache& view = *new CCoinsViewCache(&base, /*deterministic=*/true);
    view.SetBestBlock(*pindex->pprev->phashBlock);
    const bool just_check = nondet_bool();
    BlockValidationState state;

    const bool ok = cs.ConnectBlock(block, state, pindex, view, just_check);
    verif_observe(ok); verif_observe(g_rec.scripts); verif_observe(g_rec.equiv);

    // ---- reference, from the property text (C01): coinbase value <= subsidy(height of the connected block) + fees
    const int height = HEIGHT[PINDEX];
    const int halvings = height / interval;
    const CAmount subsidy = halvings >= 64 ? 0 : (CAmount)((50LL * 100000000LL) >> halvings);
    const bool scripts_pass = g_rec.scripts == 0 || g_script_ok;
    const bool want = scripts_pass && cbval <= subsidy + g_fee;
    VASSERT(g_inputs_height == height, "transaction inputs are checked at the height of the connected block");
    VASSERT(ok == want, "ConnectBlock accepts iff (scripts pass and) the coinbase pays at most subsidy(block height) + fees");
    if (scripts_pass && !want) VASSERT(state.IsInvalid() && state.GetResult() == BlockValidationResult::BLOCK_CONSENSUS && g_rec.undo == 0, "overpaying coinbase: consensus failure, nothing written");
    VWITNESS(ok && cbval == subsidy + g_fee && g_fee > 0 && halvings == 1 && height % interval == 0, "coinbase claiming exactly subsidy + fees accepted in the first block of a halving era");
    VWITNESS(!ok && scripts_pass && cbval == subsidy + g_fee + 1, "one satoshi over rejected");
    VWITNESS(!ok && scripts_pass && halvings == 1 && height % interval == 0 && cbval == 2 * subsidy + g_fee, "first block of an era cannot claim the previous era's subsidy");
    if constexpr (HEIGHT[PINDEX] == 4) { VWITNESS(ok && halvings == 4, "four halvings reachable"); }
    VREACH("end");
}
#define VERIF_ENTRY(name, ...) extern "C" void h_##name() { run<__VA_ARGS__>(); }
#include VERIF_ENTRIES_INC
