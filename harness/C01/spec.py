from vlib import H
PROPERTY = 'C01'
LEVEL = 'model_checking'
CLAIM = ('Per-transaction inductive step of the supply invariant: the real Consensus::CheckTxInputs (under its documented precondition that '
         'CheckTransaction\'s output-range rules hold) accepts iff all inputs exist unspent, coinbase inputs are >= 100 blocks deep, every input value and every prefix sum is in '
         '[0, MAX_MONEY] and inputs >= outputs (128-bit reference); on success fee == inputs - outputs in [0, MAX_MONEY]; reject result/reason match the '
         'first violated rule. All amounts (64-bit), heights (31/32-bit), coinbase/presence flags symbolic for nin,nout <= 2 (thorough 3). '
         'The subsidy schedule itself is C31; output-value rules are C03. '
         'Block-level cap: harness cbamount runs the whole real Chainstate::ConnectBlock under stubs (scaffolding of C57) and decides that a block connects iff its coinbase pays at most GetBlockSubsidy(height of that block) + the fees reported for its transactions, '
         'for all coinbase values/fees in [0, MAX_MONEY] and halving intervals 1..8 at heights 2..4 (era boundaries included). Reorg histories are not decided here.')
ERASE = '_ZNSt8_Rb_treeI9COutPointS0_St9_IdentityIS0_ESt4lessIS0_ESaIS0_EE8_M_eraseEPSt13_Rb_tree_nodeIS0_E'
GETPOS = '_ZNSt8_Rb_treeI9COutPointS0_St9_IdentityIS0_ESt4lessIS0_ESaIS0_EE24_M_get_insert_unique_posERKS0_'
def shapes(a, b): return [{'NIN': i, 'NOUT': o} for i in range(1, a + 1) for o in range(1, b + 1)]
NOLOG = ['_ZN4util3log23LogPrintFormatInternal_[A-Za-z0-9_]*', '_ZN4util6detail24CheckNumFormatSpecifiersILj[0-9]+EEEvPKc']
CB_ENT = [('pa3_avoff_ba4', '3, -1, 4'), ('pa4_avoff_ba4', '4, -1, 4')]
CB_TENT = [('pa2_avoff_ba4', '2, -1, 4')] + CB_ENT
HARNESSES = [
    H('txinputs', 'txinputs.cpp', 'h_txinputs', link=['consensus/tx_verify.cpp', 'primitives/transaction.cpp', 'script/script.cpp', 'uint256.cpp', 'hash.cpp'],
      variants=shapes(2, 2), tvariants=shapes(3, 3), nofmt=True, unwind=12, memunwind=104, 
      timeout=600, objbits=10,
      functions=['Consensus::CheckTxInputs (consensus/tx_verify.cpp)', 'CTransaction::GetValueOut', 'MoneyRange', 'Coin::IsSpent/IsCoinBase', 'CTxOut/CTxIn/CMutableTransaction construction'],
      stubs=['CCoinsViewCache::HaveInputs/AccessCoin answered from a harness coin table (phantom view object)', 'FormatMoney -> empty string', 'tinyformat: strprintf/tfm::format return empty strings (ref/nofmt/tinyformat.h)',
             'CSHA256 unconstrained-output model'],
      assumptions=['coin values in [-2^62, 2^62]: CheckTxInputs adds a coin value to the running sum before range-checking it, so a (corrupted-database-only) value near INT64_MAX would overflow int64 in the addition itself; coins created by validated transactions are always in [0, MAX_MONEY]', 'every output value and the output sum are in [0, MAX_MONEY] (what CheckTransaction guarantees before CheckTxInputs runs; decided by C03)', 'spend height in [0, INT_MAX]', 'input i spends outpoint (hash_i, i): distinct outpoints'],
      bounds='nin,nout in 1..2 (thorough 1..3); all amounts/heights/flags symbolic full width'),
    H('cbamount', 'cbamount.cpp', 'h_cbamount', link=['validation.cpp', 'coins.cpp', 'chain.cpp', 'arith_uint256.cpp', 'uint256.cpp', 'primitives/transaction.cpp', 'primitives/block.cpp', 'script/script.cpp', 'hash.cpp', 'pow.cpp'],
      entries=CB_ENT, tentries=CB_TENT, shadow=['nofmt', 'nopool'], noop=NOLOG, interpose=True, unwind=16, unwindset='_ZNK9base_blobILj256EE6GetHexB5cxx11Ev.0:34', memunwind=200, timeout=1500, objbits=11,
      functions=['Chainstate::ConnectBlock (whole function; observed: the bad-cb-amount verdict)', 'GetBlockSubsidy (real)', 'CTransaction::GetValueOut', 'MoneyRange on accumulated fees', 'CBlockIndex::GetAncestor/BuildSkip', 'GetBlockScriptFlags', 'real CCoinsViewCache over an empty base'],
      stubs=['Consensus::CheckTxInputs -> true with a symbolic fee in [0, MAX_MONEY] (its own rules: harness txinputs), records the height it was given', 'CheckInputScripts -> recorder, passes', 'CheckBlock, SequenceLocks -> true; GetTransactionSigOpCost -> 0; UpdateCoins, WriteBlockUndo -> counters',
             'GetBlockProofEquivalentTime -> 0 (unreached: assumevalid disabled)', 'CBlockHeader::GetHash / CTransaction::ComputeHash -> constants', 'phantom ChainstateManager/Chainstate/CChainParams as in C57 (assumevalid disabled); nSubsidyHalvingInterval symbolic 1..8', 'logging emptied; tinyformat -> empty strings; PoolAllocator -> operator new'],
      assumptions=['fee reported for the ordinary transaction in [0, MAX_MONEY] (postcondition of CheckTxInputs, decided by txinputs)', 'coinbase output value in [0, MAX_MONEY] (CheckTransaction, C03)'],
      bounds='block = coinbase + one transaction at height 3 or 4 (thorough also 2) of a 7-block tree; halving interval 1..8 symbolic (0..4 halvings; first/last block of an era); coinbase value and fee 51-bit symbolic; fJustCheck symbolic; chainstate role VALIDATED, scripts pass'),
]
