// C59: inbound eviction never picks a protected peer (src/node/eviction.cpp; static functions reached by including the .cpp).
#include <verif.h>
#include <node/eviction.h>
#include <algorithm>
#include <vector>

#include <node/eviction.cpp>

#ifndef NC
#define NC 3
#endif

static NodeEvictionCandidate draw(NodeId id)
{
    NodeEvictionCandidate c;
    c.id = id;
    c.m_connected = NodeClock::time_point{NodeClock::duration{nondet_i64()}};
    c.m_min_ping_time = NodeClock::duration{nondet_i64()};
    c.m_last_block_time = std::chrono::seconds{nondet_i64()};
    c.m_last_tx_time = std::chrono::seconds{nondet_i64()};
    c.fRelevantServices = nondet_bool();
    c.m_relay_txs = nondet_bool();
    c.fBloomFilter = nondet_bool();
    c.nKeyedNetGroup = nondet_u64();
    c.prefer_evict = nondet_bool();
    c.m_is_local = nondet_bool();
    c.m_network = (Network)nondet_range(0, NET_MAX - 1);
    c.m_noban = nondet_bool();
    c.m_conn_type = (ConnectionType)nondet_range(0, 6);
    return c;
}
static int64_t conn(const NodeEvictionCandidate& c) { return c.m_connected.time_since_epoch().count(); }

// ------------------------------------------------------------------------------------------ (1) comparators
// CMP: 0 ReverseCompareNodeMinPingTime, 1 ReverseCompareNodeTimeConnected, 2 CompareNetGroupKeyed, 3 CompareNodeBlockTime,
//      4 CompareNodeTXTime, 5 CompareNodeBlockRelayOnlyTime, 6 CompareNodeNetworkTime(is_local, network) with symbolic parameters
#ifndef CMP
#define CMP 0
#endif
struct Cmp {
    bool loc; Network net;
    bool operator()(const NodeEvictionCandidate& a, const NodeEvictionCandidate& b) const
    {
#if CMP == 0
        return ReverseCompareNodeMinPingTime(a, b);
#elif CMP == 1
        return ReverseCompareNodeTimeConnected(a, b);
#elif CMP == 2
        return CompareNetGroupKeyed(a, b);
#elif CMP == 3
        return CompareNodeBlockTime(a, b);
#elif CMP == 4
        return CompareNodeTXTime(a, b);
#elif CMP == 5
        return CompareNodeBlockRelayOnlyTime(a, b);
#else
        return CompareNodeNetworkTime(loc, net)(a, b);
#endif
    }
};
// the protection key the property talks about: "x is at least as protected as y" in the dimension of comparator CMP
static bool key_le(const NodeEvictionCandidate& a, const NodeEvictionCandidate& b)   // a's key is not more protected than b's
{
#if CMP == 0
    return a.m_min_ping_time >= b.m_min_ping_time;          // lower ping = more protected = later in the order
#elif CMP == 1
    return conn(a) >= conn(b);                              // connected longer (earlier time) = later in the order
#elif CMP == 2
    return a.nKeyedNetGroup <= b.nKeyedNetGroup;
#elif CMP == 3
    return a.m_last_block_time <= b.m_last_block_time;
#elif CMP == 4
    return a.m_last_tx_time <= b.m_last_tx_time;
#else
    return true;
#endif
}
// the fields read by comparator CMP and predicate PRED (equality of the remaining payload fields after std::sort's moves is a property of
// the library's element moves, not of the eviction logic, and is the expensive part for the SAT solver: checked only in the thorough tier)
static bool same_keys(const NodeEvictionCandidate& x, const NodeEvictionCandidate& y)
{
    bool r = x.id == y.id;
#if CMP == 0
    r = r && x.m_min_ping_time == y.m_min_ping_time;
#elif CMP == 1
    r = r && conn(x) == conn(y);
#elif CMP == 2
    r = r && x.nKeyedNetGroup == y.nKeyedNetGroup;
#elif CMP == 3
    r = r && x.m_last_block_time == y.m_last_block_time && x.fRelevantServices == y.fRelevantServices && conn(x) == conn(y);
#elif CMP == 4
    r = r && x.m_last_tx_time == y.m_last_tx_time && x.m_relay_txs == y.m_relay_txs && x.fBloomFilter == y.fBloomFilter && conn(x) == conn(y);
#elif CMP == 5
    r = r && x.m_relay_txs == y.m_relay_txs && x.m_last_block_time == y.m_last_block_time && x.fRelevantServices == y.fRelevantServices && conn(x) == conn(y);
#else
    r = r && x.m_is_local == y.m_is_local && x.m_network == y.m_network && conn(x) == conn(y);
#endif
#if defined(PRED) && PRED == 1
    r = r && x.m_relay_txs == y.m_relay_txs && x.fRelevantServices == y.fRelevantServices;
#elif defined(PRED) && PRED == 2
    r = r && x.m_is_local == y.m_is_local && x.m_network == y.m_network;
#endif
#ifdef ALLFIELDS
    r = r && x.nKeyedNetGroup == y.nKeyedNetGroup && conn(x) == conn(y) && x.m_min_ping_time == y.m_min_ping_time && x.m_last_tx_time == y.m_last_tx_time
          && x.m_last_block_time == y.m_last_block_time && x.m_relay_txs == y.m_relay_txs && x.fRelevantServices == y.fRelevantServices && x.fBloomFilter == y.fBloomFilter
          && x.m_is_local == y.m_is_local && x.m_network == y.m_network && x.m_noban == y.m_noban && x.m_conn_type == y.m_conn_type && x.prefer_evict == y.prefer_evict;
#endif
    return r;
}
extern "C" void h_cmp_swo()
{
    const NodeEvictionCandidate a = draw(0), b = draw(1), c = draw(2);
    Cmp lt; lt.loc = nondet_bool(); lt.net = (Network)nondet_range(0, NET_MAX);
    const bool ab = lt(a, b), ba = lt(b, a), bc = lt(b, c), cb = lt(c, b), ac = lt(a, c), ca = lt(c, a);
    verif_observe(ab); verif_observe(bc); verif_observe(ac);
    VASSERT(!lt(a, a), "irreflexive");
    VASSERT(!(ab && ba), "asymmetric");
    VASSERT(!(ab && bc) || ac, "transitive");
    VASSERT(!(!ab && !ba && !bc && !cb) || (!ac && !ca), "incomparability is transitive (strict weak order)");
    // the order agrees with the protection key named by the property: a ordered before b => a's key is not better than b's
    VASSERT(!ab || key_le(a, b), "comparator orders by the documented key (protected = last)");
#if CMP == 0
    VASSERT(ab == (a.m_min_ping_time > b.m_min_ping_time), "ping comparator is exactly 'higher minimum ping first'");
#elif CMP == 2
    VASSERT(ab == (a.nKeyedNetGroup < b.nKeyedNetGroup), "netgroup comparator is exactly 'lower keyed group first'");
#elif CMP == 3
    if (a.m_last_block_time != b.m_last_block_time) VASSERT(ab == (a.m_last_block_time < b.m_last_block_time), "block time decides first");
#elif CMP == 4
    if (a.m_last_tx_time != b.m_last_tx_time) VASSERT(ab == (a.m_last_tx_time < b.m_last_tx_time), "tx time decides first");
#elif CMP == 5
    if (a.m_relay_txs != b.m_relay_txs) VASSERT(ab == a.m_relay_txs, "tx-relaying peers sort before block-relay-only peers");
#elif CMP == 6
    if (lt.loc && a.m_is_local != b.m_is_local) VASSERT(ab == b.m_is_local, "local peers sort last when localhost is the protected class");
#endif
    VWITNESS(ab && bc, "chain a<b<c reachable");
    VWITNESS(!ab && !ba, "tie reachable");
    VREACH("end");
}

// ------------------------------------------------------------------------------------------ (2) EraseLastKElements
// NC candidates (ids 0..NC-1), all attributes symbolic, k symbolic. PRED: 0 = default (always true), 1 = the block-relay-only predicate of
// SelectNodeToEvict, 2 = the network predicate of ProtectEvictionCandidatesByRatio.
#ifndef PRED
#define PRED 0
#endif
extern "C" void h_erase_last_k()
{
    NodeEvictionCandidate in[NC];
    std::vector<NodeEvictionCandidate> v;
    v.reserve(NC);
    for (int i = 0; i < NC; i++) { in[i] = draw(i); v.push_back(in[i]); }
    const size_t k = (size_t)nondet_range(0, NC + 1);
    Cmp lt; lt.loc = nondet_bool(); lt.net = (Network)nondet_range(0, NET_MAX);
    const bool ploc = lt.loc; const Network pnet = lt.net;
    auto pred = [&](const NodeEvictionCandidate& n) -> bool {
#if PRED == 0
        return true;
#elif PRED == 1
        return !n.m_relay_txs && n.fRelevantServices;
#else
        return ploc ? n.m_is_local : n.m_network == pnet;
#endif
    };
#ifdef PRESORTED
    // sub-domain: the input already is in comparator order (ties allowed), so the sort pass is the identity; all attribute values stay symbolic
    for (int i = 0; i + 1 < NC; i++) VASSUME(!lt(in[i + 1], in[i]));
#endif
#if PRED == 0
    EraseLastKElements(v, lt, k);
#else
    EraseLastKElements(v, lt, k, pred);
#endif
    const size_t m = v.size();
    VASSERT(m <= NC, "never grows");
    // (assertions inside the unrolled loops are accumulated into one flag per kind: each VASSERT instance is a separate solver call)
    bool kept[NC];
    for (int i = 0; i < NC; i++) kept[i] = false;
    bool perm_ok = true, attr_ok = true, sorted_ok = true;
    for (size_t j = 0; j < NC; j++) if (j < m) {
        const NodeEvictionCandidate& x = v[j];
        perm_ok = perm_ok && x.id >= 0 && x.id < NC;
        for (int i = 0; i < NC; i++) if (x.id == i) {
            perm_ok = perm_ok && !kept[i]; kept[i] = true;
            attr_ok = attr_ok && same_keys(x, in[i]);
        }
        for (size_t j2 = 0; j2 < j; j2++) sorted_ok = sorted_ok && !lt(x, v[j2]);
        verif_observe((uint64_t)x.id);
    }
    VASSERT(perm_ok, "survivors are distinct inputs");
    VASSERT(attr_ok, "survivor key attributes unchanged");
    VASSERT(sorted_ok, "survivors are in comparator order");
    // specification under every tie-break (written from 'sort, then erase those of the last k that satisfy the predicate'):
    //   x erased            => pred(x), and fewer than k inputs are strictly after x
    //   x kept and pred(x)  => at least k other inputs are not before x (they occupy the last k slots)
    //   x erased, y kept, pred(y) => x is not before y
    const size_t w = k < NC ? k : NC;
    size_t erased = 0;
    bool e_ok = true, k_ok = true, pair_ok = true;
    for (int i = 0; i < NC; i++) {
        size_t strictly_after = 0, not_before = 0;
        for (int j = 0; j < NC; j++) if (j != i) { if (lt(in[i], in[j])) strictly_after++; if (!lt(in[j], in[i])) not_before++; }
        if (!kept[i]) { erased++; e_ok = e_ok && pred(in[i]) && strictly_after < w; }
        else if (pred(in[i])) k_ok = k_ok && not_before >= w;
        for (int j = 0; j < NC; j++) if (!kept[i] && kept[j] && pred(in[j])) pair_ok = pair_ok && !lt(in[i], in[j]);
    }
    VASSERT(e_ok, "only predicate-satisfying elements within the last k of the order are erased");
    VASSERT(k_ok, "a predicate-satisfying element survives only if k others can stand after it");
    VASSERT(pair_ok, "erased (protected) elements are never ordered before a surviving element that satisfies the predicate");
    VASSERT(erased <= w, "at most k elements are erased");
#if PRED == 0
    VASSERT(erased == w, "with the default predicate exactly min(k,n) elements are erased");
#endif
    VWITNESS(erased == 1 && k == 1, "one erased");
#if NC >= 2
    VWITNESS(erased == 2, "two erased");
#ifndef PRESORTED
    VWITNESS(m >= 1 && erased >= 1 && v[0].id != 0, "order changed by the sort");
#endif
#if PRED != 0
    VWITNESS(erased < k && k <= NC && erased >= 1, "predicate spares an element in the last k");
#endif
#endif
    VREACH("end");
}

// ------------------------------------------------------------------------------------------ (3) noban / outbound filters
extern "C" void h_protect_filters()
{
    NodeEvictionCandidate in[NC];
    std::vector<NodeEvictionCandidate> v;
    v.reserve(NC);
    for (int i = 0; i < NC; i++) { in[i] = draw(i); v.push_back(in[i]); }
    const bool which = nondet_bool();
    if (which) ProtectNoBanConnections(v); else ProtectOutboundConnections(v);
    // survivors = exactly the inputs that are not protected, in the original order
    size_t j = 0;
    for (int i = 0; i < NC; i++) {
        const bool prot = which ? in[i].m_noban : in[i].m_conn_type != ConnectionType::INBOUND;
        if (!prot) { VASSERT(j < v.size() && v[j].id == i && v[j].m_noban == in[i].m_noban && v[j].m_conn_type == in[i].m_conn_type, "unprotected candidates are kept in order"); j++; }
    }
    VASSERT(j == v.size(), "protected candidates are all removed");
    verif_observe(v.size());
    VWITNESS(v.size() == NC, "nothing removed"); VWITNESS(v.empty(), "all removed");
    VREACH("end");
}

// ------------------------------------------------------------------------------------------ (5) SelectNodeToEvict end to end: scenario
// A fully symbolic run of SelectNodeToEvict needs >= 21 candidates (4+8+4+4 are protected before anybody can be evicted) and five symbolic
// sorts of 21..5 structs; that did not finish within 30 minutes (neither with the real introsort nor with a nondeterministic sort model).
// What is checked here instead is the order of the protection steps and their constants 4/8/4/4 on a CONCRETE family of scenarios that is
// tight for every constant: NC peers in disjoint groups, each group best in exactly one criterion and worst in all others,
//   G (4 highest netgroups), P (8 lowest pings), T (4 latest tx), B (4 latest blocks), then NC-20 ordinary peers.
// Only the attributes that do not influence any sort (prefer_evict, bloom flag, local flag, network of ordinary peers) are symbolic.
// With a constant reduced by one, a member of the corresponding group is left unprotected and, being the longest-connected ordinary-looking
// peer, survives the uptime protection last and gets evicted: the count assertions below then fail. With a constant increased, nobody is evicted at NC = 21.
extern "C" void h_select_scenario()
{
    NodeEvictionCandidate in[NC];
    std::vector<NodeEvictionCandidate> v;
    v.reserve(NC);
    for (int i = 0; i < NC; i++) {
        NodeEvictionCandidate c;
        c.id = i;
        const bool G = i < 4, P = i >= 4 && i < 12, T = i >= 12 && i < 16, B = i >= 16 && i < 20;
        c.nKeyedNetGroup = G ? 1000 + i : 100 - i;                                   // G: highest groups; everybody else lower and distinct (ordinary peers lowest)
        c.m_min_ping_time = std::chrono::microseconds{P ? 10 + i : 5000 + 10 * i};   // P: lowest pings
        c.m_last_tx_time = std::chrono::seconds{T ? 9000 + i : 100 + i};             // T: latest tx
        c.m_last_block_time = std::chrono::seconds{B ? 9000 + i : 100 + i};          // B: latest blocks
        // group members have been connected longer than the ordinary peers (earlier connect time = longer uptime), so a group member that slips
        // through its own protection step is the one the final uptime/ratio step keeps for last
        c.m_connected = NodeClock::time_point{std::chrono::seconds{i < 20 ? 1000 + i : 50000 + i}};
        c.fRelevantServices = true; c.m_relay_txs = true;
        c.fBloomFilter = nondet_bool(); c.prefer_evict = nondet_bool(); c.m_is_local = false;
        c.m_network = NET_IPV4; c.m_noban = false; c.m_conn_type = ConnectionType::INBOUND;
        in[i] = c; v.push_back(c);
    }
    const std::optional<NodeId> r = SelectNodeToEvict(std::move(v));
    VASSERT(r.has_value(), "with more than 20 eligible peers somebody is evicted");
    if (r.has_value()) {
        const NodeId s = *r;
        VASSERT(s >= 20 && s < NC, "the evicted peer is one of the ordinary peers, never a member of a protected group");
        verif_observe((uint64_t)s);
        size_t g = 0, p = 0, t = 0, b = 0;
        for (int i = 0; i < NC; i++) if (s == i) for (int y = 0; y < NC; y++) if (y != i) {
            if (in[y].nKeyedNetGroup >= in[i].nKeyedNetGroup) g++;
            if (in[y].m_min_ping_time <= in[i].m_min_ping_time) p++;
            if (in[y].m_last_tx_time >= in[i].m_last_tx_time) t++;
            if (in[y].m_last_block_time >= in[i].m_last_block_time) b++;
        }
        VASSERT(g >= 4 && p >= 8 && t >= 4 && b >= 4, "evicted peer is outside the 4 highest netgroups, 8 lowest pings, 4 latest tx and 4 latest block senders");
    }
    VWITNESS(r.has_value(), "eviction happens");
    VREACH("end");
}
