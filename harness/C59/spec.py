from vlib import H
PROPERTY = 'C59'
LEVEL = 'model_checking'
CLAIM = ('src/node/eviction.cpp (static functions reached by including the .cpp): (1) each of the 7 comparators is a strict weak order for all field values (irreflexive, asymmetric, transitive, transitive incomparability) '
         'and orders by the key the property names (higher ping / lower netgroup / older tx / older block first, i.e. protected peers last). (2) EraseLastKElements with the real std::sort/remove_if/erase on N<=4 (thorough 5) fully symbolic candidates and symbolic k: '
         'survivors are distinct inputs in comparator order; an element is erased only if it satisfies the predicate and fewer than k inputs are strictly after it; a predicate-satisfying survivor has at least k others not before it; erased elements are never '
         'ordered before such survivors; exactly min(k,n) erased for the default predicate (i.e. the protected set is a set of k maximal elements under every tie-break). (3) ProtectNoBanConnections / ProtectOutboundConnections remove exactly the noban / non-inbound candidates, order preserved. '
         '(4) SelectNodeToEvict end to end only on a concrete, constant-tight scenario family (see assumptions). Not reached: SelectNodeToEvict with >= 21 fully symbolic candidates; ProtectEvictionCandidatesByRatio with symbolic candidates.')
LINK = []
COMMON = dict(link=LINK, nofmt=True, timeout=300, diff_runs=16)
HARNESSES = [
    H('cmp_swo', 'evict.cpp', 'h_cmp_swo', variants=[{'CMP': i} for i in range(7)], unwind=4,
      functions=['ReverseCompareNodeMinPingTime', 'ReverseCompareNodeTimeConnected', 'CompareNetGroupKeyed', 'CompareNodeBlockTime', 'CompareNodeTXTime', 'CompareNodeBlockRelayOnlyTime', 'CompareNodeNetworkTime'],
      bounds='3 candidates, all fields full width', **COMMON),
    H('erase_last_k', 'evict.cpp', 'h_erase_last_k', variants=[{'NC': 3, 'CMP': 5, 'PRED': 1}, {'NC': 3, 'CMP': 6, 'PRED': 2}, {'NC': 3, 'CMP': 4, 'PRED': 0}, {'NC': 4, 'CMP': 2, 'PRED': 0}],
      tvariants=[{'NC': 5, 'CMP': 2, 'PRED': 0}, {'NC': 4, 'CMP': 5, 'PRED': 1}, {'NC': 4, 'CMP': 6, 'PRED': 2}, {'NC': 4, 'CMP': 0, 'PRED': 0, 'ALLFIELDS': 1}, {'NC': 4, 'CMP': 3, 'PRED': 0}], unwind=9,
      functions=['EraseLastKElements', 'std::sort', 'std::remove_if', 'std::vector::erase'], bounds='N<=4 (thorough 5) candidates, k in 0..N+1, all attributes symbolic', **COMMON),
    H('protect_filters', 'evict.cpp', 'h_protect_filters', variants=[{'NC': 4}], tvariants=[{'NC': 6}], unwind=9,
      functions=['ProtectNoBanConnections', 'ProtectOutboundConnections'], bounds='N=4 (thorough 6)', **COMMON),
    H('select_scenario', 'evict.cpp', 'h_select_scenario', variants=[{'NC': 21}, {'NC': 23}], tvariants=[{'NC': 21}, {'NC': 22}, {'NC': 23}, {'NC': 26}], unwind=30, memunwind=90, **dict(COMMON, timeout=600),
      functions=['SelectNodeToEvict', 'ProtectEvictionCandidatesByRatio', 'EraseLastKElements', 'std::sort (real introsort)', 'std::map<uint64_t, std::vector<NodeEvictionCandidate>>'],
      bounds='concrete scenario family (21..26 peers in disjoint best-in-one-criterion groups); only sort-irrelevant attributes symbolic',
      assumptions=['scenario harness: the order of protection steps and the constants 4/8/4/4 are checked on concrete key values; a fully symbolic N>=21 run of SelectNodeToEvict did not finish in 30 min and is not claimed']),
]
