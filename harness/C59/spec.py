from vlib import H
PROPERTY = 'C59'
LEVEL = 'model_checking'
CLAIM = ('TODO')
LINK = []
COMMON = dict(link=LINK, nofmt=True, timeout=300, diff_runs=16)
HARNESSES = [
    H('cmp_swo', 'evict.cpp', 'h_cmp_swo', variants=[{'CMP': i} for i in range(7)], unwind=4,
      functions=['ReverseCompareNodeMinPingTime', 'ReverseCompareNodeTimeConnected', 'CompareNetGroupKeyed', 'CompareNodeBlockTime', 'CompareNodeTXTime', 'CompareNodeBlockRelayOnlyTime', 'CompareNodeNetworkTime'],
      bounds='3 candidates, all fields full width', **COMMON),
    H('erase_last_k', 'evict.cpp', 'h_erase_last_k', variants=[{'NC': 3, 'CMP': 5, 'PRED': 1}, {'NC': 3, 'CMP': 6, 'PRED': 2}, {'NC': 3, 'CMP': 4, 'PRED': 0}, {'NC': 4, 'CMP': 2, 'PRED': 0}],
      tvariants=[{'NC': 5, 'CMP': 2, 'PRED': 0}, {'NC': 4, 'CMP': 5, 'PRED': 1}, {'NC': 4, 'CMP': 6, 'PRED': 2}, {'NC': 4, 'CMP': 0, 'PRED': 0, 'ALLFIELDS': 1}, {'NC': 4, 'CMP': 3, 'PRED': 0}], unwind=9,
      functions=['EraseLastKElements', 'std::sort', 'std::remove_if', 'std::vector::erase'], bounds='N<=4 (thorough 5) candidates, k in 0..N+1, all attributes symbolic', **COMMON),
    H('protect_filters', 'evict.cpp', 'h_protect_filters', variants=[{'NC': 4}], tvariants=[{'NC': 6}], unwind=9,
      functions=['ProtectNoBanConnections', 'ProtectOutboundConnections'], bounds='N=4 (thorough 6)', **COMMON),
    H('select_small', 'evict.cpp', 'h_select_small', variants=[{'NC': 2}, {'NC': 4}], tvariants=[{'NC': 6}], unwind=9,
      functions=['SelectNodeToEvict'], bounds='N<=4 (thorough 6)', **COMMON),
    H('select_core', 'evict.cpp', 'h_select_core', variants=[{'NC': 21, 'MODEL_SORT': 1}], unwind=25, memunwind=90,
      functions=['SelectNodeToEvict'], stubs=['std::sort internals replaced by a nondeterministic any-sorted-permutation model'], bounds='N=21', **COMMON),
    H('ratio', 'evict.cpp', 'h_ratio', variants=[{'NC': 4}], tvariants=[{'NC': 5}], unwind=9,
      functions=['ProtectEvictionCandidatesByRatio'], bounds='N=4 (thorough 5)', **COMMON),
]
