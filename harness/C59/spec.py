from vlib import H
PROPERTY = 'C59'
LEVEL = 'model_checking'
CLAIM = ('src/node/eviction.cpp (static functions reached by including the .cpp): (1) each of the 7 comparators is a strict weak order for all field values (irreflexive, asymmetric, transitive, transitive incomparability) '
         'and orders by the key the property names (higher ping / lower netgroup / older tx / older block first, i.e. protected peers last). (2) EraseLastKElements with the real std::sort/remove_if/erase on N<=4 (thorough 5; with a non-default predicate N=2, thorough 3) fully symbolic candidates and symbolic k: '
         'survivors are distinct inputs in comparator order; an element is erased only if it satisfies the predicate and fewer than k inputs are strictly after it; a predicate-satisfying survivor has at least k others not before it; erased elements are never '
         'ordered before such survivors; exactly min(k,n) erased for the default predicate (i.e. the protected set is a set of k maximal elements under every tie-break). (3) ProtectNoBanConnections / ProtectOutboundConnections remove exactly the noban / non-inbound candidates, order preserved. '
         'NOT reached: SelectNodeToEvict end to end (the order of the protection steps and the constants 4/8/4/8/4): it needs >= 21 candidates and five sorts; fully symbolic runs (real introsort, and a nondeterministic sort model) did not finish in 30 min, and a concrete-key scenario run did not finish its symbolic execution within 400 s under the driver flags; ProtectEvictionCandidatesByRatio with symbolic candidates (N=4 timed out).')
LINK = []
COMMON = dict(link=LINK, nofmt=True, timeout=300, diff_runs=16)
HARNESSES = [
    H('cmp_swo', 'evict.cpp', 'h_cmp_swo', variants=[{'CMP': i} for i in range(7)], unwind=4, backends=['default', 'cvc5int'],   # cvc5 with the integer encoding decides comparators that a change routes through a division by a constant (SAT stalls there)
      functions=['ReverseCompareNodeMinPingTime', 'ReverseCompareNodeTimeConnected', 'CompareNetGroupKeyed', 'CompareNodeBlockTime', 'CompareNodeTXTime', 'CompareNodeBlockRelayOnlyTime', 'CompareNodeNetworkTime'],
      bounds='3 candidates, all fields full width', **COMMON),
    H('erase_last_k', 'evict.cpp', 'h_erase_last_k', variants=[{'NC': 2, 'CMP': 5, 'PRED': 1}, {'NC': 3, 'CMP': 4, 'PRED': 0}, {'NC': 4, 'CMP': 2, 'PRED': 0}],
      tvariants=[{'NC': 3, 'CMP': 5, 'PRED': 1}, {'NC': 3, 'CMP': 6, 'PRED': 2}, {'NC': 3, 'CMP': 4, 'PRED': 0}, {'NC': 4, 'CMP': 2, 'PRED': 0}, {'NC': 5, 'CMP': 2, 'PRED': 0}, {'NC': 4, 'CMP': 0, 'PRED': 0, 'ALLFIELDS': 1}, {'NC': 4, 'CMP': 3, 'PRED': 0}], unwind=9,
      functions=['EraseLastKElements', 'std::sort', 'std::remove_if', 'std::vector::erase'], bounds='N<=4 (thorough 5) candidates, k in 0..N+1, all attributes symbolic', **dict(COMMON, timeout=900)),
    H('protect_filters', 'evict.cpp', 'h_protect_filters', variants=[{'NC': 2}], tvariants=[{'NC': 2}, {'NC': 3}], unwind=9,
      functions=['ProtectNoBanConnections', 'ProtectOutboundConnections'], bounds='N=2 (thorough 3)', **dict(COMMON, timeout=900)),
]
