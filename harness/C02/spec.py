from vlib import H
import importlib.util, os
PROPERTY = 'C02'
LEVEL = 'model_checking'
CLAIM = ('Existence and single-spend at the UTXO-view level, on a real two-layer CCoinsViewCache stack: HaveInputs holds iff every prevout exists unspent; after the real UpdateCoins(tx) '
         'the spent outputs are gone, provably unspendable (OP_RETURN) outputs are never added, and a second transaction spending an already-spent, never-created or unspendable output '
         'fails HaveInputs and is refused by Consensus::CheckTxInputs as missing-inputs. Duplicate inputs inside one transaction are rejected by CheckTransaction (harness shared with C03). '
         'BIP30 re-creation and "rejected block leaves tip unchanged" live in ConnectBlock/ActivateBestChain and are not decided.')
sp = importlib.util.spec_from_file_location('spec_C09', os.path.join(os.path.dirname(__file__), '..', 'C09', 'spec.py')); m9 = importlib.util.module_from_spec(sp); sp.loader.exec_module(m9)
sp = importlib.util.spec_from_file_location('spec_C03', os.path.join(os.path.dirname(__file__), '..', 'C03', 'spec.py')); m3 = importlib.util.module_from_spec(sp); sp.loader.exec_module(m3)
HARNESSES = [
    H('doublespend', '../C09/txflow.cpp', 'h_txflow', link=m9.LINK, entries=m9.DS, shadow=['nofmt', 'nopool'], unwind=20, memunwind=112, timeout=900, objbits=11, functions=m9.FN, stubs=m9.ST,
      bounds='2 base outpoints + 2 created outpoints; shapes: ' + ', '.join(x[0] for x in m9.DS) + '; all values symbolic'),
    H('dupinputs', '../C03/checktx.cpp', 'h_checktx', link=m3.LINK, variants=[{'NIN': 2, 'NOUT': 1}, {'NIN': 3, 'NOUT': 1}], unwind=12, memunwind=104, noop=[m3.ERASE], unwindset=m3.HARNESSES[0].unwindset,
      timeout=600, objbits=10, functions=m3.FN, stubs=m3.ST, bounds='CheckTransaction on 2- and 3-input transactions: accepted => all prevouts pairwise distinct (reference predicate of C03)'),
]
