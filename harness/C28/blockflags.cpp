// C28 (kernel): every value the real GetBlockScriptFlags (validation.cpp) can return is a subset of STANDARD_SCRIPT_VERIFY_FLAGS (policy/policy.h),
// for every combination of buried deployment heights, block height and script-flag-exception hit/miss; the exception table (hashes and flag
// values) is read from src/kernel/chainparams.cpp by spec.py (EXC_TABLE macro), one variant per chain.
// Together with flag monotonicity (C11) this is the "policy script success => consensus script success" half of C28.
#include <verif.h>
#include <verif_open_access.h>
#include <validation.h>
#include <kernel/chainparams.h>
#include <policy/policy.h>
#include <script/interpreter.h>
#include <verif_close_access.h>
#include <verif_stubs_common.h>
#include <verif_phantom.h>

script_verify_flags GetBlockScriptFlags(const CBlockIndex& block_index, const ChainstateManager& chainman);   // validation.cpp, no public declaration

static PhantomStore<ChainstateManager> cm_store; static PhantomStore<CChainParams> cp_store;
struct Exc { const char* hash; script_verify_flags flags; };
// EXC_TABLE: {"<hex block hash>", <flag expression copied from chainparams.cpp>}, ...   (NEXC entries, possibly 0)
static const Exc EXC[NEXC + 1] = {EXC_TABLE {nullptr, SCRIPT_VERIFY_NONE}};

static uint256 parse_hash(const char* hex)
{
    uint256 u;
    for (int i = 0; i < 32; i++) {
        auto nib = [](char c) -> unsigned { return c <= '9' ? c - '0' : (c | 32) - 'a' + 10; };
        u.data()[31 - i] = (unsigned char)((nib(hex[2 * i]) << 4) | nib(hex[2 * i + 1]));
    }
    return u;
}

// HIT: index of the exception entry whose hash the block has, or -1 for a block that is not an exception
template <int HIT>
static void run()
{
    ChainstateManager& cm = cm_store.obj(); CChainParams& cp = cp_store.obj();
    *(void**)&cm.m_options = &cp;
    VASSERT(&cm.GetParams() == &cp && &cm.GetConsensus() == &cp.consensus, "phantom chainparams wired");
    Consensus::Params& c = cp.consensus;
    new (&c.script_flag_exceptions) std::map<uint256, script_verify_flags>();
    for (int k = 0; k < NEXC; k++) c.script_flag_exceptions.emplace(parse_hash(EXC[k].hash), EXC[k].flags);
    VASSERT(c.script_flag_exceptions.size() == NEXC, "exception hashes are distinct");
    c.BIP34Height = (int)nondet_u32(); c.BIP65Height = (int)nondet_u32(); c.BIP66Height = (int)nondet_u32(); c.CSVHeight = (int)nondet_u32(); c.SegwitHeight = (int)nondet_u32();
    static CBlockIndex idx; static uint256 hash;
    if (HIT >= 0) hash = parse_hash(EXC[HIT < 0 ? 0 : HIT].hash); else { hash = uint256(); hash.data()[0] = 0x77; hash.data()[31] = 0x77; }
    idx.phashBlock = &hash; idx.nHeight = (int)nondet_u32();

    const script_verify_flags flags = GetBlockScriptFlags(idx, cm);
    verif_observe(flags.as_int());

    VASSERT((flags & ~STANDARD_SCRIPT_VERIFY_FLAGS).as_int() == 0, "every consensus script flag of a block is also a standard (policy) script flag");
    // exact reference: base flags (or the exception's flags) plus one flag per buried deployment active at the block's height
    script_verify_flags want = HIT >= 0 ? EXC[HIT < 0 ? 0 : HIT].flags : (SCRIPT_VERIFY_P2SH | SCRIPT_VERIFY_WITNESS | SCRIPT_VERIFY_TAPROOT);
    if (idx.nHeight >= c.BIP66Height) want |= SCRIPT_VERIFY_DERSIG;
    if (idx.nHeight >= c.BIP65Height) want |= SCRIPT_VERIFY_CHECKLOCKTIMEVERIFY;
    if (idx.nHeight >= c.CSVHeight) want |= SCRIPT_VERIFY_CHECKSEQUENCEVERIFY;
    if (idx.nHeight >= c.SegwitHeight) want |= SCRIPT_VERIFY_NULLDUMMY;
    VASSERT(flags == want, "block flags = base/exception flags + DERSIG/CLTV/CSV/NULLDUMMY for the deployments buried at or below the block height");
    const bool all_active = idx.nHeight >= c.BIP66Height && idx.nHeight >= c.BIP65Height && idx.nHeight >= c.CSVHeight && idx.nHeight >= c.SegwitHeight;
    if (HIT < 0 && all_active) VASSERT(flags == MANDATORY_SCRIPT_VERIFY_FLAGS, "with every deployment active the block flags are exactly the mandatory policy flags");
    VASSERT((flags & ~MANDATORY_SCRIPT_VERIFY_FLAGS).as_int() == 0, "block flags never exceed the mandatory flags");
    VWITNESS(all_active, "all deployments active");
    VWITNESS(idx.nHeight >= c.BIP66Height && idx.nHeight < c.BIP65Height && idx.nHeight >= c.CSVHeight && idx.nHeight < c.SegwitHeight, "mixed activation");
    VWITNESS(flags == want && (flags.as_int() & script_verify_flags{SCRIPT_VERIFY_NULLDUMMY}.as_int()) == 0, "NULLDUMMY off");
    if (HIT >= 0) VWITNESS((flags.as_int() & script_verify_flags{SCRIPT_VERIFY_TAPROOT}.as_int()) == 0, "exception block without taproot");
    VREACH("end");
}
#define VERIF_ENTRY(name, ...) extern "C" void h_##name() { run<__VA_ARGS__>(); }
#include VERIF_ENTRIES_INC
