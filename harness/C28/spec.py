import os, re
from vlib import H
PROPERTY = 'C28'
LEVEL = 'model_checking'
REPO = os.environ.get('VERIF_REPO', '/repo')
# script-flag exception tables, read from the tree under test: one list per chain constructor in kernel/chainparams.cpp
def exception_tables():
    src = open(os.path.join(REPO, 'src', 'kernel', 'chainparams.cpp')).read()
    chains = re.split(r'\n(?=class \w+Params\b)', src)
    out = []
    for ch in chains:
        m = re.match(r'class (\w+Params)\b', ch)
        if not m: continue
        exc = re.findall(r'script_flag_exceptions\.emplace\(\s*(?://[^\n]*\n\s*)?uint256\{"([0-9a-fA-F]{64})"\}\s*,\s*([^;]*?)\)\s*;', ch)
        out.append((m.group(1), [(h, ' '.join(f.split())) for h, f in exc]))
    return out
TABLES = exception_tables()
assert any(t for _, t in TABLES), 'no script_flag_exceptions found in chainparams.cpp (parser out of date)'
assert sum(len(t) for _, t in TABLES) == len(re.findall(r'script_flag_exceptions\.emplace', open(os.path.join(REPO, 'src', 'kernel', 'chainparams.cpp')).read())), 'unparsed script_flag_exceptions.emplace in chainparams.cpp'
def harness(chain, table):
    ent = [('miss', '-1')] + [('hit%d' % k, str(k)) for k in range(len(table))]
    return H('blockflags_' + chain, 'blockflags.cpp', 'h_blockflags_' + chain, link=['validation.cpp', 'uint256.cpp'], entries=ent, shadow=['nofmt'], interpose=True, unwind=40, memunwind=200, timeout=300, objbits=10, backends=['cadical', 'default'],
             defines={'NEXC': len(table), 'EXC_TABLE': ''.join('{"%s", %s},' % (h, f) for h, f in table)},
             functions=['GetBlockScriptFlags (validation.cpp)', 'DeploymentActiveAt (buried)', 'Consensus::Params::DeploymentHeight', 'std::map<uint256, script_verify_flags>::find', 'script_verify_flags operators'],
             stubs=['phantom ChainstateManager: m_options.chainparams (reference slot); phantom CChainParams: consensus.script_flag_exceptions (real std::map filled with the %d exception entries parsed from kernel/chainparams.cpp class %s), consensus buried heights' % (len(table), chain),
                    'assertion_fail -> CBMC assertion', 'tinyformat -> empty strings'],
             bounds='%s: exception table %s; block = each exception block or a non-exception block; BIP66/BIP65/CSV/Segwit heights and block height all 32-bit symbolic' % (chain, [(h[:16] + '..', f) for h, f in table] or 'empty'))
# chains with identical tables share one harness
seen = {}
for chain, table in TABLES: seen.setdefault(tuple(table), chain)
HARNESSES = [harness(chain, list(table)) for table, chain in seen.items()]
CLAIM = ('Kernel-level part of C28 ("policy implies consensus"): for every chain parameter class in kernel/chainparams.cpp (exception tables parsed from the source: %s), every block (each exception block and a '
         'non-exception block) and all 32-bit buried deployment heights and block heights, the real GetBlockScriptFlags returns exactly base/exception flags | DERSIG/CLTV/CSV/NULLDUMMY per deployment '
         'active at that height, and this value is always a subset of STANDARD_SCRIPT_VERIFY_FLAGS (and of MANDATORY_SCRIPT_VERIFY_FLAGS; equal to it once every deployment is active). '
         'With script-flag monotonicity (C11) this gives: standard script success implies consensus script success for the next block. NOT decided: test-accept side-effect freedom and verdict equality with submission '
         '(MemPoolAccept over a live mempool), non-script policy/consensus differences.' % '; '.join('%s: %d' % (c, len(t)) for c, t in TABLES))
