from vlib import H
PROPERTY = 'C60'
LEVEL = 'model_checking'
CLAIM = ('Real netaddress.cpp/.h code (CSubNet ctors/Match/IsValid/operator==/<, static NetmaskBits, CNetAddr::SetLegacyIPv6, V1 and BIP155 V2 (un)serialization incl. '
         'SetNetFromBIP155Network/GetBIP155Network/CService ser, IsValid/IsRoutable/RFC-range predicates/GetLinkedIPv4) executed symbolically and compared with an independent integer-prefix reference '
         'written from the property text, BIP155 and the RFC prefixes: (1) CSubNet(a,len) is valid iff IPv4/len<=32 or IPv6/len<=128 and Match(b) iff b valid, same network and first len bits equal, for all '
         '16-byte legacy addresses a,b (IPv4-mapped, internal, TORv2-mapped and plain IPv6 forms) and all 256 len values; netmask ctor valid iff same family and mask contiguous, Match iff equal under mask, and equal to the CIDR form; '
         'single-host subnets (IPv4/IPv6/Tor/I2P/CJDNS) match exactly the equal valid address, internal gives an invalid subnet. (2) V1: every 16-byte address + port decodes to the network its prefix demands, re-encodes to the same bytes '
         '(TORv2-mapped -> all-zero), and its BIP155 encoding equals id|compactsize|bytes|port and decodes to an equal CService. BIP155 decoding over enumerated (id,length) shapes with symbolic bytes: throws exactly for >512, non-canonical length '
         'or wrong length of a known network; unknown ids and embedded IPv4/TORv2-in-IPv6 are skipped as the invalid address consuming exactly the announced bytes; accepted addresses re-encode to the received bytes. '
         '(3) All RFC/validity/routability predicates and the linked-IPv4 extraction equal the prefix tables for every legacy address. Not covered: string printing/parsing (ToString/LookupSubNet), BanMan (file, clock, signals), discouragement filter.')
LINK = ['netaddress.cpp']
V4, V6, INT = 4, 6, 1
ALL = [(a, b) for a in (V4, V6, INT) for b in (V4, V6, INT) if not (a == INT and b != INT)]
QP = [(V4, V4), (V6, V6), (V4, V6), (INT, INT)]
pairs = lambda l: [{'CA': a, 'CB': b} for a, b in l]
TALL = [(V4, V4, V4), (V6, V6, V6), (V4, V4, V6), (V6, V6, V4), (V4, V6, V4), (V6, V4, V6), (INT, V6, V6), (V6, INT, V6), (V4, V4, INT)]
TQ = [(V4, V4, V4), (V6, V6, V6), (V4, V6, V4), (INT, V6, V6)]
triples = lambda l: [{'CA': a, 'CM': m, 'CB': b} for a, m, b in l]
OVL = [{'NETSEL': 4}, {'NETSEL': 5}, {'NETSEL': 6}]
def d(i, l, **kw):
    v = {'NETID': i, 'LEN': l}; v.update(kw); return v
DEC_LONG = [d(0, 252), d(0, 253), d(0, 513), d(2, 253)]
DEC_Q = [d(1, 4), d(2, 16, PFX=0), d(2, 16, PFX=1), d(2, 16, PFX=2), d(4, 32), d(5, 32), d(6, 16), d(0, 7), d(1, 16), d(6, 32), d(1, 4, NONCANON=1), d(0, 512), d(1, 513)]
DEC_T = DEC_Q + DEC_LONG + [d(2, 4), d(4, 16), d(2, 16, PFX=3), d(1, 3), d(1, 5), d(1, 0), d(2, 15), d(2, 17), d(4, 31), d(4, 33), d(5, 16), d(5, 33), d(6, 15), d(6, 4), d(0, 0), d(0, 4), d(0, 16), d(0, 32), d(0, 10)]
COMMON = dict(link=LINK, nofmt=True, timeout=300, diff_runs=16)
HARNESSES = [
    H('subnet_cidr', 'subnet.cpp', 'h_subnet_cidr', variants=pairs(QP), tvariants=pairs(ALL), unwind=20,
      functions=['CSubNet::CSubNet(const CNetAddr&, uint8_t)', 'CSubNet::Match', 'CSubNet::IsValid', 'CNetAddr::SetLegacyIPv6', 'CNetAddr::IsValid'],
      bounds='all pairs of 16-byte legacy addresses (case split by class: IPv4-mapped / internal-prefixed / other) x all 256 prefix lengths; quick: 4 class pairs, thorough: all 7', assumptions=['assert-then-pin: after the real constructor ran, m_net and m_addr.size() are asserted equal to the class constants and stored back (no-op) so later code sees concrete sizes'], **COMMON),
    H('subnet_mask', 'subnet.cpp', 'h_subnet_mask', variants=triples(TQ), tvariants=triples(TALL), unwind=20,
      functions=['CSubNet::CSubNet(const CNetAddr&, const CNetAddr&)', 'NetmaskBits', 'operator==(CSubNet)', 'operator<(CSubNet)'],
      bounds='all triples (address, mask, probe) of 16-byte legacy addresses', **COMMON),
    H('subnet_order', 'subnet.cpp', 'h_subnet_order', variants=pairs([(V4, V4), (V6, V6), (V4, V6)]), tvariants=pairs(ALL), unwind=20,
      functions=['operator<(CSubNet)', 'operator==(CSubNet)', 'operator<(CNetAddr)', 'operator==(CNetAddr)', 'CSubNet::CSubNet(const CNetAddr&, uint8_t)'],
      bounds='all triples of CIDR subnets (16-byte legacy addresses by class, all 256 prefix lengths each): irreflexive, asymmetric, transitive, transitive incomparability, unordered iff equal for valid subnets', **COMMON),
    H('subnet_single', 'subnet.cpp', 'h_subnet_single', variants=pairs([(V4, V4), (V6, V6), (INT, INT)]) + OVL, tvariants=pairs(ALL) + OVL, unwind=36,
      functions=['CSubNet::CSubNet(const CNetAddr&)', 'CNetAddr::UnserializeV2Stream', 'operator==(CNetAddr)'],
      bounds='all pairs of addresses of each network', **COMMON),
    H('v1_roundtrip', 'addrser.cpp', 'h_v1_roundtrip', variants=[{'CA': V4}, {'CA': V6}, {'CA': INT}], unwind=36,
      functions=['CNetAddr::UnserializeV1Stream/SerializeV1Stream/SerializeV1Array', 'CNetAddr::SerializeV2Stream/UnserializeV2Stream', 'CService::Serialize/Unserialize', 'operator==/<(CService)'],
      bounds='all 16-byte legacy addresses x all ports', **COMMON),
    H('v2_decode', 'addrser.cpp', 'h_v2_decode', variants=DEC_Q, tvariants=DEC_T, unwind=40,
      functions=['CNetAddr::UnserializeV2Stream', 'CNetAddr::SetNetFromBIP155Network', 'CNetAddr::SerializeV2Stream', 'CNetAddr::GetBIP155Network', 'ReadCompactSize', 'WriteCompactSize'],
      bounds='BIP155 (id, length) shapes enumerated; address bytes symbolic', **COMMON),
    H('predicates', 'addrser.cpp', 'h_predicates', variants=[{'CA': V4}, {'CA': V6}, {'CA': INT}], unwind=20,
      functions=['CNetAddr::IsRFC1918/2544/6598/5737/3927/3849/3964/4193/4380/4843/7343/4862/6052/6145', 'IsLocal', 'IsValid', 'IsRoutable', 'IsBindAny', 'GetNetwork', 'GetNetClass', 'HasLinkedIPv4', 'GetLinkedIPv4'],
      bounds='all 16-byte legacy addresses', **COMMON),
]
