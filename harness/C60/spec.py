from vlib import H
PROPERTY = 'C60'
LEVEL = 'model_checking'
CLAIM = ('TODO')
LINK = ['netaddress.cpp']
V4, V6, INT = 4, 6, 1
pairs = [{'CA': a, 'CB': b} for a in (V4, V6, INT) for b in (V4, V6, INT) if not (a == INT and b != INT)]
triples = [{'CA': a, 'CM': m, 'CB': b} for (a, m, b) in ((V4, V4, V4), (V6, V6, V6), (V4, V4, V6), (V6, V6, V4), (V4, V6, V4), (V6, V4, V6), (INT, V6, V6), (V6, INT, V6), (V4, V4, INT))]
HARNESSES = [
    H('subnet_cidr', 'subnet.cpp', 'h_subnet_cidr', link=LINK, nofmt=True, variants=pairs, unwind=20, timeout=300,
      functions=['CSubNet::CSubNet(const CNetAddr&, uint8_t)', 'CSubNet::Match', 'CSubNet::IsValid', 'CNetAddr::SetLegacyIPv6', 'CNetAddr::IsValid'],
      bounds='all pairs of 16-byte legacy addresses x all 256 prefix lengths'),
    H('subnet_mask', 'subnet.cpp', 'h_subnet_mask', link=LINK, nofmt=True, variants=triples, unwind=20, timeout=300,
      functions=['CSubNet::CSubNet(const CNetAddr&, const CNetAddr&)', 'NetmaskBits', 'operator==(CSubNet)', 'operator<(CSubNet)'],
      bounds='all triples (address, mask, probe) of 16-byte legacy addresses'),
    H('subnet_single', 'subnet.cpp', 'h_subnet_single', link=LINK, nofmt=True, variants=pairs + [{'NETSEL': 4}, {'NETSEL': 5}, {'NETSEL': 6}], unwind=36, timeout=300,
      functions=['CSubNet::CSubNet(const CNetAddr&)', 'CNetAddr::UnserializeV2Stream', 'operator==(CNetAddr)'],
      bounds='all pairs of addresses of each network'),
]
