// C60 (2): P2P address serializations (legacy 16-byte "V1" and BIP155 "V2") round trips, BIP155 length/id validation, and the
// network-class predicates (IsIPv4/IsIPv6/IsValid/IsRoutable/RFC ranges/linked IPv4) against integer-prefix oracles.
// Real code: CNetAddr::{Serialize,Unserialize}V{1,2}Stream, SerializeV1Array, SetLegacyIPv6, SetNetFromBIP155Network, GetBIP155Network,
// CService SERIALIZE_METHODS, ReadCompactSize/WriteCompactSize, prevector (un)serialization, predicates of netaddress.cpp.
#include <verif.h>
#include <netaddress.h>
#include <serialize.h>
#include <string.h>
#include "c60_common.h"

#ifndef CA
#define CA CLS_V4
#endif

// ------------------------------------------------------------------------------------------------ V1 (legacy) round trip
extern "C" void h_v1_roundtrip()
{
    uint8_t raw[18];
    draw_cls(raw, CA);
    const uint16_t port = nondet_u16();
    raw[16] = (uint8_t)(port >> 8); raw[17] = (uint8_t)(port & 0xff);     // network byte order
    const RefAddr o = ref_legacy(raw);

    // decode CService (address + port) from the legacy wire form through the real stream operators
    BufStream<40> in;
    for (int i = 0; i < 18; i++) in.buf[i] = raw[i];
    in.wpos = 18;
    CService s;
    { ParamsStream ps{in, CNetAddr::V1}; ps >> s; }
    pin(s, CA);
    VASSERT(in.rpos == 18, "legacy decoding consumes exactly 16+2 bytes");
    VASSERT(s.GetPort() == port, "port is big-endian on the wire");
    VASSERT(s.IsIPv4() == (o.net == R_IPV4) && s.IsIPv6() == (o.net == R_IPV6) && s.IsInternal() == (o.net == R_INTERNAL), "network classification of the legacy form");
    VASSERT(!s.IsTor() && !s.IsI2P() && !s.IsCJDNS(), "legacy form never yields an overlay network");
    VASSERT(s.IsValid() == ref_valid(o), "IsValid agrees with the reference");
    VASSERT(s.IsAddrV1Compatible(), "IPv4/IPv6/internal are V1 compatible");
    {   // payload bytes are the reference value
        const prevector<16, uint8_t>& m = addr_of(s);
        VASSERT(be_int(m.data(), o.len) == o.v, "address payload equals the reference bytes");
    }
    // encode again: legacy form
    BufStream<40> out;
    { ParamsStream ps{out, CNetAddr::V1}; ps << s; }
    VASSERT(out.wpos == 18, "legacy encoding is 16+2 bytes");
    const bool torv2 = (be_int(raw, 16) >> 80) == (u128)0xfd87d87eeb43ULL;
    bool same = true, zero = true;
    for (int i = 0; i < 16; i++) { same = same && out.buf[i] == raw[i]; zero = zero && out.buf[i] == 0; }
    VASSERT(torv2 ? zero : same, "V1 round trip reproduces the 16 address bytes (TORv2-mapped addresses become the all-zero address)");
    VASSERT(out.buf[16] == raw[16] && out.buf[17] == raw[17], "V1 round trip reproduces the port bytes");
    verif_observe(be_int(out.buf, 16) >> 64); verif_observe((uint64_t)be_int(out.buf, 16));

    // encode as BIP155 and compare with the reference encoding, then decode that and compare objects
    BufStream<40> v2;
    { ParamsStream ps{v2, CNetAddr::V2}; ps << s; }
    uint8_t want[40]; size_t wn = 0;
    if (o.net == R_IPV4) { want[0] = 1; want[1] = 4; for (int i = 0; i < 4; i++) want[2 + i] = raw[12 + i]; wn = 6; }
    else { want[0] = 2; want[1] = 16; for (int i = 0; i < 16; i++) want[2 + i] = torv2 ? 0 : raw[i]; wn = 18; }   // internal travels embedded in IPv6
    want[wn] = raw[16]; want[wn + 1] = raw[17]; wn += 2;
    VASSERT(v2.wpos == wn, "BIP155 encoding length");
    bool eq = true;
    for (size_t i = 0; i < 20; i++) if (i < wn) eq = eq && v2.buf[i] == want[i];
    VASSERT(eq, "BIP155 encoding equals network id, compact length, address bytes, big-endian port");
    CService t;
    { ParamsStream ps{v2, CNetAddr::V2}; ps >> t; }
    pin(t, CA);
    VASSERT(v2.rpos == wn, "BIP155 decoding consumes what was encoded");
    VASSERT(t == s && !(t < s) && !(s < t), "BIP155 round trip yields an equal CService");
    VASSERT(t.GetPort() == port && be_int(addr_of(t).data(), o.len) == o.v, "BIP155 round trip preserves payload and port");

#if CA == CLS_V6
    VWITNESS(torv2, "TORv2-mapped legacy address reachable");
    VWITNESS(!s.IsValid() && !torv2 && o.v != 0, "documentation range invalid");
    VWITNESS(s.IsValid(), "valid IPv6");
#elif CA == CLS_V4
    VWITNESS(s.IsValid() && s.IsIPv4(), "valid IPv4");
    VWITNESS(!s.IsValid(), "0.0.0.0 / 255.255.255.255 invalid");
#else
    VWITNESS(s.IsInternal(), "internal address");
#endif
    VREACH("end");
}

// ------------------------------------------------------------------------------------------------ BIP155 decoding
// Shape (concrete per query): NETID (BIP155 network id; 0 = a symbolic id outside {1,2,4,5,6}), LEN (announced address length),
// PFX (for id 2 / LEN 16: 0 = plain IPv6, 1 = internal prefix, 2 = IPv4-mapped prefix, 3 = TORv2 prefix), NONCANON (3-byte compact size for LEN<253).
#ifndef NETID
#define NETID 1
#endif
#ifndef LEN
#define LEN 4
#endif
#ifndef PFX
#define PFX 0
#endif
#define SYMB (LEN < 32 ? LEN : 32)      // address bytes that are symbolic; bytes beyond 32 are only skipped / never read in these shapes
#define WIRECAP 40                      // longer inputs continue with virtual zero bytes (see BufStream::read)
static const uint8_t PFX_TORV2[6] = {0xfd, 0x87, 0xd8, 0x7e, 0xeb, 0x43};
extern "C" void h_v2_decode()
{
    BufStream<WIRECAP> in;
    size_t n = 0;
#if NETID == 0
    const uint8_t id = nondet_u8();
    VASSUME(id != 1 && id != 2 && id != 4 && id != 5 && id != 6);
#else
    const uint8_t id = NETID;
#endif
    in.buf[n++] = id;
    // compact size written from the BIP's definition (not with the code's writer)
#if defined(NONCANON)
    in.buf[n++] = 0xfd; in.buf[n++] = (uint8_t)(LEN & 0xff); in.buf[n++] = (uint8_t)(LEN >> 8);
#elif LEN < 253
    in.buf[n++] = (uint8_t)LEN;
#else
    in.buf[n++] = 0xfd; in.buf[n++] = (uint8_t)(LEN & 0xff); in.buf[n++] = (uint8_t)(LEN >> 8);
#endif
    const size_t hdr = n;
    uint8_t body[33];
    for (int i = 0; i < SYMB; i++) body[i] = nondet_u8();
#if NETID == 2 && LEN == 16
#if PFX == 1
    for (int i = 0; i < 6; i++) body[i] = PFX_INT[i];
#elif PFX == 2
    for (int i = 0; i < 12; i++) body[i] = PFX_V4[i];
#elif PFX == 3
    for (int i = 0; i < 6; i++) body[i] = PFX_TORV2[i];
#else
    VASSUME(memcmp(body, PFX_INT, 6) != 0 && memcmp(body, PFX_V4, 12) != 0 && memcmp(body, PFX_TORV2, 6) != 0);
#endif
#endif
    for (int i = 0; i < SYMB; i++) in.buf[n++] = body[i];
#if LEN > 32
    n += LEN - SYMB;      // the remaining announced bytes are never read in these shapes (skipped with ignore(), or rejected before reading): left unspecified
#endif
    if (n < WIRECAP) in.buf[n] = 0xAA;   // a trailing byte that must not be consumed
    n++;
    in.wpos = n;

    // ---- reference decision (BIP155 + documented behaviour)
    const int need = (id == 1) ? 4 : (id == 2 || id == 6) ? 16 : (id == 4 || id == 5) ? 32 : -1;    // -1: id not understood (incl. 3 = TORv2, dropped)
    bool want_throw = false;
#if defined(NONCANON)
    want_throw = true;                                   // non-canonical compact size
#else
    if (LEN > 512) want_throw = true;                    // longer than any BIP155 address
    else if (need >= 0 && LEN != need) want_throw = true; // known network with the wrong length
#endif
    // result when not throwing
    RefAddr want; want.net = R_IPV6; want.len = 16; want.v = 0; want.v2 = 0;     // "ignored" == the default, invalid, all-zero IPv6 address
    if (!want_throw && need >= 0) {
        if (id == 1) { want.net = R_IPV4; want.len = 4; want.v = be_int(body, 4); }
        else if (id == 2) {
            if (PFX == 0) { want.v = be_int(body, 16); }
            else if (PFX == 1) { want.net = R_INTERNAL; want.len = 10; want.v = be_int(body + 6, 10); }
            /* IPv4-mapped and TORv2-mapped IPv6 must not travel as IPv6 in BIP155: ignored */
        }
        else if (id == 4 || id == 5 || id == 6) { want = ref_overlay(id, body, LEN); }
    }

    CNetAddr a;
    bool threw = false;
    {
        ParamsStream ps{in, CNetAddr::V2};
        try { ps >> a; } catch (const std::ios_base::failure&) { threw = true; }
    }
    verif_observe(threw);
    VASSERT(threw == want_throw, "BIP155 decoding fails exactly for over-long, non-canonical or wrong-length-for-known-network addresses");
    if (!threw) {
        // assert-then-pin (see c60_common.h): network and payload size are those of the reference
        const Network wn = want.net == R_IPV4 ? NET_IPV4 : want.net == R_IPV6 ? NET_IPV6 : want.net == R_ONION ? NET_ONION : want.net == R_I2P ? NET_I2P : want.net == R_CJDNS ? NET_CJDNS : NET_INTERNAL;
        VASSERT(net_of(a) == wn, "decoded network is the one named by the BIP155 id");
        VASSERT(addr_of(a).size() == (uint32_t)want.len, "decoded payload length");
        net_of(a) = wn; pvsize_of(addr_of(a)) = want.len <= 16 ? want.len : want.len + 17;
        VASSERT(in.rpos == hdr + LEN, "decoding consumes id, length and exactly LEN address bytes (also when the address is ignored)");
        const uint8_t* d = addr_of(a).data();
        VASSERT(be_int(d, want.len < 16 ? want.len : 16) == want.v && (want.len <= 16 || be_int(d + 16, 16) == want.v2), "decoded payload bytes");
        VASSERT(a.IsValid() == ref_valid(want), "validity of the decoded address");
        const bool kept = !(want.net == R_IPV6 && want.v == 0);
        // re-encode
        BufStream<40> out;
        { ParamsStream ps{out, CNetAddr::V2}; ps << a; }
        if (kept) {
            bool eq = out.wpos == hdr + LEN;
            for (size_t i = 0; i < 36; i++) if (i < hdr + LEN) eq = eq && out.buf[i] == in.buf[i];
            VASSERT(eq, "re-encoding a decoded address reproduces the received bytes");
        } else {
            bool z = out.wpos == 18 && out.buf[0] == 2 && out.buf[1] == 16;
            for (int i = 0; i < 16; i++) z = z && out.buf[2 + i] == 0;
            VASSERT(z, "an ignored address re-encodes as the all-zero IPv6 address");
        }
        verif_observe(out.wpos);
    }
#if defined(NONCANON) || LEN > 512
    VWITNESS(threw, "rejected by exception");
#elif NETID == 0
    VWITNESS(!threw && !a.IsValid() && id == 3, "TORv2 id skipped");
    VWITNESS(!threw && id == 200, "unknown id skipped");
#else
    VWITNESS(threw == want_throw, "decision reached");
#if NETID == 6
    VWITNESS(threw || !a.IsValid(), "CJDNS address without fc prefix is invalid (or shape rejected)");
#endif
#endif
    VREACH("end");
}

// ------------------------------------------------------------------------------------------------ class predicates
extern "C" void h_predicates()
{
    uint8_t raw[16];
    draw_cls(raw, CA);
    CNetAddr a;
    set_addr(a, raw, CA);
    const RefAddr o = ref_legacy(raw);
    const bool r1918 = ref_in(o, R_IPV4, V4(10, 0, 0, 0), 8) || ref_in(o, R_IPV4, V4(192, 168, 0, 0), 16) || ref_in(o, R_IPV4, V4(172, 16, 0, 0), 12);
    const bool r2544 = ref_in(o, R_IPV4, V4(198, 18, 0, 0), 15);
    const bool r6598 = ref_in(o, R_IPV4, V4(100, 64, 0, 0), 10);
    const bool r5737 = ref_in(o, R_IPV4, V4(192, 0, 2, 0), 24) || ref_in(o, R_IPV4, V4(198, 51, 100, 0), 24) || ref_in(o, R_IPV4, V4(203, 0, 113, 0), 24);
    const bool r3927 = ref_in(o, R_IPV4, V4(169, 254, 0, 0), 16);
    const bool r3849 = ref_in(o, R_IPV6, V6(0x2001, 0x0db8, 0, 0), 32);
    const bool r3964 = ref_in(o, R_IPV6, V6(0x2002, 0, 0, 0), 16);
    const bool r4193 = ref_in(o, R_IPV6, V6(0xfc00, 0, 0, 0), 7);
    const bool r4380 = ref_in(o, R_IPV6, V6(0x2001, 0, 0, 0), 32);
    const bool r4843 = ref_in(o, R_IPV6, V6(0x2001, 0x0010, 0, 0), 28);
    const bool r7343 = ref_in(o, R_IPV6, V6(0x2001, 0x0020, 0, 0), 28);
    const bool r4862 = ref_in(o, R_IPV6, V6(0xfe80, 0, 0, 0), 64);
    const bool r6052 = ref_in(o, R_IPV6, V6(0x0064, 0xff9b, 0, 0), 96);
    const bool r6145 = ref_in(o, R_IPV6, ((u128)0xffff) << 48, 96);                     // ::ffff:0:0:0/96
    const bool local = ref_in(o, R_IPV4, V4(127, 0, 0, 0), 8) || ref_in(o, R_IPV4, V4(0, 0, 0, 0), 8) || (o.net == R_IPV6 && o.v == 1);
    const bool valid = ref_valid(o);
    const bool routable = valid && !(r1918 || r2544 || r3927 || r4862 || r6598 || r5737 || r4193 || r4843 || r7343 || local || o.net == R_INTERNAL);

    VASSERT(a.IsRFC1918() == r1918, "RFC1918 10/8, 172.16/12, 192.168/16");
    VASSERT(a.IsRFC2544() == r2544, "RFC2544 198.18/15");
    VASSERT(a.IsRFC6598() == r6598, "RFC6598 100.64/10");
    VASSERT(a.IsRFC5737() == r5737, "RFC5737 documentation ranges");
    VASSERT(a.IsRFC3927() == r3927, "RFC3927 169.254/16");
    VASSERT(a.IsRFC3849() == r3849, "RFC3849 2001:db8::/32");
    VASSERT(a.IsRFC3964() == r3964, "RFC3964 2002::/16");
    VASSERT(a.IsRFC4193() == r4193, "RFC4193 fc00::/7");
    VASSERT(a.IsRFC4380() == r4380, "RFC4380 2001::/32");
    VASSERT(a.IsRFC4843() == r4843, "RFC4843 2001:10::/28");
    VASSERT(a.IsRFC7343() == r7343, "RFC7343 2001:20::/28");
    VASSERT(a.IsRFC4862() == r4862, "RFC4862 fe80::/64");
    VASSERT(a.IsRFC6052() == r6052, "RFC6052 64:ff9b::/96");
    VASSERT(a.IsRFC6145() == r6145, "RFC6145 ::ffff:0:0:0/96");
    VASSERT(a.IsLocal() == local, "loopback 127/8, 0/8, ::1");
    VASSERT(a.IsValid() == valid, "IsValid");
    VASSERT(a.IsRoutable() == routable, "IsRoutable = valid and in none of the private/special ranges");
    VASSERT(a.IsBindAny() == ((o.net == R_IPV4 || o.net == R_IPV6) && o.v == 0), "IsBindAny = all-zero IP address");
    const Network wantnet = o.net == R_INTERNAL ? NET_INTERNAL : !routable ? NET_UNROUTABLE : o.net == R_IPV4 ? NET_IPV4 : NET_IPV6;
    VASSERT(a.GetNetwork() == wantnet, "GetNetwork");
    const bool linked = routable && (o.net == R_IPV4 || r6145 || r6052 || r3964 || r4380);
    VASSERT(a.HasLinkedIPv4() == linked, "HasLinkedIPv4");
    if (linked) {
        uint32_t w;
        if (o.net == R_IPV4) w = (uint32_t)o.v;
        else if (r6052 || r6145) w = (uint32_t)o.v;                 // last 32 bits
        else if (r3964) w = (uint32_t)(o.v >> 80);                  // bits 16..47 of 2002:V4ADDR::/48
        else w = ~(uint32_t)o.v;                                    // Teredo: last 32 bits, inverted
        VASSERT(a.GetLinkedIPv4() == w, "GetLinkedIPv4 extracts the embedded IPv4 address");
        verif_observe(w);
        VASSERT(a.GetNetClass() == NET_IPV4, "addresses with a linked IPv4 are classed IPv4");
    }
    verif_observe(routable); verif_observe(valid);
#if CA == CLS_V4
    VWITNESS(r1918 && (o.v >> 24) == 172, "172.16/12 reachable");
    VWITNESS(r6598, "100.64/10 reachable");
    VWITNESS(routable, "routable IPv4");
#elif CA == CLS_V6
    VWITNESS(r4843, "ORCHID reachable"); VWITNESS(r4380 && linked, "Teredo reachable");
    VWITNESS(r3964 && linked, "6to4 reachable"); VWITNESS(r4862, "link-local reachable");
    VWITNESS(routable && !linked, "plain routable IPv6");
#else
    VWITNESS(wantnet == NET_INTERNAL, "internal");
#endif
    VREACH("end");
}
