// Shared by the C60 harnesses: input drawing, a fixed-buffer byte stream, and the independent reference model of
// network addresses written from the property text / BIP155 / the RFC prefixes (NOT from netaddress.cpp).
#pragma once
#include <verif.h>
#include <netaddress.h>
#include <serialize.h>
#include <ios>
#include <span>
#include <string.h>

// ---- minimal byte stream (the stream class is not under test; Serialize/Unserialize templates and CNetAddr code are real)
template <size_t CAP>
struct BufStream {
    uint8_t buf[CAP];
    size_t rpos{0}, wpos{0};
    void write(std::span<const std::byte> src)
    {
        if (wpos + src.size() > CAP) throw std::ios_base::failure("BufStream::write overflow");
        for (size_t i = 0; i < src.size(); i++) buf[wpos + i] = (uint8_t)src[i];
        wpos += src.size();
    }
    void read(std::span<std::byte> dst)
    {
        if (rpos + dst.size() > wpos) throw std::ios_base::failure("BufStream::read: end of data");
        // 2-byte scalars (3-byte compact sizes, ports) are stored with one typed store so that constant header bytes stay constant in symex
        if (dst.size() == 2 && rpos + 2 <= CAP) { const uint16_t v = (uint16_t)(buf[rpos] | (buf[rpos + 1] << 8)); memcpy(dst.data(), &v, 2); }
        else for (size_t i = 0; i < dst.size(); i++) dst[i] = (std::byte)(rpos + i < CAP ? buf[rpos + i] : 0);   // wpos may be set beyond CAP: virtual zero bytes
        rpos += dst.size();
    }
    void ignore(size_t n)
    {
        if (rpos + n > wpos) throw std::ios_base::failure("BufStream::ignore: end of data");
        rpos += n;
    }
    bool empty() const { return rpos == wpos; }
    size_t size() const { return wpos - rpos; }
};

static inline void draw16(uint8_t* p) { for (int i = 0; i < 16; i++) p[i] = nondet_u8(); }

// private-member access (explicit instantiation ignores access control); used to observe m_net / m_addr and to pin sizes (below)
template <auto M> struct RobNet { friend Network& net_of(CNetAddr& s) { return s.*M; } };
template struct RobNet<&CNetAddr::m_net>;
Network& net_of(CNetAddr& s);
template <auto M> struct RobAddr { friend prevector<16, uint8_t>& addr_of(CNetAddr& s) { return s.*M; } };
template struct RobAddr<&CNetAddr::m_addr>;
prevector<16, uint8_t>& addr_of(CNetAddr& s);
template <auto M> struct RobSize { friend uint32_t& pvsize_of(prevector<16, uint8_t>& s) { return s.*M; } };
template struct RobSize<&prevector<16, uint8_t>::_size>;
uint32_t& pvsize_of(prevector<16, uint8_t>& s);

// Address classes of the 16-byte legacy form (concrete per query; together they partition all 2^128 byte strings):
//   CLS_V4  ::ffff:0:0/96        CLS_INT  fd6b:88c0:8724::/48        CLS_V6  everything else (includes the TORv2 OnionCat prefix)
#define CLS_V4 4
#define CLS_V6 6
#define CLS_INT 1
static const uint8_t PFX_V4[12] = {0, 0, 0, 0, 0, 0, 0, 0, 0, 0, 0xff, 0xff};
static const uint8_t PFX_INT[6] = {0xfd, 0x6b, 0x88, 0xc0, 0x87, 0x24};
// draw a 16-byte legacy address of class `cls` (all other bytes symbolic)
static inline void draw_cls(uint8_t* p, int cls)
{
    draw16(p);
    if (cls == CLS_V4) { for (int i = 0; i < 12; i++) p[i] = PFX_V4[i]; }
    else if (cls == CLS_INT) { for (int i = 0; i < 6; i++) p[i] = PFX_INT[i]; }
    else { VASSUME(memcmp(p, PFX_V4, 12) != 0); VASSUME(memcmp(p, PFX_INT, 6) != 0); }
}
// "assert-then-pin": after the real code built `a` from symbolic bytes, its m_net / m_addr.size() are path-merged (symbolic) values.
// We ASSERT that they equal what the class demands and then store these very constants back (a no-op whenever the assertion holds),
// so that the symbolic execution of the code that follows sees a concrete prevector size (direct storage) instead of a case split.
static inline void pin(CNetAddr& a, int cls)
{
    const Network n = cls == CLS_V4 ? NET_IPV4 : cls == CLS_INT ? NET_INTERNAL : NET_IPV6;
    const uint32_t sz = cls == CLS_V4 ? 4 : cls == CLS_INT ? 10 : 16;
    VASSERT(net_of(a) == n, "legacy address classified into the network its prefix demands");
    VASSERT(addr_of(a).size() == sz, "address payload has the size of its network");
    net_of(a) = n; pvsize_of(addr_of(a)) = sz;
}

// build a CNetAddr from the 16-byte legacy form through the real code
static inline void set_addr(CNetAddr& a, const uint8_t* raw, int cls)
{
#if defined(CTOR_IN6)
    struct in6_addr s; memcpy(&s, raw, 16);
    a = CNetAddr(s, 0);
#else
    a.SetLegacyIPv6(std::span<const uint8_t>(raw, 16));
#endif
    pin(a, cls);
}

// build a CNetAddr from BIP155 bytes through the real V2 unserializer; returns false if it threw
static inline bool unser_v2(CNetAddr& a, const uint8_t* wire, size_t n)
{
    BufStream<40> bs;   // <= 64 bytes: CBMC tracks each cell separately (constant propagation of the header bytes)
    for (size_t i = 0; i < n; i++) bs.buf[i] = wire[i];
    bs.wpos = n;
    ParamsStream ps{bs, CNetAddr::V2};
    try { ps >> a; } catch (const std::ios_base::failure&) { return false; }
    return true;
}

// ---- reference model -----------------------------------------------------------------------------------------
// An address is (network, byte length, big-endian integer value); 32-byte overlay addresses use two 128-bit halves.
enum RefNet { R_IPV4 = 1, R_IPV6 = 2, R_ONION = 3, R_I2P = 4, R_CJDNS = 5, R_INTERNAL = 6 };
typedef unsigned __int128 u128;
struct RefAddr { int net; int len; u128 v; u128 v2; };   // v: first min(len,16) bytes as an integer; v2: bytes 16..31 (len 32 only)

static inline u128 be_int(const uint8_t* p, int n) { u128 v = 0; for (int i = 0; i < n; i++) v = (v << 8) | p[i]; return v; }
static inline bool ref_eq(const RefAddr& a, const RefAddr& b) { return a.net == b.net && a.len == b.len && a.v == b.v && a.v2 == b.v2; }

// legacy (addr v1) 16-byte form: ::ffff:0:0/96 -> IPv4; OnionCat fd87:d87e:eb43::/48 (Tor v2, no longer supported) -> the invalid
// all-zero IPv6; fd6b:88c0:8724::/48 (0xfd + sha256("bitcoin")[0:5]) -> 10-byte internal name hash; everything else is IPv6
static inline RefAddr ref_legacy(const uint8_t* raw)
{
    const u128 R = be_int(raw, 16);
    RefAddr r; r.v2 = 0;
    if ((R >> 32) == (u128)0xffff) { r.net = R_IPV4; r.len = 4; r.v = R & 0xffffffffu; }
    else if ((R >> 80) == (u128)0xfd87d87eeb43ULL) { r.net = R_IPV6; r.len = 16; r.v = 0; }
    else if ((R >> 80) == (u128)0xfd6b88c08724ULL) { r.net = R_INTERNAL; r.len = 10; r.v = R & ((((u128)1) << 80) - 1); }
    else { r.net = R_IPV6; r.len = 16; r.v = R; }
    return r;
}
static inline RefAddr ref_overlay(uint8_t bip155_id, const uint8_t* p, int n)
{
    RefAddr r;
    r.net = bip155_id == 4 ? R_ONION : bip155_id == 5 ? R_I2P : R_CJDNS; r.len = n;
    r.v = be_int(p, n < 16 ? n : 16); r.v2 = n > 16 ? be_int(p + 16, n - 16) : 0;
    return r;
}
static inline bool ref_in(const RefAddr& a, int net, u128 prefix, int plen)   // a in prefix/plen (prefix written as a full-width address of that family)
{
    if (a.net != net) return false;
    const int W = a.len * 8;
    if (plen == 0) return true;
    return (a.v >> (W - plen)) == (prefix >> (W - plen));
}
#define V4(a, b, c, d) ((u128)(((uint32_t)(a) << 24) | ((uint32_t)(b) << 16) | ((uint32_t)(c) << 8) | (uint32_t)(d)))
#define V6(g0, g1, g2, g3) ((((u128)(g0)) << 112) | (((u128)(g1)) << 96) | (((u128)(g2)) << 80) | (((u128)(g3)) << 64))

// "valid": could refer to an actual host. Not the unspecified IPv6 address, not the IPv6 documentation range 2001:db8::/32, not an
// internal name, not IPv4 0.0.0.0 or 255.255.255.255, and CJDNS addresses must carry the fc00::/8 prefix.
static inline bool ref_valid(const RefAddr& a)
{
    if (a.net == R_IPV6 && a.v == 0) return false;
    if (ref_in(a, R_IPV6, V6(0x2001, 0x0db8, 0, 0), 32)) return false;
    if (a.net == R_INTERNAL) return false;
    if (a.net == R_IPV4 && (a.v == 0 || a.v == 0xffffffffu)) return false;
    if (a.net == R_CJDNS && (a.v >> 120) != 0xfc) return false;
    return true;
}
// first `len` bits equal (IP families only; same family assumed by the caller)
static inline bool same_prefix(const RefAddr& a, const RefAddr& b, int len)
{
    const int W = a.len * 8;
    if (len <= 0) return true;
    if (len > W) return false;
    return (a.v >> (W - len)) == (b.v >> (W - len));
}
// prefix length of a netmask (ones then zeros over the family width), -1 if it is not of that form.
// ones-then-zeros <=> the complement is of the form 0..01..1 <=> adding one to the complement clears all of its bits.
static inline int popcnt64(uint64_t x) { x = x - ((x >> 1) & 0x5555555555555555ULL); x = (x & 0x3333333333333333ULL) + ((x >> 2) & 0x3333333333333333ULL); x = (x + (x >> 4)) & 0x0f0f0f0f0f0f0f0fULL; return (int)((x * 0x0101010101010101ULL) >> 56); }
static inline int ref_mask_len(const RefAddr& m)
{
    if (m.net != R_IPV4 && m.net != R_IPV6) return -1;
    const int W = m.len * 8;
    const u128 full = W == 128 ? ~(u128)0 : ((((u128)1) << W) - 1);
    const u128 inv = (~m.v) & full;
    if ((inv & (inv + 1)) != 0) return -1;
    return popcnt64((uint64_t)m.v) + popcnt64((uint64_t)(m.v >> 64));
}
