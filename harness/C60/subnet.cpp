// C60 (1): CSubNet construction / Match / IsValid / NetmaskBits against a big-integer prefix oracle.
// Real code: netaddress.cpp (CSubNet ctors, Match, IsValid, operator==, static NetmaskBits), CNetAddr::SetLegacyIPv6,
// CNetAddr(in_addr), CNetAddr(in6_addr), CNetAddr::IsValid, V2 unserialization (to build Tor/I2P/CJDNS addresses), prevector.
#include <verif.h>
#include <netaddress.h>
#include <serialize.h>
#include <string.h>
#include "c60_common.h"

// CA / CB / CM: legacy-address class (CLS_V4, CLS_V6, CLS_INT) of the subnet base, the probed address and the netmask: concrete per query
#ifndef CA
#define CA CLS_V4
#endif
#ifndef CB
#define CB CA
#endif
#ifndef CM
#define CM CA
#endif

// ------------------------------------------------------------------------------------------------ CIDR constructor
// a, b: arbitrary 16-byte legacy addresses (so IPv4-mapped / internal / TORv2-in-IPv6 forms are all inside the domain)
extern "C" void h_subnet_cidr()
{
    uint8_t ra[16], rb[16];
    draw_cls(ra, CA); draw_cls(rb, CB);
    const uint8_t len = nondet_u8();
    CNetAddr a, b;
    set_addr(a, ra, CA); set_addr(b, rb, CB);
    const RefAddr oa = ref_legacy(ra), ob = ref_legacy(rb);

    const CSubNet sn(a, len);
    const bool valid = sn.IsValid();
    const bool match = sn.Match(b);
    verif_observe(valid); verif_observe(match);

    // oracle: CIDR subnets exist for IPv4 with len<=32 and IPv6 with len<=128 only
    const bool want_valid = (oa.net == R_IPV4 && len <= 32) || (oa.net == R_IPV6 && len <= 128);
    VASSERT(valid == want_valid, "CIDR subnet valid iff IPv4 with len<=32 or IPv6 with len<=128");
    bool want_match = false;
    if (want_valid && ref_valid(ob) && ob.net == oa.net) want_match = same_prefix(oa, ob, len);
    VASSERT(match == want_match, "Match iff subnet valid, address valid, same network and first len bits equal");
    // an address of the subnet's own network always matches its own /len unless it is itself invalid
    if (want_valid) VASSERT(sn.Match(a) == ref_valid(oa), "base address matches its own subnet iff it is a valid address");

#if CA == CLS_V4
    VWITNESS(!valid && len == 33, "IPv4 /33 rejected");
    VWITNESS(valid && len == 32, "IPv4 /32 accepted");
#if CB == CLS_V4
    VWITNESS(valid && match && len > 0 && len < 32 && (len & 7) != 0 && oa.v != ob.v, "IPv4 non-byte-aligned proper-prefix match of a different address");
    VWITNESS(valid && !match && ref_valid(ob), "valid IPv4 address outside the prefix");
    VWITNESS(valid && len == 0 && match && (oa.v >> 31) != (ob.v >> 31), "IPv4 /0 matches addresses differing in the first bit");
    VWITNESS(valid && len == 0 && !match, "invalid address not matched even by /0");
#else
    VWITNESS(valid && len == 0 && !match, "other network never matches");
#endif
#elif CA == CLS_V6
    VWITNESS(!valid && len == 129, "IPv6 /129 rejected");
    VWITNESS(valid && len == 128, "IPv6 /128 accepted");
#if CB == CLS_V6
    VWITNESS(valid && match && len > 64 && len < 128 && (len & 7) != 0 && oa.v != ob.v, "IPv6 non-byte-aligned prefix match of a different address");
    VWITNESS(valid && !match && ref_valid(ob), "valid IPv6 address outside the prefix");
    VWITNESS(valid && len == 0 && !match, "invalid IPv6 address (:: or 2001:db8::/32 or TORv2-mapped) not matched by /0");
#endif
#else
    VWITNESS(!valid && len == 0, "internal address gives invalid subnet");
#endif
    VREACH("end");
}

// ------------------------------------------------------------------------------------------------ netmask constructor
extern "C" void h_subnet_mask()
{
    uint8_t ra[16], rm[16], rb[16];
    draw_cls(ra, CA); draw_cls(rm, CM); draw_cls(rb, CB);
    CNetAddr a, m, b;
    set_addr(a, ra, CA); set_addr(m, rm, CM); set_addr(b, rb, CB);
    const RefAddr oa = ref_legacy(ra), om = ref_legacy(rm), ob = ref_legacy(rb);

    const CSubNet sn(a, m);
    const bool valid = sn.IsValid();
    const bool match = sn.Match(b);
    verif_observe(valid); verif_observe(match);

    // oracle: mask must be of the same IP family and be of the form 1..10..0 over the family's width
    const int plen = ref_mask_len(om);   // -1 if not contiguous
    const bool want_valid = (oa.net == R_IPV4 || oa.net == R_IPV6) && om.net == oa.net && plen >= 0;
    VASSERT(valid == want_valid, "netmask subnet valid iff same IP family and mask is contiguous ones then zeros");
    bool want_match = false;
    if (want_valid && ref_valid(ob) && ob.net == oa.net) want_match = ((oa.v ^ ob.v) & om.v) == 0;
    VASSERT(match == want_match, "Match iff address valid, same network and equal under the mask");
    if (want_valid && ob.net == oa.net) VASSERT((((oa.v ^ ob.v) & om.v) == 0) == same_prefix(oa, ob, plen), "oracle self-check: mask equality is prefix equality");
    if (want_valid) {
        // the two ways of writing the same subnet denote the same value
        const CSubNet sc(a, (uint8_t)plen);
        VASSERT(sc.IsValid() && sc == sn && !(sc < sn) && !(sn < sc), "CSubNet(addr, len) equals CSubNet(addr, mask-of-len)");
    }
#if CA == CM && CA != CLS_INT
    VWITNESS(!valid, "non-contiguous mask rejected");
    VWITNESS(valid && plen == 0, "all-zero mask accepted");
    VWITNESS(valid && plen == (CA == CLS_V4 ? 32 : 128), "all-ones mask accepted");
#if CB == CA
    VWITNESS(valid && plen > 8 && (plen & 7) != 0 && match && oa.v != ob.v, "contiguous non-byte-aligned mask accepted and matching a different address");
    VWITNESS(valid && !match && ref_valid(ob), "valid address outside the masked network");
#endif
#elif CM != CLS_INT
    VWITNESS(!valid && plen >= 0, "family mismatch / non-IP base rejected although the mask is contiguous");
#else
    VWITNESS(!valid, "internal address as netmask rejected");
#endif
    VREACH("end");
}

// ------------------------------------------------------------------------------------------------ single-host subnets
// NETSEL: 0 = legacy 16-byte form (IPv4 / IPv6 / internal), 4/5/6 = BIP155 id of Tor v3 / I2P / CJDNS (32/32/16 bytes)
#ifndef NETSEL
#define NETSEL 0
#endif
extern "C" void h_subnet_single()
{
    RefAddr oa, ob;
    CNetAddr a, b;
#if NETSEL == 0
    uint8_t ra[16], rb[16];
    draw_cls(ra, CA); draw_cls(rb, CB);
    set_addr(a, ra, CA); set_addr(b, rb, CB);
    oa = ref_legacy(ra); ob = ref_legacy(rb);
#else
    // b's network id is symbolic among the three overlay networks of a's size class so that "same bytes, other network" is inside the domain
    const uint8_t ida = NETSEL;
    const uint8_t idb = (NETSEL == 6) ? 6 : (uint8_t)nondet_range(4, 5);
    const int L = (NETSEL == 6) ? 16 : 32;
    uint8_t wa[34], wb[34];
    wa[0] = ida; wa[1] = (uint8_t)L; wb[0] = idb; wb[1] = (uint8_t)L;
    for (int i = 0; i < L; i++) { wa[2 + i] = nondet_u8(); wb[2 + i] = nondet_u8(); }
    unser_v2(a, wa, 2 + L); unser_v2(b, wb, 2 + L);
    oa = ref_overlay(ida, wa + 2, L); ob = ref_overlay(idb, wb + 2, L);
#endif
    const CSubNet sn(a);
    const bool valid = sn.IsValid();
    const bool match = sn.Match(b);
    verif_observe(valid); verif_observe(match);
    VASSERT(valid == (oa.net != R_INTERNAL), "single-host subnet is valid for every network except internal");
    const bool want_match = valid && ref_valid(ob) && ref_eq(oa, ob);
    VASSERT(match == want_match, "single-host subnet matches exactly the (valid) equal address of the same network");
    VASSERT(sn.Match(a) == (valid && ref_valid(oa)), "single-host subnet matches its own address iff that address is valid");
#if NETSEL != 0 || (CA == CB && CA != CLS_INT)
    VWITNESS(match, "equal address matches");
    VWITNESS(valid && !match && ref_valid(ob) && ob.net == oa.net, "different valid address of same network does not match");
#endif
#if NETSEL == 0
#if CA == CLS_INT
    VWITNESS(!valid, "internal address: invalid subnet");
#elif CA == CB
    VWITNESS(match && oa.net == (CA == CLS_V4 ? R_IPV4 : R_IPV6), "IP single host matches itself");
#endif
#elif NETSEL != 6
    VWITNESS(valid && !match && ob.net != oa.net && oa.v == ob.v && oa.v2 == ob.v2, "same bytes on the other overlay network do not match");
#else
    VWITNESS(valid && !match && oa.v == ob.v, "CJDNS address without fc prefix is invalid and never matches");
#endif
    VREACH("end");
}

// ------------------------------------------------------------------------------------------------ ordering (ban-list key order)
// banmap_t is std::map<CSubNet, CBanEntry>: lookups/erasures are only correct if operator< is a strict weak order whose
// equivalence is operator== (on valid subnets). Three arbitrary CIDR subnets (classes concrete per query, addresses and prefix lengths symbolic).
extern "C" void h_subnet_order()
{
    uint8_t ra[16], rb[16], rc[16];
    draw_cls(ra, CA); draw_cls(rb, CB); draw_cls(rc, CA);
    const uint8_t la = nondet_u8(), lb = nondet_u8(), lc = nondet_u8();
    CNetAddr a, b, c;
    set_addr(a, ra, CA); set_addr(b, rb, CB); set_addr(c, rc, CA);
    const CSubNet sa(a, la), sb(b, lb), sc(c, lc);
    const bool ab = sa < sb, ba = sb < sa, bc = sb < sc, ac = sa < sc, cb = sc < sb, ca = sc < sa;
    verif_observe(ab); verif_observe(ba);
    VASSERT(!(sa < sa), "operator< irreflexive");
    VASSERT(!(ab && ba), "operator< asymmetric");
    if (ab && bc) VASSERT(ac, "operator< transitive");
    if (!ab && !ba && !bc && !cb) VASSERT(!ac && !ca, "incomparability transitive (strict weak order)");
    if (sa.IsValid() && sb.IsValid()) VASSERT((!ab && !ba) == (sa == sb), "two valid subnets are unordered iff they are equal (map key identity = subnet identity)");
    VWITNESS(ab && sa.IsValid() && sb.IsValid() && la > lb, "a longer prefix can sort before a shorter one");
#if CA == CB
    VWITNESS(sa.IsValid() && sb.IsValid() && sa == sb && la == lb, "equal subnets reachable");
#else
    VWITNESS(sa.IsValid() && sc.IsValid() && sa == sc && la == lc, "equal subnets reachable");
#endif
    VREACH("end");
}
