/* C50 (Route A): ECDSA signature object encoding layer of the real secp256k1.c: compact and DER codecs, low-S normalisation,
 * secret-key validity. Oracles: big-endian byte references of n, and a DER reader written from X.690 (8.1.3 length octets,
 * 8.3 integer contents, 8.9 sequence) independent of ecdsa_impl.h. Verification/signing maths is outside this file. */
#include "c50_common.h"

#define CTX secp256k1_context_static

/* ---------- compact codec + normalize + seckey ---------- */
void h_sig_compact(void) {
  unsigned char in[64], out[64];
  be_in(in); be_in(in + 32);
  secp256k1_ecdsa_signature sig;
  int ok = secp256k1_ecdsa_signature_parse_compact(CTX, &sig, in);
  int rok = be_cmp(in, N_BE) < 0, sok = be_cmp(in + 32, N_BE) < 0;
  VASSERT(ok == (rok && sok), "parse_compact accepts iff r < n and s < n");
  VASSERT(secp256k1_ecdsa_signature_serialize_compact(CTX, out, &sig) == 1, "serialize_compact succeeds");
  if (ok) VASSERT(memcmp(in, out, 64) == 0, "serialize_compact(parse_compact(x)) == x");
  else { unsigned char z[64] = {0}; VASSERT(memcmp(out, z, 64) == 0, "rejected input leaves the all-zero signature"); }
  for (int i = 0; i < 64; i++) verif_observe(out[i]);
  VWITNESS(ok, "accepted"); VWITNESS(rok && !sok, "s overflow rejected"); VWITNESS(!rok && sok, "r overflow rejected"); VREACH("end");
}

void h_sig_normalize(void) {
  unsigned char in[64], out[64], exp_s[32];
  be_in(in); be_in(in + 32);
  secp256k1_ecdsa_signature sig, nsig;
  VASSUME(be_cmp(in, N_BE) < 0 && be_cmp(in + 32, N_BE) < 0);
  int ok = secp256k1_ecdsa_signature_parse_compact(CTX, &sig, in);
  VASSERT(ok, "canonical r, s parse");
  int high = be_cmp(in + 32, NH_BE) > 0;
  int ret = secp256k1_ecdsa_signature_normalize(CTX, &nsig, &sig);
  VASSERT(ret == high, "normalize returns 1 iff s > (n-1)/2");
  VASSERT(secp256k1_ecdsa_signature_normalize(CTX, NULL, &sig) == high, "normalize with NULL output reports the same");
  secp256k1_ecdsa_signature_serialize_compact(CTX, out, &nsig);
  VASSERT(memcmp(out, in, 32) == 0, "normalize leaves r unchanged");
  if (high) be_sub(exp_s, N_BE, in + 32); else memcpy(exp_s, in + 32, 32);
  VASSERT(memcmp(out + 32, exp_s, 32) == 0, "normalised s is s if low, n - s if high");
  VASSERT(be_cmp(out + 32, NH_BE) <= 0, "normalised s is never high");
  VASSERT(secp256k1_ecdsa_signature_normalize(CTX, NULL, &nsig) == 0, "normalize is idempotent (result is low)");
  /* in-place use as in CPubKey::Verify / CheckLowS */
  secp256k1_ecdsa_signature ip = sig; secp256k1_ecdsa_signature_normalize(CTX, &ip, &ip);
  VASSERT(memcmp(&ip, &nsig, sizeof ip) == 0, "in-place normalisation gives the same result");
  for (int i = 0; i < 64; i++) verif_observe(out[i]);
  VWITNESS(high, "high s"); VWITNESS(!high && !be_is_zero(in + 32), "low non-zero s"); VWITNESS(memcmp(in + 32, NH_BE, 32) == 0, "s exactly (n-1)/2"); VREACH("end");
}

void h_seckey_verify(void) {
  unsigned char k[32]; be_in(k);
  int ok = secp256k1_ec_seckey_verify(CTX, k);
  VASSERT(ok == (!be_is_zero(k) && be_cmp(k, N_BE) < 0), "seckey_verify accepts iff 0 < key < n");
  verif_observe((uint64_t)ok);
  VWITNESS(ok, "valid key"); VWITNESS(!ok && !be_is_zero(k), "key >= n rejected"); VWITNESS(be_is_zero(k), "zero key"); VREACH("end");
}

/* ---------- DER ---------- */
#ifndef LEN
#define LEN 8
#endif
/* X.690 8.1.3 definite-form length octets, DER (10.1): shortest form. Reads at in[*pos..end). */
static int ref_len(const unsigned char* in, size_t end, size_t* pos, size_t* len) {
  if (*pos >= end) return 0;
  unsigned b = in[(*pos)++];
  if (b < 0x80) { *len = b; return 1; }        /* short form */
  if (b == 0x80) return 0;                      /* indefinite form: not DER */
  if (b == 0xFF) return 0;                      /* reserved */
  size_t n = b & 0x7F;
  if (n > end - *pos) return 0;
  if (in[*pos] == 0) return 0;                  /* leading zero length octet: not shortest */
  if (n > 8) return 0;                          /* >= 2^64: cannot be the length of this input */
  size_t v = 0; for (size_t i = 0; i < 8; i++) if (i < n) v = (v << 8) | in[(*pos)++];
  if (v < 0x80) return 0;                       /* short form was possible */
  *len = v; return 1;
}
/* X.690 8.3: INTEGER, two's complement, minimal number of octets. Value as used by the library: negative or >= n collapses to 0. plain=1 iff 0 <= value < n. */
static int ref_int(const unsigned char* in, size_t end, size_t* pos, unsigned char* v32, int* plain) {
  size_t len;
  if (*pos >= end || in[(*pos)++] != 0x02) return 0;
  if (!ref_len(in, end, pos, &len)) return 0;
  if (len == 0 || len > end - *pos) return 0;
  size_t p = *pos;
  if (len > 1 && in[p] == 0x00 && (in[p + 1] & 0x80) == 0) return 0;
  if (len > 1 && in[p] == 0xFF && (in[p + 1] & 0x80) != 0) return 0;
  memset(v32, 0, 32); *plain = 0;
  *pos = p + len;
  if (in[p] & 0x80) return 1;                   /* negative */
  size_t skip = in[p] == 0 ? 1 : 0;             /* sign octet */
  size_t m = len - skip;
  if (m > 32) return 1;                         /* >= 2^256 */
  unsigned char t[32] = {0};
  for (size_t i = 0; i < 32; i++) if (i + m >= 32) t[i] = in[p + skip + (i + m - 32)];  /* right-align the m magnitude octets */
  if (be_cmp(t, N_BE) >= 0) return 1;           /* >= n */
  memcpy(v32, t, 32); *plain = 1;
  return 1;
}
static int ref_sig(const unsigned char* in, size_t n, unsigned char* r32, unsigned char* s32, int* plain) {
  size_t pos = 0, len; int pr = 0, ps = 0;
  if (n == 0 || in[pos++] != 0x30) return 0;
  if (!ref_len(in, n, &pos, &len)) return 0;
  if (len != n - pos) return 0;
  if (!ref_int(in, n, &pos, r32, &pr)) return 0;
  if (!ref_int(in, n, &pos, s32, &ps)) return 0;
  if (pos != n) return 0;
  *plain = pr && ps;
  return 1;
}

/* parse_der on every byte string of length LEN; serialize_der(parse_der(x)) == x when both integers are plain (0 <= v < n) */
void h_der_parse(void) {
  unsigned char in[LEN ? LEN : 1], out[80], c[64], r32[32], s32[32];
  for (int i = 0; i < LEN; i++) in[i] = nondet_u8();
#ifdef RLEN
  VASSUME(LEN > 3 && in[3] == RLEN);   /* case split on the declared length of r */
#endif
  secp256k1_ecdsa_signature sig;
  int plain = 0;
  int ok = secp256k1_ecdsa_signature_parse_der(CTX, &sig, in, LEN);
  int rok = ref_sig(in, LEN, r32, s32, &plain);
  VASSERT(ok == rok, "parse_der accepts exactly the strict DER encodings of SEQUENCE { INTEGER, INTEGER }");
  secp256k1_ecdsa_signature_serialize_compact(CTX, c, &sig);
  if (ok) {
    VASSERT(memcmp(c, r32, 32) == 0 && memcmp(c + 32, s32, 32) == 0, "parsed r, s equal the encoded integers (negative or >= n collapse to 0)");
#ifndef NO_SER
    size_t olen = sizeof out;
    int sok = secp256k1_ecdsa_signature_serialize_der(CTX, out, &olen, &sig);
    VASSERT(sok == 1 && olen <= 72, "serialize_der succeeds within 72 bytes");
    if (plain) VASSERT(olen == LEN && memcmp(out, in, LEN) == 0, "serialize_der(parse_der(x)) == x for plain integers");
#ifndef NO_REPARSE
    /* and the re-encoding always parses back to the same signature */
    secp256k1_ecdsa_signature sig2;
    VASSERT(secp256k1_ecdsa_signature_parse_der(CTX, &sig2, out, olen) == 1 && memcmp(&sig, &sig2, sizeof sig) == 0, "parse_der(serialize_der(sig)) == sig");
#endif
#endif
  } else {
    unsigned char z[64] = {0}; VASSERT(memcmp(c, z, 64) == 0, "rejected input leaves the all-zero signature");
  }
  for (int i = 0; i < 64; i++) verif_observe(c[i]); verif_observe((uint64_t)ok);
#if LEN >= 8 && LEN <= 72
  VWITNESS(ok && plain, "accepted plain signature");
  VWITNESS(ok && !plain, "accepted with negative/overflowing integer");
  VWITNESS(!ok && in[0] == 0x30 && in[1] == LEN - 2, "rejected after a well-formed header");
#else
  VWITNESS(!ok, "rejected");
#endif
  VREACH("end");
}

/* serialize_der on every signature object (r, s < n): output is the strict DER encoding of (r, s) according to the reference
 * reader, at most 72 bytes, and parse_der maps it back to the same object. */
void h_der_roundtrip(void) {
  unsigned char in[64], out[72], r32[32], s32[32];
  be_in(in); be_in(in + 32);
  VASSUME(be_cmp(in, N_BE) < 0 && be_cmp(in + 32, N_BE) < 0);
#ifdef RTOP   /* case split: number of leading zero bytes of r and s (shape of the encoding) */
  for (int i = 0; i < 32; i++) { if (i < RTOP) VASSUME(in[i] == 0); if (i < STOP) VASSUME(in[32 + i] == 0); }
  if (RTOP < 32) VASSUME(in[RTOP] != 0); if (STOP < 32) VASSUME(in[32 + STOP] != 0);
#endif
  secp256k1_ecdsa_signature sig, sig2;
  VASSERT(secp256k1_ecdsa_signature_parse_compact(CTX, &sig, in) == 1, "canonical r, s parse");
  size_t olen = sizeof out;
  VASSERT(secp256k1_ecdsa_signature_serialize_der(CTX, out, &olen, &sig) == 1, "serialize_der succeeds with a 72-byte buffer");
  VASSERT(olen >= 8 && olen <= 72, "DER signature length within 8..72");
  int plain = 0;
  VASSERT(ref_sig(out, olen, r32, s32, &plain) && plain, "serialize_der output is strict DER with plain integers");
  VASSERT(memcmp(r32, in, 32) == 0 && memcmp(s32, in + 32, 32) == 0, "serialize_der encodes exactly r and s");
  VASSERT(secp256k1_ecdsa_signature_parse_der(CTX, &sig2, out, olen) == 1 && memcmp(&sig, &sig2, sizeof sig) == 0, "parse_der(serialize_der(sig)) == sig");
  /* too-small buffer: fails and reports the needed size */
  size_t small = olen - 1; unsigned char tmp[72];
  VASSERT(secp256k1_ecdsa_signature_serialize_der(CTX, tmp, &small, &sig) == 0 && small == olen, "serialize_der refuses a short buffer and reports the required length");
  for (size_t i = 0; i < 72; i++) if (i < olen) verif_observe(out[i]);
  VWITNESS(olen == 72, "maximal 72-byte encoding"); VWITNESS(olen == 8, "minimal 8-byte encoding"); VWITNESS(olen == 71, "71-byte encoding"); VREACH("end");
}

