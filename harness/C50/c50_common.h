/* C50 (Route A) shared prelude: real secp256k1 translation unit + harness macros + big-endian byte-array reference arithmetic.
 * The reference deliberately uses a different representation (big-endian bytes, schoolbook compare/subtract) from the
 * library's 5x52 / 4x64 limb code. */
#ifndef C50_COMMON_H
#define C50_COMMON_H
#include <stdint.h>
#include <string.h>
#define SECP256K1_BUILD
#include "secp256k1.c"
uint8_t nondet_u8(void); uint64_t nondet_u64(void); uint8_t nondet_bool(void); uint64_t nondet_range(uint64_t, uint64_t);
void verif_observe(uint64_t);
#ifndef __CPROVER__
void verif_native_assert(int, const char*); void verif_native_assume(int);
#define __CPROVER_assert(c, m) verif_native_assert(!!(c), m)
#define __CPROVER_assume(c) verif_native_assume(!!(c))
#endif
#define VASSERT(c, m) __CPROVER_assert(c, m)
#define VASSUME(c) __CPROVER_assume(c)
#define VWITNESS(c, l) __CPROVER_assert(!(c), "WITNESS:" l)
#define VREACH(l) __CPROVER_assert(0, "WITNESS:" l)

/* group order n, (n-1)/2 and field prime p = 2^256 - 2^32 - 977, big endian (SEC2 2.4.1) */
static const unsigned char N_BE[32] = {0xFF,0xFF,0xFF,0xFF,0xFF,0xFF,0xFF,0xFF,0xFF,0xFF,0xFF,0xFF,0xFF,0xFF,0xFF,0xFE,0xBA,0xAE,0xDC,0xE6,0xAF,0x48,0xA0,0x3B,0xBF,0xD2,0x5E,0x8C,0xD0,0x36,0x41,0x41};
static const unsigned char NH_BE[32] = {0x7F,0xFF,0xFF,0xFF,0xFF,0xFF,0xFF,0xFF,0xFF,0xFF,0xFF,0xFF,0xFF,0xFF,0xFF,0xFF,0x5D,0x57,0x6E,0x73,0x57,0xA4,0x50,0x1D,0xDF,0xE9,0x2F,0x46,0x68,0x1B,0x20,0xA0};
static const unsigned char P_BE[32] = {0xFF,0xFF,0xFF,0xFF,0xFF,0xFF,0xFF,0xFF,0xFF,0xFF,0xFF,0xFF,0xFF,0xFF,0xFF,0xFF,0xFF,0xFF,0xFF,0xFF,0xFF,0xFF,0xFF,0xFF,0xFF,0xFF,0xFF,0xFE,0xFF,0xFF,0xFC,0x2F};

static int be_cmp(const unsigned char* a, const unsigned char* b) { for (int i = 0; i < 32; i++) { if (a[i] < b[i]) return -1; if (a[i] > b[i]) return 1; } return 0; }
static int be_is_zero(const unsigned char* a) { unsigned char o = 0; for (int i = 0; i < 32; i++) o |= a[i]; return o == 0; }
static void be_in(unsigned char* b) { for (int i = 0; i < 4; i++) { uint64_t v = nondet_u64(); for (int j = 0; j < 8; j++) b[8 * i + j] = (unsigned char)(v >> (8 * j)); } }
/* r = a - b over 32 bytes (caller guarantees a >= b) */
static void be_sub(unsigned char* r, const unsigned char* a, const unsigned char* b) { int br = 0; for (int i = 31; i >= 0; i--) { int d = (int)a[i] - (int)b[i] - br; br = d < 0; r[i] = (unsigned char)(d + (br ? 256 : 0)); } }

/* wide big-endian naturals of BW bytes (272 bits) for values up to 2^263 */
#define BW 34
typedef struct { unsigned char b[BW]; } bn;
static void bn_zero(bn* a) { for (int i = 0; i < BW; i++) a->b[i] = 0; }
static void bn_from32(bn* a, const unsigned char* x) { bn_zero(a); for (int i = 0; i < 32; i++) a->b[BW - 32 + i] = x[i]; }
static int bn_cmp(const bn* a, const bn* b) { for (int i = 0; i < BW; i++) { if (a->b[i] < b->b[i]) return -1; if (a->b[i] > b->b[i]) return 1; } return 0; }
static void bn_sub(bn* a, const bn* b) { int br = 0; for (int i = BW - 1; i >= 0; i--) { int d = (int)a->b[i] - (int)b->b[i] - br; br = d < 0; a->b[i] = (unsigned char)(d + (br ? 256 : 0)); } }
static void bn_add(bn* a, const bn* b) { unsigned c = 0; for (int i = BW - 1; i >= 0; i--) { unsigned s = (unsigned)a->b[i] + b->b[i] + c; a->b[i] = (unsigned char)s; c = s >> 8; } }
static void bn_shl1(bn* a) { unsigned c = 0; for (int i = BW - 1; i >= 0; i--) { unsigned s = ((unsigned)a->b[i] << 1) | c; a->b[i] = (unsigned char)s; c = s >> 8; } }
/* a += v * 2^bitoff (bitoff multiple of 4, v < 2^60) */
static void bn_add_u64_shifted(bn* a, uint64_t v, int bitoff) {
  bn t; bn_zero(&t);
  unsigned __int128 w = (unsigned __int128)v << (bitoff % 8);
  int byteoff = bitoff / 8;
  for (int k = 0; k < 9; k++) { int idx = BW - 1 - byteoff - k; if (idx >= 0) t.b[idx] = (unsigned char)(w >> (8 * k)); }
  bn_add(a, &t);
}
/* canonical residue of a modulo p by binary long division: subtract p*2^k for k = 7..0 whenever it fits (valid for a < 2^264) */
static void bn_mod_p(unsigned char* r32, const bn* a) {
  bn v = *a;
  for (int k = 7; k >= 0; k--) {
    bn pk; bn_from32(&pk, P_BE); for (int j = 0; j < k; j++) bn_shl1(&pk);
    if (bn_cmp(&v, &pk) >= 0) bn_sub(&v, &pk);
  }
  for (int i = 0; i < 32; i++) r32[i] = v.b[BW - 32 + i];
}
/* is v == r + k*p for some 0 <= k < 256?  p = 2^256 - c with c = 2^32 + 977, so k*p = k*2^256 - k*c (checked exactly over 272 bits).
 * Together with r < p this is the definition of "r is the canonical residue of v modulo p". */
static int bn_congruent_mod_p(const bn* v, const unsigned char* r32) {
  bn d = *v, r; bn_from32(&r, r32);
  if (bn_cmp(&d, &r) < 0) return 0;
  bn_sub(&d, &r);
  int zero = 1; for (int i = 0; i < BW; i++) if (d.b[i]) zero = 0;
  if (zero) return 1;
  if (d.b[0] != 0) return 0;
  unsigned k = (unsigned)d.b[1] + 1;            /* a non-zero multiple k*p (1 <= k <= 255) has bits 256.. equal to k-1 */
  if (k > 255) return 0;
  bn t; bn_zero(&t); t.b[1] = (unsigned char)k;  /* k * 2^256 */
  bn kc; bn_zero(&kc); uint64_t c = (uint64_t)k * 0x1000003D1ULL; for (int j = 0; j < 8; j++) kc.b[BW - 1 - j] = (unsigned char)(c >> (8 * j));
  bn_sub(&t, &kc);
  return bn_cmp(&t, &d) == 0;
}
static int bn_is_residue_mod_p(const bn* v, const unsigned char* r32) { return be_cmp(r32, P_BE) < 0 && bn_congruent_mod_p(v, r32); }
#endif
