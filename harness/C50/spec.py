from vlib import H
PROPERTY = 'C50'
LEVEL = 'model_checking'
CLAIM = ('secp256k1 linear/encoding layer decided by CBMC directly on the real C translation unit src/secp256k1/src/secp256k1.c: '
         'scalar set_b32/get_b32/is_high/is_zero/seckey validity/add/negate/cond_negate against big-endian byte-array references of the group order, all 256-bit inputs. '
         'Field/scalar multiplication, inversion and the group law (hence sign/verify correctness) are outside the claim: symbolic 256x256-bit products are beyond the installed back ends.')
HARNESSES = [
    H('scalar_codec', 'scalar.c', 'h_scalar_codec', route='A', unwind=34, timeout=300, cbmc=['--object-bits', '10'],
      functions=['secp256k1_scalar_set_b32', 'secp256k1_scalar_get_b32', 'secp256k1_scalar_is_high', 'secp256k1_scalar_is_zero', 'secp256k1_scalar_set_b32_seckey', 'secp256k1_scalar_check_overflow', 'secp256k1_scalar_reduce'],
      bounds='all 2^256 32-byte inputs; loops fully unwound (unwinding assertions)'),
    H('scalar_negate_add', 'scalar.c', 'h_scalar_negate_add', route='A', unwind=34, timeout=300, cbmc=['--object-bits', '10'],
      functions=['secp256k1_scalar_add', 'secp256k1_scalar_negate', 'secp256k1_scalar_cond_negate', 'secp256k1_scalar_is_high', 'secp256k1_scalar_eq'],
      bounds='all pairs of canonical scalars (2 x 256 bits); loops fully unwound', assumptions=['inputs are canonical (< n), as produced by set_b32 without overflow']),
]
