from vlib import H
PROPERTY = 'C50'
LEVEL = 'model_checking'
CLAIM = ('secp256k1 linear/encoding layer decided by CBMC directly on the real C translation unit src/secp256k1/src/secp256k1.c, against big-endian byte-array references of n and p: '
         'scalar set_b32/get_b32/is_high/is_zero/seckey validity/add/negate/cond_negate (all 256-bit inputs); field element set_b32_limit/set_b32_mod/get_b32/is_odd/is_zero (all 2^256 encodings), '
         'normalize/normalize_var/normalize_weak/normalizes_to_zero(_var) for every 5x52 limb pattern up to the library maximum magnitude 32 (result canonical and congruent mod p), negate (m = 1, 8, 31), add, cmp_var, fe_equal; '
         'ECDSA signature objects: parse_compact/serialize_compact round trip and rejection, signature_normalize (returns s > n/2, r unchanged, s\' = s or n - s, never high, idempotent, in place), ec_seckey_verify (0 < k < n), '
         'parse_der accepts exactly strict DER SEQUENCE{INTEGER,INTEGER} (independent X.690 reader; negative/overflowing integers collapse to 0) for every byte string of lengths 0,1,2,7..12 and 70..73 with '
         'serialize_der(parse_der(x)) == x for plain integers and parse_der(serialize_der(sig)) == sig; pointer/bounds checks on the exact-size DER input. '
         'Field/scalar multiplication, inversion and the group law (hence sign/verify/ECDH/tweak correctness, i.e. the central sentence of the property) are outside the claim: symbolic 256x256-bit products are beyond the installed back ends.')
HARNESSES = [
    H('scalar_codec', 'scalar.c', 'h_scalar_codec', route='A', unwind=34, timeout=300, cbmc=['--object-bits', '10'],
      functions=['secp256k1_scalar_set_b32', 'secp256k1_scalar_get_b32', 'secp256k1_scalar_is_high', 'secp256k1_scalar_is_zero', 'secp256k1_scalar_set_b32_seckey', 'secp256k1_scalar_check_overflow', 'secp256k1_scalar_reduce'],
      bounds='all 2^256 32-byte inputs; loops fully unwound (unwinding assertions)'),
    H('scalar_negate_add', 'scalar.c', 'h_scalar_negate_add', route='A', unwind=34, timeout=300, cbmc=['--object-bits', '10'],
      functions=['secp256k1_scalar_add', 'secp256k1_scalar_negate', 'secp256k1_scalar_cond_negate', 'secp256k1_scalar_is_high', 'secp256k1_scalar_eq'],
      bounds='all pairs of canonical scalars (2 x 256 bits); loops fully unwound', assumptions=['inputs are canonical (< n), as produced by set_b32 without overflow']),
    # ---- field element layer (field.c) ----
    H('fe_codec', 'field.c', 'h_fe_codec', route='A', unwind=36, timeout=300, cbmc=['--object-bits', '10'],
      functions=['secp256k1_fe_set_b32_limit', 'secp256k1_fe_set_b32_mod', 'secp256k1_fe_get_b32', 'secp256k1_fe_is_odd', 'secp256k1_fe_is_zero', 'secp256k1_fe_normalize'],
      bounds='all 2^256 32-byte inputs; loops fully unwound'),
    H('fe_normalize', 'field.c', 'h_fe_normalize', route='A', unwind=36, timeout=300, cbmc=['--object-bits', '10'], variants=[{'MAG': 1}, {'MAG': 8}, {'MAG': 32}], backends=['default', 'cadical', 'kissat'],
      functions=['secp256k1_fe_normalize', 'secp256k1_fe_normalize_var', 'secp256k1_fe_normalize_weak', 'secp256k1_fe_normalizes_to_zero', 'secp256k1_fe_normalizes_to_zero_var', 'secp256k1_fe_get_b32', 'secp256k1_fe_is_odd', 'secp256k1_fe_is_zero'],
      bounds='every 5x52 limb pattern of magnitude <= 1, 8, 32 (32 = library maximum); reference = 272-bit big-endian value reduced by binary long division by p'),
    H('fe_normalize_longdiv', 'field.c', 'h_fe_normalize', route='A', tier='thorough', unwind=36, timeout=900, cbmc=['--object-bits', '10'], variants=[{'MAG': 1, 'LONGDIV': 1}, {'MAG': 8, 'LONGDIV': 1}], backends=['default', 'cadical', 'kissat'],
      functions=['secp256k1_fe_normalize'], bounds='limb patterns of magnitude <= 1 and <= 8; residue additionally recomputed by binary long division by p (cross-check of the congruence oracle)'),
    H('fe_negate', 'field.c', 'h_fe_negate', route='A', unwind=36, timeout=300, cbmc=['--object-bits', '10'], variants=[{'MAG': 1}, {'MAG': 8}, {'MAG': 31}],
      functions=['secp256k1_fe_negate', 'secp256k1_fe_add', 'secp256k1_fe_normalizes_to_zero', 'secp256k1_fe_normalize', 'secp256k1_fe_get_b32'],
      bounds='every limb pattern of magnitude <= m for m = 1, 8, 31 (negate called with that m; 31 = largest m the library allows)', assumptions=['operands respect the magnitude preconditions documented in field.h']),
    H('fe_add', 'field.c', 'h_fe_add', route='A', unwind=36, timeout=300, cbmc=['--object-bits', '10'], variants=[{'MAG': 1}, {'MAG': 16}],
      functions=['secp256k1_fe_add', 'secp256k1_fe_normalize', 'secp256k1_fe_get_b32'],
      bounds='all pairs of limb patterns of magnitude <= 1 and <= 16 (sum magnitude <= 32 = library maximum)', assumptions=['operands respect the magnitude preconditions documented in field.h']),
    H('fe_cmp', 'field.c', 'h_fe_cmp', route='A', unwind=36, timeout=300, cbmc=['--object-bits', '10'], variants=[{'MAG': 1}, {'MAG': 8}],
      functions=['secp256k1_fe_cmp_var', 'secp256k1_fe_equal', 'secp256k1_fe_normalize', 'secp256k1_fe_normalize_var', 'secp256k1_fe_get_b32'],
      bounds='all pairs of limb patterns of magnitude <= 1 (fe_equal, cmp_var) and <= 8 (cmp_var after normalisation)'),
    # ---- signature object encoding layer (sig.c) ----
    H('sig_compact', 'sig.c', 'h_sig_compact', route='A', unwind=70, timeout=300, cbmc=['--object-bits', '10'],
      functions=['secp256k1_ecdsa_signature_parse_compact', 'secp256k1_ecdsa_signature_serialize_compact', 'secp256k1_scalar_set_b32', 'secp256k1_scalar_get_b32'],
      bounds='all 2^512 64-byte inputs'),
    H('sig_normalize', 'sig.c', 'h_sig_normalize', route='A', unwind=70, timeout=300, cbmc=['--object-bits', '10'],
      functions=['secp256k1_ecdsa_signature_normalize', 'secp256k1_scalar_is_high', 'secp256k1_scalar_negate', 'secp256k1_ecdsa_signature_parse_compact', 'secp256k1_ecdsa_signature_serialize_compact'],
      bounds='all r, s < n (2 x 256 bits)'),
    H('seckey_verify', 'sig.c', 'h_seckey_verify', route='A', unwind=36, timeout=300, cbmc=['--object-bits', '10'],
      functions=['secp256k1_ec_seckey_verify', 'secp256k1_scalar_set_b32_seckey'], bounds='all 2^256 keys'),
    H('der_parse', 'sig.c', 'h_der_parse', route='A', unwind=82, unwindset='secp256k1_der_read_len.0:10,ref_len.0:10', timeout=300, cbmc=['--object-bits', '10'], checks=['--pointer-check', '--bounds-check'],
      variants=[{'LEN': l} for l in (0, 1, 2, 7, 8, 9, 10, 11, 12)], tvariants=[{'LEN': l} for l in list(range(0, 20)) + [38, 39, 40]],
      functions=['secp256k1_ecdsa_signature_parse_der', 'secp256k1_ecdsa_sig_parse', 'secp256k1_der_read_len', 'secp256k1_der_parse_integer', 'secp256k1_ecdsa_signature_serialize_der', 'secp256k1_ecdsa_sig_serialize', 'secp256k1_ecdsa_signature_serialize_compact'],
      bounds='every byte string of each concrete length 0,1,2,7..12 (thorough: 0..19, 38..40), all bytes symbolic; pointer/bounds checks enabled on the exact-size input buffer'),
    H('der_parse_long', 'sig.c', 'h_der_parse', route='A', unwind=82, unwindset='secp256k1_der_read_len.0:10,ref_len.0:10', timeout=600, cbmc=['--object-bits', '10'], defines={'NO_REPARSE': 1},
      variants=[{'LEN': l} for l in (70, 71, 72, 73)], tvariants=[{'LEN': l} for l in (68, 69, 70, 71, 72, 73, 74)],
      functions=['secp256k1_ecdsa_signature_parse_der', 'secp256k1_ecdsa_sig_parse', 'secp256k1_der_read_len', 'secp256k1_der_parse_integer', 'secp256k1_ecdsa_signature_serialize_der'],
      bounds='every byte string of each concrete length 70..73 (thorough 68..74), all bytes symbolic'),
    H('der_roundtrip', 'sig.c', 'h_der_roundtrip', route='A', tier='thorough', unwind=82, unwindset='secp256k1_der_read_len.0:10,ref_len.0:10', timeout=1500, cbmc=['--object-bits', '10'],
      functions=['secp256k1_ecdsa_signature_serialize_der', 'secp256k1_ecdsa_sig_serialize', 'secp256k1_ecdsa_signature_parse_der', 'secp256k1_ecdsa_signature_parse_compact'],
      bounds='all r, s < n (2 x 256 bits); output length symbolic 8..72'),
]
