from vlib import H
PROPERTY = 'C50'
LEVEL = 'model_checking'
CLAIM = ('secp256k1 linear/encoding layer decided by CBMC directly on the real C translation unit src/secp256k1/src/secp256k1.c: '
         'scalar set_b32/get_b32/is_high/is_zero/seckey validity/add/negate/cond_negate against big-endian byte-array references of the group order, all 256-bit inputs. '
         'Field/scalar multiplication, inversion and the group law (hence sign/verify correctness) are outside the claim: symbolic 256x256-bit products are beyond the installed back ends.')
HARNESSES = [
    H('scalar_codec', 'scalar.c', 'h_scalar_codec', route='A', unwind=34, timeout=300, cbmc=['--object-bits', '10'],
      functions=['secp256k1_scalar_set_b32', 'secp256k1_scalar_get_b32', 'secp256k1_scalar_is_high', 'secp256k1_scalar_is_zero', 'secp256k1_scalar_set_b32_seckey', 'secp256k1_scalar_check_overflow', 'secp256k1_scalar_reduce'],
      bounds='all 2^256 32-byte inputs; loops fully unwound (unwinding assertions)'),
    H('scalar_negate_add', 'scalar.c', 'h_scalar_negate_add', route='A', unwind=34, timeout=300, cbmc=['--object-bits', '10'],
      functions=['secp256k1_scalar_add', 'secp256k1_scalar_negate', 'secp256k1_scalar_cond_negate', 'secp256k1_scalar_is_high', 'secp256k1_scalar_eq'],
      bounds='all pairs of canonical scalars (2 x 256 bits); loops fully unwound', assumptions=['inputs are canonical (< n), as produced by set_b32 without overflow']),
    # ---- field element layer (field.c) ----
    H('fe_codec', 'field.c', 'h_fe_codec', route='A', unwind=36, timeout=300, cbmc=['--object-bits', '10'],
      functions=['secp256k1_fe_set_b32_limit', 'secp256k1_fe_set_b32_mod', 'secp256k1_fe_get_b32', 'secp256k1_fe_is_odd', 'secp256k1_fe_is_zero', 'secp256k1_fe_normalize'],
      bounds='all 2^256 32-byte inputs; loops fully unwound'),
    H('fe_normalize', 'field.c', 'h_fe_normalize', route='A', unwind=36, timeout=300, cbmc=['--object-bits', '10'], variants=[{'MAG': 1}, {'MAG': 8}, {'MAG': 32}], backends=['default', 'cadical', 'kissat'],
      functions=['secp256k1_fe_normalize', 'secp256k1_fe_normalize_var', 'secp256k1_fe_normalize_weak', 'secp256k1_fe_normalizes_to_zero', 'secp256k1_fe_normalizes_to_zero_var', 'secp256k1_fe_get_b32', 'secp256k1_fe_is_odd', 'secp256k1_fe_is_zero'],
      bounds='every 5x52 limb pattern of magnitude <= 1, 8, 32 (32 = library maximum); reference = 272-bit big-endian value reduced by binary long division by p'),
    H('fe_negate', 'field.c', 'h_fe_negate', route='A', unwind=36, timeout=300, cbmc=['--object-bits', '10'], variants=[{'MAG': 1}, {'MAG': 8}, {'MAG': 31}],
      functions=['secp256k1_fe_negate', 'secp256k1_fe_add', 'secp256k1_fe_normalizes_to_zero', 'secp256k1_fe_normalize', 'secp256k1_fe_get_b32'],
      bounds='every limb pattern of magnitude <= m for m = 1, 8, 31 (negate called with that m; 31 = largest m the library allows)', assumptions=['operands respect the magnitude preconditions documented in field.h']),
    H('fe_add', 'field.c', 'h_fe_add', route='A', unwind=36, timeout=300, cbmc=['--object-bits', '10'], variants=[{'MAG': 1}, {'MAG': 16}],
      functions=['secp256k1_fe_add', 'secp256k1_fe_normalize', 'secp256k1_fe_get_b32'],
      bounds='all pairs of limb patterns of magnitude <= 1 and <= 16 (sum magnitude <= 32 = library maximum)', assumptions=['operands respect the magnitude preconditions documented in field.h']),
    H('fe_cmp', 'field.c', 'h_fe_cmp', route='A', unwind=36, timeout=300, cbmc=['--object-bits', '10'], variants=[{'MAG': 1}, {'MAG': 8}],
      functions=['secp256k1_fe_cmp_var', 'secp256k1_fe_equal', 'secp256k1_fe_normalize', 'secp256k1_fe_normalize_var', 'secp256k1_fe_get_b32'],
      bounds='all pairs of limb patterns of magnitude <= 1 (fe_equal, cmp_var) and <= 8 (cmp_var after normalisation)'),
]
