/* C50 (Route A): secp256k1 scalar linear/encoding layer, CBMC directly on the real C translation unit. */
#include <stdint.h>
#include <string.h>
#define SECP256K1_BUILD
#include "secp256k1.c"
uint8_t nondet_u8(void); uint64_t nondet_u64(void); uint8_t nondet_bool(void);
void verif_observe(uint64_t);
#ifndef __CPROVER__
void verif_native_assert(int, const char*); void verif_native_assume(int);
#define __CPROVER_assert(c, m) verif_native_assert(!!(c), m)
#define __CPROVER_assume(c) verif_native_assume(!!(c))
#endif
#define VWITNESS(c, l) __CPROVER_assert(!(c), "WITNESS:" l)
#define VREACH(l) __CPROVER_assert(0, "WITNESS:" l)

/* group order n and (n-1)/2, big endian */
static const unsigned char N_BE[32] = {0xFF,0xFF,0xFF,0xFF,0xFF,0xFF,0xFF,0xFF,0xFF,0xFF,0xFF,0xFF,0xFF,0xFF,0xFF,0xFE,0xBA,0xAE,0xDC,0xE6,0xAF,0x48,0xA0,0x3B,0xBF,0xD2,0x5E,0x8C,0xD0,0x36,0x41,0x41};
static const unsigned char NH_BE[32] = {0x7F,0xFF,0xFF,0xFF,0xFF,0xFF,0xFF,0xFF,0xFF,0xFF,0xFF,0xFF,0xFF,0xFF,0xFF,0xFF,0x5D,0x57,0x6E,0x73,0x57,0xA4,0x50,0x1D,0xDF,0xE9,0x2F,0x46,0x68,0x1B,0x20,0xA0};
static int be_cmp(const unsigned char* a, const unsigned char* b) { for (int i = 0; i < 32; i++) { if (a[i] < b[i]) return -1; if (a[i] > b[i]) return 1; } return 0; }
static void be_in(unsigned char* b) { for (int i = 0; i < 4; i++) { uint64_t v = nondet_u64(); for (int j = 0; j < 8; j++) b[8 * i + j] = (unsigned char)(v >> (8 * j)); } }
/* reference: r = a + b over 33 bytes big-endian (byte 0 = carry) */
static void be_add(unsigned char* r33, const unsigned char* a, const unsigned char* b) { unsigned c = 0; for (int i = 31; i >= 0; i--) { unsigned s = a[i] + b[i] + c; r33[i + 1] = (unsigned char)s; c = s >> 8; } r33[0] = (unsigned char)c; }
static int be_sub_n(unsigned char* r32, const unsigned char* a33) { /* a - n if a >= n (33-byte a); returns 1 if subtracted */
  unsigned char n33[33]; n33[0] = 0; memcpy(n33 + 1, N_BE, 32);
  int ge = 0, decided = 0; for (int i = 0; i < 33 && !decided; i++) { if (a33[i] != n33[i]) { ge = a33[i] > n33[i]; decided = 1; } } if (!decided) ge = 1;
  if (!ge) { memcpy(r32, a33 + 1, 32); return 0; }
  int br = 0; for (int i = 32; i >= 1; i--) { int d = (int)a33[i] - (int)n33[i] - br; br = d < 0; r32[i - 1] = (unsigned char)(d + (br ? 256 : 0)); } return 1; }

void h_scalar_codec(void) {
  unsigned char in[32], out[32]; int overflow;
  be_in(in);
  secp256k1_scalar s;
  secp256k1_scalar_set_b32(&s, in, &overflow);
  __CPROVER_assert(overflow == (be_cmp(in, N_BE) >= 0), "set_b32 reports overflow iff value >= group order");
  secp256k1_scalar_get_b32(out, &s);
  if (!overflow) __CPROVER_assert(memcmp(in, out, 32) == 0, "get_b32(set_b32(x)) == x for x < n");
  else { unsigned char in33[33], red[32]; in33[0] = 0; memcpy(in33 + 1, in, 32); be_sub_n(red, in33); __CPROVER_assert(memcmp(red, out, 32) == 0, "overflowing input is reduced by exactly n"); }
  __CPROVER_assert(be_cmp(out, N_BE) < 0, "stored scalar is canonical (< n)");
  __CPROVER_assert(secp256k1_scalar_is_high(&s) == (be_cmp(out, NH_BE) > 0), "is_high iff value > (n-1)/2");
  unsigned char z[32] = {0};
  __CPROVER_assert(secp256k1_scalar_is_zero(&s) == (memcmp(out, z, 32) == 0), "is_zero iff canonical value is 0");
  /* seckey validity = nonzero and no overflow */
  __CPROVER_assert(secp256k1_scalar_set_b32_seckey(&s, in) == (!overflow && memcmp(in, z, 32) != 0), "seckey valid iff 0 < key < n");
  for (int i = 0; i < 32; i++) verif_observe(out[i]);
  VWITNESS(overflow, "overflowing encoding reachable"); VWITNESS(!overflow && be_cmp(out, NH_BE) > 0, "high scalar reachable"); VREACH("end");
}

void h_scalar_negate_add(void) {
  unsigned char a[32], b[32], o[32]; int ov;
  be_in(a); be_in(b);
  secp256k1_scalar sa, sb, n, sum;
  secp256k1_scalar_set_b32(&sa, a, &ov); __CPROVER_assume(!ov);
  secp256k1_scalar_set_b32(&sb, b, &ov); __CPROVER_assume(!ov);
  secp256k1_scalar_negate(&n, &sa);
  secp256k1_scalar_add(&sum, &sa, &n);
  __CPROVER_assert(secp256k1_scalar_is_zero(&sum), "s + (-s) == 0 mod n");
  if (!secp256k1_scalar_is_zero(&sa)) __CPROVER_assert(secp256k1_scalar_is_high(&sa) != secp256k1_scalar_is_high(&n), "exactly one of s, -s is high");
  /* addition = reference (a + b) mod n */
  int c = secp256k1_scalar_add(&sum, &sa, &sb);
  unsigned char r33[33], red[32]; be_add(r33, a, b); int sub = be_sub_n(red, r33);
  secp256k1_scalar_get_b32(o, &sum);
  __CPROVER_assert(memcmp(o, red, 32) == 0, "scalar_add equals (a + b) mod n");
  __CPROVER_assert(c == sub, "scalar_add overflow flag iff a + b >= n");
  /* low-S normalisation as used by signature_normalize: cond_negate on is_high yields a non-high scalar congruent to +-s */
  secp256k1_scalar t = sa; int high = secp256k1_scalar_is_high(&t);
  secp256k1_scalar_cond_negate(&t, high);
  __CPROVER_assert(!secp256k1_scalar_is_high(&t), "normalised s is never high");
  __CPROVER_assert(high ? secp256k1_scalar_eq(&t, &n) : secp256k1_scalar_eq(&t, &sa), "normalised s is s or n - s");
  for (int i = 0; i < 32; i++) verif_observe(o[i]);
  VWITNESS(c, "addition wraps mod n"); VWITNESS(high, "high s reachable"); VREACH("end");
}
