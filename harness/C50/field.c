/* C50 (Route A): secp256k1 field element linear/encoding layer (field_5x52_impl.h through the real secp256k1.c) against
 * big-endian byte-array references modulo p = 2^256 - 2^32 - 977. Multiplication/squaring/inversion are NOT covered. */
#include "c50_common.h"

#ifndef MAG
#define MAG 1
#endif
typedef char fe_is_5x52[sizeof(secp256k1_fe) == 40 ? 1 : -1];

/* integer value of a (possibly denormalised) 5x52 element: sum n[i] * 2^(52 i) */
static void fe_value(bn* v, const secp256k1_fe* a) { bn_zero(v); for (int i = 0; i < 5; i++) bn_add_u64_shifted(v, a->n[i], 52 * i); }
/* any limb pattern of magnitude <= m as defined in field.h (limbs <= 2*m*(2^52-1), top limb <= 2*m*(2^48-1)) */
static void fe_in(secp256k1_fe* a, int m) {
  for (int i = 0; i < 5; i++) { a->n[i] = nondet_u64(); }
  VASSUME(a->n[0] <= 0xFFFFFFFFFFFFFULL * 2 * m && a->n[1] <= 0xFFFFFFFFFFFFFULL * 2 * m && a->n[2] <= 0xFFFFFFFFFFFFFULL * 2 * m && a->n[3] <= 0xFFFFFFFFFFFFFULL * 2 * m && a->n[4] <= 0x0FFFFFFFFFFFFULL * 2 * m);
}
static int fe_limbs_canonical(const secp256k1_fe* a) { return (a->n[0] >> 52) == 0 && (a->n[1] >> 52) == 0 && (a->n[2] >> 52) == 0 && (a->n[3] >> 52) == 0 && (a->n[4] >> 48) == 0; }
static int fe_limbs_eq(const secp256k1_fe* a, const secp256k1_fe* b) { return a->n[0] == b->n[0] && a->n[1] == b->n[1] && a->n[2] == b->n[2] && a->n[3] == b->n[3] && a->n[4] == b->n[4]; }

/* set_b32_limit / set_b32_mod / get_b32 / is_odd / is_zero on all 2^256 byte strings */
void h_fe_codec(void) {
  unsigned char in[32], out[32], red[32];
  be_in(in);
  secp256k1_fe a, m;
  int ok = secp256k1_fe_set_b32_limit(&a, in);
  int below = be_cmp(in, P_BE) < 0;
  VASSERT(ok == below, "set_b32_limit accepts iff value < p");
  VASSERT(fe_limbs_canonical(&a), "set_b32 produces limbs of magnitude 1");
  secp256k1_fe_set_b32_mod(&m, in);
  VASSERT(fe_limbs_eq(&a, &m), "set_b32_mod and set_b32_limit store the same limbs");
  if (below) {
    secp256k1_fe_get_b32(out, &a);
    VASSERT(memcmp(in, out, 32) == 0, "get_b32(set_b32_limit(x)) == x for x < p");
    VASSERT(secp256k1_fe_is_odd(&a) == (in[31] & 1), "is_odd is the parity of the canonical value");
    VASSERT(secp256k1_fe_is_zero(&a) == be_is_zero(in), "is_zero iff canonical value is 0");
    secp256k1_fe t = a; secp256k1_fe_normalize(&t);
    VASSERT(fe_limbs_eq(&a, &t), "normalize is the identity on canonical elements");
  }
  /* reduction of an out-of-range encoding: x mod p == x - p for p <= x < 2^256 */
  secp256k1_fe_normalize(&m); secp256k1_fe_get_b32(out, &m);
  if (below) memcpy(red, in, 32); else be_sub(red, in, P_BE);
  VASSERT(memcmp(out, red, 32) == 0, "normalize(set_b32_mod(x)) encodes x mod p");
  VASSERT(be_cmp(out, P_BE) < 0, "normalised encoding is canonical (< p)");
  for (int i = 0; i < 32; i++) verif_observe(out[i]);
  VWITNESS(!ok, "non-canonical encoding (>= p) reachable"); VWITNESS(ok && (in[31] & 1), "odd element reachable"); VREACH("end");
}

/* normalize / normalize_var / normalize_weak / normalizes_to_zero(_var) on every limb pattern of magnitude <= MAG.
 * Oracle: r is the result iff r < p and value(a) = r + k*p (definition of the canonical residue). With -DLONGDIV the residue is
 * additionally recomputed by binary long division (slower query, thorough tier). */
void h_fe_normalize(void) {
  secp256k1_fe a; fe_in(&a, MAG);
  bn v; fe_value(&v, &a);
  unsigned char out[32], zero[32] = {0};
  secp256k1_fe r = a; secp256k1_fe_normalize(&r);
  VASSERT(fe_limbs_canonical(&r), "normalize leaves every limb in range (52/52/52/52/48 bits)");
  secp256k1_fe_get_b32(out, &r);
  VASSERT(be_cmp(out, P_BE) < 0, "normalize yields a canonical value (< p)");
  VASSERT(bn_congruent_mod_p(&v, out), "normalize preserves the value modulo p");
#ifdef LONGDIV
  unsigned char exp[32]; bn_mod_p(exp, &v);
  VASSERT(memcmp(out, exp, 32) == 0, "normalize equals the residue computed by long division");
#endif
  secp256k1_fe rv = a; secp256k1_fe_normalize_var(&rv);
  VASSERT(fe_limbs_eq(&r, &rv), "normalize_var agrees with normalize");
  secp256k1_fe rw = a; secp256k1_fe_normalize_weak(&rw);
  VASSERT((rw.n[0] >> 52) == 0 && (rw.n[1] >> 52) == 0 && (rw.n[2] >> 52) == 0 && (rw.n[3] >> 52) == 0 && (rw.n[4] >> 49) == 0, "normalize_weak reduces to magnitude 1");
  secp256k1_fe_normalize(&rw);
  VASSERT(fe_limbs_eq(&r, &rw), "normalize_weak preserves the residue");
  int z = bn_congruent_mod_p(&v, zero);
  VASSERT(z == be_is_zero(out), "oracle self-check: multiple of p iff canonical residue is 0");
  VASSERT(secp256k1_fe_normalizes_to_zero(&a) == z, "normalizes_to_zero iff value is a multiple of p");
  VASSERT(secp256k1_fe_normalizes_to_zero_var(&a) == z, "normalizes_to_zero_var iff value is a multiple of p");
  VASSERT(secp256k1_fe_is_zero(&r) == z, "is_zero of the normalised element iff residue 0");
  VASSERT(secp256k1_fe_is_odd(&r) == (out[31] & 1), "is_odd of the normalised element is the parity of the residue");
  for (int i = 0; i < 32; i++) verif_observe(out[i]);
  int raw_nonzero = (a.n[0] | a.n[1] | a.n[2] | a.n[3] | a.n[4]) != 0;
  VWITNESS(z && raw_nonzero, "non-zero limb pattern that is a multiple of p");
  VWITNESS((a.n[4] >> 48) == 0 && !fe_limbs_eq(&a, &r) && fe_limbs_canonical(&a), "value in [p, 2^256) needing the final reduction");
#if MAG > 1
  VWITNESS((a.n[4] >> 48) >= 2 * MAG - 1, "top limb overflow at the magnitude bound");
#endif
  VREACH("end");
}

/* negate(MAG): a of magnitude <= MAG; -a is characterised as the canonical r with a + r = 0 (mod p) */
void h_fe_negate(void) {
  secp256k1_fe a; fe_in(&a, MAG);
  bn va, t; fe_value(&va, &a);
  unsigned char out[32], zero[32] = {0};
  secp256k1_fe n; secp256k1_fe_negate(&n, &a, MAG);
  VASSERT(n.n[0] <= 0xFFFFFFFFFFFFFULL * 2 * (MAG + 1) && n.n[1] <= 0xFFFFFFFFFFFFFULL * 2 * (MAG + 1) && n.n[2] <= 0xFFFFFFFFFFFFFULL * 2 * (MAG + 1) && n.n[3] <= 0xFFFFFFFFFFFFFULL * 2 * (MAG + 1) && n.n[4] <= 0x0FFFFFFFFFFFFULL * 2 * (MAG + 1), "negate result has magnitude <= m+1 (no limb underflow)");
  secp256k1_fe nn = n; secp256k1_fe_normalize(&nn); secp256k1_fe_get_b32(out, &nn);
  bn_from32(&t, out); bn_add(&t, &va);
  VASSERT(be_cmp(out, P_BE) < 0 && bn_congruent_mod_p(&t, zero), "negate yields the canonical r with a + r = 0 mod p");
  secp256k1_fe s = a; secp256k1_fe_add(&s, &n);
  VASSERT(secp256k1_fe_normalizes_to_zero(&s), "a + (-a) normalises to zero");
  for (int i = 0; i < 32; i++) verif_observe(out[i]);
  VWITNESS(be_is_zero(out) && (a.n[0] | a.n[4]) != 0, "negation of a non-trivial zero"); VWITNESS(out[0] == 0x80, "mid-range result"); VREACH("end");
}

/* add: a, b of magnitude <= MAG. The limb-wise sum represents exactly value(a) + value(b) with magnitude <= 2*MAG, so by
 * h_fe_normalize (all patterns up to magnitude 32) its normalisation is (a + b) mod p; for MAG == 1 this is also checked end to end. */
void h_fe_add(void) {
  secp256k1_fe a, b; fe_in(&a, MAG); fe_in(&b, MAG);
  bn va, vb, vu; fe_value(&va, &a); fe_value(&vb, &b);
  unsigned char out[32];
  bn vs = va; bn_add(&vs, &vb);
  secp256k1_fe u = a; secp256k1_fe_add(&u, &b);
  fe_value(&vu, &u);
  VASSERT(bn_cmp(&vu, &vs) == 0, "add: represented integer is exactly value(a) + value(b)");
  VASSERT(u.n[0] <= 0xFFFFFFFFFFFFFULL * 4 * MAG && u.n[1] <= 0xFFFFFFFFFFFFFULL * 4 * MAG && u.n[2] <= 0xFFFFFFFFFFFFFULL * 4 * MAG && u.n[3] <= 0xFFFFFFFFFFFFFULL * 4 * MAG && u.n[4] <= 0x0FFFFFFFFFFFFULL * 4 * MAG, "add: magnitudes add up (no limb overflow)");
  verif_observe(u.n[0] ^ u.n[4]);
#if MAG == 1
  secp256k1_fe_normalize(&u); secp256k1_fe_get_b32(out, &u);
  VASSERT(bn_is_residue_mod_p(&vs, out), "add then normalize yields (a + b) mod p");
  VWITNESS(be_is_zero(out) && a.n[0] != 0, "sum wraps to zero");
#endif
  VWITNESS(vs.b[1] != 0, "sum exceeds 2^256"); VREACH("end");
}

/* cmp_var / equal on operands of magnitude <= MAG after normalisation */
void h_fe_cmp(void) {
  secp256k1_fe a, b; fe_in(&a, MAG); fe_in(&b, MAG);
  bn va, vb; fe_value(&va, &a); fe_value(&vb, &b);
  unsigned char ea[32], eb[32];
  secp256k1_fe x = a, y = b; secp256k1_fe_normalize(&x); secp256k1_fe_normalize_var(&y);
  secp256k1_fe_get_b32(ea, &x); secp256k1_fe_get_b32(eb, &y);
  VASSERT(bn_is_residue_mod_p(&va, ea) && bn_is_residue_mod_p(&vb, eb), "operands normalise to their residues");
  int c = secp256k1_fe_cmp_var(&x, &y), rc = be_cmp(ea, eb);
  VASSERT(c == rc, "cmp_var orders normalised elements by canonical value");
#if MAG == 1
  VASSERT(secp256k1_fe_equal(&a, &b) == (rc == 0), "fe_equal iff same residue");
#endif
  verif_observe((uint64_t)c);
  VWITNESS(rc == 0 && !fe_limbs_eq(&a, &b), "equal residues with different limbs"); VWITNESS(c < 0, "a < b reachable"); VWITNESS(c > 0, "a > b reachable"); VREACH("end");
}
