// C30: feerate arithmetic is exact (util/feefrac.h, policy/feerate.cpp). Real inline functions from the real header,
// CFeeRate::GetFee linked from policy/feerate.cpp. Oracles are written from the property text with 128-bit arithmetic:
// "q is floor(n/d)" is stated as q*d <= n < q*d+d (no division in the oracle), "ceil" as q*d-d < n <= q*d.
#include <verif.h>
#include <util/feefrac.h>
#include <policy/feerate.h>
#include <climits>

typedef __int128 i128;
static const i128 I64MIN = -((i128)1 << 63), I64MAX = ((i128)1 << 63) - 1;

// value case splits (each a separate solver query): the macro selects a sub-range, the union of the variants is the full domain
#ifndef BLO
#define BLO INT32_MIN
#endif
#ifndef ORACLE
#define ORACLE 0
#endif
#ifndef BHI
#define BHI INT32_MAX
#endif
static int32_t sym_i32(int64_t lo, int64_t hi) { int32_t v = nondet_i32(); VASSUME(v >= lo && v <= hi); return v; }

// (1) MulFallback(a,b) is the 96-bit two's complement representation (hi:int64, lo:uint32) of a*b, for all a, b
extern "C" void h_mulfallback()
{
    const int64_t a = nondet_i64();
    const int32_t b = sym_i32(BLO, BHI);
    const std::pair<int64_t, uint32_t> r = FeeFrac::MulFallback(a, b);
    const i128 native = FeeFrac::Mul(a, b);
#if ORACLE == 1
    // binary-expansion definition of the product: b = -b31*2^31 + sum b_i*2^i
    i128 ref = 0;
    for (int i = 0; i < 31; i++) if (((uint32_t)b >> i) & 1) ref += ((i128)a) << i;
    if (b < 0) ref -= ((i128)a) << 31;
#elif ORACLE == 2
    // distributive law on a = floor(a/2^32)*2^32 + (a mod 2^32), evaluated exactly in 128 bits
    const i128 ref = (((i128)(a >> 32) * (i128)b) << 32) + (i128)(uint64_t)(uint32_t)a * (i128)b;
#else
    const i128 ref = (i128)a * (i128)b;
#endif
    verif_observe((uint64_t)r.first); verif_observe(r.second);
#ifdef CHECK_NATIVE
    VASSERT(native == ref, "Mul is the exact 128-bit product");
#else
    VASSERT((((i128)r.first) << 32) + (i128)r.second == ref, "MulFallback (hi,lo) encodes exactly a*b as hi*2^32+lo");
#endif
    VWITNESS(ref > (i128)INT64_MAX, "product above 2^63 reachable");
    VWITNESS(ref < (i128)INT64_MIN, "product below -2^63 reachable");
    VWITNESS(a < 0 && b < 0, "both negative reachable");
    VREACH("end");
}

// (1b) the pair type returned by MulFallback orders exactly like the 96-bit integer it encodes (so that comparisons done on
// MulFallback results equal comparisons done on Mul results, given (1)); all 2x96 bits symbolic
extern "C" void h_pairorder()
{
    const std::pair<int64_t, uint32_t> x{nondet_i64(), nondet_u32()}, y{nondet_i64(), nondet_u32()};
    const i128 X = ((i128)x.first << 32) + x.second, Y = ((i128)y.first << 32) + y.second;
    const auto c = x <=> y;
    verif_observe(c < 0); verif_observe(c > 0);
    VASSERT((c < 0) == (X < Y) && (c > 0) == (X > Y) && (c == 0) == (X == Y), "pair<int64,uint32> three-way order equals order of hi*2^32+lo");
    VASSERT((x < y) == (X < Y) && (x == y) == (X == Y) && (x <= y) == (X <= Y) && (x > y) == (X > Y) && (x >= y) == (X >= Y), "pair relational operators equal integer order");
    VWITNESS(x.first == y.first && x.second < y.second && x.first < 0, "order decided by the low word with negative high word");
    VREACH("end");
}

// floor/ceil characterisation without division
static bool is_rounded_quotient(i128 n, int32_t d, bool round_down, int64_t q)
{
    const i128 p = (i128)q * (i128)d;
    return round_down ? (p <= n && n < p + d) : (p - d < n && n <= p);
}

// (2) Div and DivFallback: for every 96-bit numerator (hi,lo), divisor d>0, rounding direction, such that the exact rounded
// quotient fits in int64 (documented requirement): both return that quotient
#ifndef DLO
#define DLO 1
#endif
#ifndef DHI
#define DHI INT32_MAX
#endif
extern "C" void h_div()
{
    const int32_t d = sym_i32(DLO, DHI);
    const bool rd = nondet_bool();
#ifdef NUM_FROM_MUL
    // numerators that EvaluateFee produces: fee * at_size
    const int64_t f = nondet_i64(); const int32_t s = sym_i32(0, INT32_MAX);
    const std::pair<int64_t, uint32_t> nf = FeeFrac::MulFallback(f, s);
#else
    const std::pair<int64_t, uint32_t> nf{nondet_i64(), nondet_u32()};
#endif
    const i128 n = ((i128)nf.first << 32) + nf.second;
    // requirement "the result must fit in an int64_t": INT64_MIN <= round(n/d) <= INT64_MAX
    //   floor: INT64_MIN*d <= n <= INT64_MAX*d + d-1   ceil: INT64_MIN*d - (d-1) <= n <= INT64_MAX*d
    const i128 lo = I64MIN * d - (rd ? 0 : d - 1), hi = I64MAX * d + (rd ? d - 1 : 0);
    VASSUME(n >= lo && n <= hi);
#if WHICH == 0
    const int64_t q = FeeFrac::DivFallback(nf, d, rd);
#else
    const int64_t q = FeeFrac::Div(n, d, rd);
#endif
    verif_observe((uint64_t)q);
    VASSERT(is_rounded_quotient(n, d, rd, q), "division result is floor(n/d) when rounding down and ceil(n/d) when rounding up");
    VWITNESS(n < 0 && rd && q * (i128)d != n, "negative inexact numerator rounded down");
    VWITNESS(n > 0 && !rd && q * (i128)d != n, "positive inexact numerator rounded up");
    VWITNESS(n > ((i128)1 << 80), "numerator above 2^80");
    VWITNESS(q == INT64_MAX, "largest quotient reachable");
    VWITNESS(q == INT64_MIN, "smallest quotient reachable");
    VREACH("end");
}

// (3) EvaluateFeeDown/Up: for all fee, size>0, at_size>=0 with the exact result in int64: exact floor / ceil of fee*at_size/size
#ifndef FEE_CLASS
#define FEE_CLASS 0
#endif
extern "C" void h_evalfee()
{
    const int64_t fee = nondet_i64();
#if FEE_CLASS == 0     // fast path
    VASSUME(fee >= 0 && fee < 0x200000000LL);
#elif FEE_CLASS == 1   // large positive
    VASSUME(fee >= 0x200000000LL);
#else                  // negative
    VASSUME(fee < 0);
#endif
    const int32_t size = sym_i32(DLO, DHI);
    const int32_t at = sym_i32(0, INT32_MAX);
    const i128 n = (i128)fee * at;
    const FeeFrac ff{fee, size};
#ifdef ROUND_UP
    const bool rd = false;
    VASSUME(n >= I64MIN * size - (size - 1) && n <= I64MAX * size);
    const int64_t q = ff.EvaluateFeeUp(at);
#else
    const bool rd = true;
    VASSUME(n >= I64MIN * size && n <= I64MAX * size + (size - 1));
    const int64_t q = ff.EvaluateFeeDown(at);
#endif
    verif_observe((uint64_t)q);
    VASSERT(is_rounded_quotient(n, size, rd, q), "EvaluateFee is exactly fee*at_size/size rounded in the requested direction");
    VWITNESS(at > size && q * (i128)size != n, "extrapolation beyond the chunk size, inexact");
    VWITNESS(at <= size && q * (i128)size != n && at > 0, "interpolation inside the chunk, inexact");
#if FEE_CLASS == 0
    VWITNESS(n > (i128)INT64_MAX, "fast path product above 2^63 (needs the unsigned 64-bit product)");
#else
    VWITNESS(n > (i128)UINT64_MAX || n < I64MIN, "product outside 64 bits");
#endif
    VREACH("end");
}

// (4) ByRatio / ByRatioNegSize comparison operators order exactly by the rational fee/size
extern "C" void h_compare()
{
    const FeeFrac a{nondet_i64(), nondet_i32()}, b{nondet_i64(), nondet_i32()};
    // data structure invariant (feefrac.h): sizes are non-negative, size 0 only with fee 0
    VASSUME(a.size >= 0 && b.size >= 0 && (a.size != 0 || a.fee == 0) && (b.size != 0 || b.fee == 0));
    // a.fee/a.size ? b.fee/b.size  <=>  a.fee*b.size ? b.fee*a.size (sizes positive); difference fits in 128 bits
    const i128 diff = (i128)a.fee * b.size - (i128)b.fee * a.size;
    const int want = diff < 0 ? -1 : diff > 0 ? 1 : 0;
    const ByRatio<FeeFrac> ra{a}, rb{b};
    const auto c = ra <=> rb;
    verif_observe(c < 0); verif_observe(c > 0);
    VASSERT(((c < 0) ? -1 : (c > 0) ? 1 : 0) == want, "ByRatio <=> equals the exact rational comparison");
    VASSERT((ra < rb) == (want < 0) && (ra > rb) == (want > 0) && (ra <= rb) == (want <= 0) && (ra >= rb) == (want >= 0) && (ra == rb) == (want == 0),
            "ByRatio relational operators equal the exact rational comparison");
    // total order: feerate, then larger size first, empty last
    int wantn;
    if (a.size == 0 || b.size == 0) wantn = (a.size == 0 && b.size == 0) ? 0 : (a.size == 0 ? 1 : -1);
    else wantn = want != 0 ? want : (a.size > b.size ? -1 : a.size < b.size ? 1 : 0);
    const ByRatioNegSize<FeeFrac> na{a}, nb{b};
    const auto cn = na <=> nb;
    verif_observe(cn < 0); verif_observe(cn > 0);
    VASSERT(((cn < 0) ? -1 : (cn > 0) ? 1 : 0) == wantn, "ByRatioNegSize <=> orders by feerate, ties by larger size first, empty last");
    VASSERT((na == nb) == (a.fee == b.fee && a.size == b.size), "ByRatioNegSize == is FeeFrac equality");
    VASSERT((cn == 0) == (na == nb), "ByRatioNegSize is a total order consistent with equality");
    // CFeeRate comparison (policy/feerate.h) is ByRatio on the stored fraction
    if (a.size > 0 && b.size > 0) {
        const CFeeRate fa{a.fee, a.size}, fb{b.fee, b.size};
        VASSERT((fa < fb) == (want < 0) && (fa == fb) == (want == 0) && (fa > fb) == (want > 0), "CFeeRate comparison equals the exact rational comparison");
    }
    VWITNESS(want == 0 && a.size != b.size && a.size > 0 && b.size > 0 && a.fee < 0, "equal negative feerates of distinct sizes");
    VWITNESS(want < 0 && ((i128)a.fee * b.size > (i128)INT64_MAX), "cross product above 2^63 decides");
    VWITNESS(wantn > 0 && a.size == 0, "empty sorts last");
    VREACH("end");
}

// (5) CFeeRate::GetFee: non-negative rate -> exactly ceil(rate*vbytes); negative rate -> ceil, except that a result of 0 for a
// non-empty size becomes -1
extern "C" void h_getfee()
{
    const int64_t fee = nondet_i64();
    const int32_t vb = sym_i32(0, INT32_MAX);
#ifdef PER_KVB
    const int32_t size = 1000;
    VASSUME(fee >= -(int64_t)21000000 * 100000000 && fee <= (int64_t)21000000 * 100000000);   // rates are amounts: MoneyRange
    const CFeeRate rate{fee};
#else
    const int32_t size = nondet_i32();
    const CFeeRate rate{fee, size};
#endif
    const i128 n = (i128)fee * vb;
    if (size > 0) VASSUME(n >= I64MIN * size - (size - 1) && n <= I64MAX * size);
    const CAmount got = rate.GetFee(vb);
    verif_observe((uint64_t)got);
    if (size <= 0) {
        VASSERT(got == 0, "a fee rate constructed with non-positive size is the zero rate");
    } else if (fee >= 0) {
        VASSERT(is_rounded_quotient(n, size, false, got), "non-negative rate: fee is rate*vbytes rounded up to the next satoshi");
        VASSERT(got >= 0, "non-negative rate gives non-negative fee");
    } else {
        const bool ceil_is_zero = (-(i128)size < n && n <= 0);
        if (ceil_is_zero && vb != 0) VASSERT(got == -1, "negative rate never rounds a non-empty size to zero fee: -1");
        else VASSERT(is_rounded_quotient(n, size, false, got), "negative rate: rounded towards positive infinity");
    }
    VWITNESS(size > 0 && fee > 0 && got * (i128)size != n, "inexact positive fee rounded up");
    VWITNESS(size > 0 && fee < 0 && got == -1 && n > -(i128)size, "negative rate -1 rule reachable");
    VWITNESS(size > 0 && fee < 0 && got < -1, "negative fee below -1");
    VREACH("end");
}
