// C30: feerate arithmetic is exact (util/feefrac.h). Real inline functions from the real header.
// Oracles are written from the property text with 128-bit arithmetic and no division:
//   "q is floor(n/d)"  <=>  q*d <= n < q*d + d        "q is ceil(n/d)"  <=>  q*d - d < n <= q*d
// Symbolic x symbolic products/quotients are the hard query class for every back end. Two families of queries are used:
//  (F) full width, every operand symbolic: oracle products are evaluated at a width where they are exact (justified next to
//      each use) so that the SAT preprocessor can identify them with the products inside the code under test;
//  (L) divisor / multiplier taken from a concrete list (-DDC=.. / -DBC=..), everything else symbolic and full width, oracle is the
//      plain 128-bit product: linear for the integer back end (cvc5 --solve-bv-as-int).
#include <verif.h>
#include <util/feefrac.h>
#include <climits>

typedef __int128 i128;
typedef unsigned __int128 u128;
static const i128 I64MIN = -((i128)1 << 63), I64MAX = ((i128)1 << 63) - 1;

// value in [lo,hi]: by assumption (integer back end) or, for power-of-two ranges [0,2^k), by masking (SAT back ends: constant upper bits)
static int32_t sym_i32(int64_t lo, int64_t hi) { int32_t v = nondet_i32(); VASSUME(v >= lo && v <= hi); return v; }
static int32_t sym_nonneg31() { return (int32_t)(nondet_u32() & 0x7fffffffu); }

// ---------------------------------------------------------------------------------------------------------------- Mul
// MulFallback(a,b) is the 96-bit two's complement value (hi:int64, lo:uint32) of a*b; Mul is the 128-bit product.
extern "C" void h_mul()
{
    const int64_t a = nondet_i64();
#ifdef BC
    const int32_t b = BC;                       // (L)
#else
    const int32_t b = nondet_i32();             // (F)
#endif
    const std::pair<int64_t, uint32_t> r = FeeFrac::MulFallback(a, b);
    const i128 native = FeeFrac::Mul(a, b);
#ifdef BC
    const i128 ref = (i128)a * (i128)b;
#else
    // a = ah*2^32 + al with ah = floor(a/2^32) in [-2^31,2^31), al = a mod 2^32 in [0,2^32), hence a*b = ah*b*2^32 + al*b.
    // |ah*b| <= 2^62 and |al*b| < 2^63: both partial products are exact in int64 (a signed overflow here would be reported as UB).
    const int64_t ah = a >> 32, al = (int64_t)(uint64_t)(uint32_t)a;
    VASSERT(((i128)ah << 32) + al == (i128)a, "oracle decomposition of a");
    const i128 ref = (((i128)(ah * (int64_t)b)) << 32) + (i128)(al * (int64_t)b);
#endif
    verif_observe((uint64_t)r.first); verif_observe(r.second);
#ifdef BC
    VASSERT(native == ref, "Mul is the exact product");
#endif
    VASSERT((((i128)r.first) << 32) + (i128)r.second == ref, "MulFallback (hi,lo) encodes exactly a*b as hi*2^32+lo");
#if !defined(BC)
    VWITNESS(ref > (i128)INT64_MAX, "product above 2^63");
    VWITNESS(ref < (i128)INT64_MIN, "product below -2^63");
    VWITNESS(a < 0 && b < 0 && (uint32_t)a != 0, "both negative, low word non-zero");
#else
    VWITNESS(ref != (i128)(int64_t)ref || BC == 0 || BC == 1 || BC == -1, "product outside 64 bits");
#endif
    VREACH("end");
}

// the pair type returned by MulFallback orders exactly like the 96-bit integer it encodes (so comparisons of MulFallback results
// equal comparisons of Mul results, given h_mul); all 2x96 bits symbolic
extern "C" void h_pairorder()
{
    const std::pair<int64_t, uint32_t> x{nondet_i64(), nondet_u32()}, y{nondet_i64(), nondet_u32()};
    const i128 X = ((i128)x.first << 32) + x.second, Y = ((i128)y.first << 32) + y.second;
    const auto c = x <=> y;
    verif_observe(c < 0); verif_observe(c > 0);
    VASSERT((c < 0) == (X < Y) && (c > 0) == (X > Y) && (c == 0) == (X == Y), "pair<int64,uint32> three-way order equals order of hi*2^32+lo");
    VASSERT((x < y) == (X < Y) && (x == y) == (X == Y) && (x <= y) == (X <= Y) && (x > y) == (X > Y) && (x >= y) == (X >= Y), "pair relational operators equal integer order");
    VWITNESS(x.first == y.first && x.second < y.second && x.first < 0, "order decided by the low word with negative high word");
    VREACH("end");
}

// floor/ceil characterisation without division
static bool is_rounded_quotient(i128 n, int32_t d, bool round_down, int64_t q)
{
    const i128 p = (i128)q * (i128)d;
    return round_down ? (p <= n && n < p + d) : (p - d < n && n <= p);
}
// requirement "the result must fit in an int64_t":  floor: INT64_MIN*d <= n <= INT64_MAX*d + d-1   ceil: INT64_MIN*d - (d-1) <= n <= INT64_MAX*d
// (two separate assumptions: a fused unsigned range test is opaque to the integer back end)
static void assume_quotient_fits(i128 n, int32_t d, bool rd)
{
#ifdef FUSED_RANGE   // same precondition as one conjunction (the compiler turns it into a single unsigned range test); which form the integer back end digests depends on the path
    VASSUME(n >= I64MIN * d - (rd ? 0 : d - 1) && n <= I64MAX * d + (rd ? d - 1 : 0));
#else
    VASSUME(n >= I64MIN * d - (rd ? 0 : d - 1));
    VASSUME(n <= I64MAX * d + (rd ? d - 1 : 0));
#endif
}

// ---------------------------------------------------------------------------------------------------------------- Div
// (L) Div / DivFallback for every 96-bit numerator, both rounding directions, concrete divisor DC
#ifdef DC
extern "C" void h_div()
{
    const int32_t d = DC;
    const bool rd = nondet_bool();
    const std::pair<int64_t, uint32_t> nf{nondet_i64(), nondet_u32()};
    const i128 n = ((i128)nf.first << 32) + nf.second;
    assume_quotient_fits(n, d, rd);
#if WHICH == 0
    const int64_t q = FeeFrac::DivFallback(nf, d, rd);
#else
    const int64_t q = FeeFrac::Div(n, d, rd);
#endif
    verif_observe((uint64_t)q);
    VASSERT(is_rounded_quotient(n, d, rd, q), "division result is floor(n/d) when rounding down and ceil(n/d) when rounding up");
    VWITNESS(n < 0 && rd && (q * (i128)d != n || DC == 1), "negative inexact numerator rounded down");
    VWITNESS(n > 0 && !rd && (q * (i128)d != n || DC == 1), "positive inexact numerator rounded up");
    VWITNESS(n > ((i128)1 << 64) || n < -((i128)1 << 64), "numerator beyond 64 bits");
    VWITNESS(q == INT64_MAX, "largest quotient reachable");
    VWITNESS(q == INT64_MIN, "smallest quotient reachable");
    VREACH("end");
}
#endif

// (F) native Div, every n in the 96-bit domain, every d > 0: the rounding correction (and the int64/int32 truncations) relative to
// C++'s truncating 128-bit quotient/remainder: floor = trunc - [rem<0], ceil = trunc + [rem>0]
extern "C" void h_div_round()
{
    const int32_t d = sym_nonneg31();
    VASSUME(d > 0);
    const bool rd = nondet_bool();
    const i128 n = ((i128)nondet_i64() << 32) + nondet_u32();
    const i128 t = n / d, r = n % d;   // C++: t*d + r == n, |r| < d, r has the sign of n
    const i128 want = rd ? t - (r < 0) : t + (r > 0);
    VASSUME(want >= I64MIN && want <= I64MAX);   // "the result must fit in an int64_t"
    const int64_t q = FeeFrac::Div(n, d, rd);
    verif_observe((uint64_t)q);
    VASSERT((i128)q == want, "Div = truncated quotient corrected towards the requested direction");
    VWITNESS(r < 0 && rd, "negative remainder rounded down");
    VWITNESS(r > 0 && !rd, "positive remainder rounded up");
    VWITNESS(q == INT64_MIN, "smallest quotient reachable");
    VREACH("end");
}

// ---------------------------------------------------------------------------------------------------------------- EvaluateFee
#ifndef FEE_CLASS
#define FEE_CLASS 0
#endif
#ifdef ROUND_UP
#define RD false
#define EVAL(ff, at) (ff).EvaluateFeeUp(at)
#else
#define RD true
#define EVAL(ff, at) (ff).EvaluateFeeDown(at)
#endif
// (L) all fees of the class, all at_size >= 0, concrete size DC: exact floor / ceil of fee*at_size/size (128-bit product oracle)
#ifdef DC
extern "C" void h_evalfee()
{
#if FEE_CLASS == 0
    const int64_t fee = (int64_t)(nondet_u64() & 0x1ffffffffULL);   // exactly [0, 2^33); by masking so that the other class's code is not part of the query
#else
    const int64_t fee = nondet_i64();
#endif
#if FEE_CLASS == 0
#elif FEE_CLASS == 1
    VASSUME(fee >= 0x200000000LL);
#else
    VASSUME(fee < 0);
#endif
    const int32_t size = DC;
#ifdef ATC
    const int32_t at = ATC;
#else
    const int32_t at = sym_i32(0, INT32_MAX);
#endif
    const i128 n = (i128)fee * at;
    assume_quotient_fits(n, size, RD);
    const FeeFrac ff{fee, size};
    const int64_t q = EVAL(ff, at);
    verif_observe((uint64_t)q);
    VASSERT(is_rounded_quotient(n, size, RD, q), "EvaluateFee is exactly fee*at_size/size rounded in the requested direction");
    VWITNESS(at > size && (q * (i128)size != n || DC == 1), "extrapolation beyond the chunk size, inexact");
    VWITNESS(at <= size && ((q * (i128)size != n && at > 0) || DC == 1), "interpolation inside the chunk, inexact");
    VWITNESS(n > (i128)INT64_MAX || n < I64MIN, "product outside int64");
    VREACH("end");
}
#endif

// (F) outside the fast path class (fee < 0 or fee >= 2^33), every size > 0, every at_size >= 0: EvaluateFee is Div(Mul(fee, at_size), size, dir), i.e. the
// composition of the two kernels checked above (Mul exact; Div = floor/ceil for every numerator in the 96-bit domain)
extern "C" void h_evalfee_slow()
{
    const int64_t fee = nondet_i64();
    VASSUME(fee < 0 || fee >= 0x200000000LL);
    const int32_t size = sym_nonneg31(), at = sym_nonneg31();
    VASSUME(size > 0);
    const i128 n = FeeFrac::Mul(fee, at);
    const i128 t = n / size, r = n % size, want = RD ? t - (r < 0) : t + (r > 0);
    VASSUME(want >= I64MIN && want <= I64MAX);   // "the correct result fits in a int64_t"
    const FeeFrac ff{fee, size};
    const int64_t q = EVAL(ff, at);
    verif_observe((uint64_t)q);
    VASSERT(q == FeeFrac::Div(n, size, RD), "EvaluateFee outside the fast range is Div(Mul(fee, at_size), size, direction)");
    VWITNESS(fee < 0 && q < -1, "negative fee");
    VWITNESS(fee > 0 && at > size, "extrapolation beyond the chunk size");
    VWITNESS(n > (i128)UINT64_MAX, "product above 2^64");
    VREACH("end");
}

// (F) fast path class (0 <= fee < 2^33), every size > 0, every at_size >= 0, 128-bit oracle
extern "C" void h_evalfee_fast()
{
    const int64_t fee = (int64_t)(nondet_u64() & 0x1ffffffffULL);
    const int32_t size = sym_nonneg31(), at = sym_nonneg31();
    VASSUME(size > 0);
    const FeeFrac ff{fee, size};
    const int64_t q = EVAL(ff, at);
    verif_observe((uint64_t)q);
    const u128 N = (u128)(uint64_t)fee * (u128)(uint64_t)at;
    VASSERT(q >= 0, "non-negative fee evaluates to non-negative fee");
    const u128 P = (u128)(uint64_t)q * (u128)(uint64_t)size;
#ifdef ROUND_UP
    VASSERT(P >= N && P - N < (uint32_t)size, "EvaluateFeeUp is exactly ceil(fee*at_size/size)");
#else
    VASSERT(P <= N && N - P < (uint32_t)size, "EvaluateFeeDown is exactly floor(fee*at_size/size)");
#endif
    VWITNESS(at > size && P != N, "extrapolation beyond the chunk size, inexact");
    VWITNESS(at <= size && P != N && at > 0, "interpolation inside the chunk, inexact");
    VWITNESS(N > (u128)INT64_MAX, "fast path product above 2^63 (needs the unsigned 64-bit product)");
    VREACH("end");
}
