// C30: comparison operators (util/feefrac.h ByRatio / ByRatioNegSize, policy/feerate.h CFeeRate) and CFeeRate::GetFee (policy/feerate.cpp).
#include <verif.h>
#include <util/feefrac.h>
#include <policy/feerate.h>
#include <policy/feerate.cpp>   // the real CFeeRate::CFeeRate / GetFee definitions, in this TU so that the object does not live behind a pointer
#include <climits>

#ifndef SIZE
#define SIZE 1000
#endif
#ifndef FEE_CLASS
#define FEE_CLASS 0
#endif
typedef __int128 i128;
static const i128 I64MIN = -((i128)1 << 63), I64MAX = ((i128)1 << 63) - 1;
static int32_t sym_i32(int64_t lo, int64_t hi) { int32_t v = nondet_i32(); VASSUME(v >= lo && v <= hi); return v; }
static int sgn(std::strong_ordering c) { return c < 0 ? -1 : c > 0 ? 1 : 0; }

// ByRatio / ByRatioNegSize / CFeeRate comparison operators order exactly by the rational fee/size
extern "C" void h_compare()
{
#ifdef SZ
    const FeeFrac a{nondet_i64(), SZ}, b{nondet_i64(), SZ};   // equal concrete sizes: the only case where the tie-break can report equality
#else
    const FeeFrac a{nondet_i64(), nondet_i32()}, b{nondet_i64(), nondet_i32()};
#endif
    // data structure invariant (feefrac.h): sizes are non-negative, size 0 only with fee 0
    VASSUME(a.size >= 0 && b.size >= 0 && (a.size != 0 || a.fee == 0) && (b.size != 0 || b.fee == 0));
    // a.fee/a.size ? b.fee/b.size  <=>  a.fee*b.size ? b.fee*a.size (sizes positive); |products| < 2^94: exact in 128 bits
    const i128 ca = (i128)a.fee * (i128)b.size, cb = (i128)b.fee * (i128)a.size;
    const int want = ca < cb ? -1 : ca > cb ? 1 : 0;
    const ByRatio<FeeFrac> ra{a}, rb{b};
    const int c = sgn(ra <=> rb);
    verif_observe(c);
    VASSERT(c == want, "ByRatio <=> equals the exact rational comparison");
    VASSERT((ra < rb) == (want < 0) && (ra > rb) == (want > 0) && (ra <= rb) == (want <= 0) && (ra >= rb) == (want >= 0) && (ra == rb) == (want == 0),
            "ByRatio relational operators equal the exact rational comparison");
    // total order: feerate, then larger size first, empty last
    int wantn;
    if (a.size == 0 || b.size == 0) wantn = (a.size == 0 && b.size == 0) ? 0 : (a.size == 0 ? 1 : -1);
    else wantn = want != 0 ? want : (a.size > b.size ? -1 : a.size < b.size ? 1 : 0);
    const ByRatioNegSize<FeeFrac> na{a}, nb{b};
    const int cn = sgn(na <=> nb);
    verif_observe(cn);
    VASSERT(cn == wantn, "ByRatioNegSize <=> orders by feerate, ties by larger size first, empty last");
    VASSERT((na == nb) == (a.fee == b.fee && a.size == b.size), "ByRatioNegSize == is FeeFrac equality");
#ifdef SZ
    VASSERT((cn == 0) == (na == nb), "ByRatioNegSize is a total order consistent with equality");
#else
    if (a.size != b.size) VASSERT(cn != 0 && !(na == nb), "ByRatioNegSize never reports distinct sizes as equal");   // equal sizes: variants with -DSZ (needs injectivity of x -> x*size)
#endif
    VASSERT(sgn(rb <=> ra) == -c && sgn(nb <=> na) == -cn, "antisymmetry");
#ifndef SZ
    // witnesses pin most values: finding operands of a 128-bit product with a prescribed result is a factoring problem for a SAT solver
    VWITNESS(want == 0 && wantn > 0 && a.fee == -6 && a.size == 2 && b.size == 3, "equal negative feerates of distinct sizes, larger size first");
    VWITNESS(want < 0 && a.fee == ((int64_t)1 << 40) && b.size == (1 << 30) && a.size == (1 << 29), "cross product above 2^63 decides");
    VWITNESS(want > 0 && a.fee == ((int64_t)1 << 62) && b.size == 4 && b.fee == 1 && a.size == 1, "a 64-bit wrapped comparison would be wrong");
    VWITNESS(wantn > 0 && a.size == 0, "empty sorts last");
#else
    VWITNESS(cn == 0, "equal fractions");
#if SZ != 0
    VWITNESS(cn < 0 && a.fee < 0, "negative fee sorts first");
#endif
#endif
    VREACH("end");
}

// CFeeRate comparison operators (policy/feerate.h): all 64-bit fees, sizes from a concrete pair (SA, SB); 1000 is the size of every rate built from sat/kvB
#ifndef SA
#define SA 1000
#endif
#ifndef SB
#define SB 1000
#endif
extern "C" void h_compare_feerate()
{
    const int64_t fa = nondet_i64(), fb = nondet_i64();
#ifdef PER_KVB
    const CFeeRate ra{fa}, rb{fb};
#else
    const CFeeRate ra{fa, SA}, rb{fb, SB};
#endif
    const i128 ca = (i128)fa * SB, cb = (i128)fb * SA;
    const int want = ca < cb ? -1 : ca > cb ? 1 : 0;
    verif_observe(ra < rb); verif_observe(ra == rb);
    VASSERT((ra < rb) == (want < 0) && (ra == rb) == (want == 0) && (ra > rb) == (want > 0) && (ra <= rb) == (want <= 0) && (ra >= rb) == (want >= 0) && (ra != rb) == (want != 0),
            "CFeeRate comparison equals the exact rational comparison");
    const FeePerVSize sa = ra.GetFeePerVSize(), sb = rb.GetFeePerVSize();
    VASSERT(sa.fee == fa && sa.size == SA && sb.fee == fb && sb.size == SB, "CFeeRate stores the exact fraction");
    VWITNESS(want < 0 && (int64_t)((uint64_t)fa * SB) > (int64_t)((uint64_t)fb * SA), "a 64-bit wrapped comparison would be wrong");
    VWITNESS(want == 0 && fa < 0, "equal negative rates");
    VREACH("end");
}

// transitivity of the total order on three symbolic fractions would need six symbolic products; it follows from h_compare (the order is
// the order of the rationals) and is not queried separately.

static bool is_ceil(i128 n, int32_t d, int64_t q) { const i128 p = (i128)q * d; return p - d < n && n <= p; }

// CFeeRate::GetFee: non-negative rate -> exactly ceil(rate*vbytes); negative rate -> ceil, except that a result of 0 for a
// non-zero size becomes -1.  Rate = fee per SIZE vbytes, SIZE concrete (1000 for every rate built from sat/kvB)
extern "C" void h_getfee()
{
#if FEE_CLASS == 0
    const int64_t fee = (int64_t)(nondet_u64() & 0x1ffffffffULL);   // exactly [0, 2^33)
#else
    const int64_t fee = nondet_i64();
#endif
    const int32_t vb = sym_i32(0, INT32_MAX);
    const int32_t size = SIZE;
#if SIZE == 1000 && defined(PER_KVB)
    const CFeeRate rate{fee};
#else
    const CFeeRate rate{fee, size};
#endif
#if FEE_CLASS == 0
#elif FEE_CLASS == 1
    VASSUME(fee >= 0x200000000LL);
#else
    VASSUME(fee < 0);
#endif
    const i128 n = (i128)fee * vb;
#ifdef FUSED_RANGE
    if (SIZE > 0) VASSUME(n >= I64MIN * size - (size - 1) && n <= I64MAX * size);
#else
    if (SIZE > 0) { VASSUME(n >= I64MIN * size - (size - 1)); VASSUME(n <= I64MAX * size); }
#endif   // exact result representable (documented requirement)
    const CAmount got = rate.GetFee(vb);
    verif_observe((uint64_t)got);
#if SIZE <= 0
    VASSERT(got == 0, "a fee rate constructed with non-positive size is the zero rate");
#elif FEE_CLASS != 2
    VASSERT(is_ceil(n, size, got), "non-negative rate: fee is rate*vbytes rounded up to the next satoshi");
    VASSERT(got >= 0, "non-negative rate gives non-negative fee");
#else
    const bool minus_one_case = vb != 0 && n > -(i128)size && n <= 0;   // ceil(n/size) == 0 although the size is not zero
    VASSERT(!minus_one_case || got == -1, "negative rate never rounds a non-zero size to zero fee: -1");
    VASSERT(minus_one_case || is_ceil(n, size, got), "negative rate: rounded towards positive infinity");
#endif
#if SIZE > 1
#if FEE_CLASS != 2
    VWITNESS(fee > 0 && got * (i128)size != n, "inexact positive fee rounded up");
#else
    VWITNESS(got == -1 && n > -(i128)size, "negative rate -1 rule reachable");
    VWITNESS(got < -1 && got * (i128)size != n, "negative fee below -1, inexact");
#endif
#endif
    VREACH("end");
}
