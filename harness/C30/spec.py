from vlib import H
PROPERTY = 'C30'
LEVEL = 'model_checking'
CLAIM = ('draft')
SW = ['default', 'cvc5int', 'z3', 'kissat']
HARNESSES = [
    H('mulfallback', 'feefrac.cpp', 'h_mulfallback', variants=[{'ORACLE': 1}, {'ORACLE': 2}, {'ORACLE': 1, 'CHECK_NATIVE': 1}, {'ORACLE': 2, 'CHECK_NATIVE': 1}], backends=SW, unwind=34, timeout=300),
    H('pairorder', 'feefrac.cpp', 'h_pairorder', backends=['default', 'z3'], unwind=1, timeout=300),
    H('divfallback', 'feefrac.cpp', 'h_div', defines={'WHICH': 0}, backends=SW, unwind=1, timeout=300),
    H('div', 'feefrac.cpp', 'h_div', defines={'WHICH': 1}, backends=SW, unwind=1, timeout=300),
    H('evalfee', 'feefrac.cpp', 'h_evalfee', variants=[{'FEE_CLASS': c} for c in (0, 1, 2)] + [{'FEE_CLASS': c, 'ROUND_UP': 1} for c in (0, 1, 2)], backends=SW, unwind=1, timeout=300),
    H('compare', 'feefrac.cpp', 'h_compare', link=['policy/feerate.cpp'], backends=SW, unwind=1, timeout=300),
    H('getfee', 'feefrac.cpp', 'h_getfee', link=['policy/feerate.cpp'], variants=[{}, {'PER_KVB': 1}], backends=SW, unwind=1, timeout=300),
]
