from vlib import H
PROPERTY = 'C30'
LEVEL = 'model_checking'
CLAIM = ('Real inline kernels of util/feefrac.h (FeeFrac::Mul/MulFallback/Div/DivFallback/EvaluateFeeDown/Up, ByRatio, ByRatioNegSize) and policy/feerate.{h,cpp} '
         '(CFeeRate constructors, comparison, GetFee) executed symbolically against 128-bit oracles that use no division (q = floor(n/d) <=> q*d <= n < q*d+d). '
         'Two query families, because symbolic x symbolic 64/96-bit products and quotients are beyond every installed back end when code and oracle have different structure: '
         '(F) every operand symbolic at full width: MulFallback = a*b as a 96-bit value (oracle: distributive law over the exact 32-bit halves of a); pair<int64,uint32> order = integer order; '
         'EvaluateFeeDown on the fast path (0 <= fee < 2^33, all sizes, all at_size) = floor(fee*at/size) by the plain 128-bit oracle; EvaluateFee outside the fast range = Div(Mul(fee,at),size,dir); '
         'Div = truncated 128-bit quotient corrected in the requested direction; ByRatio/ByRatioNegSize operators = sign of the 128-bit cross product difference, ties by larger size, empty last. '
         '(L) divisor/multiplier from a concrete list, everything else symbolic at full width, plain 128-bit product oracle: Mul/MulFallback (multiplier list), Div/DivFallback for all 96-bit numerators whose quotient fits int64 '
         '(divisor list, includes UB-freedom), EvaluateFeeDown/Up for all fees and all at_size (size list), CFeeRate::GetFee = ceil(rate*vbytes) for non-negative rates and the -1 rule for negative rates '
         '(sat/kvB rates, i.e. size 1000, and listed sizes), CFeeRate comparisons (size pairs), ByRatioNegSize consistency with == (equal listed sizes). '
         'CompareChunks = definition of feerate-diagram comparison on concrete chunk-size tuples with symbolic 40-bit fees (harness shared with C26, which runs more shapes). '
         'NOT covered: Div/DivFallback/EvaluateFeeUp correctness against the multiplication oracle for divisors outside the lists (only the decomposition results of family F).')
SAT = ['default', 'kissat', 'cadical']
INT = ['cvc5int', 'cvc5int-di', 'cvc5int-bw']      # three configurations of cvc5 --solve-bv-as-int: they fail on different queries
MIX = ['cvc5int', 'cvc5int-bw', 'kissat', 'default']
FN_FF = ['FeeFrac::Mul', 'FeeFrac::MulFallback', 'FeeFrac::Div', 'FeeFrac::DivFallback', 'FeeFrac::EvaluateFee<true/false> (EvaluateFeeDown/Up)', 'CeilDiv (util/overflow.h)']
FN_CMP = ['ByRatio<FeeFrac> operators ==,<=>,<,>,<=,>=', 'ByRatioNegSize<FeeFrac> operators ==,<=>', 'CFeeRate::CFeeRate(CAmount,int32_t)', 'CFeeRate::CFeeRate(I)', 'CFeeRate operator<=>/==', 'CFeeRate::GetFee', 'CFeeRate::GetFeePerVSize']
NOUB = 'h_div_round / h_evalfee_slow are compiled without UBSan traps (-O2, so that the compiler identifies the oracle quotient with the one in the code); overflow-freedom of Div is part of div_list'
ASSUME_FIT = 'documented requirement of Div/EvaluateFee/GetFee: the exactly rounded result fits in int64_t (stated with 128-bit products, no division)'
INV = 'FeeFrac invariant (feefrac.h): size >= 0 and size == 0 only with fee == 0'
B_Q = (1000, -1, 0x7fffffff, -0x80000000)
B_T = B_Q + (1, 2, 3, -3, 10, 255, 256, 65535, 65536, 65537, -65537, 1000000, 4000000, 0x55555555, -0x2aaaaaab, 0x40000000)
D_Q = (1000, 3, 0x7fffffff)
D_T = D_Q + (1, 2, 7, 10, 255, 256, 65535, 65536, 65537, 100000, 1000000, 4000000, 0x40000000, 0x55555555)
S_Q = (1000,)
S_T = S_Q + (3, 1, 2, 250, 65537, 4000000, 0x7fffffff)


def ev(sizes):
    v = []
    for dc in sizes:
        for c in (0, 1, 2):
            for up in (0, 1):
                d = {'FEE_CLASS': c, 'DC': dc}
                if up: d['ROUND_UP'] = 1
                if c == 0: d['FUSED_RANGE'] = 1
                v.append(d)
    return v


def gf(sizes):
    v = [dict({'SIZE': 1000, 'PER_KVB': 1, 'FEE_CLASS': c}, **({'FUSED_RANGE': 1} if c == 0 else {})) for c in (0, 1, 2)]
    for sz in sizes:
        v += [dict({'SIZE': sz, 'FEE_CLASS': c}, **({'FUSED_RANGE': 1} if c == 0 else {})) for c in (0, 1, 2)]
    return v + [{'SIZE': 0, 'FEE_CLASS': 1}, {'SIZE': -5, 'FEE_CLASS': 2}]


CC = '_Z13CompareChunksSt4spanIK7FeeFracLm18446744073709551615EES2_'
HARNESSES = [
    H('mul_full', 'feefrac.cpp', 'h_mul', backends=SAT, unwind=1, timeout=300, functions=FN_FF,
      bounds='all int64 a, all int32 b (2^96 inputs); oracle a*b = ah*b*2^32 + al*b with exact 64-bit partial products'),
    H('mul_list', 'feefrac.cpp', 'h_mul', variants=[{'BC': b} for b in B_Q], tvariants=[{'BC': b} for b in B_T], backends=MIX, unwind=1, timeout=300, diff_runs=12,
      bounds='all int64 a; b in %s (thorough: %s); plain 128-bit product oracle for Mul and MulFallback' % (list(B_Q), list(B_T))),
    H('pairorder', 'feefrac.cpp', 'h_pairorder', backends=['default', 'kissat'], unwind=1, timeout=300, bounds='all pairs of (int64,uint32) pairs'),
    H('div_list', 'feefrac.cpp', 'h_div', variants=[{'WHICH': w, 'DC': d} for w in (0, 1) for d in D_Q], tvariants=[{'WHICH': w, 'DC': d} for w in (0, 1) for d in D_T],
      backends=INT, witness_backends=['default'], unwind=1, timeout=300, diff_runs=12, assumptions=[ASSUME_FIT],
      bounds='Div (WHICH=1) and DivFallback (WHICH=0): all 96-bit numerators (int64 hi, uint32 lo) with representable quotient, both rounding directions, divisor in %s (thorough: %s)' % (list(D_Q), list(D_T))),
    H('div_round', 'feefrac.cpp', 'h_div_round', opt='-O2', ubsan=False, backends=SAT, unwind=1, timeout=300, stubs=[NOUB], assumptions=[ASSUME_FIT],
      bounds='all 96-bit numerators, all divisors 1..2^31-1, both directions; oracle = C++ truncating 128-bit quotient/remainder plus textbook correction'),
    H('evalfee_list', 'feefrac.cpp', 'h_evalfee', variants=ev(S_Q), tvariants=ev(S_T), backends=INT, witness_backends=['default'], unwind=1, timeout=300, diff_runs=12, assumptions=[ASSUME_FIT],
      bounds='EvaluateFeeDown/Up: all int64 fees (three classes: [0,2^33), >= 2^33, < 0), all at_size 0..2^31-1, size in %s (thorough: %s)' % (list(S_Q), list(S_T))),
    H('evalfee_slow', 'feefrac.cpp', 'h_evalfee_slow', variants=[{}, {'ROUND_UP': 1}], opt='-O2', ubsan=False, backends=SAT, unwind=1, timeout=300, assumptions=[ASSUME_FIT],
      bounds='all fees outside [0,2^33), all sizes 1..2^31-1, all at_size 0..2^31-1: EvaluateFee == Div(Mul(fee,at_size),size,dir)'),
    H('evalfee_fast', 'feefrac.cpp', 'h_evalfee_fast', variants=[{}], backends=['kissat', 'cadical'], unwind=1, timeout=900, tier='thorough',
      bounds='EvaluateFeeDown: all fees in [0,2^33), all sizes 1..2^31-1, all at_size 0..2^31-1, plain 128-bit oracle (EvaluateFeeUp with symbolic size: no back end finishes; see evalfee_list)'),
    H('compare', 'feerate.cpp', 'h_compare', variants=[{}, {'SZ': 0}, {'SZ': 1}, {'SZ': 1000}, {'SZ': 0x7fffffff}], backends=MIX, unwind=1, timeout=300, functions=FN_CMP, assumptions=[INV],
      bounds='all (int64 fee, int32 size >= 0) pairs satisfying the invariant; consistency of ByRatioNegSize <=> with == for equal sizes in {0,1,1000,2^31-1}'),
    H('compare_feerate', 'feerate.cpp', 'h_compare_feerate', variants=[{'PER_KVB': 1}, {'SA': 250, 'SB': 1000}, {'SA': 1, 'SB': 0x7fffffff}, {'SA': 4000000, 'SB': 3}], backends=MIX, unwind=1, timeout=300, diff_runs=12,
      bounds='all pairs of int64 fees; sizes (1000,1000) via the sat/kvB constructor and (250,1000), (1,2^31-1), (4000000,3)'),
    H('getfee', 'feerate.cpp', 'h_getfee', variants=gf(()), tvariants=gf((1, 3, 250, 4000000, 0x7fffffff)), backends=INT, witness_backends=['default'], unwind=1, timeout=300, diff_runs=12, assumptions=[ASSUME_FIT],
      bounds='all int64 rates (three classes), all vbytes 0..2^31-1; rate per 1000 vB (sat/kvB constructor) and CFeeRate(fee,size) for size in {1,3,250,4000000,2^31-1} (thorough tier only), size <= 0 gives the zero rate'),
    H('comparechunks', 'harness/C26/chunks.cpp', 'h_comparechunks', link=['util/feefrac.cpp'], backends=['kissat', 'default', 'cadical'], unwind=5, unwindset=lambda v: '%s.1:%d' % (CC, v['N0'] + v['N1'] + 1), timeout=400, diff_runs=12,
      variants=[{'N0': 3, 'N1': 3, 'SZ0': '2,2,2', 'SZ1': '1,3,1', 'FB': 40, 'RANGE_INPUTS': 1}], functions=['CompareChunks (util/feefrac.cpp)'],
      bounds='chunk sizes (2,2,2) vs (1,3,1), fees symbolic in [-2^39,2^39); more shapes under C26'),
]
