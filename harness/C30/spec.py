from vlib import H
PROPERTY = 'C30'
LEVEL = 'model_checking'
CLAIM = ('draft')
SW = ['default', 'cvc5int', 'z3', 'kissat']
SAT = ['default', 'kissat', 'cadical']
HARNESSES = [
    H('mul_full', 'feefrac.cpp', 'h_mul', backends=SAT, unwind=1, timeout=300),
    H('mul_list', 'feefrac.cpp', 'h_mul', variants=[{'BC': b} for b in (1000, -1000, 0x7fffffff)], backends=SW, unwind=1, timeout=300),
    H('pairorder', 'feefrac.cpp', 'h_pairorder', backends=['default', 'z3'], unwind=1, timeout=300),
    H('div_list', 'feefrac.cpp', 'h_div', variants=[{'WHICH': w, 'DC': d} for w in (0, 1) for d in (1000, 0x7fffffff)], backends=SW, unwind=1, timeout=300),
    H('div_round', 'feefrac.cpp', 'h_div_round', opt='-O2', backends=SAT, unwind=1, timeout=300),
    H('evalfee_list', 'feefrac.cpp', 'h_evalfee', variants=[{'FEE_CLASS': 0, 'DC': 1000, 'FUSED_RANGE': 1}, {'FEE_CLASS': 0, 'ROUND_UP': 1, 'DC': 1000, 'FUSED_RANGE': 1}, {'FEE_CLASS': 1, 'DC': 1000}, {'FEE_CLASS': 2, 'DC': 1000}, {'FEE_CLASS': 1, 'ROUND_UP': 1, 'DC': 1000}, {'FEE_CLASS': 2, 'ROUND_UP': 1, 'DC': 1000}], backends=SW, witness_backends=['default'], unwind=1, timeout=300),
    H('evalfee_slow', 'feefrac.cpp', 'h_evalfee_slow', variants=[{}, {'ROUND_UP': 1}], opt='-O2', backends=SAT, unwind=1, timeout=300),
    H('evalfee_fast', 'feefrac.cpp', 'h_evalfee_fast', variants=[{}, {'ROUND_UP': 1}], backends=SAT, unwind=1, timeout=300),
    H('compare', 'feerate.cpp', 'h_compare', link=['policy/feerate.cpp'], variants=[{}, {'SZ': 0}, {'SZ': 1}, {'SZ': 1000}, {'SZ': 0x7fffffff}], backends=SW, unwind=1, timeout=300),
    H('compare_feerate', 'feerate.cpp', 'h_compare_feerate', link=['policy/feerate.cpp'], variants=[{'PER_KVB': 1}, {'SA': 250, 'SB': 1000}, {'SA': 1, 'SB': 0x7fffffff}, {'SA': 4000000, 'SB': 3}], backends=SW, unwind=1, timeout=300),
    H('getfee', 'feerate.cpp', 'h_getfee', link=['policy/feerate.cpp'], variants=[{'SIZE': 1000, 'PER_KVB': 1, 'FEE_CLASS': 0, 'FUSED_RANGE': 1}] + [{'SIZE': 1000, 'PER_KVB': 1, 'FEE_CLASS': c} for c in (1, 2)], backends=SW, witness_backends=['default'], unwind=1, timeout=300),
]
