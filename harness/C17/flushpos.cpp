// C17 (flat-file bookkeeping): which file and which position do BlockManager::FlushBlockFile / FlushUndoFile flush and (when finalizing)
// truncate to? Real code: node::BlockManager::FlushBlockFile, FlushUndoFile (node/blockstorage.cpp) on a phantom BlockManager whose
// m_blockfile_info is a real vector of NF CBlockFileInfo with symbolic sizes. FlatFileSeq::Flush (fsync + truncate of the real file) is a
// RECORDER. A finalizing flush truncates the file to the given position, so a wrong position destroys stored undo/block bytes.
#include <verif.h>
#include <verif_open_access.h>
#include <node/blockstorage.h>
#include <flatfile.h>
#include <verif_close_access.h>
#include <verif_stubs_common.h>
#include <verif_stubs_node.h>
#include <verif_phantom.h>

RecursiveMutex cs_main;     // kernel/cs_main.cpp (not linked)
#include <util/translation.h>
const TranslateFn G_TRANSLATION_FUN{nullptr};
using kernel::CBlockFileInfo;

struct Rec { const FlatFileSeq* seq; int file; unsigned pos; bool fin; };
static Rec g_rec[4]; static int g_calls;
bool FlatFileSeq::Flush(const FlatFilePos& pos, bool finalize) const
{
    if (g_calls < 4) { g_rec[g_calls].seq = this; g_rec[g_calls].file = pos.nFile; g_rec[g_calls].pos = pos.nPos; g_rec[g_calls].fin = finalize; }
    g_calls++;
    return true;      // I/O failure (-> notifications.flushError) is not the subject
}
static PhantomStore<node::BlockManager> bm_store;

template <int NF, int FILE_>
static void run()
{
    node::BlockManager& bm = bm_store.obj();
    new (&bm.m_blockfile_info) std::vector<CBlockFileInfo>(NF);
    unsigned size[NF], undo[NF];
    for (int f = 0; f < NF; f++) { size[f] = nondet_u32(); undo[f] = nondet_u32(); bm.m_blockfile_info[f].nSize = size[f]; bm.m_blockfile_info[f].nUndoSize = undo[f]; }
    const bool finalize = nondet_bool(), finalize_undo = nondet_bool();
    g_calls = 0;
    const bool ok = bm.FlushBlockFile(FILE_, finalize, finalize_undo);
    VASSERT(ok, "flush succeeds when the file layer succeeds");
    const bool want_undo = !finalize || finalize_undo;      // the undo file is left alone only while a finalized block file still waits for its undo data
    VASSERT(g_calls == (want_undo ? 2 : 1), "FlushBlockFile flushes the block file, and the undo file unless the block file is finalized before its undo data is complete");
    VASSERT(g_rec[0].seq == &bm.m_block_file_seq && g_rec[0].file == FILE_ && g_rec[0].pos == size[FILE_] && g_rec[0].fin == finalize, "blk file: flushed/truncated at exactly the number of block bytes stored in THAT file");
    if (want_undo) VASSERT(g_rec[1].seq == &bm.m_undo_file_seq && g_rec[1].file == FILE_ && g_rec[1].pos == undo[FILE_] && g_rec[1].fin == finalize_undo, "rev file: flushed/truncated at exactly the number of undo bytes stored in THAT file");
    g_calls = 0;
    const bool fin2 = nondet_bool();
    VASSERT(bm.FlushUndoFile(FILE_, fin2) && g_calls == 1 && g_rec[0].seq == &bm.m_undo_file_seq && g_rec[0].file == FILE_ && g_rec[0].pos == undo[FILE_] && g_rec[0].fin == fin2, "FlushUndoFile: rev file of that number at its undo size");
    verif_observe(g_calls); verif_observe(g_rec[0].pos);
    VWITNESS(size[FILE_] < undo[FILE_] && finalize_undo, "finalizing an undo file larger than its block file");
    VWITNESS(!want_undo, "block file finalized without touching the undo file");
    VREACH("end");
}
#define VERIF_ENTRY(name, ...) extern "C" void h_##name() { run<__VA_ARGS__>(); }
#include VERIF_ENTRIES_INC
