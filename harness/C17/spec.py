from vlib import H
PROPERTY = 'C17'
LEVEL = 'model_checking'
CLAIM = ('Tier-A kernel only: Obfuscation::operator() (util/obfuscation.h, the XOR layer of blk/rev files and of AutoFile/BufferedFile) equals the byte-wise reference '
         'out[i] = in[i] ^ key[(file_offset + i) mod 8] for every 8-byte key, every 64-bit file offset, every byte content, for buffer lengths 0..8 (single-word path) and 9, 24 (thorough: also 15,16,17,25) bytes at EVERY memory alignment (CBMC treats the buffer address as unknown) '
         '(covering the unaligned head, the 8-byte loop and the tail; the 64-byte unrolled loop needs >= 64 bytes and is NOT covered); hence it is an involution and position-consistent, so a record written in any chunking reads back identically '
         'in any other chunking. NOT covered: AutoFile/BufferedFile read/write plumbing (FILE* model), BlockManager::ReadRawBlock framing, ReadBlockUndo checksum, file-sequence allocation, pruning.')
FN = ['Obfuscation::Obfuscation(span)', 'Obfuscation::operator()', 'Obfuscation::SetRotations', 'Obfuscation::ToKey', 'Obfuscation::XorWord', 'Obfuscation::operator bool']
ST = ['tinyformat.h shadowed (ref/nofmt): only used by Obfuscation::Unserialize error text, not executed']
def hs(name, shapes, unwind, **kw):
    return H(name, 'obfuscation.cpp', 'h_obfuscate', variants=[{'NBYTES': n, 'MIS': m} for n, m in shapes], unwind=unwind, memunwind=16, timeout=600, objbits=10, diff_runs=16, nofmt=True,
             functions=FN, stubs=ST, bounds='(length, offset of the first byte inside an 8-aligned object) in %s; key, content and 64-bit file offset symbolic' % (shapes,), **kw)
HARNESSES = [
    hs('obfuscate', [(0, 0), (5, 0), (8, 0)], 12, tvariants=[{'NBYTES': n, 'MIS': 0} for n in range(0, 9)]),
    hs('obfuscate_mid', [(9, 1), (24, 5)], 30, tvariants=[{'NBYTES': n, 'MIS': m} for n, m in ((9, 1), (15, 2), (16, 0), (17, 7), (24, 5), (25, 3))]),
]
