from vlib import H
PROPERTY = 'C17'
LEVEL = 'model_checking'
CLAIM = ('(1) Obfuscation::operator() (util/obfuscation.h, the XOR layer of blk/rev files and of AutoFile/BufferedFile) equals the byte-wise reference '
         'out[i] = in[i] ^ key[(file_offset + i) mod 8] for every 8-byte key, every 64-bit file offset, every byte content, for buffer lengths 0..8 (single-word path) and 9, 24 (thorough: also 15,16,17,25) bytes at EVERY memory alignment (CBMC treats the buffer address as unknown) '
         '(covering the unaligned head, the 8-byte loop and the tail; the 64-byte unrolled loop needs >= 64 bytes and is NOT covered); hence it is an involution and position-consistent, so a record written in any chunking reads back identically '
         'in any other chunking. (2) harness flushpos: the real BlockManager::FlushBlockFile / FlushUndoFile flush - and, when finalizing, truncate - the blk file at exactly nSize and the rev file at exactly nUndoSize of the SAME file number (a wrong position destroys stored bytes), for all sizes and flag combinations. '
         'NOT covered: AutoFile/BufferedFile read/write plumbing (FILE* model), BlockManager::ReadRawBlock framing, ReadBlockUndo checksum, FindNextBlockPos/FindUndoPos allocation, pruning.')
FN = ['Obfuscation::Obfuscation(span)', 'Obfuscation::operator()', 'Obfuscation::SetRotations', 'Obfuscation::ToKey', 'Obfuscation::XorWord', 'Obfuscation::operator bool']
ST = ['tinyformat.h shadowed (ref/nofmt): only used by Obfuscation::Unserialize error text, not executed']
def hs(name, shapes, unwind, **kw):
    return H(name, 'obfuscation.cpp', 'h_obfuscate', variants=[{'NBYTES': n, 'MIS': m} for n, m in shapes], unwind=unwind, memunwind=16, timeout=600, objbits=10, diff_runs=16, nofmt=True,
             functions=FN, stubs=ST, bounds='(length, offset of the first byte inside an 8-aligned object) in %s; key, content and 64-bit file offset symbolic' % (shapes,), **kw)
HARNESSES = [
    hs('obfuscate', [(0, 0), (5, 0), (8, 0)], 12, tvariants=[{'NBYTES': n, 'MIS': 0} for n in range(0, 9)]),
    hs('obfuscate_mid', [(9, 1), (24, 5)], 30, tvariants=[{'NBYTES': n, 'MIS': m} for n, m in ((9, 1), (15, 2), (16, 0), (17, 7), (24, 5), (25, 3))]),
    H('flushpos', 'flushpos.cpp', 'h_flushpos', link=['node/blockstorage.cpp'], entries=[('nf1_f0', '1, 0'), ('nf3_f1', '3, 1'), ('nf3_f2', '3, 2')], shadow=['nofmt'], unwind=8, memunwind=168, timeout=300, objbits=10,
      functions=['node::BlockManager::FlushBlockFile', 'node::BlockManager::FlushUndoFile (node/blockstorage.cpp)', 'std::vector<CBlockFileInfo>'],
      stubs=['FlatFileSeq::Flush -> recorder returning success (real one: fopen + truncate/fsync)', 'phantom BlockManager: only m_blockfile_info is constructed', 'logging sinks dropped', 'tinyformat -> empty strings', 'assertion_fail -> CBMC assertion'],
      assumptions=['the file layer reports success (the flushError notification path is not exercised)'],
      bounds='block-file tables of 1 and 3 files, flushed file number concrete per entry; all sizes (32-bit), finalize flags symbolic'),
]
