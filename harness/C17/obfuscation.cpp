// C17 kernel (tier A): Obfuscation::operator() (src/util/obfuscation.h) - the XOR layer applied to every block/undo byte written to and
// read from disk. Reference (documented behaviour): byte i of the target is XORed with key byte (key_offset + i) mod 8; consequently the
// operation is an involution and position-consistent (a record may be processed in arbitrary chunks, each at its own file offset).
#include <verif.h>
#include <cstring>
#include <cassert>
#include <vector>
#include <util/obfuscation.h>
#include <span>
#include <cstddef>

#ifndef NBYTES
#define NBYTES 24       // number of bytes processed
#endif
#ifndef MIS
#define MIS 0      // misalignment of the first byte relative to an 8-byte boundary
#endif

extern "C" void h_obfuscate()
{
    alignas(8) std::byte buf[NBYTES + MIS + 8];
    uint8_t key[8], in[NBYTES + 1];
    for (int i = 0; i < 8; i++) key[i] = nondet_u8();
    for (int i = 0; i < NBYTES; i++) { in[i] = nondet_u8(); buf[MIS + i] = (std::byte)in[i]; }
    const uint64_t off = nondet_u64();                       // file position of the first byte (all 2^64 values)
    const Obfuscation ob{std::span<const std::byte, 8>(reinterpret_cast<const std::byte*>(key), 8)};
    bool zero = true; for (int i = 0; i < 8; i++) zero = zero && key[i] == 0;
    VASSERT((bool)ob == !zero, "an all-zero key means: no obfuscation");
    ob(std::span<std::byte>(buf + MIS, (size_t)NBYTES), (size_t)off);
    bool same = true;
    for (int i = 0; i < NBYTES; i++) same = same && (uint8_t)buf[MIS + i] == (uint8_t)(in[i] ^ key[((off % 8) + (uint64_t)i) % 8]);
    verif_observe(same);
    VASSERT(same, "byte i is XORed with key byte (offset + i) mod 8");
    // reading back at the same position restores the plaintext (involution)
    ob(std::span<std::byte>(buf + MIS, (size_t)NBYTES), (size_t)off);
    bool back = true;
    for (int i = 0; i < NBYTES; i++) back = back && (uint8_t)buf[MIS + i] == in[i];
    verif_observe(back);
    VASSERT(back, "applying the obfuscation twice at the same offset is the identity");
#if NBYTES >= 2
    VWITNESS(!zero && off % 8 == 5 && key[5] != key[6], "unaligned file offset with a non-trivial key");
#endif
    VREACH("end");
}
