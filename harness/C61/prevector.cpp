// C61 (1): the REAL prevector<N,T> (src/prevector.h) against a fixed-capacity array model.
// One entry = one concrete operation sequence: initial size S0 (range constructor from symbolic values) followed by <= 4 (thorough: <= 6)
// operations whose KIND and element COUNT are concrete (sizes decide direct/indirect storage and are the "shape"), while every element
// value and every position is symbolic. After every operation the container is compared with the model: size/empty, every element
// through operator[], iterators and data(), front/back, iterator distance, returned iterators, and the capacity / allocated_memory()
// accounting contract (see cap_* below). The model is a plain array + length; its operations are written from the std::vector contract.
#include <verif.h>
#include <algorithm>
#include <cassert>
#include <cstddef>
#include <cstdint>
#include <cstdlib>
#include <cstring>
#include <iterator>
#include <new>
#include <ranges>
#include <type_traits>
#include <utility>
// the harness reads/pins the raw _size field (see pin() below): open the class for this TU only (layout is unaffected; all standard headers
// used by prevector.h are included above so that the macro touches nothing else)
#define private public
#include <prevector.h>
#undef private

enum { K_NONE = 0, K_PUSH, K_POP, K_INS1, K_INSN, K_INSR, K_ERASE1, K_ERASER, K_RESIZE, K_RESIZEU, K_ASSIGN, K_ASSIGNR, K_RESERVE, K_SHRINK, K_CLEAR,
       K_SWAP, K_COPYCTOR, K_MOVE, K_COPYASG, K_MOVEASG, K_SETAT, K_CMP, K_EMPLACE };

template <class T> static inline T draw();
template <> inline uint8_t draw<uint8_t>() { return nondet_u8(); }
template <> inline uint32_t draw<uint32_t>() { return nondet_u32(); }
template <> inline uint16_t draw<uint16_t>() { return nondet_u16(); }

template <class PV, int CAP>
struct Drv {
    typedef typename PV::value_type T;
    static constexpr unsigned NS = PV::STATIC_SIZE;
    // ---- the model
    T a[CAP]; unsigned n = 0; bool heap = false;   // heap: the contents live in allocated storage (capacity > N)
    // ---- verdict accumulators (one assertion per kind at the end keeps the number of solver goals small)
    bool ok_size = true, ok_elem = true, ok_fb = true, ok_iter = true, ok_ret = true, ok_cap = true, ok_mem = true, ok_other = true, ok_stable = true, ok_cmp = true, ok_bound = true, ok_rep = true;

    // NOTE: no array is indexed with a symbolic expression here: a (compiler-inserted) bounds-check trap on a symbolic index is an early
    // function exit that symex cannot discard, and the state merged from it would undo the pin() below.
    void m_insert(unsigned pos, unsigned c, const T* vals)
    {
        if (n + c > CAP) { ok_bound = false; return; }
        T b[CAP];
        for (int i = 0; i < CAP; i++) b[i] = a[i];
        for (int i = 0; i < CAP; i++) {
            if ((unsigned)i >= pos + c && (unsigned)i < n + c && (unsigned)i >= c) a[i] = b[(unsigned)i - c];
            for (int j = 0; j < CAP; j++) if ((unsigned)j < c && (unsigned)i == pos + (unsigned)j) a[i] = vals[j];
        }
        n += c;
    }
    void m_erase(unsigned pos, unsigned c)
    {
        T b[CAP];
        for (int i = 0; i < CAP; i++) b[i] = a[i];
        for (int i = 0; i < CAP; i++) if ((unsigned)i >= pos && (unsigned)i + c < n && (unsigned)i + c < CAP) a[i] = b[(unsigned)i + c];
        n -= c;
    }

    // contents of `v` equal (arr, len)
    void same(PV& v, const T* arr, unsigned len)
    {
        if (v.size() != len) ok_size = false;
        if (v.empty() != (len == 0)) ok_size = false;
        const PV& cv = v;
        if (cv.size() != len) ok_size = false;
        for (int i = 0; i < CAP; i++) if ((unsigned)i < len) {
            if (v[i] != arr[i]) ok_elem = false;
            if (cv[i] != arr[i]) ok_elem = false;
            if (*(v.begin() + i) != arr[i]) ok_iter = false;
            if (cv.begin()[i] != arr[i]) ok_iter = false;
            if (v.data()[i] != arr[i]) ok_iter = false;
        }
        if (len > 0) {
            if (v.front() != arr[0] || cv.front() != arr[0]) ok_fb = false;
            if (v.back() != arr[len - 1] || cv.back() != arr[len - 1]) ok_fb = false;
            if (*(v.end() - 1) != arr[len - 1]) ok_fb = false;
        }
        if ((unsigned)(v.end() - v.begin()) != len || (unsigned)(cv.end() - cv.begin()) != len) ok_iter = false;
        // memory accounting invariant: inline storage <=> capacity N and nothing allocated; otherwise exactly capacity*sizeof(T) bytes
        const size_t cap = v.capacity();
        if (cap < len || cap < NS) ok_cap = false;
        if (v.allocated_memory() != (cap > NS ? cap * sizeof(T) : 0)) ok_mem = false;
    }
    void check(PV& v) { same(v, a, n); }

    void fresh(PV& w, T* arr, unsigned c) { for (unsigned i = 0; i < c; i++) arr[i] = draw<T>(); w.assign(arr, arr + c); same(w, arr, c); }

    // position operand: symbolic in [0,hi] when P < 0, else the concrete P (must be <= hi)
    template <int P> unsigned draw_pos(unsigned hi) { if constexpr (P < 0) return (unsigned)nondet_range(0, hi); if ((unsigned)P > hi) ok_bound = false; return (unsigned)P <= hi ? (unsigned)P : hi; }

    // "assert-then-pin": a write through a symbolic position into the INLINE storage makes CBMC lose the constant value of the adjacent
    // _size field (the whole object is updated byte-wise). After every operation the raw _size field is ASSERTED to be exactly what the
    // representation demands for the model (size n, storage kind `heap`: n inline, n + N + 1 on the heap) and this very constant is stored
    // back. The store is a no-op whenever the assertion holds, and it restores a concrete size for the operations that follow.
    void pin(PV& v)
    {
        const unsigned want = heap ? n + NS + 1 : n;
        if (v._size != want) ok_rep = false;
        v._size = want;
    }

    enum Mode { M_GROW, M_KEEP, M_SHRINK, M_TAKEN };
    template <int kind, unsigned c, int P>
    void step(PV& v)
    {
        if constexpr (kind == K_NONE) return;
        const size_t cap0 = v.capacity();
        const T* data0 = v.data();
        const bool heap0 = heap;
        T vals[CAP];
        Mode mode = M_KEEP; unsigned need = 0; size_t taken_cap = 0; bool taken_heap = false;
        if constexpr (kind == K_PUSH) { vals[0] = draw<T>(); v.push_back(vals[0]); m_insert(n, 1, vals); mode = M_GROW; need = n; }
        if constexpr (kind == K_EMPLACE) { vals[0] = draw<T>(); v.emplace_back(vals[0]); m_insert(n, 1, vals); mode = M_GROW; need = n; }
        if constexpr (kind == K_POP) { if (n == 0) { ok_bound = false; return; } v.pop_back(); m_erase(n - 1, 1); }
        if constexpr (kind == K_INS1) {
            const unsigned pos = draw_pos<P>(n); vals[0] = draw<T>();
            typename PV::iterator it = v.insert(v.begin() + pos, vals[0]);
            m_insert(pos, 1, vals); mode = M_GROW; need = n;
            heap = heap0 || need > cap0; pin(v);
            if ((unsigned)(it - v.begin()) != pos || *it != vals[0]) ok_ret = false;
            if constexpr (P < 0) { VWITNESS(pos == 0, "insert at the front"); VWITNESS(pos == n - 1, "insert at the back (n is the new size)"); }
        }
        if constexpr (kind == K_INSN) {
            const unsigned pos = draw_pos<P>(n); const T x = draw<T>();
            for (unsigned i = 0; i < c; i++) vals[i] = x;
            v.insert(v.begin() + pos, c, x);
            m_insert(pos, c, vals); mode = M_GROW; need = n;
        }
        if constexpr (kind == K_INSR) {
            const unsigned pos = draw_pos<P>(n);
            for (unsigned i = 0; i < c; i++) vals[i] = draw<T>();
            v.insert(v.begin() + pos, (const T*)vals, (const T*)vals + c);
            m_insert(pos, c, vals); mode = M_GROW; need = n;
            if constexpr (P < 0) VWITNESS(pos == n - c, "range appended");
        }
        if constexpr (kind == K_ERASE1) {
            if (n == 0) { ok_bound = false; return; }
            const unsigned pos = draw_pos<P>(n - 1);
            typename PV::iterator it = v.erase(v.begin() + pos);
            m_erase(pos, 1); pin(v);
            if ((unsigned)(it - v.begin()) != pos) ok_ret = false;
        }
        if constexpr (kind == K_ERASER) {
            if (n < c) { ok_bound = false; return; }
            const unsigned pos = draw_pos<P>(n - c);
            typename PV::iterator it = v.erase(v.begin() + pos, v.begin() + pos + c);
            m_erase(pos, c); pin(v);
            if ((unsigned)(it - v.begin()) != pos) ok_ret = false;
            if constexpr (P < 0) VWITNESS(pos == n, "tail range erased");
        }
        if constexpr (kind == K_RESIZE) {
            v.resize(c);
            if (c <= n) m_erase(c, n - c);
            else { const unsigned add = c - n; for (unsigned i = 0; i < add; i++) vals[i] = T{}; m_insert(n, add, vals); mode = M_GROW; need = n; }
        }
        if constexpr (kind == K_RESIZEU) {
            const unsigned old = n;
            v.resize_uninitialized(c);
            if (c <= n) m_erase(c, n - c);
            else {   // contract: the caller initialises the new tail
                const unsigned add = c - n; for (unsigned i = 0; i < add; i++) vals[i] = draw<T>();
                m_insert(n, add, vals); mode = M_GROW; need = n;
                if (v.size() == c) for (unsigned i = 0; i < add; i++) v[old + i] = vals[i];
            }
        }
        if constexpr (kind == K_ASSIGN) {
            const T x = draw<T>(); for (unsigned i = 0; i < c; i++) vals[i] = x;
            v.assign(c, x);
            m_erase(0, n); m_insert(0, c, vals); mode = M_GROW; need = n;
        }
        if constexpr (kind == K_ASSIGNR) {
            for (unsigned i = 0; i < c; i++) vals[i] = draw<T>();
            v.assign((const T*)vals, (const T*)vals + c);
            m_erase(0, n); m_insert(0, c, vals); mode = M_GROW; need = n;
        }
        if constexpr (kind == K_RESERVE) { v.reserve(c); mode = M_GROW; need = c; }
        if constexpr (kind == K_SHRINK) { v.shrink_to_fit(); mode = M_SHRINK; }
        if constexpr (kind == K_CLEAR) { v.clear(); m_erase(0, n); }
        if constexpr (kind == K_SETAT) {
            if (n == 0) { ok_bound = false; return; }
            const unsigned pos = draw_pos<P>(n - 1); const T x = draw<T>();
            v[pos] = x;
            for (int i = 0; i < CAP; i++) if ((unsigned)i == pos) a[i] = x;
        }
        if constexpr (kind == K_SWAP) {
            PV w; fresh(w, vals, c);
            taken_cap = w.capacity(); taken_heap = c > NS; mode = M_TAKEN;
            v.swap(w);
            same(w, a, n);                       // w now holds the old contents of v ...
            if (w.capacity() != cap0) ok_cap = false;   // ... and the capacity travels with the contents
            m_erase(0, n); m_insert(0, c, vals);
        }
        if constexpr (kind == K_COPYCTOR) {
            PV w(v);
            same(w, a, n);
            if (n > 0 && w.data() == v.data()) ok_other = false;   // deep copy
            if (n > 0) { w[0] = (T)(w[0] + 1); if (v[0] != a[0]) ok_other = false; }
        }
        if constexpr (kind == K_MOVE) {
            PV w(std::move(v));
            same(w, a, n);
            if (w.capacity() != cap0) ok_cap = false;
            if (v.size() != 0 || !v.empty() || v.capacity() != NS) ok_other = false;   // moved-from prevector is empty and inline
            v = std::move(w);
            if (w.size() != 0 || w.capacity() != NS) ok_other = false;
        }
        if constexpr (kind == K_COPYASG) {
            PV w; fresh(w, vals, c);
            v = w;
            same(w, vals, c);
            m_erase(0, n); m_insert(0, c, vals); mode = M_GROW; need = n;
            PV& self = v; v = self;              // self-assignment is a no-op
        }
        if constexpr (kind == K_MOVEASG) {
            PV w; fresh(w, vals, c);
            taken_cap = w.capacity(); taken_heap = c > NS; mode = M_TAKEN;
            v = std::move(w);
            if (w.size() != 0 || w.capacity() != NS) ok_other = false;
            m_erase(0, n); m_insert(0, c, vals);
        }
        if constexpr (kind == K_CMP) {
            // shortlex order of prevector (size first, then element-wise), == is element-wise equality
            PV w; fresh(w, vals, c);
            bool eq = (c == n), lt = (n < c), decided = (c != n);
            for (int i = 0; i < CAP; i++) if ((unsigned)i < n && (unsigned)i < c) {
                if (a[i] != vals[i]) eq = false;
                if (!decided && a[i] != vals[i]) { decided = true; lt = a[i] < vals[i]; }
            }
            const bool r_eq = (v == w), r_lt = (v < w), r_gt = (w < v);
            verif_observe(r_eq); verif_observe(r_lt);
            if (r_eq != eq || r_lt != lt || r_gt != (!eq && !lt)) ok_cmp = false;
            if (!(v == v) || (v < v)) ok_cmp = false;
            VWITNESS(r_eq || r_lt != r_gt, "comparison yields a definite order");
        }
        // storage kind demanded by the contract: growth beyond the capacity moves to the heap, only shrink_to_fit moves back inline
        if (mode == M_GROW) heap = heap0 || need > cap0;
        if (mode == M_SHRINK) heap = n > NS;
        if (mode == M_TAKEN) heap = taken_heap;
        pin(v);
        // capacity contract
        if (mode == M_GROW) {   // no reallocation when the elements fit (incl. exact fits), enough room otherwise
            if (need <= cap0) { if (v.capacity() != cap0) ok_cap = false; if (v.data() != data0) ok_stable = false; }
            else if (v.capacity() < need) ok_cap = false;
        }
        if (mode == M_KEEP) { if (v.capacity() != cap0) ok_cap = false; if (v.data() != data0) ok_stable = false; }   // erase family etc.: documented not to change the capacity
        if (mode == M_SHRINK) { if (v.capacity() != (n > NS ? n : NS)) ok_cap = false; }   // documented: back to inline storage when the contents fit
        if (mode == M_TAKEN) { if (v.capacity() != taken_cap) ok_cap = false; }
        check(v);
    }
};

template <int PVK> struct Sel;
template <> struct Sel<0> { typedef prevector<4, uint32_t> PV; static constexpr int CAP = 14; };
template <> struct Sel<1> { typedef prevector<36, uint8_t> PV; static constexpr int CAP = 64; };

template <int PVK, int S0, int K1, int C1, int P1, int K2, int C2, int P2, int K3, int C3, int P3, int K4, int C4, int P4, int K5, int C5, int P5, int K6, int C6, int P6>
static void run()
{
    typedef typename Sel<PVK>::PV PV;
    typedef typename PV::value_type T;
    Drv<PV, Sel<PVK>::CAP> d;
    T init[Sel<PVK>::CAP];
    for (int i = 0; i < Sel<PVK>::CAP; i++) { init[i] = 0; d.a[i] = 0; }
    for (int i = 0; i < S0; i++) { init[i] = draw<T>(); d.a[i] = init[i]; }
    d.n = S0; d.heap = S0 > (int)PV::STATIC_SIZE;
    PV v((const T*)init, (const T*)init + S0);
    d.pin(v); d.check(v);
    d.template step<K1, C1, P1>(v); d.template step<K2, C2, P2>(v); d.template step<K3, C3, P3>(v); d.template step<K4, C4, P4>(v); d.template step<K5, C5, P5>(v); d.template step<K6, C6, P6>(v);
    verif_observe(v.size()); verif_observe(v.capacity());
    for (int i = 0; i < Sel<PVK>::CAP; i++) if ((unsigned)i < v.size() && (unsigned)i < d.n) verif_observe((uint64_t)v[i]);
    VASSERT(d.ok_bound, "harness: the sequence stays inside the model capacity and only pops/erases existing elements");
    VASSERT(d.ok_rep, "representation: the size field encodes the model size and the storage kind demanded by the contract (inline until the capacity is exceeded, back inline only by shrink_to_fit)");
    VASSERT(d.ok_size, "size()/empty() equal the model after every operation");
    VASSERT(d.ok_elem, "every element (operator[], const and non-const) equals the model after every operation");
    VASSERT(d.ok_iter, "begin()+i, data()[i] and end()-begin() agree with the model after every operation");
    VASSERT(d.ok_fb, "front()/back() equal the first/last model element");
    VASSERT(d.ok_ret, "insert/erase return an iterator to the inserted element / the element after the erased range");
    VASSERT(d.ok_cap, "capacity contract: >= max(N,size); unchanged by erase/pop/clear/shrinking resize and by growth that fits; reserve/shrink_to_fit exact; travels with swap/move");
    VASSERT(d.ok_stable, "no reallocation (data() unchanged) when the new size fits the capacity");
    VASSERT(d.ok_mem, "allocated_memory() is 0 for inline storage and capacity*sizeof(T) otherwise");
    VASSERT(d.ok_other, "copies are deep, moved-from containers are empty and inline");
    VASSERT(d.ok_cmp, "operator== is element-wise equality and operator< the shortlex order");
    VREACH("end");
}
#define VERIF_ENTRY(name, ...) extern "C" void h_##name() { run<__VA_ARGS__>(); }
#include VERIF_ENTRIES_INC
