// C61 (2): the REAL bitdeque<BITS_PER_WORD> (src/util/bitdeque.h over libstdc++ std::deque<std::bitset<B>>) with a small blob size
// (B = 8 and B = 3 bits per word, so that a handful of bits already spans several words) against a fixed-capacity bool array model
// written from the std::deque<bool> contract. One entry = initial size S0 (range constructor from symbolic bits) and <= 6 operations of
// concrete kind / count / position; every bit value is symbolic. After every operation: size/empty, every bit via operator[], at(),
// iterator arithmetic (begin()+i, begin()[i]), a full forward ++ walk and backward -- walk, end()-begin(), reverse iterators,
// front/back, at(size()) throws, and the representation invariants (pad_begin/pad_end in range, consistent with size()).
#include <verif.h>
#include <util/bitdeque.h>
#include <stdexcept>
#include <utility>

#define BCAP 40
enum { K_NONE = 0, K_PUSHB, K_PUSHF, K_EMPB, K_EMPF, K_POPB, K_POPF, K_RESIZE, K_ASSIGN, K_ASSIGNR, K_INS1, K_INSN, K_INSR, K_ERASE1, K_ERASER, K_CLEAR, K_SWAP, K_COPY, K_MOVE, K_SETAT, K_FLIPAT, K_ASSIGNIL };

// private members (explicit instantiation ignores access control)
template <class BD, int BD::*PB, int BD::*PE> struct RobPads { friend int pad_begin_of(const BD& b) { return b.*PB; } friend int pad_end_of(const BD& b) { return b.*PE; } };
template struct RobPads<bitdeque<8>, &bitdeque<8>::m_pad_begin, &bitdeque<8>::m_pad_end>;
template struct RobPads<bitdeque<3>, &bitdeque<3>::m_pad_begin, &bitdeque<3>::m_pad_end>;
int pad_begin_of(const bitdeque<8>&); int pad_end_of(const bitdeque<8>&);
int pad_begin_of(const bitdeque<3>&); int pad_end_of(const bitdeque<3>&);

template <int B>
struct Drv {
    typedef bitdeque<B> BD;
    bool a[BCAP]; unsigned n = 0;
    bool ok_size = true, ok_elem = true, ok_iter = true, ok_walk = true, ok_fb = true, ok_ret = true, ok_at = true, ok_rep = true, ok_other = true, ok_bound = true;

    void m_insert(unsigned pos, unsigned c, const bool* vals)
    {
        if (n + c > BCAP || pos > n) { ok_bound = false; return; }
        bool b[BCAP];
        for (int i = 0; i < BCAP; i++) b[i] = a[i];
        for (int i = 0; i < BCAP; i++) {
            if ((unsigned)i >= pos && (unsigned)i < pos + c) a[i] = vals[(unsigned)i - pos];
            else if ((unsigned)i >= pos + c && (unsigned)i < n + c) a[i] = b[(unsigned)i - c];
        }
        n += c;
    }
    void m_erase(unsigned pos, unsigned c)
    {
        if (pos + c > n) { ok_bound = false; return; }
        bool b[BCAP];
        for (int i = 0; i < BCAP; i++) b[i] = a[i];
        for (int i = 0; i < BCAP; i++) if ((unsigned)i >= pos && (unsigned)i + c < n) a[i] = b[(unsigned)i + c];
        n -= c;
    }

    // complete content comparison; `full` adds the redundant access paths (iterator arithmetic, walks, at(), non-const accessors)
    void same(BD& v, const bool* arr, unsigned len, bool full = true)
    {
        const BD& cv = v;
        if (v.size() != len || v.empty() != (len == 0)) ok_size = false;
        if (v.size() != len) return;
        const int pb = pad_begin_of(cv), pe = pad_end_of(cv);
        if (pb < 0 || pb >= B || pe < 0 || pe >= B) ok_rep = false;
        if (!full) {
            for (int i = 0; i < BCAP; i++) if ((unsigned)i < len) { if (cv[i] != arr[i]) ok_elem = false; }
            if (len > 0 && (cv.front() != arr[0] || cv.back() != arr[len - 1])) ok_fb = false;
            return;
        }
        for (int i = 0; i < BCAP; i++) if ((unsigned)i < len) {
            if ((bool)v[i] != arr[i] || cv[i] != arr[i]) ok_elem = false;
            if ((bool)*(v.begin() + i) != arr[i] || cv.begin()[i] != arr[i] || *(cv.cend() - (std::ptrdiff_t)(len - i)) != arr[i]) ok_iter = false;
            if ((cv.cbegin() + i) - cv.cbegin() != i) ok_iter = false;
        }
        if (v.end() - v.begin() != (std::ptrdiff_t)len || cv.cend() - cv.cbegin() != (std::ptrdiff_t)len) ok_iter = false;
        if (!(cv.cbegin() + len == cv.cend()) || (len > 0 && !(cv.cbegin() < cv.cend()))) ok_iter = false;
        {   // forward walk with ++, backward walk with --
            typename BD::const_iterator it = cv.cbegin();
            for (int i = 0; i < BCAP; i++) if ((unsigned)i < len) { if (it == cv.cend() || *it != arr[i]) ok_walk = false; ++it; }
            if (!(it == cv.cend())) ok_walk = false;
            for (int i = BCAP - 1; i >= 0; i--) if ((unsigned)i < len) { --it; if (*it != arr[i]) ok_walk = false; }
            if (!(it == cv.cbegin())) ok_walk = false;
            typename BD::const_reverse_iterator rit = cv.crbegin();
            if (len > 0 && *rit != arr[len - 1]) ok_walk = false;
        }
        if (len > 0) {
            if ((bool)v.front() != arr[0] || cv.front() != arr[0]) ok_fb = false;
            if ((bool)v.back() != arr[len - 1] || cv.back() != arr[len - 1]) ok_fb = false;
        }
        // bounds-checked access
        bool threw = false;
        try { (void)cv.at(len); } catch (const std::out_of_range&) { threw = true; }
        if (!threw) ok_at = false;
        if (len > 0) { threw = false; bool x = false; try { x = cv.at(len - 1); } catch (const std::out_of_range&) { threw = true; } if (threw || x != arr[len - 1]) ok_at = false; }
    }
    void check(BD& v, bool full = false) { same(v, a, n, full); }
    void fresh(BD& w, bool* arr, unsigned c) { for (unsigned i = 0; i < c; i++) arr[i] = nondet_bool(); w.assign((const bool*)arr, (const bool*)arr + c); same(w, arr, c, false); }

    template <int kind, unsigned c, unsigned pos>
    void step(BD& v)
    {
        if constexpr (kind == K_NONE) return;
        bool vals[BCAP];
        if constexpr (kind == K_PUSHB) { vals[0] = nondet_bool(); v.push_back(vals[0]); m_insert(n, 1, vals); }
        if constexpr (kind == K_PUSHF) { vals[0] = nondet_bool(); v.push_front(vals[0]); m_insert(0, 1, vals); }
        if constexpr (kind == K_EMPB) { vals[0] = nondet_bool(); typename BD::reference r = v.emplace_back(vals[0]); if ((bool)r != vals[0]) ok_ret = false; m_insert(n, 1, vals); }
        if constexpr (kind == K_EMPF) { vals[0] = nondet_bool(); typename BD::reference r = v.emplace_front(vals[0]); if ((bool)r != vals[0]) ok_ret = false; m_insert(0, 1, vals); }
        if constexpr (kind == K_POPB) { if (n == 0) { ok_bound = false; return; } v.pop_back(); m_erase(n - 1, 1); }
        if constexpr (kind == K_POPF) { if (n == 0) { ok_bound = false; return; } v.pop_front(); m_erase(0, 1); }
        if constexpr (kind == K_RESIZE) {
            v.resize(c);
            if (c <= n) m_erase(c, n - c);
            else { const unsigned add = c - n; for (unsigned i = 0; i < add; i++) vals[i] = false; m_insert(n, add, vals); }   // new elements are false
        }
        if constexpr (kind == K_ASSIGN) { const bool x = nondet_bool(); for (unsigned i = 0; i < c; i++) vals[i] = x; v.assign((size_t)c, x); m_erase(0, n); m_insert(0, c, vals); }
        if constexpr (kind == K_ASSIGNR) { for (unsigned i = 0; i < c; i++) vals[i] = nondet_bool(); v.assign((const bool*)vals, (const bool*)vals + c); m_erase(0, n); m_insert(0, c, vals); }
        if constexpr (kind == K_ASSIGNIL) { vals[0] = nondet_bool(); vals[1] = nondet_bool(); vals[2] = nondet_bool(); v = {vals[0], vals[1], vals[2]}; m_erase(0, n); m_insert(0, 3, vals); }
        if constexpr (kind == K_INS1) {
            vals[0] = nondet_bool();
            typename BD::iterator it = (c == 0) ? v.insert(v.cbegin() + pos, vals[0]) : v.emplace(v.cbegin() + pos, vals[0]);
            m_insert(pos, 1, vals);
            if (it - v.begin() != (std::ptrdiff_t)pos || (bool)*it != vals[0]) ok_ret = false;
        }
        if constexpr (kind == K_INSN) {
            const bool x = nondet_bool(); for (unsigned i = 0; i < c; i++) vals[i] = x;
            typename BD::iterator it = v.insert(v.cbegin() + pos, (size_t)c, x);
            m_insert(pos, c, vals);
            if (it - v.begin() != (std::ptrdiff_t)pos) ok_ret = false;
        }
        if constexpr (kind == K_INSR) {
            for (unsigned i = 0; i < c; i++) vals[i] = nondet_bool();
            typename BD::iterator it = v.insert(v.cbegin() + pos, (const bool*)vals, (const bool*)vals + c);
            m_insert(pos, c, vals);
            if (it - v.begin() != (std::ptrdiff_t)pos) ok_ret = false;
        }
        if constexpr (kind == K_ERASE1) {
            typename BD::iterator it = (c == 0) ? v.erase(v.cbegin() + pos) : v.erase(v.begin() + pos);
            m_erase(pos, 1);
            if (it - v.begin() != (std::ptrdiff_t)pos) ok_ret = false;
        }
        if constexpr (kind == K_ERASER) {
            typename BD::iterator it = v.erase(v.cbegin() + pos, v.cbegin() + pos + c);
            m_erase(pos, c);
            if (it - v.begin() != (std::ptrdiff_t)pos) ok_ret = false;
        }
        if constexpr (kind == K_CLEAR) { v.clear(); m_erase(0, n); }
        if constexpr (kind == K_SETAT) { if (pos >= n) { ok_bound = false; return; } const bool x = nondet_bool(); v[pos] = x; a[pos] = x; }
        if constexpr (kind == K_FLIPAT) { if (pos >= n) { ok_bound = false; return; } v.at(pos).flip(); a[pos] = !a[pos]; }
        if constexpr (kind == K_SWAP) {
            BD w; fresh(w, vals, c);
            if constexpr (c % 2 == 0) v.swap(w); else swap(v, w);
            same(w, a, n, false);
            m_erase(0, n); m_insert(0, c, vals);
        }
        if constexpr (kind == K_COPY) {
            BD w(v); same(w, a, n, false);
            BD u; u = v; same(u, a, n, false);
            if (n > 0) { w[0] = !a[0]; u.pop_front(); }
            check(v);                            // deep copies: the source is unaffected
        }
        if constexpr (kind == K_MOVE) {
            BD w(std::move(v)); same(w, a, n, false);
            v = std::move(w);
        }
        check(v);
    }
};

template <int B, int S0, int K1, int C1, int P1, int K2, int C2, int P2, int K3, int C3, int P3, int K4, int C4, int P4, int K5, int C5, int P5, int K6, int C6, int P6>
static void run()
{
    Drv<B> d;
    bool init[BCAP];
    for (int i = 0; i < BCAP; i++) { init[i] = false; d.a[i] = false; }
    for (int i = 0; i < S0; i++) { init[i] = nondet_bool(); d.a[i] = init[i]; }
    d.n = S0;
    bitdeque<B> v((const bool*)init, (const bool*)init + S0);
    d.check(v, true);
    d.template step<K1, C1, P1>(v); d.template step<K2, C2, P2>(v); d.template step<K3, C3, P3>(v);
    d.template step<K4, C4, P4>(v); d.template step<K5, C5, P5>(v); d.template step<K6, C6, P6>(v);
    d.check(v, true);
    verif_observe(v.size());
    for (int i = 0; i < BCAP; i++) if ((unsigned)i < v.size() && (unsigned)i < d.n) verif_observe((uint64_t)(bool)v[i]);
    VASSERT(d.ok_bound, "harness: the sequence stays inside the model capacity and positions are valid");
    VASSERT(d.ok_size, "size()/empty() equal the model after every operation");
    VASSERT(d.ok_elem, "every bit (operator[], const and non-const) equals the model after every operation");
    VASSERT(d.ok_iter, "iterator arithmetic (begin()+i, begin()[i], cend()-k, differences, comparisons) agrees with the model");
    VASSERT(d.ok_walk, "a ++ walk from begin() visits exactly the model bits and ends at end(); the -- walk back ends at begin()");
    VASSERT(d.ok_fb, "front()/back() equal the first/last model bit");
    VASSERT(d.ok_ret, "insert/emplace/erase return an iterator to the inserted element / the element after the erased range");
    VASSERT(d.ok_at, "at(size()) throws std::out_of_range, at(size()-1) returns the last bit");
    VASSERT(d.ok_rep, "padding counters stay inside [0, BITS_PER_WORD)");
    VREACH("end");
}
#define VERIF_ENTRY(name, ...) extern "C" void h_##name() { run<__VA_ARGS__>(); }
#include VERIF_ENTRIES_INC
