// C61 (4): the REAL PoolResource<MAX_BLOCK_SIZE_BYTES, ALIGN_BYTES> (src/support/allocators/pool.h) with a small chunk size, against the
// contract of a memory resource. One entry = pool configuration + a concrete sequence of <= 6 operations (Allocate, or Deallocate of the
// i-th allocated block); every requested size (0 .. MAX_BLOCK_SIZE+8) and alignment (1,2,..,32) is symbolic, so the same sequence covers
// pool-served and oversized requests, every size class, chunk exhaustion with leftover recycling, and free-list reuse.
// ::operator new/delete(size, align_val_t) are replaced by a recording allocator that hands out fixed slots, which makes every address
// relation below decidable on CBMC's pointer model (and on real addresses in the native replay).
// Asserted after every Allocate: alignment; the block [p, p+bytes) is disjoint from every live block; it lies inside one chunk when the
// request is pool-servable (bytes <= MAX and alignment <= max(ALIGN, alignof(void*))), otherwise it is exactly the block obtained from
// operator new(bytes, alignment); reuse: if a block of the same size class was deallocated and not yet handed out again, no new chunk is
// allocated and no never-used chunk memory of the current chunk is consumed; a returned pool block is either a previously freed block
// of the same class or memory never handed out before. Accounting: chunks are requested with exactly ChunkSizeBytes() bytes and the
// element alignment, NumAllocatedChunks() equals the number of such requests, oversized blocks are released with operator delete and the
// same alignment, the destructor releases every chunk exactly once.
#include <verif.h>
#include <util/check.h>
#include <support/allocators/pool.h>
#include <new>

[[noreturn]] void assertion_fail(const std::source_location&, std::string_view)
{
    __CPROVER_assert(0, "Assert()/Assume() in code under test failed");
    __CPROVER_assume(0);
    __builtin_trap();
}
// libstdc++.so out-of-line piece used by std::list::emplace_back
void std::__detail::_List_node_base::_M_hook(std::__detail::_List_node_base* const pos) noexcept
{
    this->_M_next = pos; this->_M_prev = pos->_M_prev; pos->_M_prev->_M_next = this; pos->_M_prev = this;
}

// ---- recording aligned allocator: slot 0 = constructor, slot i = i-th harness operation (each operation can allocate at most once)
#define NSLOT 8
#define SLOTB 64
struct NewRec { bool called; size_t size, align; unsigned ncalls; bool deleted; unsigned ndel; size_t del_align; };
alignas(64) static unsigned char g_store[NSLOT][SLOTB];
static NewRec g_rec[NSLOT];
static int g_slot;
static unsigned g_ndel_total;
static bool g_bad_alloc_env;   // the environment model itself was used outside its design (second call in one operation, slot too small, unknown pointer)
void* operator new(size_t n, std::align_val_t al)
{
    NewRec& r = g_rec[g_slot];
    if (r.called || n > SLOTB || (size_t)al > 64) g_bad_alloc_env = true;
    r.called = true; r.size = n; r.align = (size_t)al; r.ncalls++;
    return g_store[g_slot];
}
void operator delete(void* p, std::align_val_t al) noexcept
{
    bool found = false; g_ndel_total++;
    for (int k = 0; k < NSLOT; k++) if (p == (void*)g_store[k]) { found = true; g_rec[k].deleted = true; g_rec[k].ndel++; g_rec[k].del_align = (size_t)al; }
    if (!found) g_bad_alloc_env = true;
}

enum { K_NONE = 0, K_ALLOC = 1, K_DEALLOC = 2 };

template <size_t MAXB, size_t ALIGN, size_t CHUNK>
struct Drv {
    typedef PoolResource<MAXB, ALIGN> PR;
    static constexpr size_t EA = ALIGN > alignof(void*) ? ALIGN : alignof(void*);     // documented: the larger of ALIGN_BYTES and pointer alignment
    static constexpr size_t CHUNKB = ((CHUNK + EA - 1) / EA) * EA;                      // documented: rounded up to a multiple of it
    struct Blk { char* p; size_t bytes, align; bool pool; size_t cls; bool live, freed, retired; int slot; };
    Blk b[6]; int nb = 0;
    unsigned nchunks = 1, nbigdel = 0;
    bool chunk[NSLOT] = {true, false, false, false, false, false, false, false};   // slots that hold a chunk (slot 0: the constructor's)
    bool ok_align = true, ok_disjoint = true, ok_inside = true, ok_big = true, ok_reuse = true, ok_fresh = true, ok_acct = true, ok_bound = true;

    static size_t cls_of(size_t bytes) { return bytes == 0 ? 1 : (bytes + EA - 1) / EA; }
    static bool servable(size_t bytes, size_t al) { return al <= EA && bytes <= MAXB; }
    bool in_chunk(const char* p, size_t len, int k) const { const char* base = (const char*)g_store[k]; return chunk[k] && p >= base && p + len <= base + CHUNKB; }

    template <bool WREUSE> void op_alloc(PR& pr, int slot)
    {
        if (nb >= 6) { ok_bound = false; return; }
        const size_t bytes = (size_t)nondet_range(0, MAXB + 8);
        const size_t al = (size_t)1 << nondet_range(0, 5);
        g_slot = slot;
        char* p = (char*)pr.Allocate(bytes, al);
        Blk& x = b[nb];
        x.p = p; x.bytes = bytes; x.align = al; x.pool = servable(bytes, al); x.cls = cls_of(bytes); x.live = true; x.freed = false; x.retired = false; x.slot = slot;
        verif_observe(x.pool); verif_observe(g_rec[slot].called);
        // (1) alignment
        if (((uintptr_t)p & (uintptr_t)(al - 1)) != 0) ok_align = false;
        // (2) disjoint from every live block (zero-sized requests still own their rounded-up slot: compare at least one byte)
        const size_t len = bytes ? bytes : 1;
        for (int i = 0; i < 6; i++) if (i < nb && b[i].live) {
            const size_t li = b[i].bytes ? b[i].bytes : 1;
            if (!(p + len <= b[i].p || b[i].p + li <= p)) ok_disjoint = false;
        }
        if (x.pool) {
            // (3) inside exactly one chunk; a chunk request (if any) has the documented size and alignment
            bool inside = false; int home = -1;
            const bool newchunk = g_rec[slot].called;
            if (newchunk) { nchunks++; chunk[slot] = true; if (g_rec[slot].size != CHUNKB || g_rec[slot].align != EA) ok_acct = false; }
            for (int k = 0; k < NSLOT; k++) if (in_chunk(p, x.cls * EA, k)) { inside = true; home = k; }   // the whole rounded-up slot lies in the chunk
            if (!inside) ok_inside = false;
            // (4) reuse / freshness
            bool have_freed = false, is_freed = false, overlaps_used = false;
            for (int i = 0; i < 6; i++) if (i < nb && b[i].pool && !b[i].retired) {
                if (b[i].freed && b[i].cls == x.cls) { have_freed = true; if (b[i].p == p) is_freed = true; }
                // memory that was ever handed out and is not this very freed block must not be handed out again under another identity
                const size_t span = b[i].cls * EA;
                if (!(b[i].freed && b[i].cls == x.cls && b[i].p == p) && !(p + x.cls * EA <= b[i].p || b[i].p + span <= p)) overlaps_used = true;
            }
            if (have_freed && (newchunk || (!is_freed && home == last_chunk_slot))) ok_reuse = false;
            if (!is_freed && overlaps_used) ok_fresh = false;
            if (is_freed) { bool done = false; for (int i = 0; i < 6; i++) if (i < nb && !done && b[i].pool && b[i].freed && b[i].cls == x.cls && b[i].p == p) { b[i].freed = false; b[i].retired = true; done = true; } }   // identity passes on to the new block
            if (newchunk) last_chunk_slot = slot;
            if constexpr (WREUSE) VWITNESS(is_freed, "a freed block is reused");
        } else {
            // (5) oversized / over-aligned: exactly the block from operator new(bytes, alignment)
            if (!g_rec[slot].called || g_rec[slot].size != bytes || g_rec[slot].align != al || p != (char*)g_store[slot]) ok_big = false;
        }
        nb++;
        if (pr.NumAllocatedChunks() != nchunks) ok_acct = false;
    }
    int last_chunk_slot = 0;

    void op_dealloc(PR& pr, int idx, int slot)
    {
        if (idx >= nb || !b[idx].live) { ok_bound = false; return; }
        g_slot = slot;
        Blk& x = b[idx];
        const unsigned ndel0 = g_ndel_total;
        pr.Deallocate(x.p, x.bytes, x.align);
        x.live = false;
        if (x.pool) { x.freed = true; if (g_ndel_total != ndel0) ok_acct = false; }   // pool blocks go to the free list, nothing is released
        else { nbigdel++; if (g_ndel_total != ndel0 + 1 || !g_rec[x.slot].deleted || g_rec[x.slot].ndel != 1 || g_rec[x.slot].del_align != x.align) ok_big = false; }
        if (g_rec[slot].called) ok_acct = false;       // Deallocate never allocates
        if (pr.NumAllocatedChunks() != nchunks) ok_acct = false;
    }
    template <int kind, int arg> void step(PR& pr, int slot)
    {
        if constexpr (kind == K_ALLOC) op_alloc<(arg & 1) != 0>(pr, slot);
        if constexpr (kind == K_DEALLOC) op_dealloc(pr, arg, slot);
    }
};

template <int MAXB, int ALIGN, int CHUNK, int WCHUNK, int K1, int A1, int K2, int A2, int K3, int A3, int K4, int A4, int K5, int A5, int K6, int A6>
static void run()
{
    typedef Drv<MAXB, ALIGN, CHUNK> D;
    for (int k = 0; k < NSLOT; k++) g_rec[k] = NewRec{false, 0, 0, 0, false, 0, 0};
    g_bad_alloc_env = false; g_slot = 0; g_ndel_total = 0;
    D d;
    {
        typename D::PR pr(CHUNK);
        if (!g_rec[0].called || g_rec[0].size != D::CHUNKB || g_rec[0].align != D::EA) d.ok_acct = false;
        if (pr.ChunkSizeBytes() != D::CHUNKB || pr.NumAllocatedChunks() != 1) d.ok_acct = false;
        d.template step<K1, A1>(pr, 1); d.template step<K2, A2>(pr, 2); d.template step<K3, A3>(pr, 3);
        d.template step<K4, A4>(pr, 4); d.template step<K5, A5>(pr, 5); d.template step<K6, A6>(pr, 6);
        g_slot = 7;
        if (WCHUNK) VWITNESS(d.nchunks > 1, "a second chunk was allocated");
    }
    // destructor: every chunk released exactly once with the element alignment; nothing else released
    for (int k = 0; k < NSLOT; k++) if (d.chunk[k] && (g_rec[k].ndel != 1 || g_rec[k].del_align != D::EA)) d.ok_acct = false;
    if (g_ndel_total != d.nchunks + d.nbigdel) d.ok_acct = false;
    if (g_rec[7].called) d.ok_acct = false;
    VASSERT(!g_bad_alloc_env, "harness: the recording operator new/delete model was used within its design (<= 1 allocation per operation, <= 64 bytes)");
    VASSERT(d.ok_bound, "harness: only live blocks are deallocated");
    VASSERT(d.ok_align, "every returned block is aligned to the requested alignment");
    VASSERT(d.ok_disjoint, "a returned block never overlaps a block that is still live");
    VASSERT(d.ok_inside, "a pool-servable request is served from inside one chunk");
    VASSERT(d.ok_big, "an oversized or over-aligned request is exactly one operator new(bytes, alignment) and is released by operator delete with the same alignment");
    VASSERT(d.ok_reuse, "free-list reuse: with a freed block of the same size class available no new chunk is allocated and no fresh chunk memory is consumed");
    VASSERT(d.ok_fresh, "a pool block is either a previously freed block of the same size class or memory never handed out before");
    VASSERT(d.ok_acct, "chunk accounting: chunks requested with ChunkSizeBytes()/element alignment, NumAllocatedChunks() exact, Deallocate never allocates, destructor releases every chunk once");
    VREACH("end");
}
#define VERIF_ENTRY(name, ...) extern "C" void h_##name() { run<__VA_ARGS__>(); }
#include VERIF_ENTRIES_INC
