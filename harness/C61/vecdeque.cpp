// C61 (3): the REAL VecDeque<T> (src/util/vecdeque.h, ring buffer) against a fixed-capacity array model (std::deque contract).
// One entry = element type (trivially copyable uint32_t -> memcpy paths; Tracked -> construct_at/destroy_at paths with live-object
// accounting), an initial ring state built by reserve(R0), F0 x push_front, B0 x push_back (so the ring offset is non-zero / wrapped),
// then <= 6 operations of concrete kind and count. All element values and the SETAT index are symbolic. After every operation: size,
// empty, every element via operator[] (const and non-const), front/back, capacity contract, and for Tracked the number of live
// objects equals the number of stored elements and no destroyed/unconstructed object was ever read.
#include <verif.h>
#include <util/check.h>
#include <util/vecdeque.h>
// the container's own Assume() invariants are compiled in (ABORT_ON_FAILED_ASSUME) and checked on every path
[[noreturn]] void assertion_fail(const std::source_location&, std::string_view)
{
    __CPROVER_assert(0, "Assert()/Assume() in code under test failed");
    __CPROVER_assume(0);
    __builtin_trap();
}
#include <compare>
#include <utility>

#define DCAP 12
enum { K_NONE = 0, K_PUSHB, K_PUSHF, K_EMPB, K_EMPF, K_POPB, K_POPF, K_RESIZE, K_CLEAR, K_RESERVE, K_SHRINK, K_SWAP, K_COPYCTOR, K_COPYASG, K_MOVECTOR, K_MOVEASG, K_SETAT, K_CMP };

static int g_live;        // Tracked objects currently alive
static bool g_bad_use;    // a Tracked was copied/compared/destroyed while not alive
struct Tracked {
    uint32_t v; uint32_t tag;
    static constexpr uint32_t ALIVE = 0x600DF00Du;
    Tracked() : v(0), tag(ALIVE) { g_live++; }
    explicit Tracked(uint32_t x) : v(x), tag(ALIVE) { g_live++; }
    Tracked(const Tracked& o) : v(o.v), tag(ALIVE) { if (o.tag != ALIVE) g_bad_use = true; g_live++; }
    Tracked(Tracked&& o) noexcept : v(o.v), tag(ALIVE) { if (o.tag != ALIVE) g_bad_use = true; g_live++; }
    Tracked& operator=(const Tracked& o) { if (o.tag != ALIVE || tag != ALIVE) g_bad_use = true; v = o.v; return *this; }
    ~Tracked() { if (tag != ALIVE) g_bad_use = true; tag = 0; g_live--; }
    bool operator==(const Tracked& o) const { if (o.tag != ALIVE || tag != ALIVE) g_bad_use = true; return v == o.v; }
    std::strong_ordering operator<=>(const Tracked& o) const { if (o.tag != ALIVE || tag != ALIVE) g_bad_use = true; return v <=> o.v; }
};
static inline uint32_t val_of(const uint32_t& x) { return x; }
static inline uint32_t val_of(const Tracked& x) { if (x.tag != Tracked::ALIVE) g_bad_use = true; return x.v; }
template <class T> struct IsTracked { static constexpr bool value = false; };
template <> struct IsTracked<Tracked> { static constexpr bool value = true; };

template <class T, int CAP>
struct Drv {
    typedef VecDeque<T> DQ;
    uint32_t a[CAP]; unsigned n = 0;
    unsigned others = 0;   // Tracked objects legitimately alive outside `v` (elements of a second deque)
    bool ok_size = true, ok_elem = true, ok_fb = true, ok_cap = true, ok_other = true, ok_cmp = true, ok_bound = true, ok_live = true;

    void m_push_back(uint32_t x) { if (n >= CAP) { ok_bound = false; return; } a[n++] = x; }
    void m_push_front(uint32_t x) { if (n >= CAP) { ok_bound = false; return; } for (int i = CAP - 1; i > 0; i--) a[i] = a[i - 1]; a[0] = x; n++; }
    void m_pop_front() { for (int i = 0; i + 1 < CAP; i++) a[i] = a[i + 1]; n--; }

    void same(DQ& v, const uint32_t* arr, unsigned len)
    {
        const DQ& cv = v;
        if (v.size() != len || v.empty() != (len == 0)) ok_size = false;
        for (int i = 0; i < CAP; i++) if ((unsigned)i < len && (unsigned)i < v.size()) {
            if (val_of(v[i]) != arr[i] || val_of(cv[i]) != arr[i]) ok_elem = false;
        }
        if (len > 0 && v.size() == len) {
            if (val_of(v.front()) != arr[0] || val_of(cv.front()) != arr[0]) ok_fb = false;
            if (val_of(v.back()) != arr[len - 1] || val_of(cv.back()) != arr[len - 1]) ok_fb = false;
        }
        if (v.capacity() < len) ok_cap = false;
    }
    void check(DQ& v)
    {
        same(v, a, n);
        if constexpr (IsTracked<T>::value) { if ((unsigned)g_live != n + others) ok_live = false; }
    }
    void fresh(DQ& w, uint32_t* arr, unsigned c)
    {   // second deque with a wrapped ring: one push_front after the push_backs
        for (unsigned i = 0; i < c; i++) arr[i] = nondet_u32();
        for (unsigned i = 1; i < c; i++) w.push_back(T(arr[i]));
        if (c > 0) w.push_front(T(arr[0]));
        same(w, arr, c);
    }

    template <int kind, unsigned c>
    void step(DQ& v)
    {
        if constexpr (kind == K_NONE) return;
        const size_t cap0 = v.capacity();
        uint32_t vals[CAP];
        if constexpr (kind == K_PUSHB || kind == K_EMPB || kind == K_PUSHF || kind == K_EMPF) {
            const uint32_t x = nondet_u32();
            if constexpr (kind == K_PUSHB) { const T e(x); v.push_back(e); }
            if constexpr (kind == K_EMPB) { v.emplace_back(x); }
            if constexpr (kind == K_PUSHF) { v.push_front(T(x)); }
            if constexpr (kind == K_EMPF) { v.emplace_front(x); }
            if constexpr (kind == K_PUSHB || kind == K_EMPB) m_push_back(x); else m_push_front(x);
            if (n <= cap0 ? v.capacity() != cap0 : v.capacity() < n) ok_cap = false;   // no reallocation while the element fits
        }
        if constexpr (kind == K_POPB) { if (n == 0) { ok_bound = false; return; } v.pop_back(); n--; if (v.capacity() != cap0) ok_cap = false; }
        if constexpr (kind == K_POPF) { if (n == 0) { ok_bound = false; return; } v.pop_front(); m_pop_front(); if (v.capacity() != cap0) ok_cap = false; }
        if constexpr (kind == K_RESIZE) {
            v.resize(c);
            if (c > CAP) { ok_bound = false; return; }
            for (unsigned i = n; i < c; i++) a[i] = 0;       // value-initialised elements
            n = c;
            if (c <= cap0 ? v.capacity() != cap0 : v.capacity() < c) ok_cap = false;
        }
        if constexpr (kind == K_CLEAR) { v.clear(); n = 0; if (v.capacity() != cap0) ok_cap = false; }   // documented: capacity remains unchanged
        if constexpr (kind == K_RESERVE) { v.reserve(c); if (v.capacity() != (c > cap0 ? c : cap0)) ok_cap = false; }   // documented: never shrinks
        if constexpr (kind == K_SHRINK) { v.shrink_to_fit(); if (v.capacity() != n) ok_cap = false; }   // documented: capacity equal to the size
        if constexpr (kind == K_SETAT) {
            if (n == 0) { ok_bound = false; return; }
            const unsigned pos = (unsigned)nondet_range(0, n - 1); const uint32_t x = nondet_u32();
            v[pos] = T(x);
            for (int i = 0; i < CAP; i++) if ((unsigned)i == pos) a[i] = x;
            if (v.capacity() != cap0) ok_cap = false;
            VWITNESS(pos == n - 1, "last element overwritten");
        }
        if constexpr (kind == K_SWAP) {
            DQ w; fresh(w, vals, c);
            const size_t wcap = w.capacity();
            if constexpr (c % 2 == 0) v.swap(w); else swap(v, w);   // member / non-member form
            same(w, a, n);
            if (w.capacity() != cap0 || v.capacity() != wcap) ok_cap = false;
            others = n;                          // w (old contents) is alive until the end of this block
            for (int i = 0; i < CAP; i++) if ((unsigned)i < c) a[i] = vals[i];
            n = c; check(v); others = 0;
        }
        if constexpr (kind == K_COPYCTOR) {
            DQ w(v);
            same(w, a, n);
            others = n; check(v); if (v.capacity() != cap0) ok_cap = false;
            if (n > 0) { w[0] = T(val_of(w[0]) + 1); if (val_of(v[0]) != a[0]) ok_other = false; }   // deep copy
        }
        if constexpr (kind == K_COPYASG) {
            DQ w; fresh(w, vals, c);
            v = w;
            same(w, vals, c);
            for (int i = 0; i < CAP; i++) if ((unsigned)i < c) a[i] = vals[i];
            n = c; others = c; check(v);
            DQ& self = v; v = self; check(v);    // self-assignment is a no-op
        }
        if constexpr (kind == K_MOVECTOR) {
            DQ w(std::move(v));
            same(w, a, n);
            if (w.capacity() != cap0) ok_cap = false;
            // the moved-from deque is in a valid but unspecified state: whatever it still holds must be alive, nothing may be lost or duplicated
            if constexpr (IsTracked<T>::value) { if ((unsigned)g_live != n + v.size()) ok_live = false; }
            v = std::move(w);
            others = (unsigned)w.size(); check(v);
        }
        if constexpr (kind == K_MOVEASG) {
            DQ w; fresh(w, vals, c);
            const size_t wcap = w.capacity();
            const unsigned oldn = n;
            v = std::move(w);
            if (v.capacity() != wcap) ok_cap = false;
            (void)oldn;
            for (int i = 0; i < CAP; i++) if ((unsigned)i < c) a[i] = vals[i];
            n = c; others = (unsigned)w.size(); check(v);   // moved-from state unspecified (but valid): whatever it still holds is alive
        }
        if constexpr (kind == K_CMP) {
            DQ w; fresh(w, vals, c);
            others = c;
            // std::deque comparison: == element-wise with equal sizes, <=> lexicographic
            bool eq = (c == n); int ord = 0;
            for (int i = 0; i < CAP; i++) if ((unsigned)i < n && (unsigned)i < c) {
                if (a[i] != vals[i]) { eq = false; if (ord == 0) ord = a[i] < vals[i] ? -1 : 1; }
            }
            if (ord == 0) ord = n < c ? -1 : (n > c ? 1 : 0);
            const bool r_eq = (v == w); const std::strong_ordering r = (v <=> w);
            const int r_ord = r < 0 ? -1 : (r > 0 ? 1 : 0);
            verif_observe(r_eq); verif_observe((uint64_t)(r_ord + 1));
            if (r_eq != eq || r_ord != ord) ok_cmp = false;
            if (!(v == v) || (v <=> v) != 0) ok_cmp = false;
            VWITNESS(r_eq || r_ord != 0, "comparison yields a definite order");
            check(v);
        }
        others = 0;
        check(v);
    }
};

template <int TK> struct Sel;
template <> struct Sel<0> { typedef uint32_t T; };
template <> struct Sel<1> { typedef Tracked T; };

template <int TK, int R0, int F0, int B0, int K1, int C1, int K2, int C2, int K3, int C3, int K4, int C4, int K5, int C5, int K6, int C6>
static void run()
{
    typedef typename Sel<TK>::T T;
    g_live = 0; g_bad_use = false;
    Drv<T, DCAP> d;
    for (int i = 0; i < DCAP; i++) d.a[i] = 0;
    {
        VecDeque<T> v;
        d.check(v);
        if (R0 > 0) { v.reserve(R0); if (v.capacity() != R0) d.ok_cap = false; }
        for (int i = 0; i < F0; i++) { const uint32_t x = nondet_u32(); v.push_front(T(x)); d.m_push_front(x); }
        for (int i = 0; i < B0; i++) { const uint32_t x = nondet_u32(); v.push_back(T(x)); d.m_push_back(x); }
        d.check(v);
        d.template step<K1, C1>(v); d.template step<K2, C2>(v); d.template step<K3, C3>(v);
        d.template step<K4, C4>(v); d.template step<K5, C5>(v); d.template step<K6, C6>(v);
        verif_observe(v.size()); verif_observe(v.capacity());
        for (int i = 0; i < DCAP; i++) if ((unsigned)i < v.size() && (unsigned)i < d.n) verif_observe(val_of(v[i]));
    }
    if (IsTracked<T>::value && g_live != 0) d.ok_live = false;   // the destructor destroyed every element exactly once
    VASSERT(d.ok_bound, "harness: the sequence stays inside the model capacity and only pops existing elements");
    VASSERT(d.ok_size, "size()/empty() equal the model after every operation");
    VASSERT(d.ok_elem, "every element (operator[], const and non-const) equals the model after every operation");
    VASSERT(d.ok_fb, "front()/back() equal the first/last model element");
    VASSERT(d.ok_cap, "capacity contract: >= size; reserve never shrinks and is exact; shrink_to_fit makes capacity == size; clear/pop keep it; no reallocation while elements fit; travels with swap/move");
    VASSERT(d.ok_other, "copies are deep, moved-from deques are empty");
    VASSERT(d.ok_cmp, "operator== is element-wise equality and operator<=> the lexicographic order");
    VASSERT(d.ok_live, "live element objects == stored elements after every operation and 0 after destruction (every construct_at matched by one destroy_at)");
    VASSERT(!g_bad_use, "no element object is read, assigned or destroyed outside its lifetime");
    VREACH("end");
}
#define VERIF_ENTRY(name, ...) extern "C" void h_##name() { run<__VA_ARGS__>(); }
#include VERIF_ENTRIES_INC
