from vlib import H
PROPERTY = 'C61'
LEVEL = 'model_checking'
CLAIM = ('The real container templates are executed symbolically and compared after EVERY operation with a fixed-capacity array model written from the std::vector / std::deque / '
         'memory-resource contracts. (1) prevector<4,uint32_t> and the production prevector<36,uint8_t> (src/prevector.h): push/emplace/pop_back, insert (single, count, range), erase (single, range), '
         'resize, resize_uninitialized, assign (count, range), reserve, shrink_to_fit, clear, swap, copy/move construction and assignment, operator[]/front/back/data/iterators, operator==/<: same size, '
         'same elements in the same order through every accessor, returned iterators correct, capacity contract (>= max(N,size), unchanged by the erase family and by growth that fits incl. exact fits, '
         'no reallocation/data() stable when it fits, reserve/shrink_to_fit exact) and allocated_memory() == 0 inline / capacity*sizeof(T) on the heap. '
         '(2) bitdeque<8> and bitdeque<3> (src/util/bitdeque.h over libstdc++ std::deque<std::bitset>): push/emplace/pop at both ends, resize (new bits false), assign (count, range, initializer list), '
         'insert/emplace (single, count, range), erase (single, range), clear, swap, copy, move, operator[]/at()/front/back, iterator +,-,++,--,[],differences and comparisons, reverse iterators, at(size()) throws. '
         '(3) VecDeque<uint32_t> and VecDeque<Tracked> (src/util/vecdeque.h; Tracked counts constructions/destructions and detects use outside lifetime): push/emplace/pop at both ends from wrapped ring states, '
         'resize, clear, reserve, shrink_to_fit, swap, copy/move, operator[], ==, <=>; documented capacity contract; the container\'s own Assume() invariants compiled in. '
         '(4) PoolResource<16,8>(24) and PoolResource<32,16>(40) (src/support/allocators/pool.h): for allocate/deallocate sequences with symbolic sizes 0..MAX+8 and alignments 1..32 every returned block is aligned, '
         'disjoint from every live block, inside one chunk when pool-servable and otherwise exactly the operator new(bytes, alignment) block (released by the matching operator delete); a freed block of the same size class is reused before any '
         'fresh memory or new chunk; pool memory is never handed out under two identities; chunk requests/NumAllocatedChunks()/ChunkSizeBytes()/destructor accounting exact. '
         'Operation kinds, element counts (hence sizes) and, where stated, positions are concrete per query; all element values, prevector<4> positions, VecDeque indices, pool sizes and alignments are symbolic.')
KINDS = ['NONE', 'PUSH', 'POP', 'INS1', 'INSN', 'INSR', 'ERASE1', 'ERASER', 'RESIZE', 'RESIZEU', 'ASSIGN', 'ASSIGNR', 'RESERVE', 'SHRINK', 'CLEAR',
         'SWAP', 'COPYCTOR', 'MOVE', 'COPYASG', 'MOVEASG', 'SETAT', 'CMP', 'EMPLACE']
KID = {k: i for i, k in enumerate(KINDS)}
def pv(pvk, s0, *ops):
    """entry for prevector.cpp: container kind, initial size, then 'KIND' or 'KIND:count' (<= 6)"""
    pairs = []; names = []
    for o in ops:
        o, p = (o.split('@') + ['-1'])[:2]      # KIND[:count][@position]  (no @: symbolic position)
        k, c = (o.split(':') + ['0'])[:2]
        pairs.append((KID[k], int(c), int(p))); names.append(k.lower() + (c if ':' in o else '') + ('at' + p if p != '-1' else ''))
    while len(pairs) < 6: pairs.append((0, 0, -1))
    return ('%s_s%d_%s' % ({0: 'p4', 1: 'p36', 2: 'p8'}[pvk], s0, '_'.join(names)), ', '.join([str(pvk), str(s0)] + ['%d, %d, %d' % p for p in pairs]))
P4_QUICK = [   # prevector<4,uint32_t>: positions symbolic
    pv(0, 3, 'PUSH', 'PUSH', 'INS1', 'ERASE1'),           # cross the inline capacity by push_back, symbolic insert/erase on heap storage
    pv(0, 4, 'INS1', 'ERASER:2@1', 'SHRINK', 'INSN:3'),     # cross by insert at full capacity, erase back below N (stays on heap), shrink -> inline, count insert crossing again
    pv(0, 2, 'INSR:3', 'RESIZE:2', 'RESERVE:7', 'ASSIGNR:6'),
    pv(0, 5, 'COPYCTOR', 'MOVE', 'SWAP:2', 'CMP:2'),
    pv(0, 0, 'RESIZE:5', 'POP', 'POP', 'SHRINK'),
    pv(0, 4, 'EMPLACE', 'SETAT', 'CLEAR', 'PUSH'),
    pv(0, 6, 'ASSIGN:3', 'COPYASG:5', 'MOVEASG:4', 'CMP:4'),
    pv(0, 3, 'RESIZEU:6', 'ERASE1', 'RESIZEU:2', 'SHRINK'),
    pv(0, 5, 'ERASER:3', 'INSN:2', 'SHRINK', 'INS1'),
    pv(0, 4, 'RESERVE:5', 'INSR:1', 'SWAP:5', 'ERASER:1'),
    # exact fits: the new size equals the capacity (inline N = 4, then heap capacity 7 / 5 / 6): no reallocation allowed
    pv(0, 3, 'INS1', 'RESERVE:7', 'INSR:3', 'ERASE1'),
    pv(0, 2, 'INSN:2', 'POP', 'EMPLACE', 'SHRINK'),
    pv(0, 1, 'RESIZE:4', 'ASSIGN:4', 'ASSIGNR:4', 'COPYASG:4'),
    pv(0, 5, 'POP', 'PUSH', 'ERASE1', 'INS1'),
    pv(0, 6, 'ERASER:2', 'INSN:2', 'RESIZE:3', 'RESIZEU:6'),
]
P36_QUICK = [  # prevector<36,uint8_t> (CScript storage): positions concrete (front / middle / back), sizes straddle 36
    pv(1, 35, 'PUSH', 'PUSH', 'INS1@0', 'ERASE1@37'),
    pv(1, 36, 'INS1@18', 'ERASER:2@35', 'SHRINK', 'INSN:3@35'),
    pv(1, 34, 'INSR:3@34', 'RESIZE:30', 'RESERVE:40', 'ASSIGNR:38'),
    pv(1, 37, 'COPYCTOR', 'MOVE', 'SWAP:36', 'CMP:36'),
    pv(1, 0, 'RESIZE:37', 'POP', 'POP', 'SHRINK'),
    pv(1, 36, 'EMPLACE', 'SETAT@36', 'CLEAR', 'PUSH'),
    pv(1, 38, 'ASSIGN:36', 'COPYASG:37', 'MOVEASG:36', 'CMP:36'),
    pv(1, 35, 'RESIZEU:38', 'ERASE1@0', 'RESIZEU:36', 'SHRINK'),
    pv(1, 37, 'ERASER:3@17', 'INSN:2@0', 'SHRINK', 'INS1@36'),
    pv(1, 36, 'RESERVE:37', 'INSR:1@36', 'SWAP:37', 'ERASER:1@0'),
    pv(1, 36, 'CMP:36', 'MOVEASG:0', 'INSR:37@0', 'COPYASG:36'),
    pv(1, 1, 'ASSIGN:37', 'SHRINK', 'ERASE1@36', 'INSR:2@1'),
    # exact fits at the inline capacity 36 and at heap capacities
    pv(1, 35, 'INS1@35', 'RESERVE:40', 'INSR:4@0', 'ERASE1@20'),
    pv(1, 34, 'INSN:2@17', 'POP', 'EMPLACE', 'SHRINK'),
    pv(1, 1, 'RESIZE:36', 'ASSIGN:36', 'ASSIGNR:36', 'COPYASG:36'),
    pv(1, 37, 'POP', 'PUSH', 'ERASE1@0', 'INS1@18'),
    pv(1, 38, 'ERASER:2@36', 'INSN:2@0', 'RESIZE:35', 'RESIZEU:38'),
]
DK = ['NONE', 'PUSHB', 'PUSHF', 'EMPB', 'EMPF', 'POPB', 'POPF', 'RESIZE', 'CLEAR', 'RESERVE', 'SHRINK', 'SWAP', 'COPYCTOR', 'COPYASG', 'MOVECTOR', 'MOVEASG', 'SETAT', 'CMP']
DKID = {k: i for i, k in enumerate(DK)}
def vd(tk, r0, f0, b0, *ops):
    """entry for vecdeque.cpp: element kind (0 uint32_t, 1 Tracked), reserve, #push_front, #push_back, then 'KIND[:count]' (<= 6)"""
    pairs = []; names = []
    for o in ops:
        k, c = (o.split(':') + ['0'])[:2]
        pairs.append((DKID[k], int(c))); names.append(k.lower() + (c if ':' in o else ''))
    while len(pairs) < 6: pairs.append((0, 0))
    return ('%s_r%df%db%d_%s' % ({0: 'u', 1: 't'}[tk], r0, f0, b0, '_'.join(names)), ', '.join([str(tk), str(r0), str(f0), str(b0)] + ['%d, %d' % p for p in pairs]))
VD_QUICK = []
for tk in (0, 1):
    VD_QUICK += [
        vd(tk, 4, 1, 2, 'PUSHB', 'PUSHF', 'POPF', 'SHRINK'),          # ring wrapped (offset 3), fill to capacity, reallocate on the 5th element, unwrap
        vd(tk, 3, 2, 1, 'EMPF', 'EMPB', 'POPB', 'SETAT'),             # full ring, reallocation from a wrapped state by emplace_front
        vd(tk, 0, 0, 0, 'PUSHF', 'RESIZE:4', 'POPF', 'RESERVE:6'),    # from the empty (capacity 0) state
        vd(tk, 4, 2, 2, 'COPYCTOR', 'MOVECTOR', 'SWAP:3', 'CMP:3'),
        vd(tk, 5, 1, 3, 'COPYASG:2', 'MOVEASG:3', 'CLEAR', 'PUSHF'),
        vd(tk, 4, 3, 1, 'RESIZE:2', 'RESIZE:6', 'POPF', 'CMP:5'),     # shrink then grow past the capacity from a wrapped state
    ]
BK = ['NONE', 'PUSHB', 'PUSHF', 'EMPB', 'EMPF', 'POPB', 'POPF', 'RESIZE', 'ASSIGN', 'ASSIGNR', 'INS1', 'INSN', 'INSR', 'ERASE1', 'ERASER', 'CLEAR', 'SWAP', 'COPY', 'MOVE', 'SETAT', 'FLIPAT', 'ASSIGNIL']
BKID = {k: i for i, k in enumerate(BK)}
def bd(bits, s0, *ops):
    """entry for bitdeque.cpp: bits per word, initial size, then 'KIND[:count][@position]' (<= 6)"""
    tr = []; names = []
    for o in ops:
        o, p = (o.split('@') + ['0'])[:2]
        k, c = (o.split(':') + ['0'])[:2]
        tr.append((BKID[k], int(c), int(p))); names.append(k.lower() + (c if ':' in o else '') + ('at' + p if '@' in (o + '@' + p if p != '0' else o) or k in ('INS1', 'INSN', 'INSR', 'ERASE1', 'ERASER', 'SETAT', 'FLIPAT') else ''))
    while len(tr) < 6: tr.append((0, 0, 0))
    return ('b%d_s%d_%s' % (bits, s0, '_'.join(names)), ', '.join([str(bits), str(s0)] + ['%d, %d, %d' % t for t in tr]))
BD_QUICK = [
    bd(8, 7, 'PUSHB', 'PUSHB', 'PUSHF', 'POPB'),                     # fill the word, open a second one at the back and one at the front
    bd(8, 10, 'POPF', 'POPB', 'RESIZE:12', 'RESIZE:3'),              # a popped bit (its word stays) must read back as false when the deque grows again
    bd(8, 14, 'ERASER:3@9', 'RESIZE:14', 'ERASE1@12', 'RESIZE:16'),  # same for bits vacated by erase near the back
    bd(8, 10, 'INS1@2', 'INS1@9', 'ERASE1@1', 'ERASE1@10'),          # insert/erase nearer the front (moves the head) and nearer the back (moves the tail)
    bd(8, 6, 'INSR:11@2', 'ERASER:9@4', 'INSN:3@5', 'ERASER:8@0'),   # multi-word inserts/erases
    bd(8, 17, 'COPY', 'MOVE', 'SWAP:3', 'ASSIGN:9'),
    bd(8, 0, 'EMPF', 'EMPB', 'POPF', 'POPB'),                        # through the empty state from both sides
    bd(8, 8, 'SETAT@7', 'FLIPAT@0', 'ASSIGNR:16', 'CLEAR'),
    bd(3, 4, 'PUSHF', 'INSR:5@3', 'ERASER:4@2', 'RESIZE:10'),        # non-power-of-two word size
    bd(3, 7, 'POPF', 'POPF', 'INS1@1', 'ERASE1@4'),
]
def pl(maxb, align, chunk, *ops, wchunk=0):
    """entry for pool.cpp: 'A' allocate (symbolic size/alignment), 'Ar' same + witness that a freed block is reused here, 'Dk' deallocate the k-th allocated block"""
    tr = []
    for o in ops:
        if o[0] == 'A': tr.append((1, 1 if o == 'Ar' else 0))
        else: tr.append((2, int(o[1:])))
    while len(tr) < 6: tr.append((0, 0))
    return ('m%da%dc%d_%s' % (maxb, align, chunk, '_'.join(o.lower() for o in ops)), ', '.join([str(maxb), str(align), str(chunk), str(wchunk)] + ['%d, %d' % t for t in tr]))
PL_QUICK = [
    pl(16, 8, 24, 'A', 'A', 'D0', 'Ar', wchunk=1),
    pl(16, 8, 24, 'A', 'D0', 'Ar', 'A', wchunk=1),
    pl(16, 8, 24, 'A', 'A', 'A', 'A', wchunk=1),
    pl(16, 8, 24, 'A', 'A', 'D1', 'D0'),
    pl(32, 16, 40, 'A', 'A', 'D0', 'Ar', wchunk=1),
]
# ---- thorough tier: everything above plus single-operation sweeps from sizes around the inline capacity and 6-operation sequences
SINGLE = ['PUSH', 'EMPLACE', 'POP', 'INS1', 'INSN:2', 'INSR:3', 'ERASE1', 'ERASER:2', 'RESIZE:%(lo)d', 'RESIZE:%(hi)d', 'RESIZEU:%(lo)d', 'RESIZEU:%(hi)d', 'ASSIGN:%(n)d', 'ASSIGN:%(hi)d', 'ASSIGNR:%(n)d', 'ASSIGNR:%(hi)d',
          'RESERVE:%(hi)d', 'SHRINK', 'CLEAR', 'SWAP:%(hi)d', 'COPYCTOR', 'MOVE', 'COPYASG:%(hi)d', 'MOVEASG:%(n)d', 'SETAT', 'CMP:%(n)d']
def uniq(lst):
    seen = set(); out = []
    for e in lst:
        if e[0] not in seen: seen.add(e[0]); out.append(e)
    return out
P4_THOROUGH = list(P4_QUICK) + [pv(0, 4, 'CMP:4', 'MOVEASG:0', 'INSR:5', 'COPYASG:4'), pv(0, 1, 'ASSIGN:5', 'SHRINK', 'ERASE1', 'INSR:2')]
for s0 in (4, 5):      # single-operation sweep from the full inline buffer and from the smallest heap state
    for o in SINGLE: P4_THOROUGH.append(pv(0, s0, o % dict(lo=2, hi=6, n=4)))
P4_THOROUGH += [
    pv(0, 2, 'PUSH', 'PUSH', 'PUSH', 'INS1', 'ERASER:2@0', 'SHRINK'),
    pv(0, 5, 'ERASE1', 'ERASE1@0', 'SHRINK', 'INSR:3', 'POP', 'CMP:5'),
    pv(0, 0, 'INSN:5@0', 'SETAT', 'COPYCTOR', 'RESIZE:4', 'SHRINK', 'EMPLACE'),
    pv(0, 4, 'SWAP:6', 'MOVE', 'INS1', 'RESERVE:9', 'ASSIGNR:9', 'ERASER:5'),
]
P36_THOROUGH = list(P36_QUICK)
for s0 in (36,):        # single-operation sweep from the full inline buffer (front / middle / back positions)
    for o in SINGLE:
        o = o % dict(lo=34, hi=38, n=36); k = o.split(':')[0]
        if k in ('INS1', 'INSN', 'INSR'): P36_THOROUGH += [pv(1, s0, o + '@0'), pv(1, s0, o + '@18'), pv(1, s0, o + '@%d' % s0)]
        elif k in ('ERASE1', 'SETAT'): P36_THOROUGH += [pv(1, s0, o + '@0'), pv(1, s0, o + '@18'), pv(1, s0, o + '@%d' % (s0 - 1))]
        elif k == 'ERASER': P36_THOROUGH += [pv(1, s0, o + '@0'), pv(1, s0, o + '@18'), pv(1, s0, o + '@%d' % (s0 - 2))]
        else: P36_THOROUGH.append(pv(1, s0, o))
P36_THOROUGH += [
    pv(1, 34, 'PUSH', 'PUSH', 'PUSH', 'INS1@0', 'ERASER:2@0', 'SHRINK'),
    pv(1, 37, 'ERASE1@36', 'ERASE1@0', 'SHRINK', 'INSR:3@35', 'POP', 'CMP:37'),
    pv(1, 0, 'INSN:37@0', 'SETAT@36', 'COPYCTOR', 'RESIZE:36', 'SHRINK', 'EMPLACE'),
]
VD_THOROUGH = list(VD_QUICK)
for tk in (0, 1):
    VD_THOROUGH += [
        vd(tk, 2, 1, 1, 'PUSHF', 'PUSHF', 'POPB', 'POPB', 'PUSHB', 'SHRINK'),
        vd(tk, 6, 3, 3, 'POPF', 'POPF', 'EMPB', 'EMPB', 'EMPB', 'CMP:6'),
        vd(tk, 0, 2, 0, 'COPYASG:4', 'POPF', 'MOVEASG:2', 'RESIZE:5', 'SETAT', 'CLEAR'),
        vd(tk, 5, 0, 5, 'POPF', 'PUSHB', 'POPF', 'PUSHB', 'PUSHB', 'COPYCTOR'),
        vd(tk, 3, 3, 0, 'SWAP:4', 'RESERVE:8', 'PUSHF', 'SHRINK', 'MOVECTOR', 'CMP:5'),
    ]
BD_THOROUGH = BD_QUICK + [
    bd(3, 2, 'ASSIGNIL', 'INSN:7@1', 'POPB', 'RESIZE:12'),
    bd(8, 15, 'PUSHF', 'PUSHF', 'ERASER:10@3', 'INSR:12@4', 'POPF', 'RESIZE:20'),
    bd(8, 24, 'ERASER:16@4', 'INSN:9@0', 'INSN:9@17', 'ERASE1@0', 'ERASE1@24', 'SWAP:8'),
    bd(3, 9, 'PUSHF', 'PUSHF', 'ERASER:5@3', 'INSR:7@2', 'POPF', 'RESIZE:14'),
    bd(3, 12, 'ERASER:7@2', 'INSN:4@0', 'INSN:4@9', 'ERASE1@0', 'COPY', 'MOVE'),
    bd(8, 16, 'INS1@0', 'INS1@17', 'INS1@9', 'ERASE1@9', 'ERASER:8@5', 'ASSIGNIL'),
]
PL_THOROUGH = PL_QUICK + [
    pl(16, 8, 24, 'A', 'A', 'D0', 'D1', 'Ar', 'Ar', wchunk=1),
    pl(16, 8, 24, 'A', 'A', 'A', 'D1', 'Ar', 'A', wchunk=1),
    pl(32, 16, 40, 'A', 'A', 'A', 'D0', 'Ar', 'D1', wchunk=1),
    pl(16, 8, 16, 'A', 'A', 'D0', 'A', 'D1', 'A', wchunk=1),
]
PVFN = ['prevector<N,T,Size,Diff>: change_capacity, item_ptr/direct_ptr/indirect_ptr, fill, assign(n,val), assign(first,last), range/copy/move constructors, operator=(const&/&&), size, empty, begin/end, capacity, operator[], resize, reserve, '
        'shrink_to_fit, clear, insert(pos,val), insert(pos,n,val), insert(pos,first,last), resize_uninitialized, erase(pos), erase(first,last), emplace_back, push_back, pop_back, front, back, swap, ~prevector, operator==, operator<, '
        'allocated_memory, data; iterator/const_iterator arithmetic (src/prevector.h)']
PVST = ['malloc/realloc/free: runtime model (size-class rounding, free is a no-op): heap overflow/use-after-free inside the container are outside the claim; capacity()/allocated_memory() are compared with the contract, not with the allocator']
HARNESSES = [
    H('pv_small', 'prevector.cpp', 'h_pv_small', link=[], entries=uniq(P4_QUICK), tentries=uniq(P4_THOROUGH), unwind=16, memunwind=60, timeout=400, objbits=10, functions=PVFN, stubs=PVST,
      assumptions=['positions passed to insert/erase are valid iterators into the container (API precondition)', 'pop_back/erase only on non-empty containers (API precondition)'],
      bounds='prevector<4,uint32_t>; %d quick / %d thorough operation sequences of <= 4 (thorough <= 6) operations from initial sizes 0..6 (model capacity 14 elements); operation kinds and element counts concrete, all element values symbolic, '
             'insert/erase/operator[] positions symbolic over their whole valid range (at most 2 symbolic positions per sequence)' % (len(uniq(P4_QUICK)), len(uniq(P4_THOROUGH)))),
    H('pv_script', 'prevector.cpp', 'h_pv_script', link=[], entries=uniq(P36_QUICK), tentries=uniq(P36_THOROUGH), unwind=66, memunwind=66, timeout=400, objbits=10, functions=PVFN, stubs=PVST,
      assumptions=['positions passed to insert/erase are valid iterators into the container (API precondition)'],
      bounds='prevector<36,uint8_t> (CScript storage); %d quick / %d thorough sequences, sizes 0..40 straddling the inline capacity 36 (model capacity 64); kinds, counts and positions (front / middle / back) concrete, all byte values symbolic' % (len(uniq(P36_QUICK)), len(uniq(P36_THOROUGH)))),
    H('vecdeque', 'vecdeque.cpp', 'h_vecdeque', link=[], entries=uniq(VD_QUICK), tentries=uniq(VD_THOROUGH), defines={'ABORT_ON_FAILED_ASSUME': None}, unwind=16, memunwind=60, timeout=400, objbits=10,
      functions=['VecDeque<T>: Reallocate (memcpy and construct_at/destroy_at paths), BufferIndex, FirstPart, ResizeDown, resize, clear, ~VecDeque, copy/move construction and assignment, swap (member and friend), operator==, operator<=>, reserve, shrink_to_fit, '
                 'emplace_back/push_back, emplace_front/push_front, pop_front, pop_back, front, back, operator[], empty, size, capacity (src/util/vecdeque.h)'],
      stubs=['assertion_fail -> CBMC assertion (Assume() compiled in with ABORT_ON_FAILED_ASSUME)', 'operator new/delete: runtime model'],
      assumptions=['pop/front/back/operator[] only within the current size (API precondition)'],
      bounds='element types uint32_t and a lifetime-tracking class; %d quick / %d thorough sequences: ring prepared by reserve(0..6) + <= 3 push_front + <= 5 push_back, then <= 4 (thorough 6) operations, sizes <= 12; kinds and counts concrete, values and SETAT index symbolic' % (len(uniq(VD_QUICK)), len(uniq(VD_THOROUGH)))),
    H('bitdeque', 'bitdeque.cpp', 'h_bitdeque', link=[], entries=uniq(BD_QUICK), tentries=uniq(BD_THOROUGH), unwind=44, memunwind=72, timeout=600, objbits=11,
      functions=['bitdeque<BITS_PER_WORD>: Iterator (+=, -=, ++, --, -, +, [], *, ==, <=>), erase_back, extend_back, erase_front, extend_front, insert_zeroes, assign (count / range / initializer_list), constructors, begin/end/cbegin/cend/crbegin, size, empty, '
                 'at, operator[], front, back, clear, push/emplace/pop at both ends, resize, swap, erase (4 overloads), insert (3 overloads), emplace (src/util/bitdeque.h)', 'std::deque<std::bitset<B>> and std::move/move_backward over bit iterators (libstdc++ headers)'],
      stubs=['operator new/delete: runtime model'],
      bounds='blob sizes 8 and 3 bits; %d quick / %d thorough sequences of <= 4 (thorough 6) operations, sizes 0..40 bits (several words); kinds, counts and positions concrete, every bit value symbolic' % (len(uniq(BD_QUICK)), len(uniq(BD_THOROUGH)))),
    H('pool', 'pool.cpp', 'h_pool', link=[], entries=uniq(PL_QUICK), tentries=uniq(PL_THOROUGH), unwind=10, memunwind=72, timeout=900, objbits=10,
      functions=['PoolResource<MAX_BLOCK_SIZE_BYTES, ALIGN_BYTES>: constructor, AllocateChunk (leftover recycling), Allocate, Deallocate, NumElemAlignBytes, IsFreeListUsable, PlacementAddToList, NumAllocatedChunks, ChunkSizeBytes, destructor (src/support/allocators/pool.h)',
                 'std::list<std::byte*>::emplace_back (libstdc++ headers)'],
      stubs=['::operator new/delete(size_t, std::align_val_t) -> recording slot allocator (64-byte aligned 64-byte slots, one per operation)', 'std::__detail::_List_node_base::_M_hook (libstdc++.so) -> 4-line model in the harness', 'assertion_fail -> CBMC assertion'],
      assumptions=['Deallocate is called with the size and alignment of the matching Allocate (API precondition)'],
      bounds='PoolResource<16,8> with 24- and 16-byte chunks and PoolResource<32,16> with 40(->48)-byte chunks; %d quick / %d thorough sequences of <= 4 (thorough 6) Allocate/Deallocate operations; every size in 0..MAX+8 and every alignment in {1,2,4,8,16,32} symbolic' % (len(uniq(PL_QUICK)), len(uniq(PL_THOROUGH)))),
]
