from vlib import H
PROPERTY = 'C61'
LEVEL = 'model_checking'
CLAIM = ('wip')
KINDS = ['NONE', 'PUSH', 'POP', 'INS1', 'INSN', 'INSR', 'ERASE1', 'ERASER', 'RESIZE', 'RESIZEU', 'ASSIGN', 'ASSIGNR', 'RESERVE', 'SHRINK', 'CLEAR',
         'SWAP', 'COPYCTOR', 'MOVE', 'COPYASG', 'MOVEASG', 'SETAT', 'CMP', 'EMPLACE']
KID = {k: i for i, k in enumerate(KINDS)}
def pv(pvk, s0, *ops):
    """entry for prevector.cpp: container kind, initial size, then 'KIND' or 'KIND:count' (<= 6)"""
    pairs = []; names = []
    for o in ops:
        o, p = (o.split('@') + ['-1'])[:2]      # KIND[:count][@position]  (no @: symbolic position)
        k, c = (o.split(':') + ['0'])[:2]
        pairs.append((KID[k], int(c), int(p))); names.append(k.lower() + (c if ':' in o else '') + ('at' + p if p != '-1' else ''))
    while len(pairs) < 6: pairs.append((0, 0, -1))
    return ('%s_s%d_%s' % ({0: 'p4', 1: 'p36', 2: 'p8'}[pvk], s0, '_'.join(names)), ', '.join([str(pvk), str(s0)] + ['%d, %d, %d' % p for p in pairs]))
P4_QUICK = [   # prevector<4,uint32_t>: positions symbolic
    pv(0, 3, 'PUSH', 'PUSH', 'INS1', 'ERASE1'),           # cross the inline capacity by push_back, symbolic insert/erase on heap storage
    pv(0, 4, 'INS1', 'ERASER:2', 'SHRINK', 'INSN:3'),     # cross by insert at full capacity, erase back below N (stays on heap), shrink -> inline, count insert crossing again
    pv(0, 2, 'INSR:3', 'RESIZE:2', 'RESERVE:7', 'ASSIGNR:6'),
    pv(0, 5, 'COPYCTOR', 'MOVE', 'SWAP:2', 'CMP:2'),
    pv(0, 0, 'RESIZE:5', 'POP', 'POP', 'SHRINK'),
    pv(0, 4, 'EMPLACE', 'SETAT', 'CLEAR', 'PUSH'),
    pv(0, 6, 'ASSIGN:3', 'COPYASG:5', 'MOVEASG:4', 'CMP:4'),
    pv(0, 3, 'RESIZEU:6', 'ERASE1', 'RESIZEU:2', 'SHRINK'),
    pv(0, 5, 'ERASER:3', 'INSN:2', 'SHRINK', 'INS1'),
    pv(0, 4, 'RESERVE:5', 'INSR:1', 'SWAP:5', 'ERASER:1'),
    pv(0, 4, 'CMP:4', 'MOVEASG:0', 'INSR:5', 'COPYASG:4'),
    pv(0, 1, 'ASSIGN:5', 'SHRINK', 'ERASE1', 'INSR:2'),
]
P36_QUICK = [  # prevector<36,uint8_t> (CScript storage): positions concrete (front / middle / back), sizes straddle 36
    pv(1, 35, 'PUSH', 'PUSH', 'INS1@0', 'ERASE1@37'),
    pv(1, 36, 'INS1@18', 'ERASER:2@35', 'SHRINK', 'INSN:3@35'),
    pv(1, 34, 'INSR:3@34', 'RESIZE:30', 'RESERVE:40', 'ASSIGNR:38'),
    pv(1, 37, 'COPYCTOR', 'MOVE', 'SWAP:36', 'CMP:36'),
    pv(1, 0, 'RESIZE:37', 'POP', 'POP', 'SHRINK'),
    pv(1, 36, 'EMPLACE', 'SETAT@36', 'CLEAR', 'PUSH'),
    pv(1, 38, 'ASSIGN:36', 'COPYASG:37', 'MOVEASG:36', 'CMP:36'),
    pv(1, 35, 'RESIZEU:38', 'ERASE1@0', 'RESIZEU:36', 'SHRINK'),
    pv(1, 37, 'ERASER:3@17', 'INSN:2@0', 'SHRINK', 'INS1@36'),
    pv(1, 36, 'RESERVE:37', 'INSR:1@36', 'SWAP:37', 'ERASER:1@0'),
    pv(1, 36, 'CMP:36', 'MOVEASG:0', 'INSR:37@0', 'COPYASG:36'),
    pv(1, 1, 'ASSIGN:37', 'SHRINK', 'ERASE1@36', 'INSR:2@1'),
]
DK = ['NONE', 'PUSHB', 'PUSHF', 'EMPB', 'EMPF', 'POPB', 'POPF', 'RESIZE', 'CLEAR', 'RESERVE', 'SHRINK', 'SWAP', 'COPYCTOR', 'COPYASG', 'MOVECTOR', 'MOVEASG', 'SETAT', 'CMP']
DKID = {k: i for i, k in enumerate(DK)}
def vd(tk, r0, f0, b0, *ops):
    """entry for vecdeque.cpp: element kind (0 uint32_t, 1 Tracked), reserve, #push_front, #push_back, then 'KIND[:count]' (<= 6)"""
    pairs = []; names = []
    for o in ops:
        k, c = (o.split(':') + ['0'])[:2]
        pairs.append((DKID[k], int(c))); names.append(k.lower() + (c if ':' in o else ''))
    while len(pairs) < 6: pairs.append((0, 0))
    return ('%s_r%df%db%d_%s' % ({0: 'u', 1: 't'}[tk], r0, f0, b0, '_'.join(names)), ', '.join([str(tk), str(r0), str(f0), str(b0)] + ['%d, %d' % p for p in pairs]))
VD_QUICK = []
for tk in (0, 1):
    VD_QUICK += [
        vd(tk, 4, 1, 2, 'PUSHB', 'PUSHF', 'POPF', 'SHRINK'),          # ring wrapped (offset 3), fill to capacity, reallocate on the 5th element, unwrap
        vd(tk, 3, 2, 1, 'EMPF', 'EMPB', 'POPB', 'SETAT'),             # full ring, reallocation from a wrapped state by emplace_front
        vd(tk, 0, 0, 0, 'PUSHF', 'RESIZE:4', 'POPF', 'RESERVE:6'),    # from the empty (capacity 0) state
        vd(tk, 4, 2, 2, 'COPYCTOR', 'MOVECTOR', 'SWAP:3', 'CMP:3'),
        vd(tk, 5, 1, 3, 'COPYASG:2', 'MOVEASG:3', 'CLEAR', 'PUSHF'),
        vd(tk, 4, 3, 1, 'RESIZE:2', 'RESIZE:6', 'POPF', 'CMP:5'),     # shrink then grow past the capacity from a wrapped state
    ]
BK = ['NONE', 'PUSHB', 'PUSHF', 'EMPB', 'EMPF', 'POPB', 'POPF', 'RESIZE', 'ASSIGN', 'ASSIGNR', 'INS1', 'INSN', 'INSR', 'ERASE1', 'ERASER', 'CLEAR', 'SWAP', 'COPY', 'MOVE', 'SETAT', 'FLIPAT', 'ASSIGNIL']
BKID = {k: i for i, k in enumerate(BK)}
def bd(bits, s0, *ops):
    """entry for bitdeque.cpp: bits per word, initial size, then 'KIND[:count][@position]' (<= 6)"""
    tr = []; names = []
    for o in ops:
        o, p = (o.split('@') + ['0'])[:2]
        k, c = (o.split(':') + ['0'])[:2]
        tr.append((BKID[k], int(c), int(p))); names.append(k.lower() + (c if ':' in o else '') + ('at' + p if '@' in (o + '@' + p if p != '0' else o) or k in ('INS1', 'INSN', 'INSR', 'ERASE1', 'ERASER', 'SETAT', 'FLIPAT') else ''))
    while len(tr) < 6: tr.append((0, 0, 0))
    return ('b%d_s%d_%s' % (bits, s0, '_'.join(names)), ', '.join([str(bits), str(s0)] + ['%d, %d, %d' % t for t in tr]))
BD_QUICK = [
    bd(8, 7, 'PUSHB', 'PUSHB', 'PUSHF', 'POPB'),                     # fill the word, open a second one at the back and one at the front
    bd(8, 9, 'POPF', 'POPB', 'RESIZE:12', 'RESIZE:3'),               # popped bits must read back as false when the deque grows again
    bd(8, 10, 'INS1@2', 'INS1@9', 'ERASE1@1', 'ERASE1@10'),          # insert/erase nearer the front (moves the head) and nearer the back (moves the tail)
    bd(8, 6, 'INSR:11@2', 'ERASER:9@4', 'INSN:3@5', 'ERASER:8@0'),   # multi-word inserts/erases
    bd(8, 17, 'COPY', 'MOVE', 'SWAP:3', 'ASSIGN:9'),
    bd(8, 0, 'EMPF', 'EMPB', 'POPF', 'POPB'),                        # through the empty state from both sides
    bd(8, 8, 'SETAT@7', 'FLIPAT@0', 'ASSIGNR:16', 'CLEAR'),
    bd(3, 4, 'PUSHF', 'INSR:5@3', 'ERASER:4@2', 'RESIZE:10'),        # non-power-of-two word size
    bd(3, 7, 'POPF', 'POPF', 'INS1@1', 'ERASE1@4'),
    bd(3, 2, 'ASSIGNIL', 'INSN:7@1', 'POPB', 'RESIZE:12'),
]
HARNESSES = [
    H('pv_small', 'prevector.cpp', 'h_pv_small', link=[], entries=P4_QUICK, unwind=16, memunwind=60, timeout=300, objbits=10,
      functions=['prevector<N,T> (src/prevector.h)'], bounds='wip'),
    H('pv_script', 'prevector.cpp', 'h_pv_script', link=[], entries=P36_QUICK, unwind=66, memunwind=66, timeout=300, objbits=10,
      functions=['prevector<N,T> (src/prevector.h)'], bounds='wip'),
    H('vecdeque', 'vecdeque.cpp', 'h_vecdeque', link=[], entries=VD_QUICK, defines={'ABORT_ON_FAILED_ASSUME': None}, unwind=16, memunwind=60, timeout=300, objbits=10,
      functions=['VecDeque<T> (src/util/vecdeque.h)'], bounds='wip'),
    H('bitdeque', 'bitdeque.cpp', 'h_bitdeque', link=[], entries=BD_QUICK, unwind=44, memunwind=72, timeout=300, objbits=11,
      functions=['bitdeque<BITS_PER_WORD> (src/util/bitdeque.h)'], bounds='wip'),
]
