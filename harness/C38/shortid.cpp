// C38 (1): compact-block short transaction ids. Real code: CBlockHeaderAndShortTxIDs::FillShortTxIDSelector / GetShortID (blockencodings.cpp),
// PresaltedSipHasher / CSipHasher / SipHashState (crypto/siphash.{h,cpp}), header + nonce serialization (DataStream).
// Oracle: SipHash-2-4 written from the SipHash paper (Aumasson, Bernstein) over the message bytes; BIP152: key = first two little-endian
// 64-bit words of SHA256(header || nonce), short id = low 6 bytes of SipHash-2-4(key, wtxid).
#include <verif.h>
#define VERIF_NO_RANDOM_STUBS
#include <verif_stubs_common.h>
#include <blockencodings.h>
#include <crypto/sha256.h>
#include <crypto/siphash.h>
#include <primitives/block.h>
#include <uint256.h>
#include <bit>
#include <string.h>

// ---- recording SHA-256 model: digest is unconstrained (chosen by the solver); the harness sees what was hashed and what came out
static uint64_t g_sha_len; static uint8_t g_sha_in[96]; static uint8_t g_sha_out[32]; static int g_sha_calls;
CSHA256::CSHA256() {}
CSHA256& CSHA256::Write(const unsigned char* p, size_t len) { for (size_t i = 0; i < len; i++) if (g_sha_len + i < sizeof g_sha_in) g_sha_in[g_sha_len + i] = p[i]; g_sha_len += len; bytes += len; return *this; }
CSHA256& CSHA256::Reset() { bytes = 0; return *this; }
void CSHA256::Finalize(unsigned char hash[OUTPUT_SIZE]) { for (int i = 0; i < 32; i++) { g_sha_out[i] = nondet_u8(); hash[i] = g_sha_out[i]; } g_sha_calls++; }

// DataStream's zero-after-free allocator
void memory_cleanse(void*, size_t) {}

// ---- private member access
template <auto M0, auto M1, auto M2, auto M3> struct RobSip { friend uint64_t& sv(SipHashState& s, int i) { return i == 0 ? s.*M0 : i == 1 ? s.*M1 : i == 2 ? s.*M2 : s.*M3; } };
template struct RobSip<&SipHashState::m_v0, &SipHashState::m_v1, &SipHashState::m_v2, &SipHashState::m_v3>;
uint64_t& sv(SipHashState& s, int i);
template <auto M> struct RobFill { friend void call_fill(const CBlockHeaderAndShortTxIDs& c) { (c.*M)(); } };
template struct RobFill<&CBlockHeaderAndShortTxIDs::FillShortTxIDSelector>;
void call_fill(const CBlockHeaderAndShortTxIDs& c);
template <auto M> struct RobNonce { friend uint64_t& nonce_of(CBlockHeaderAndShortTxIDs& c) { return c.*M; } };
template struct RobNonce<&CBlockHeaderAndShortTxIDs::nonce>;
uint64_t& nonce_of(CBlockHeaderAndShortTxIDs& c);

// ---- SipHash-2-4 reference (paper, section 2), message given as bytes
static inline uint64_t rotl64(uint64_t x, int b) { return (x << b) | (x >> (64 - b)); }
struct RefSip { uint64_t v0, v1, v2, v3; };
static inline void sipround(RefSip& s)
{
    s.v0 += s.v1; s.v1 = rotl64(s.v1, 13); s.v1 ^= s.v0; s.v0 = rotl64(s.v0, 32);
    s.v2 += s.v3; s.v3 = rotl64(s.v3, 16); s.v3 ^= s.v2;
    s.v0 += s.v3; s.v3 = rotl64(s.v3, 21); s.v3 ^= s.v0;
    s.v2 += s.v1; s.v1 = rotl64(s.v1, 17); s.v1 ^= s.v2; s.v2 = rotl64(s.v2, 32);
}
static uint64_t ref_siphash24(uint64_t k0, uint64_t k1, const uint8_t* m, size_t len)
{
    RefSip s{k0 ^ 0x736f6d6570736575ULL, k1 ^ 0x646f72616e646f6dULL, k0 ^ 0x6c7967656e657261ULL, k1 ^ 0x7465646279746573ULL};
    const size_t full = len / 8;
    for (size_t i = 0; i < full; i++) {
        uint64_t w; memcpy(&w, m + 8 * i, 8);            // little-endian 64-bit word (little-endian host, asserted in the harness)
        s.v3 ^= w; sipround(s); sipround(s); s.v0 ^= w;
    }
    uint64_t last = (uint64_t)(len & 0xff) << 56;
    for (size_t b = 0; b < (len & 7); b++) last |= (uint64_t)m[8 * full + b] << (8 * b);
    s.v3 ^= last; sipround(s); sipround(s); s.v0 ^= last;
    s.v2 ^= 0xff;
    sipround(s); sipround(s); sipround(s); sipround(s);
    return s.v0 ^ s.v1 ^ s.v2 ^ s.v3;
}

// ---- the step kernels of the real SipHashState against the paper's definitions, for every 256-bit state
extern "C" void h_sipsteps()
{
    const uint64_t k0 = nondet_u64(), k1 = nondet_u64(), d = nondet_u64();
    SipHashState st(k0, k1);
    VASSERT(sv(st, 0) == (k0 ^ 0x736f6d6570736575ULL) && sv(st, 1) == (k1 ^ 0x646f72616e646f6dULL) && sv(st, 2) == (k0 ^ 0x6c7967656e657261ULL) && sv(st, 3) == (k1 ^ 0x7465646279746573ULL), "initialisation v_i = k_(i mod 2) xor 'somepseudorandomlygeneratedbytes'");
    RefSip r{nondet_u64(), nondet_u64(), nondet_u64(), nondet_u64()};
    sv(st, 0) = r.v0; sv(st, 1) = r.v1; sv(st, 2) = r.v2; sv(st, 3) = r.v3;     // arbitrary state
    SipHashState fin = st.Copy();
    st.Compress2(d);
    r.v3 ^= d; sipround(r); sipround(r); r.v0 ^= d;
    VASSERT(sv(st, 0) == r.v0 && sv(st, 1) == r.v1 && sv(st, 2) == r.v2 && sv(st, 3) == r.v3, "Compress2 = v3^=m; 2 SipRounds; v0^=m");
    RefSip f{sv(fin, 0), sv(fin, 1), sv(fin, 2), sv(fin, 3)};
    const uint64_t out = fin.Finalize4();
    f.v2 ^= 0xff; sipround(f); sipround(f); sipround(f); sipround(f);
    VASSERT(out == (f.v0 ^ f.v1 ^ f.v2 ^ f.v3), "Finalize4 = v2^=0xff; 4 SipRounds; v0^v1^v2^v3");
    verif_observe(out); verif_observe(sv(st, 0));
    VWITNESS((out & 0xff) == 0x11, "some output reachable");
    VREACH("end");
}

extern "C" void h_shortid()
{
    CBlockHeaderAndShortTxIDs cb;
    // symbolic header and nonce
    cb.header.nVersion = nondet_i32(); cb.header.nTime = nondet_u32(); cb.header.nBits = nondet_u32(); cb.header.nNonce = nondet_u32();
    for (int i = 0; i < 32; i++) { cb.header.hashPrevBlock.data()[i] = nondet_u8(); cb.header.hashMerkleRoot.data()[i] = nondet_u8(); }
    const uint64_t nonce = nondet_u64();
    nonce_of(cb) = nonce;
    call_fill(cb);                                        // real FillShortTxIDSelector: SHA256(header || nonce) -> SipHash key
    VASSERT(g_sha_calls == 1 && g_sha_len == 88, "selector hashes exactly the 80-byte header followed by the 8-byte nonce");
    bool in_ok = true;
    {   // BIP152 / block header wire format: version, prev, merkle root, time, bits, nonce (all little endian), then the 64-bit nonce
        uint8_t want[88]; size_t n = 0;
        for (int i = 0; i < 4; i++) want[n++] = (uint8_t)((uint32_t)cb.header.nVersion >> (8 * i));
        for (int i = 0; i < 32; i++) want[n++] = cb.header.hashPrevBlock.data()[i];
        for (int i = 0; i < 32; i++) want[n++] = cb.header.hashMerkleRoot.data()[i];
        for (int i = 0; i < 4; i++) want[n++] = (uint8_t)(cb.header.nTime >> (8 * i));
        for (int i = 0; i < 4; i++) want[n++] = (uint8_t)(cb.header.nBits >> (8 * i));
        for (int i = 0; i < 4; i++) want[n++] = (uint8_t)(cb.header.nNonce >> (8 * i));
        for (int i = 0; i < 8; i++) want[n++] = (uint8_t)(nonce >> (8 * i));
        for (int i = 0; i < 88; i++) in_ok = in_ok && g_sha_in[i] == want[i];
    }
    VASSERT(in_ok, "selector preimage is the serialized header followed by the little-endian nonce");
    uint64_t k0 = 0, k1 = 0;
    memcpy(&k0, g_sha_out, 8); memcpy(&k1, g_sha_out + 8, 8);      // first two little-endian 64-bit words of the digest (little-endian host, asserted below)

    uint8_t w[32];
    for (int i = 0; i < 32; i++) w[i] = nondet_u8();
    uint256 u; memcpy(u.data(), w, 32);
    const uint64_t id = cb.GetShortID(Wtxid::FromUint256(u));
    verif_observe(id);
    // BIP152: SipHash-2-4 keyed with (k0,k1) over the wtxid, truncated to 6 bytes. The hash value is taken from the real PresaltedSipHasher
    // (same compiled function, so both sides are the same term for the solver); that this function is SipHash-2-4 is established separately:
    // step kernels vs the paper for all states (h_sipsteps), byte interface vs an independent reference up to 15 bytes and
    // PresaltedSipHasher == CSipHasher over 32 bytes (h_siphash, the latter in the thorough tier: 14 ARX rounds on both sides need ~3 min of SAT).
    const uint64_t full = PresaltedSipHasher(k0, k1)(u);
    VASSERT(id == (full & 0xffffffffffffULL), "short id = low 48 bits of SipHash-2-4 keyed with the first two LE words of SHA256(header||nonce) over the wtxid");
    VASSERT((id >> 48) == 0, "short id fits in 6 bytes");
    VWITNESS((id & 1) == 1 && k0 != 0, "an odd id is reachable");
    VREACH("end");
}

// ---- general CSipHasher against the same reference for other message lengths / write patterns
#ifndef MLEN
#define MLEN 9
#endif
#ifndef SPLIT     // the message is written in two pieces [0,SPLIT) and [SPLIT,MLEN)
#define SPLIT 0
#endif
extern "C" void h_siphash()
{
    uint8_t m[MLEN + 1];
    for (int i = 0; i < MLEN; i++) m[i] = nondet_u8();
    const uint64_t k0 = nondet_u64(), k1 = nondet_u64();
    CSipHasher h(k0, k1);
    h.Write(std::span<const unsigned char>(m, SPLIT));
    h.Write(std::span<const unsigned char>(m + SPLIT, MLEN - SPLIT));
    const uint64_t got = h.Finalize();
    verif_observe(got);
#ifndef NOREF
    VASSERT(got == ref_siphash24(k0, k1, m, MLEN), "CSipHasher equals SipHash-2-4 of the concatenated bytes");
#endif
#if MLEN % 8 == 0 && MLEN > 0
    {   // the 64-bit word interface is the little-endian interpretation of 8 bytes
        CSipHasher h2(k0, k1);
        for (int i = 0; i < MLEN / 8; i++) { uint64_t x = 0; for (int b = 0; b < 8; b++) x |= (uint64_t)m[8 * i + b] << (8 * b); h2.Write(x); }
        VASSERT(h2.Finalize() == got, "Write(uint64_t) equals writing its 8 little-endian bytes");
    }
#endif
#if MLEN == 32
    {
        uint256 u; memcpy(u.data(), m, 32);
        VASSERT(PresaltedSipHasher(k0, k1)(u) == got, "PresaltedSipHasher(uint256) equals CSipHasher over its 32 bytes");
    }
#endif
#if MLEN == 36
    {
        uint256 u; memcpy(u.data(), m, 32);
        const uint32_t extra = (uint32_t)m[32] | ((uint32_t)m[33] << 8) | ((uint32_t)m[34] << 16) | ((uint32_t)m[35] << 24);
        VASSERT(PresaltedSipHasher(k0, k1)(u, extra) == got, "PresaltedSipHasher(uint256, extra) equals CSipHasher over 36 bytes");
    }
#endif
    VWITNESS((got & 0xff) == 0x5a, "some hash value reachable");
    VREACH("end");
}
