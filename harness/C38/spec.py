from vlib import H
PROPERTY = 'C38'
LEVEL = 'model_checking'
CLAIM = ('Compact-block short ids (kernel 1 of the property): the real CBlockHeaderAndShortTxIDs::FillShortTxIDSelector hashes exactly serialized-header||nonce (88 bytes, BIP152 layout) and GetShortID equals the low 48 bits of '
         'SipHash-2-4 keyed with the first two little-endian words of that digest over the 32-byte wtxid, for all headers, nonces, digests and wtxids. SipHash-2-4 is established compositionally: the real SipHashState kernels '
         '(initialisation, Compress2, Finalize4) equal the SipHash paper for every key/state/word (sipsteps); GetShortID equals the real PresaltedSipHasher(key)(wtxid) truncated to 48 bits (shortid), which equals CSipHasher over 32 bytes (thorough); CSipHasher (byte interface, Write(uint64_t)) equals an independent '
         'byte-wise SipHash-2-4 for all messages of length <= 15 (17 thorough) split in two writes (siphash). NOT covered: PartiallyDownloadedBlock::InitData / FillBlock (mempool, shared_ptr transactions, unordered_map) and hence the '
         'reconstruction-or-failure statement of the property itself.')
COMMON = dict(nofmt=True, timeout=300, diff_runs=16, backends=['default', 'cvc5', 'kissat'])
ML = lambda l: [{'MLEN': m, 'SPLIT': s} for m, s in l]
HARNESSES = [
    H('sipsteps', 'shortid.cpp', 'h_sipsteps', link=['crypto/siphash.cpp', 'uint256.cpp'], unwind=4,
      functions=['SipHashState::SipHashState(k0,k1)', 'SipHashState::Compress2', 'SipHashState::Finalize4', 'SipHashState::SipRound'], bounds='all keys, all 256-bit states, all message words', **COMMON),
    H('shortid', 'shortid.cpp', 'h_shortid', link=['blockencodings.cpp', 'crypto/siphash.cpp', 'uint256.cpp', 'primitives/block.cpp'], unwind=100,
      functions=['CBlockHeaderAndShortTxIDs::FillShortTxIDSelector', 'CBlockHeaderAndShortTxIDs::GetShortID', 'PresaltedSipHasher::operator()(uint256)', 'SipHashState::Compress2/Finalize4', 'CBlockHeader::Serialize'],
      stubs=['CSHA256 replaced by a recording model with unconstrained digest (the SipHash key is therefore fully symbolic)', 'assertion_fail (util/check.cpp) -> CBMC assertion', 'memory_cleanse -> no-op'], bounds='all headers, nonces, digests (hence keys) and wtxids', **COMMON),
    H('siphash', 'shortid.cpp', 'h_siphash', link=['crypto/siphash.cpp', 'uint256.cpp'], **dict(COMMON, timeout=900), variants=ML([(0, 0), (7, 3), (8, 0), (9, 8), (15, 5)]), tvariants=ML([(0, 0), (1, 0), (7, 3), (8, 0), (8, 8), (9, 8), (15, 5), (16, 1), (17, 9)]) + [{'MLEN': 32, 'SPLIT': 16, 'NOREF': 1}, {'MLEN': 36, 'SPLIT': 32, 'NOREF': 1}], unwind=48,
      functions=['CSipHasher::Write(span)', 'CSipHasher::Write(uint64_t)', 'CSipHasher::Finalize', 'PresaltedSipHasher'], bounds='message lengths 0..15 (thorough ..17) written in two pieces; thorough adds PresaltedSipHasher == CSipHasher at 32 and 36 bytes; keys and bytes symbolic'),
]
