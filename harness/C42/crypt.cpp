// C42 (kernel level): wallet encryption kernel. Real code: crypto/aes.cpp AES256CBCEncrypt / AES256CBCDecrypt (CBCEncrypt / CBCDecrypt templates: chaining,
// PKCS#7 padding, constant-time padding check), AES256Encrypt/Decrypt wrappers; wallet/crypter.cpp CCrypter::SetKey / Encrypt / Decrypt / SetKeyFromPassphrase /
// BytesToKeySHA512AES, EncryptSecret / DecryptSecret.
// The AES-256 block functions (ctaes: AES256_init / AES256_encrypt / AES256_decrypt, compiled into aes.cpp) are replaced by an UNINTERPRETED PERMUTATION PAIR:
// for every key, E_k and D_k are arbitrary mutually inverse bijections on 16-byte blocks (every call draws a fresh block, constrained to be consistent with
// all earlier calls: same key => (input equal <=> output equal), across directions). Every call is logged. ctaes itself is C49 material.
#include <verif.h>
#include <verif_stubs_common.h>
#include <crypto/aes.h>
#include <crypto/sha512.h>
#include <wallet/crypter.h>
#include <uint256.h>
#include <string.h>

// ---- memory_cleanse: recorded (how many bytes were wiped), performed ----
static uint64_t g_cleansed;
void memory_cleanse(void* p, size_t n) { uint8_t* b = (uint8_t*)p; for (size_t i = 0; i < n; i++) b[i] = 0; g_cleansed += n; }

// ---- uninterpreted permutation pair ----
#define MAXCALL 12
struct Call { uint8_t key[32]; uint8_t pt[16]; uint8_t ct[16]; bool enc; };
static Call g_call[MAXCALL]; static int g_ncall;
static bool eqn(const uint8_t* a, const uint8_t* b, int n) { bool e = true; for (int i = 0; i < n; i++) if (a[i] != b[i]) e = false; return e; }
static void perm(bool enc, const uint8_t* key, const uint8_t* in, uint8_t* out)
{
    __CPROVER_assert(g_ncall < MAXCALL, "permutation log capacity");
    uint8_t fresh[16];
    for (int i = 0; i < 16; i++) fresh[i] = nondet_u8();
    if (verif_native()) {
        // native replay / differential: compute the unique consistent answer where one exists, otherwise keep the drawn block (rejecting a collision)
        int hit = -1;
        for (int j = g_ncall - 1; j >= 0; j--) if (eqn(g_call[j].key, key, 32) && eqn(enc ? g_call[j].pt : g_call[j].ct, in, 16)) hit = j;
        if (hit >= 0) memcpy(fresh, enc ? g_call[hit].ct : g_call[hit].pt, 16);
        else for (int j = 0; j < g_ncall; j++) VASSUME(!(eqn(g_call[j].key, key, 32) && eqn(enc ? g_call[j].ct : g_call[j].pt, fresh, 16)));
    } else {
        for (int j = 0; j < g_ncall; j++) {
            const bool samekey = eqn(g_call[j].key, key, 32);
            const bool in_eq = eqn(enc ? g_call[j].pt : g_call[j].ct, in, 16), out_eq = eqn(enc ? g_call[j].ct : g_call[j].pt, fresh, 16);
            VASSUME(!samekey || in_eq == out_eq);       // a bijection, and D_k is the inverse of E_k
        }
    }
    Call& c = g_call[g_ncall++];
    memcpy(c.key, key, 32); memcpy(enc ? c.pt : c.ct, in, 16); memcpy(enc ? c.ct : c.pt, fresh, 16); c.enc = enc;
    memcpy(out, fresh, 16);
}
extern "C" {
void AES256_init(AES256_ctx* ctx, const unsigned char* key32) { memcpy((void*)ctx, key32, 32); }
void AES256_encrypt(const AES256_ctx* ctx, size_t blocks, unsigned char* cipher16, const unsigned char* plain16)
{ __CPROVER_assert(blocks == 1, "one block per call"); perm(true, (const uint8_t*)ctx, plain16, cipher16); }
void AES256_decrypt(const AES256_ctx* ctx, size_t blocks, unsigned char* plain16, const unsigned char* cipher16)
{ __CPROVER_assert(blocks == 1, "one block per call"); perm(false, (const uint8_t*)ctx, cipher16, plain16); }
}

// ---- SHA-512 stretching: unconstrained digests, finalisations counted and the last digest remembered ----
static uint8_t g_last_digest[64]; static int g_sha_final; static uint64_t g_sha_bytes;
CSHA512::CSHA512() { bytes = 0; }
CSHA512& CSHA512::Write(const unsigned char*, size_t len) { g_sha_bytes += len; return *this; }
CSHA512& CSHA512::Reset() { return *this; }
void CSHA512::Finalize(unsigned char hash[OUTPUT_SIZE]) { for (int i = 0; i < 64; i++) { g_last_digest[i] = nondet_u8(); hash[i] = g_last_digest[i]; } g_sha_final++; }

#define MAXN 80
// CBC encryption of N bytes (N, PAD concrete): structure of the ciphertext
template <int N, int PAD>
static void run_enc()
{
    uint8_t key[32], iv[16]; static uint8_t data[MAXN], out[MAXN + 16];
    for (int i = 0; i < 32; i++) key[i] = nondet_u8();
    for (int i = 0; i < 16; i++) iv[i] = nondet_u8();
    for (int i = 0; i < N; i++) data[i] = nondet_u8();
    for (int i = 0; i < MAXN + 16; i++) out[i] = 0xEE;
    g_ncall = 0;
    const AES256CBCEncrypt enc(key, iv, PAD != 0);
    const int got = enc.Encrypt(data, N, out);
    verif_observe(got);
    constexpr int FULL = N / 16, REM = N % 16;
    constexpr int WANT = N == 0 ? 0 : PAD ? (FULL + 1) * 16 : (REM == 0 ? N : 0);
    VASSERT(got == WANT, "CBC encrypt: output length = N rounded up to the next multiple of 16 (a full padding block if N % 16 == 0) with padding; N without padding if N % 16 == 0; 0 for empty input or unpaddable input");
    VASSERT(g_ncall == WANT / 16, "one block encryption per output block");
    bool ok = true;
    uint8_t prev[16]; memcpy(prev, iv, 16);
    for (int b = 0; b < WANT / 16; b++) {
        uint8_t want_in[16];
        for (int i = 0; i < 16; i++) {
            const int pos = 16 * b + i;
            const uint8_t p = pos < N ? data[pos] : (uint8_t)(16 - REM);      // PKCS#7: every padding byte is the number of padding bytes
            want_in[i] = p ^ prev[i];
        }
        if (!(g_call[b].enc && eqn(g_call[b].key, key, 32) && eqn(g_call[b].pt, want_in, 16))) ok = false;
        if (!eqn(out + 16 * b, g_call[b].ct, 16)) ok = false;                 // ciphertext bytes are outputs of E only
        memcpy(prev, g_call[b].ct, 16);
    }
    VASSERT(ok, "CBC encrypt: block i = E_key(previous ciphertext block (iv for i = 0) XOR (plaintext || PKCS#7 padding) block i)");
    bool untouched = true;
    for (int i = WANT; i < MAXN + 16; i++) if (out[i] != 0xEE) untouched = false;
    VASSERT(untouched, "nothing is written beyond the returned length");
    if (WANT > 0) {
        // round trip through the real decryptor with the same key / iv
        static uint8_t back[MAXN + 16];
        const AES256CBCDecrypt dec(key, iv, PAD != 0);
        const int n2 = dec.Decrypt(out, got, back);
        VASSERT(n2 == N, "CBC decrypt(encrypt(x)) has the length of x");
        VASSERT(eqn(back, data, N), "CBC decrypt(encrypt(x)) == x");
    }
    VREACH("end");
}
// CBC decryption of an ARBITRARY ciphertext of N bytes: chaining and the padding verdict
template <int N, int PAD>
static void run_dec()
{
    uint8_t key[32], iv[16]; static uint8_t ct[MAXN], out[MAXN + 16];
    for (int i = 0; i < 32; i++) key[i] = nondet_u8();
    for (int i = 0; i < 16; i++) iv[i] = nondet_u8();
    for (int i = 0; i < N; i++) ct[i] = nondet_u8();
    for (int i = 0; i < MAXN + 16; i++) out[i] = 0xEE;
    g_ncall = 0;
    const AES256CBCDecrypt dec(key, iv, PAD != 0);
    const int got = dec.Decrypt(ct, N, out);
    verif_observe(got);
    if (N == 0 || N % 16 != 0) {
        VASSERT(got == 0 && g_ncall == 0, "CBC decrypt: empty or non-block-multiple input is rejected without touching the cipher");
    } else {
        VASSERT(g_ncall == N / 16, "one block decryption per input block");
        static uint8_t plain[MAXN]; bool ok = true;
        for (int b = 0; b < N / 16; b++) {
            if (!(!g_call[b].enc && eqn(g_call[b].key, key, 32) && eqn(g_call[b].ct, ct + 16 * b, 16))) ok = false;
            for (int i = 0; i < 16; i++) plain[16 * b + i] = g_call[b].pt[i] ^ (b == 0 ? iv[i] : ct[16 * (b - 1) + i]);
        }
        VASSERT(ok, "CBC decrypt: D_key is applied to every ciphertext block");
        VASSERT(eqn(out, plain, N), "CBC decrypt: plaintext block i = D_key(block i) XOR previous ciphertext block (iv for i = 0)");
        if (PAD) {
            // PKCS#7: last byte v in 1..16 and the last v bytes all equal v
            const uint8_t v = plain[N - 1];
            bool wellformed = v >= 1 && v <= 16;
            for (int i = 0; i < 16; i++) if (i < v && plain[N - 1 - i] != v) wellformed = false;
            VASSERT(got == (wellformed ? N - v : 0), "CBC decrypt with padding: well-formed PKCS#7 padding <=> accepted, and the returned length strips exactly the padding (0 on malformed padding)");
            VWITNESS(wellformed && v == 16, "full padding block");
            VWITNESS(wellformed && v == 1, "one padding byte");
            VWITNESS(!wellformed && v >= 2 && v <= 16, "inner padding byte wrong");
            VWITNESS(!wellformed && v == 0, "zero padding byte"); VWITNESS(!wellformed && v > 16, "padding byte above 16");
        } else {
            VASSERT(got == N, "CBC decrypt without padding returns the input length");
        }
    }
    VREACH("end");
}
// wallet secret encryption: EncryptSecret / DecryptSecret over CCrypter, secret of N bytes, master key of KL bytes
template <int N, int KL>
static void run_secret()
{
    using wallet::CKeyingMaterial;
    CKeyingMaterial master(KL), secret(N);
    for (int i = 0; i < KL; i++) master[i] = nondet_u8();
    for (int i = 0; i < N; i++) secret[i] = nondet_u8();
    uint256 iv; for (int i = 0; i < 32; i++) iv.data()[i] = nondet_u8();
    std::vector<unsigned char> ct;
    g_ncall = 0;
    const bool ok = wallet::EncryptSecret(master, secret, iv, ct);
    verif_observe(ok);
    if (KL != 32) { VASSERT(!ok && g_ncall == 0, "a master key that is not 32 bytes is refused"); VREACH("end"); return; }
    VASSERT(ok, "EncryptSecret succeeds with a 32-byte master key");
    constexpr int WANT = (N / 16 + 1) * 16;
    VASSERT((int)ct.size() == WANT && g_ncall == WANT / 16, "ciphertext length = secret length padded up to the next block boundary");
    bool structure = true; uint8_t prev[16]; memcpy(prev, iv.data(), 16);
    for (int b = 0; b < WANT / 16; b++) {
        uint8_t want_in[16];
        for (int i = 0; i < 16; i++) { const int pos = 16 * b + i; want_in[i] = (pos < N ? secret[pos] : (uint8_t)(16 - N % 16)) ^ prev[i]; }
        if (!(g_call[b].enc && eqn(g_call[b].key, master.data(), 32) && eqn(g_call[b].pt, want_in, 16) && eqn(ct.data() + 16 * b, g_call[b].ct, 16))) structure = false;
        memcpy(prev, g_call[b].ct, 16);
    }
    VASSERT(structure, "EncryptSecret: AES-256-CBC under the master key, iv = first 16 bytes of the given hash, PKCS#7 padded; every ciphertext byte is a cipher output (no plaintext byte is copied)");
    CKeyingMaterial back;
    const bool ok2 = wallet::DecryptSecret(master, ct, iv, back);
    VASSERT(ok2 && (int)back.size() == N && eqn(back.data(), secret.data(), N), "DecryptSecret(EncryptSecret(s)) == s");
    VREACH("end");
}
// decryption of a well-formed ciphertext under a DIFFERENT master key
template <int N, int KL>
static void run_wrongkey()
{
    using wallet::CKeyingMaterial;
    CKeyingMaterial master(32), secret(N);
    for (int i = 0; i < 32; i++) master[i] = nondet_u8();
    for (int i = 0; i < N; i++) secret[i] = nondet_u8();
    uint256 iv; for (int i = 0; i < 32; i++) iv.data()[i] = nondet_u8();
    std::vector<unsigned char> ct;
    g_ncall = 0;
    const bool ok = wallet::EncryptSecret(master, secret, iv, ct);
    constexpr int WANT = (N / 16 + 1) * 16;
    VASSERT(ok && (int)ct.size() == WANT, "EncryptSecret succeeded");
    // a different master key: the result (if any) comes from the permutation of THAT key only
    CKeyingMaterial other(32); for (int i = 0; i < 32; i++) other[i] = nondet_u8();
    VASSUME(!eqn(other.data(), master.data(), 32));
    const int before = g_ncall;
    CKeyingMaterial wrong;
    const bool ok3 = wallet::DecryptSecret(other, ct, iv, wrong);
    verif_observe(ok3);
    bool used_other = g_ncall == before + WANT / 16;
    for (int b = 0; b < WANT / 16; b++) if (before + b < MAXCALL && !(!g_call[before + b].enc && eqn(g_call[before + b].key, other.data(), 32))) used_other = false;
    VASSERT(used_other, "decryption with another key consults only that key's permutation");
    VWITNESS(!ok3, "wrong key rejected by the padding check"); VWITNESS(ok3, "wrong key may still produce well-formed padding (then VerifyPubKey is the check)");
    VREACH("end");
}
// passphrase stretching: CCrypter::SetKeyFromPassphrase(rounds ROUNDS, salt of SL bytes, method METHOD) then Encrypt
template <int ROUNDS, int SL, int METHOD>
static void run_pass()
{
    wallet::CCrypter c;
    SecureString pass; pass.resize(3); for (int i = 0; i < 3; i++) pass[i] = (char)nondet_u8();
    uint8_t salt[16]; for (int i = 0; i < 16; i++) salt[i] = nondet_u8();
    g_sha_final = 0; g_ncall = 0;
    const bool ok = c.SetKeyFromPassphrase(pass, std::span<const unsigned char>(salt, SL), ROUNDS, METHOD);
    verif_observe(ok);
    VASSERT(ok == (ROUNDS != 0 && SL == 8 && METHOD == 0), "SetKeyFromPassphrase succeeds <=> rounds != 0, 8-byte salt, derivation method 0");
    wallet::CKeyingMaterial pt(32); for (int i = 0; i < 32; i++) pt[i] = nondet_u8();
    std::vector<unsigned char> ct;
    const bool e = c.Encrypt(pt, ct);
    VASSERT(e == ok, "Encrypt works exactly when a key has been set");
    if (ok) {
        VASSERT(g_sha_final == ROUNDS, "the digest is iterated exactly `rounds` times");
        VASSERT(g_ncall == 3 && eqn(g_call[0].key, g_last_digest, 32), "AES key = first 32 bytes of the final digest");
        bool ivok = true; for (int i = 0; i < 16; i++) if ((g_call[0].pt[i] ^ pt[i]) != g_last_digest[32 + i]) ivok = false;
        VASSERT(ivok, "IV = digest bytes 32..47");
    } else VASSERT(g_ncall == 0, "no cipher use without a key");
    VREACH("end");
}
#define VERIF_ENTRY(name, kind, ...) extern "C" void h_##name() { run_##kind<__VA_ARGS__>(); }
#include VERIF_ENTRIES_INC
