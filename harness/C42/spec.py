from vlib import H
PROPERTY = 'C42'
LEVEL = 'model_checking'
CLAIM = ('Kernel level only (wallet file contents, lock state of CWallet, passphrase change flow and crash atomicity of EncryptWallet need the wallet database and are NOT claimed). '
         'With the AES-256 block functions replaced by an uninterpreted permutation pair (for every key, E_k and D_k arbitrary mutually inverse bijections on 16-byte blocks) and SHA-512 unconstrained: '
         '(1) real AES256CBCEncrypt::Encrypt (crypto/aes.cpp): output length = N rounded up to the next block (full extra block when N % 16 == 0) with padding, N without padding when N % 16 == 0, 0 for empty/unpaddable input; '
         'block i == E_key(prev XOR (plaintext || PKCS#7 padding)_i) with prev = iv resp. the previous ciphertext block; every output byte is an E output; nothing written past the returned length; '
         'real AES256CBCDecrypt::Decrypt of the result returns the plaintext (round trip for all keys, ivs, data). '
         '(2) real AES256CBCDecrypt::Decrypt on ARBITRARY ciphertext: rejects empty / non-multiple-of-16 input without using the cipher; plaintext_i == D_key(c_i) XOR prev; with padding: accepted <=> last byte v in 1..16 and the last v bytes '
         'all equal v (all last-block patterns, D being arbitrary), returned length N - v, 0 otherwise. '
         '(3) wallet::EncryptSecret / DecryptSecret (wallet/crypter.cpp, CCrypter::SetKey/Encrypt/Decrypt): master key must be 32 bytes; ciphertext == AES-256-CBC(master key, iv = first 16 bytes of the hash, PKCS#7) of the secret, every '
         'byte a cipher output; DecryptSecret(EncryptSecret(s)) == s for all non-empty secrets of the listed lengths; decryption under a different key consults only that key\'s permutation (result failure or garbage, never a copy path). '
         '(4) CCrypter::SetKeyFromPassphrase: succeeds <=> rounds != 0, salt 8 bytes, method 0; digest iterated exactly `rounds` times; AES key / IV = bytes 0..31 / 32..47 of the final digest; Encrypt refuses without a key.')
def e(kind, a, b, c=None):
    return ('%s_%d_%d%s' % (kind, a, b, '' if c is None else '_%d' % c), '%s, %d, %d%s' % (kind, a, b, '' if c is None else ', %d' % c))
quick = [e('enc', n, 1) for n in (0, 1, 15, 16, 17, 32)] + [e('enc', n, 0) for n in (5, 16)] + [e('dec', n, 1) for n in (0, 5, 16, 32)] + [e('dec', 16, 0)] \
    + [e('secret', 32, 32), e('secret', 32, 31), e('wrongkey', 32, 32)] + [e('pass', 1, 8, 0), e('pass', 3, 8, 0), e('pass', 0, 8, 0), e('pass', 2, 7, 0), e('pass', 2, 8, 1)]
thorough = quick + [e('enc', n, 1) for n in (5, 31, 33, 47, 48, 64)] + [e('enc', n, 0) for n in (0, 32, 33)] + [e('dec', n, 1) for n in (17, 48, 64)] + [e('dec', n, 0) for n in (17, 32, 48)] \
    + [e('secret', 31, 32), e('secret', 1, 32), e('secret', 32, 33), e('secret', 16, 32), e('secret', 33, 32), e('secret', 48, 32), e('secret', 64, 32), e('wrongkey', 31, 32), e('wrongkey', 48, 32)] + [e('pass', 2, 8, 0), e('pass', 5, 8, 0), e('pass', 2, 9, 0)]
HARNESSES = [
    H('crypt', 'crypt.cpp', 'h_crypt', link=['crypto/aes.cpp', 'wallet/crypter.cpp', 'uint256.cpp'], entries=quick, tentries=thorough, shadow=['nofmt', 'nosecure'], unwind=100, memunwind=300, interpose=True, timeout=600, objbits=10,
      functions=['AES256CBCEncrypt / AES256CBCDecrypt constructors, Encrypt, Decrypt; CBCEncrypt / CBCDecrypt templates; AES256Encrypt / AES256Decrypt wrappers (crypto/aes.cpp)',
                 'wallet::CCrypter::SetKey, Encrypt, Decrypt, SetKeyFromPassphrase, BytesToKeySHA512AES, CleanKey; wallet::EncryptSecret, wallet::DecryptSecret (wallet/crypter.cpp)',
                 'std::vector<unsigned char, secure_allocator>, SecureString'],
      stubs=['ctaes AES256_init / AES256_encrypt / AES256_decrypt -> uninterpreted permutation pair per key with call log (aes.cpp compiled interposable so that the inlined ctaes bodies are not used); ctaes itself is C49',
             'CSHA512 -> unconstrained digests, finalisations counted', 'secure_allocator -> operator new/delete + memory_cleanse (ref/nosecure shadow header; LockedPoolManager not modelled)',
             'memory_cleanse -> zeroing loop (performed and counted)', 'tinyformat -> empty strings', 'assertion_fail -> CBMC assertion'],
      assumptions=['observation, not a violation: an EMPTY secret does not round-trip (CBC decrypt returns length 0, which CCrypter::Decrypt treats as failure); wallet secrets are 32 bytes',
                   'DecryptKey (CKey::Set / VerifyPubKey over secp256k1) is not included: the final "wrong key" filter is VerifyPubKey, outside this kernel'],
      bounds='plaintext lengths 0,1,15,16,17,32 (+5,16 unpadded), ciphertext lengths 0,5,16,32, secrets of 1,31,32 bytes, master keys of 31,32 bytes, 0..3 stretching rounds, salt 7/8 bytes; thorough up to 64 bytes; all keys, ivs, data, ciphertext bytes symbolic'),
]
