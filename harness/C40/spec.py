from vlib import H
PROPERTY = 'C40'
LEVEL = 'model_checking'
CLAIM = ('NOT CLAIMED (no conclusive query). Harness for SelectCoinsBnB (wallet/coinselection.cpp) on pools of 1-2 single-coin OutputGroups built through the real COutput / OutputGroup::Insert: '
         'asserts result subset of pool without duplicates, reported effective value = sum, target <= sum <= target + cost_of_change, weight = sum <= max, complete search, and optimality / infeasibility against a '
         'universally quantified competing subset. On this pipeline the symbolic execution of ONE SelectCoinsBnB call does not finish: 15 min for 2 groups with symbolic values, > 400 s for 1 group and for 2 groups with '
         'concrete effective values. Cause: std::sort moves fat OutputGroup objects (vector<shared_ptr<COutput>> members) under symbolic comparisons, SelectionResult keeps std::set<shared_ptr<COutput>> ordered by '
         'COutPoint (32-byte memcmp through pointers that are symbolic selections of coins), so the heap shape is symbolic and every tree walk / memcmp is executed on merged pointers. '
         'CoinGrinder, SelectCoinsSRD and KnapsackSolver share the same result type and were not attempted.')
ALGOS = {'bnb': 0, 'cg': 1, 'srd': 2, 'knapsack': 3}
def e(algo, effs):
    n = len(effs); ev = (list(effs) + [0, 0, 0, 0])[:4]
    return ('%s_%s' % (algo, 'x'.join(str(x) if x else 's' for x in effs)), '%d, %d, %d, %d, %d, %d' % (ALGOS[algo], n, ev[0], ev[1], ev[2], ev[3]))
LINK = ['wallet/coinselection.cpp', 'policy/feerate.cpp', 'util/feefrac.cpp', 'primitives/transaction.cpp', 'uint256.cpp', 'script/script.cpp']
def HS(n, entries, tentries=None):
    return H('sel%d' % n, 'select.cpp', 'h_sel', link=LINK, entries=entries, tentries=tentries, shadow=['nofmt'], defines={'VERIF_TALLOC_MAX': 4, 'VERIF_LL2C_INLINE_GEP': 1},
             noop=['_ZNSt16_Sp_counted_baseILN9__gnu_cxx12_Lock_policyE2EE24_M_release_last_use_coldEv', '_ZNSt16_Sp_counted_baseILN9__gnu_cxx12_Lock_policyE2EE10_M_destroyEv'], unwind=n + 2, memunwind=8 * n + 9, timeout=300, objbits=11, diff_runs=12, backends=['default', 'cadical'], unwindset='memcmp.0:34,_ZN6wallet14SelectCoinsBnBERSt6vectorINS_11OutputGroupESaIS1_EERKlS6_i.4:%d,_ZN6wallet14SelectCoinsBnBERSt6vectorINS_11OutputGroupESaIS1_EERKlS6_i.5:%d' % (2 ** n + 1, n + 1),
             tier='thorough', functions=['SelectCoinsBnB', 'OutputGroup::Insert', 'SelectionResult::AddInput/GetSelectedEffectiveValue/GetWeight'], stubs=['std::vector<size_t>::_M_realloc_insert preallocates 4 elements (capacity policy)', 'shared_ptr last-use release emptied (memory is never reused)', 'tinyformat -> empty strings'], bounds='no query finishes; kept as a thorough-tier work item')
HARNESSES = [HS(1, [e('bnb', [0])]), HS(2, [e('bnb', [5, 3])])]
