// C40: coin selection returns a valid, sufficient subset of the offered pool.
// Real code: wallet/coinselection.cpp (SelectCoinsBnB, CoinGrinder, SelectCoinsSRD, KnapsackSolver, OutputGroup::Insert, SelectionResult::AddInput/
// GetSelectedEffectiveValue/GetSelectedValue/GetWeight/RecalculateWaste/GetChange), on pools of NG single-coin OutputGroups.
// Oracle: plain sums over the harness's own copy of the pool values; optimality / infeasibility against a universally quantified competing subset.
#include <verif.h>
#include <verif_stubs_common.h>
#include <wallet/coinselection.h>
#include <util/translation.h>
#include <memory>

const TranslateFn G_TRANSLATION_FUN{nullptr};
std::string StrFormatInternalBug(std::string_view, const std::source_location&) { return std::string(); }
using namespace wallet;

// libstdc++ growth policy stub (capacity is unobservable): the first reallocation of std::vector<size_t> (BnB/CoinGrinder selection stacks) allocates VCAP elements
// at once and a second one is asserted not to happen; otherwise every push_back site carries a symbolic-size reallocate-and-copy path.
#ifndef VCAP
#define VCAP 4
#endif
template <> template <> void std::vector<size_t>::_M_realloc_insert<const size_t&>(iterator pos, const size_t& x)
{
    VASSERT(this->_M_impl._M_start == nullptr && pos.base() == nullptr, "vector<size_t> grows at most once (preallocated capacity suffices)");
    VASSUME(this->_M_impl._M_start == nullptr);
    size_t* mem = static_cast<size_t*>(::operator new(sizeof(size_t) * VCAP));
    mem[0] = x;
    this->_M_impl._M_start = mem; this->_M_impl._M_finish = mem + 1; this->_M_impl._M_end_of_storage = mem + VCAP;
}

#ifndef VB   // value bits
#define VB 8
#endif
#ifndef FEEB // fee bits
#define FEEB 4
#endif
#ifndef WB   // input_bytes bits
#define WB 3
#endif
#define MAXG 4

struct Pool {
    int n;
    int64_t value[MAXG], fee[MAXG], ltf[MAXG], eff[MAXG]; int32_t weight[MAXG];
    const COutput* coin[MAXG];
};

template <int NG, int E0, int E1, int E2, int E3>
static void make_pool(Pool& p, std::vector<OutputGroup>& pool)
{
    const int EFFS[4] = {E0, E1, E2, E3};
    p.n = NG;
    pool.reserve(NG);
    // fee regime shared by all coins (fee = feerate * size, long term fee = long term feerate * size): either every coin has fee > long_term_fee or none
    const bool high = nondet_bool() != 0;
    for (int i = 0; i < NG; i++) {
        p.fee[i] = (int64_t)(nondet_u32() & ((1u << FEEB) - 1));
        p.ltf[i] = (int64_t)(nondet_u32() & ((1u << FEEB) - 1));
        VASSUME((p.fee[i] > p.ltf[i]) == high);
        const int32_t bytes = 1 + (int32_t)(nondet_u32() & ((1u << WB) - 1));
        p.weight[i] = 4 * bytes;
        // effective value: concrete per entry when E_i > 0 (keeps std::sort's comparisons, hence the heap shape of the pool, concrete), otherwise symbolic positive
        p.eff[i] = EFFS[i] > 0 ? (int64_t)EFFS[i] : 1 + (int64_t)(nondet_u32() & ((1u << VB) - 1));
        p.value[i] = p.eff[i] + p.fee[i];
        uint256 h; h.data()[0] = (unsigned char)(i + 1);
        std::shared_ptr<COutput> c(new COutput(COutPoint(Txid::FromUint256(h), (uint32_t)i), CTxOut(p.value[i], CScript()), /*depth=*/1, bytes, /*solvable=*/true, /*safe=*/true, /*time=*/0, /*from_me=*/true, /*fees=*/p.fee[i]));
        p.coin[i] = c.get();
        OutputGroup g;
        g.Insert(c, /*ancestors=*/0, /*cluster_count=*/0);
        // long term fee: set directly (OutputGroup::Insert derives it from a CFeeRate; the division is C30's subject)
        c->long_term_fee = p.ltf[i]; g.long_term_fee = p.ltf[i];
        pool.push_back(std::move(g));
    }
}

// which pool members does the result contain? (bit i), and are all its inputs pool members, each once?
static bool result_mask(const Pool& p, const SelectionResult& r, unsigned& mask)
{
    mask = 0; bool ok = true; unsigned count = 0;
    for (const auto& c : r.GetInputSet()) {
        bool found = false;
        for (int i = 0; i < p.n; i++) if (c.get() == p.coin[i]) { if (mask & (1u << i)) ok = false; mask |= 1u << i; found = true; }
        if (!found) ok = false;
        count++;
    }
    if (count != r.GetInputSet().size()) ok = false;
    return ok;
}
static int64_t sum_eff(const Pool& p, unsigned m) { int64_t s = 0; for (int i = 0; i < p.n; i++) if (m & (1u << i)) s += p.eff[i]; return s; }
static int64_t sum_weight(const Pool& p, unsigned m) { int64_t s = 0; for (int i = 0; i < p.n; i++) if (m & (1u << i)) s += p.weight[i]; return s; }
static int64_t sum_wastefee(const Pool& p, unsigned m) { int64_t s = 0; for (int i = 0; i < p.n; i++) if (m & (1u << i)) s += p.fee[i] - p.ltf[i]; return s; }

// ALGO 0: SelectCoinsBnB
template <int ALGO, int NG, int E0, int E1, int E2, int E3>
static void run()
{
    Pool p; std::vector<OutputGroup> pool;
    make_pool<NG, E0, E1, E2, E3>(p, pool);
    const int64_t target = 1 + (int64_t)(nondet_u32() & ((1u << (VB + 2)) - 1));
    const int64_t cost_of_change = (int64_t)(nondet_u32() & ((1u << (FEEB + 1)) - 1));
    const int max_weight = (int)(nondet_u32() & ((1u << (WB + 5)) - 1));
    const unsigned comp = (unsigned)nondet_range(0, (1u << NG) - 1);   // universally quantified competing subset
    if (ALGO == 0) {
        auto res = SelectCoinsBnB(pool, target, cost_of_change, max_weight);
        const bool comp_ok = sum_eff(p, comp) >= target && sum_eff(p, comp) <= target + cost_of_change && sum_weight(p, comp) <= max_weight;
        verif_observe((bool)res);
        if (res) {
            unsigned m = 0;
            VASSERT(result_mask(p, *res, m), "every selected coin is a pool member, selected once");
            VASSERT(m != 0, "a successful selection is not empty");
            const int64_t e = sum_eff(p, m);
            verif_observe(m);
            VASSERT(res->GetSelectedEffectiveValue() == e, "reported effective value is the sum over the selected coins");
            VASSERT(e >= target, "selection covers the target");
            VASSERT(e <= target + cost_of_change, "BnB: selection does not exceed target + cost of change");
            VASSERT(res->GetWeight() == sum_weight(p, m) && sum_weight(p, m) <= max_weight, "selection weight is the sum of the selected weights and within the maximum");
            VASSERT(res->GetAlgoCompleted(), "at this pool size the search always completes");
            // optimality of a completed search: no feasible subset has strictly lower waste (input waste + excess)
            VASSERT(!comp_ok || sum_wastefee(p, m) + (e - target) <= sum_wastefee(p, comp) + (sum_eff(p, comp) - target), "BnB (complete search): no feasible subset has lower waste");
            VWITNESS(m == (1u << NG) - 1, "all coins selected");
            VWITNESS(m == 1, "only the first coin selected");
        } else {
            VASSERT(!comp_ok, "BnB fails only if no subset is within [target, target + cost_of_change] and the weight limit");
            VWITNESS(sum_eff(p, (1u << NG) - 1) >= target, "failure although the pool total covers the target");
        }
        VWITNESS((bool)res, "success");
    }
    VREACH("end");
}
#define VERIF_ENTRY(name, ...) extern "C" void h_##name() { run<__VA_ARGS__>(); }
#include VERIF_ENTRIES_INC
