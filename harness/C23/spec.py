from vlib import H
PROPERTY = 'C23'
LEVEL = 'model_checking'
CLAIM = 'draft'
HARNESSES = [
    H('options', 'limits.cpp', 'h_options', link=['node/mining_args.cpp', 'node/miner.cpp'], shadow=['nofmt'], unwind=12, timeout=300, objbits=10, functions=['CheckMiningOptions'], bounds='draft'),
    H('limits', 'limits.cpp', 'h_limits', link=['node/mining_args.cpp', 'node/miner.cpp'], variants=[{'NTX': 1}, {'NTX': 2}], shadow=['nofmt'], unwind=12, memunwind=600, noop=[r'_ZNSt15_Sp_counted_ptrIP12CTransaction\w*10_M_disposeEv'], timeout=300, objbits=10, functions=['TestChunkBlockLimits'], bounds='draft'),
]
