from vlib import H
PROPERTY = 'C23'
LEVEL = 'model_checking'
CLAIM = ('Kernel level only (template validity via TestBlockValidity, topological order, finality and coinbase = subsidy + fees inside CreateNewBlock need a live chainstate/mempool and are NOT claimed). '
         'Resource limits of block templates by induction over chunks, on the real code: (1) node::CheckMiningOptions / FlattenMiningOptions (node/mining_args.cpp; this tree\'s option validation, the successor of ClampOptions) '
         'accept a BlockCreateOptions <=> 2000 <= block_reserved_weight <= block_max_weight <= MAX_BLOCK_WEIGHT and coinbase_output_max_additional_sigops <= MAX_BLOCK_SIGOPS_COST, with defaults 8000 / 4,000,000 filled in, for all 64-bit option values; '
         '(2) on a phantom BlockAssembler holding any accepted options: resetBlock() starts the counters at the reserved weight / reserved sigops (invariant: reserved <= weight <= max <= 4,000,000, sigops <= 80,000); from ANY counter state '
         'satisfying the invariant, TestChunkBlockLimits(chunk, sigops) admits a chunk <=> weight + chunk size < max and sigops + chunk sigops < 80,000 (128-bit reference), and after the real AddToBlock of each of the chunk\'s transactions '
         'nBlockWeight, nBlockSigOpsCost, nFees, nBlockTx are exactly the sums, weight < max <= MAX_BLOCK_WEIGHT and sigops < 80,000 hold again, and the per-transaction fee / sigop vectors of the template are recorded in order.')
LINK = ['node/mining_args.cpp', 'node/miner.cpp', 'primitives/transaction.cpp', 'script/script.cpp', 'uint256.cpp', 'policy/feerate.cpp', 'crypto/hex_base.cpp']
NOLOG = ['_ZN4util3log23LogPrintFormatInternal_[A-Za-z0-9_]*']
FN = ['node::CheckMiningOptions', 'node::FlattenMiningOptions (node/mining_args.cpp)', 'node::BlockAssembler::resetBlock', 'node::BlockAssembler::TestChunkBlockLimits', 'node::BlockAssembler::AddToBlock (node/miner.cpp)',
      'CTxMemPoolEntry constructor/getters (kernel/mempool_entry.h)', 'util::Result / util::Error']
STUBS = ['phantom BlockAssembler: typed zeroed storage, only m_options / counters / pblocktemplate constructed (chainparams, mempool, chainstate references never read by these methods)',
         'phantom CTxMemPoolEntry: real constructor on a 1-in/1-out transaction, then nTxWeight poked to a symbolic value (fee and sigop cost are constructor arguments)',
         'TxGraph::Ref::~Ref, nBytesPerSigOp, GetVirtualTransactionSize (only used by the optional -printpriority log line; print_modified_fee is false/unset in the harness)',
         'CSHA256 unconstrained (txid values irrelevant)', 'tinyformat -> empty strings; LogPrintFormatInternal_ emptied; util::log sinks dropped', 'memory_cleanse no-op', 'assertion_fail -> CBMC assertion']
HARNESSES = [
    H('options', 'limits.cpp', 'h_options', link=LINK, shadow=['nofmt'], unwind=12, timeout=300, objbits=10, functions=FN, stubs=STUBS,
      bounds='block_reserved_weight / block_max_weight: unset or any 64-bit value; coinbase_output_max_additional_sigops any 64-bit value; use_argnames symbolic'),
    H('limits', 'limits.cpp', 'h_limits', link=LINK, variants=[{'NTX': 1}, {'NTX': 2}], tvariants=[{'NTX': 1}, {'NTX': 2}, {'NTX': 3}, {'NTX': 5}], shadow=['nofmt'], unwind=12, memunwind=600, noop=NOLOG, timeout=300, objbits=10,
      functions=FN, stubs=STUBS,
      assumptions=['options passed CheckMiningOptions (the BlockAssembler constructor throws otherwise)', 'counter state: reserved <= nBlockWeight <= max, nBlockSigOpsCost <= 80,000, 0 <= nFees <= MAX_MONEY (the invariant itself; established by resetBlock, re-established by every admitted chunk)',
                   'chunk: FeePerWeight.size == sum of the transactions\' weights, each weight >= 0, sum <= INT32_MAX; per-transaction sigop cost in [0, 80,000]; fees in [0, MAX_MONEY/NTX] (TxGraph / mempool acceptance contracts)',
                   'the coinbase allowance is exactly what the options reserve (block_reserved_weight, coinbase_output_max_additional_sigops): whether the real coinbase stays inside it is the caller\'s contract'],
      bounds='chunks of 1..2 transactions (thorough 1,2,3,5); every counter / option / weight / sigop / fee value symbolic within the stated ranges'),
]
