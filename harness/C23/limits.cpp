// C23 (kernel level): block template resource limits. Real code: node/mining_args.cpp CheckMiningOptions / FlattenMiningOptions (option validation, this
// tree's successor of ClampOptions), node/miner.cpp BlockAssembler::resetBlock / TestChunkBlockLimits / AddToBlock on a PHANTOM BlockAssembler (typed zeroed
// storage; only m_options, the counters and pblocktemplate are constructed; chainstate/mempool/chainparams references are never read by these methods).
// Inductive argument checked here: options accepted => after resetBlock the invariant  reserved <= nBlockWeight <= max <= MAX_BLOCK_WEIGHT,
// nBlockSigOpsCost <= MAX_BLOCK_SIGOPS_COST holds; from ANY counter state satisfying it, a chunk admitted by TestChunkBlockLimits and then added by AddToBlock
// (per transaction) leaves nBlockWeight < max and nBlockSigOpsCost < MAX_BLOCK_SIGOPS_COST, i.e. the invariant again. nFees/nBlockTx bookkeeping is exact.
#include <verif.h>
#include <verif_open_access.h>
#include <node/miner.h>
#include <node/mining_args.h>
#include <kernel/mempool_entry.h>
#include <verif_close_access.h>
#include <verif_stubs_common.h>
#include <verif_stubs_node.h>
#include <verif_hash_nondet.h>
#include <consensus/consensus.h>
#include <policy/policy.h>
#include <new>

#ifndef NTX          // transactions in the chunk
#define NTX 2
#endif

template <class T> union PhantomStore { T o; PhantomStore() {} ~PhantomStore() {} T& obj() { return o; } };
static PhantomStore<node::BlockAssembler> ba_store;
template <class T, class V> static inline void poke(const T& member, V v) { *const_cast<T*>(&member) = (T)v; }
void memory_cleanse(void*, size_t) {}
// environment of CTxMemPoolEntry that is not the subject: TxGraph linkage (txgraph.cpp) and the vsize helper used only for the optional log line
TxGraph::Ref::~Ref() {}
unsigned int nBytesPerSigOp = DEFAULT_BYTES_PER_SIGOP;
int64_t GetVirtualTransactionSize(int64_t, int64_t, unsigned int) { return (int64_t)nondet_range(1, 1000000); }

static node::BlockCreateOptions draw_options()
{
    node::BlockCreateOptions o;
    if (nondet_bool()) o.block_reserved_weight = nondet_u64();
    if (nondet_bool()) o.block_max_weight = nondet_u64();
    o.coinbase_output_max_additional_sigops = nondet_u64();
    if (nondet_bool()) o.print_modified_fee = false;
    return o;
}

extern "C" void h_options()
{
    const node::BlockCreateOptions o = draw_options();
    const bool ok = (bool)node::CheckMiningOptions(o, nondet_bool());
    const node::BlockCreateOptions f = node::FlattenMiningOptions(o);
    verif_observe(ok);
    VASSERT(f.block_reserved_weight.has_value() && f.block_max_weight.has_value() && f.block_min_fee_rate.has_value() && f.print_modified_fee.has_value(), "flattened options have every field set");
    const uint64_t reserved = o.block_reserved_weight ? *o.block_reserved_weight : 8000, maxw = o.block_max_weight ? *o.block_max_weight : 4000000;
    VASSERT(*f.block_reserved_weight == reserved && *f.block_max_weight == maxw && f.coinbase_output_max_additional_sigops == o.coinbase_output_max_additional_sigops,
            "flattening keeps provided values and fills the defaults 8000 / 4,000,000");
    const bool want = reserved >= 2000 && reserved <= maxw && maxw <= 4000000 && o.coinbase_output_max_additional_sigops <= 80000;
    VASSERT(ok == want, "options accepted <=> 2000 <= reserved <= max <= MAX_BLOCK_WEIGHT (4,000,000) and coinbase sigop reservation <= 80,000");
    VWITNESS(ok, "accepted"); VWITNESS(!ok && reserved <= maxw && maxw <= 4000000, "rejected for another reason than weights order");
    VREACH("end");
}

extern "C" void h_limits()
{
    node::BlockAssembler& ba = ba_store.obj();
    const node::BlockCreateOptions o = draw_options();
    VASSUME((bool)node::CheckMiningOptions(o, false));          // what the BlockAssembler constructor enforces (throws otherwise)
    new ((void*)&ba.m_options) node::BlockCreateOptions(node::FlattenMiningOptions(o));
    const uint64_t reserved = *ba.m_options.block_reserved_weight, maxw = *ba.m_options.block_max_weight, cb_sigops = ba.m_options.coinbase_output_max_additional_sigops;

    ba.resetBlock();
    VASSERT(ba.nBlockWeight == reserved && ba.nBlockSigOpsCost == cb_sigops && ba.nBlockTx == 0 && ba.nFees == 0, "resetBlock: counters start at the reserved weight / reserved sigops");
    VASSERT(ba.nBlockWeight <= maxw && maxw <= MAX_BLOCK_WEIGHT && ba.nBlockSigOpsCost <= MAX_BLOCK_SIGOPS_COST, "invariant holds initially");

    // arbitrary state satisfying the invariant
    const uint64_t w0 = nondet_u64(), s0 = nondet_u64(), n0 = nondet_u64() >> 8; const int64_t fees0 = nondet_i64();
    VASSUME(w0 >= reserved && w0 <= maxw && s0 <= (uint64_t)MAX_BLOCK_SIGOPS_COST && fees0 >= 0 && fees0 <= MAX_MONEY);
    ba.nBlockWeight = w0; ba.nBlockSigOpsCost = s0; ba.nBlockTx = n0; ba.nFees = fees0;
    static PhantomStore<node::CBlockTemplate> tmpl_store;          // typed static storage, default-initialised in place (a value-initialising `new T()` zeroes through an untyped byte loop)
    new ((void*)&ba.pblocktemplate) std::unique_ptr<node::CBlockTemplate>(new ((void*)&tmpl_store.o) node::CBlockTemplate);

    // a chunk of NTX mempool entries with symbolic weight / sigop cost / fee (phantom entries: the bookkeeping fields are poked)
    int32_t wt[NTX + 1]; int64_t so[NTX + 1]; int64_t fee[NTX + 1];
    int64_t chunk_w = 0, chunk_s = 0, chunk_f = 0;
    CMutableTransaction m; m.vin.resize(1); m.vout.resize(1);
    // never destroyed (deallocation is outside every claim; a symbolic reference count would make every release explore the disposal path)
    const CTransactionRef& tx = *new CTransactionRef(new CTransaction(std::move(m)));
    static PhantomStore<CTxMemPoolEntry> entries[NTX + 1];           // constructed in place, never moved or destroyed (virtual destructor / TxGraph::Ref unlinking are not the subject)
    for (int i = 0; i < NTX; i++) {
        wt[i] = (int32_t)nondet_u32(); so[i] = nondet_i64(); fee[i] = nondet_i64();
        VASSUME(wt[i] >= 0 && so[i] >= 0 && so[i] <= MAX_BLOCK_SIGOPS_COST && fee[i] >= 0 && fee[i] <= MAX_MONEY / NTX);     // weights/sigops/fees of validated mempool transactions
        chunk_w += wt[i]; chunk_s += so[i]; chunk_f += fee[i];
        new ((void*)&entries[i].o) CTxMemPoolEntry(tx, fee[i], /*time=*/0, /*entry_height=*/1, /*entry_sequence=*/0, /*spends_coinbase=*/false, so[i], LockPoints());
        poke(entries[i].o.nTxWeight, wt[i]);
    }
    VASSUME(chunk_w <= 0x7fffffff);                             // FeeFrac::size is int32: the chunk's size is the sum of its transactions' weights (TxGraph contract)
    const FeePerWeight chunk{chunk_f, (int32_t)chunk_w};

    const bool fits = ba.TestChunkBlockLimits(chunk, chunk_s);
    verif_observe(fits);
    VASSERT(fits == ((unsigned __int128)w0 + (uint64_t)chunk_w < maxw && (unsigned __int128)s0 + (uint64_t)chunk_s < (uint64_t)MAX_BLOCK_SIGOPS_COST),
            "chunk admitted <=> weight and sigop totals stay strictly below block_max_weight / 80,000");
    if (fits) {
        for (int i = 0; i < NTX; i++) ba.AddToBlock(entries[i].o);
        verif_observe(ba.nBlockWeight); verif_observe(ba.nBlockSigOpsCost);
        VASSERT(ba.nBlockWeight == w0 + (uint64_t)chunk_w && ba.nBlockSigOpsCost == s0 + (uint64_t)chunk_s && ba.nFees == fees0 + chunk_f && ba.nBlockTx == n0 + NTX, "AddToBlock bookkeeping is exact");
        VASSERT(ba.nBlockWeight < maxw && maxw <= MAX_BLOCK_WEIGHT && ba.nBlockSigOpsCost < (uint64_t)MAX_BLOCK_SIGOPS_COST, "after an admitted chunk the template is within the configured weight and the 80,000 sigop limit (reserved allowance included)");
        VASSERT(ba.pblocktemplate->block.vtx.size() == NTX && ba.pblocktemplate->vTxFees.size() == NTX && ba.pblocktemplate->vTxSigOpsCost.size() == NTX, "one template slot per added transaction");
        bool rec = true;
        for (int i = 0; i < NTX; i++) if (ba.pblocktemplate->vTxFees[i] != fee[i] || ba.pblocktemplate->vTxSigOpsCost[i] != so[i]) rec = false;
        VASSERT(rec, "per-transaction fee and sigop cost recorded in order");
    }
    VWITNESS(fits, "a chunk is admitted");
    VWITNESS(!fits && (unsigned __int128)w0 + (uint64_t)chunk_w < maxw, "rejected for sigops only");
    VWITNESS(!fits && (unsigned __int128)s0 + (uint64_t)chunk_s < (uint64_t)MAX_BLOCK_SIGOPS_COST, "rejected for weight only");
    VREACH("end");
}
