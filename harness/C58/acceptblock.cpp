// C58: ChainstateManager::AcceptBlock (validation.cpp) under stubs: an unrequested block is stored only if it has no data yet, at least as much
// work as the active tip, is at most 288 blocks above it and reaches the minimum chain work; other unrequested blocks are dropped without
// being stored, checked or marked.
#include <verif.h>
#include <verif_open_access.h>
#include <validation.h>
#include <node/blockstorage.h>
#include <kernel/chainparams.h>
#include <validationinterface.h>
#include <verif_close_access.h>
#include <verif_stubs_common.h>
#include <verif_stubs_node.h>
#include <verif_phantom.h>
#include <verif_hash_nondet.h>

RecursiveMutex cs_main;
const TranslateFn G_TRANSLATION_FUN{nullptr};

static PhantomStore<ChainstateManager> cm_store; static PhantomStore<Chainstate> cs_store; static PhantomStore<CChainParams> cp_store;
static CBlockIndex g_idx, g_tip;

// ---- stubs / recorders
struct Rec { int header, checkindex, checkblock, write, update, received, invalid, flush, powvalid; int write_height; };
static Rec g_rec;
static bool g_header_ok, g_checkblock_ok, g_write_ok;
bool ChainstateManager::AcceptBlockHeader(const CBlockHeader&, BlockValidationState& state, CBlockIndex** ppindex, bool)
{
    g_rec.header++;
    if (ppindex) *ppindex = &g_idx;
    if (!g_header_ok) { state.Invalid(BlockValidationResult::BLOCK_INVALID_HEADER, "stub-header"); return false; }
    return true;
}
void ChainstateManager::CheckBlockIndex() const { g_rec.checkindex++; }
bool CheckBlock(const CBlock&, BlockValidationState& state, const Consensus::Params&, bool, bool)
{
    g_rec.checkblock++;
    if (!g_checkblock_ok) { state.Invalid(BlockValidationResult::BLOCK_CONSENSUS, "stub-block"); return false; }
    return true;
}
FlatFilePos node::BlockManager::WriteBlock(const CBlock&, int nHeight)
{
    g_rec.write++; g_rec.write_height = nHeight;
    return g_write_ok ? FlatFilePos(1, 8) : FlatFilePos();
}
void node::BlockManager::UpdateBlockInfo(const CBlock&, unsigned int, const FlatFilePos&) { g_rec.update++; }
void ChainstateManager::ReceivedBlockTransactions(const CBlock&, CBlockIndex* pindexNew, const FlatFilePos&)
{
    g_rec.received++;
    pindexNew->nTx = 1; pindexNew->nStatus |= BLOCK_HAVE_DATA;      // the effects AcceptBlock itself can observe on a later delivery
}
void Chainstate::InvalidBlockFound(CBlockIndex* pindex, const BlockValidationState&) { g_rec.invalid++; pindex->nStatus |= BLOCK_FAILED_VALID; }
bool Chainstate::FlushStateToDisk(BlockValidationState&, FlushStateMode, int) { g_rec.flush++; return nondet_bool(); }

void ValidationSignals::NewPoWValidBlock(const CBlockIndex*, const std::shared_ptr<const CBlock>&) { g_rec.powvalid++; }
// only reached when the segwit deployment is active (never here)
uint256 BlockWitnessMerkleRoot(const CBlock&) { VASSERT(false, "BlockWitnessMerkleRoot stub reached"); return uint256(); }

static arith_uint256 sym256()
{
    arith_uint256 a;
    for (int i = 0; i < 8; i++) a.pn[i] = nondet_u32();                // limbs written directly (access opened), least significant first
    return a;
}
// reference comparison of 256-bit work, most significant 64-bit limb first
static bool ge256(const arith_uint256& x, const arith_uint256& y)
{
    bool ge = true;                                                   // equal so far
    for (int i = 0; i < 8; i++) { if (x.pn[i] > y.pn[i]) ge = true; else if (x.pn[i] < y.pn[i]) ge = false; }   // least to most significant limb: the last difference decides
    return ge;
}

extern "C" void h_acceptblock()
{
    ChainstateManager& cm = cm_store.obj(); Chainstate& cs = cs_store.obj(); CChainParams& cp = cp_store.obj();
    memset(&g_rec, 0, sizeof(g_rec));
    // ---- chainman: params (all buried deployments inactive so that the real ContextualCheckBlock accepts the empty test block), options
    *(void**)&cm.m_options = &cp;
    VASSERT(&cm.GetParams() == &cp, "phantom chainparams wired");
    cp.consensus.BIP34Height = cp.consensus.BIP65Height = cp.consensus.BIP66Height = cp.consensus.CSVHeight = cp.consensus.SegwitHeight = INT_MAX;
    const arith_uint256 minwork = sym256();
    new ((void*)&cm.m_options.minimum_chain_work) std::optional<arith_uint256>(minwork);
    new (&cm.m_cached_is_ibd) std::atomic_bool((bool)nondet_bool());
    static PhantomStore<ValidationSignals> signals_store;
    poke(cm.m_options.signals, nondet_bool() ? &signals_store.obj() : nullptr);
    // ---- the active chainstate: tip height/work symbolic, possibly an empty chain
    static Chainstate* cs_slots[1] = {nullptr};
    cs_slots[0] = &cs;
    { Chainstate** raw[3] = {cs_slots, cs_slots + 1, cs_slots + 1}; memcpy((void*)&cm.m_chainstates, raw, sizeof(raw)); }
    void** slot = REF_SLOT_AFTER(cs, Chainstate, m_last_script_check_reason_logged); slot[0] = &cm.m_blockman; slot[1] = &cm;
    cs.m_assumeutxo = Assumeutxo::VALIDATED;
    new (&cs.m_target_blockhash) std::optional<uint256>();
    new (&cs.m_chain) CChain();
    const int64_t tip_h = (int64_t)nondet_range(0, (uint64_t)INT_MAX - 288) - 1;          // -1: no tip yet
    const arith_uint256 tipwork = sym256();
    g_tip.nHeight = (int)tip_h; g_tip.nChainWork = tipwork;
    set_chain_tip(cs.m_chain, tip_h, &g_tip);
    VASSERT(cm.ActiveHeight() == (int)tip_h && (tip_h < 0 ? cm.ActiveTip() == nullptr : cm.ActiveTip() == &g_tip), "phantom active chain wired");

    // ---- the delivered block's index entry (what AcceptBlockHeader hands back)
    const int height = (int)nondet_range(1, INT_MAX - 1);
    const arith_uint256 work = sym256();
    const uint32_t status0 = nondet_u32(); const unsigned ntx0 = nondet_u32();
    // pprev is only handed to ContextualCheckBlock (not the subject): null makes it evaluate the empty block at height 0 with every deployment inactive
    g_idx.nHeight = height; g_idx.pprev = nullptr; g_idx.nChainWork = work; g_idx.nStatus = status0; g_idx.nTx = ntx0;
    g_header_ok = nondet_bool(); g_checkblock_ok = nondet_bool(); g_write_ok = nondet_bool();

    // the delivered block: empty (zero-initialised static, never constructed/destroyed); the shared_ptr aliases it without a control block
    static PhantomStore<CBlock> block_store;
    const std::shared_ptr<const CBlock> pblock(std::shared_ptr<void>(), &block_store.obj());
    const bool requested = nondet_bool();
    const bool with_dbp = nondet_bool(); FlatFilePos pos(2, 16);
    bool newblock = true; const bool with_new = nondet_bool();
    // ppindex presence is concrete (non-null here, null in the redelivery below): a symbolic choice between two pointer slots would make every later
    // access through pindex a case split over CBMC's invalid object
    CBlockIndex* pout = nullptr; const bool with_pp = true;
    BlockValidationState state;
    const bool ret = cm.AcceptBlock(pblock, state, with_pp ? &pout : nullptr, requested, with_dbp ? &pos : nullptr, with_new ? &newblock : nullptr, /*min_pow_checked=*/true);
    verif_observe(ret); verif_observe(g_rec.write); verif_observe(g_rec.update); verif_observe(g_rec.invalid); verif_observe(g_idx.nStatus);

    // ---- reference decision, from the property text
    const bool have = (status0 & BLOCK_HAVE_DATA) != 0;
    const bool more_or_same_work = tip_h < 0 || ge256(work, tipwork);
    const bool too_far = (int64_t)height > tip_h + 288;
    const bool reaches_min = ge256(work, minwork);
    const bool allowed = requested || (ntx0 == 0 && more_or_same_work && !too_far && reaches_min);
    const bool stored = g_rec.write + g_rec.update > 0;

    VASSERT(g_rec.header == 1, "header is processed exactly once");
    VASSERT(!stored || (g_header_ok && !have && allowed && g_checkblock_ok), "a block is written to disk only if requested, or unrequested with no data yet, work >= tip work, height <= tip + 288 and work >= minimum chain work (and only after the block checks passed)");
    VASSERT(stored == (g_header_ok && !have && allowed && g_checkblock_ok), "every block that passes these conditions is stored");
    VASSERT(g_rec.write <= 1 && g_rec.update <= 1 && (g_rec.write == 0 || !with_dbp) && (g_rec.update == 0 || with_dbp), "stored once: written unless it already is on disk (reindex position given)");
    VASSERT(g_rec.write == 0 || g_rec.write_height == height, "written at the block's height");
    if (!g_header_ok) {
        VASSERT(!ret && g_rec.checkblock == 0 && g_rec.invalid == 0 && g_idx.nStatus == status0, "rejected header: nothing else happens");
    } else if (have || !allowed) {
        // dropped (or duplicate): no work spent, nothing stored, nothing marked
        VASSERT(ret, "a dropped block is not an error");
        VASSERT(state.IsValid(), "a dropped block leaves the validation state valid");
        VASSERT(g_rec.checkblock == 0 && g_rec.received == 0 && g_rec.flush == 0 && g_rec.invalid == 0 && g_rec.powvalid == 0, "a dropped block is neither checked, stored, flushed, announced nor marked invalid");
        VASSERT(g_idx.nStatus == status0 && g_idx.nTx == ntx0 && g_idx.nChainWork == work && g_idx.nHeight == height, "a dropped block leaves its index entry untouched");
        VASSERT(!with_new || !newblock, "a dropped block is not reported as new");
        if (!have) {
            // the same block delivered again on request is processed as if the first delivery had not happened
            memset(&g_rec, 0, sizeof(g_rec));
            BlockValidationState state2; bool newblock2 = false;
            const bool ret2 = cm.AcceptBlock(pblock, state2, nullptr, /*fRequested=*/true, nullptr, &newblock2, true);
            VASSERT(g_rec.checkblock == 1, "a requested redelivery of a dropped block is checked");
            VASSERT((g_rec.write == 1) == g_checkblock_ok && g_rec.update == 0, "a requested redelivery of a dropped block is written iff it is valid");
            VASSERT(ret2 == (g_checkblock_ok && g_write_ok) && newblock2 == g_checkblock_ok, "requested redelivery result");
            VASSERT((g_rec.invalid == 1) == !g_checkblock_ok, "only a block that fails its checks is marked invalid");
            VWITNESS(ret2 && newblock2, "requested redelivery accepted");
        }
    } else if (!g_checkblock_ok) {
        VASSERT(!ret && g_rec.invalid == 1 && !stored && g_rec.received == 0, "an invalid block is marked invalid and not stored");
    } else {
        VASSERT(g_rec.received == (with_dbp || g_write_ok ? 1 : 0) && ret == (with_dbp || g_write_ok), "stored block: transactions received unless the write failed");
        VASSERT(!with_new || newblock, "a stored block is reported as new");
        VASSERT(!ret || g_rec.flush == 1, "storing a block triggers the prune/flush check");
        VASSERT(!with_pp || pout == &g_idx, "block index entry handed back");
    }
    VWITNESS(stored && !requested, "unrequested block stored");
    VWITNESS(g_header_ok && !requested && !have && ntx0 == 0 && !more_or_same_work && !stored, "dropped: less work than tip");
    VWITNESS(g_header_ok && !requested && !have && ntx0 == 0 && more_or_same_work && too_far && !stored, "dropped: too far ahead");
    VWITNESS(g_header_ok && !requested && !have && ntx0 == 0 && more_or_same_work && !too_far && !reaches_min && !stored, "dropped: below minimum chain work");
    VWITNESS(g_header_ok && !requested && !have && ntx0 != 0 && !stored, "dropped: previously processed (pruned)");
    VWITNESS(stored && !requested && (int64_t)height == tip_h + 288, "stored exactly 288 above the tip");
    VWITNESS(stored && !requested && tip_h < 0, "stored with no tip");
    VWITNESS(stored && requested && too_far, "requested block stored regardless of height");
    VREACH("end");
}
