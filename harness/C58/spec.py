from vlib import H
PROPERTY = 'C58'
LEVEL = 'model_checking'
CLAIM = ('The real ChainstateManager::AcceptBlock (validation.cpp) on a phantom ChainstateManager, with every callee that touches the block index, disk or validation replaced by a recorder: '
         'for all 256-bit chain-work values of the block, the active tip and the minimum chain work, all 31-bit block/tip heights (incl. no tip), all nTx/nStatus values, fRequested, dbp/fNewBlock presence, '
         'header/CheckBlock/write verdicts: WriteBlock/UpdateBlockInfo is called iff the header was accepted, the block has no data yet (BLOCK_HAVE_DATA clear), the block checks pass and '
         '(fRequested or (nTx == 0 and work >= tip work (or no tip) and height <= tip height + 288 and work >= minimum chain work)) (independent limb-wise work comparison); a dropped block returns true with a valid state, '
         'is not checked (CheckBlock not called), not stored, not flushed, not announced, not marked invalid (InvalidBlockFound not called) and leaves nStatus/nTx/nChainWork/nHeight of its index entry and *fNewBlock untouched; '
         'a following requested delivery of the same dropped block is checked and written exactly as a first delivery. NOT decided: what AcceptBlockHeader/CheckBlock/WriteBlock themselves do, '
         'the net_processing side (which blocks count as requested), disk usage accounting.')
SPREL = ['_ZNSt15_Sp_counted_ptrIP6CBlockLN9__gnu_cxx12_Lock_policyE2EE10_M_disposeEv', '_ZNSt16_Sp_counted_baseILN9__gnu_cxx12_Lock_policyE2EE10_M_releaseEv', '_ZNSt16_Sp_counted_baseILN9__gnu_cxx12_Lock_policyE2EE24_M_release_last_use_coldEv']
NOLOG = ['_ZN4util3log23LogPrintFormatInternal_[A-Za-z0-9_]*', '_ZN4util6detail24CheckNumFormatSpecifiersILj[0-9]+EEEvPKc']
HARNESSES = [
    H('acceptblock', 'acceptblock.cpp', 'h_acceptblock', link=['validation.cpp', 'arith_uint256.cpp', 'uint256.cpp', 'chain.cpp', 'primitives/block.cpp', 'primitives/transaction.cpp', 'consensus/tx_verify.cpp', 'script/script.cpp', 'hash.cpp'],
      shadow=['nofmt'], noop=NOLOG, interpose=True, unwind=10, memunwind=168, timeout=600, objbits=10,
      functions=['ChainstateManager::AcceptBlock', 'ChainstateManager::ActiveChainstate/CurrentChainstate/ActiveTip/ActiveHeight/MinimumChainWork/GetParams/IsInitialBlockDownload', 'CChain::Tip/Height', 'base_uint<256>::CompareTo',
                 'ContextualCheckBlock (static; runs for real on the empty test block with pprev == nullptr and all buried deployments inactive -> always true)', 'ValidationState::Invalid/Error/IsValid'],
      stubs=['ChainstateManager::AcceptBlockHeader -> hands back the harness CBlockIndex, symbolic verdict', 'ChainstateManager::CheckBlockIndex -> counter', 'CheckBlock -> counter + symbolic verdict (sets state invalid on failure)',
             'node::BlockManager::WriteBlock -> recorder (height) + symbolic success/null position', 'node::BlockManager::UpdateBlockInfo -> recorder', 'ChainstateManager::ReceivedBlockTransactions -> recorder (sets nTx=1, BLOCK_HAVE_DATA)',
             'Chainstate::InvalidBlockFound -> recorder (sets BLOCK_FAILED_VALID)', 'Chainstate::FlushStateToDisk -> recorder, nondeterministic result', 'ValidationSignals::NewPoWValidBlock -> recorder (signals pointer symbolic null/non-null)',
             'BlockWitnessMerkleRoot -> asserts unreachable (segwit inactive)',
             'phantom ChainstateManager (typed zeroed storage): m_options.chainparams (reference slot), m_options.minimum_chain_work, m_options.signals, m_cached_is_ibd, m_chainstates (vector storage set directly to one phantom Chainstate), m_blockman (address only)',
             'phantom Chainstate: m_chain (vector begin/end set directly so that Height() is symbolic and Tip() is the harness tip entry), m_assumeutxo=VALIDATED, m_target_blockhash=nullopt, m_blockman/m_chainman reference slots',
             'phantom CChainParams: consensus buried deployment heights = INT_MAX', 'delivered block: zero-initialised empty CBlock behind an aliasing shared_ptr (no control block)',
             'linked TUs compiled interposable (H(interpose=True): -fPIC -fsemantic-interposition) so that the stubbed out-of-line methods are not inlined into AcceptBlock inside validation.cpp',
             'cs_main/G_TRANSLATION_FUN defined in the harness; pthread_mutex_* -> success; logging: ShouldDebugLog nondeterministic, LogPrintFormatInternal_/CheckNumFormatSpecifiers emptied (noop), tinyformat -> empty strings; CSHA256 unconstrained-output model (unused)',
             'assertion_fail -> CBMC assertion; abort() -> assertion'],
      assumptions=['tip height <= INT_MAX - 288 (AcceptBlock computes ActiveHeight() + 288 in int)', 'block height in [1, INT_MAX-1]', 'ppindex non-null in the first delivery, null in the redelivery (concrete)', 'min_pow_checked = true'],
      bounds='one delivery (+ one requested redelivery after a drop); all work values 256-bit, heights 31-bit, nTx/nStatus 32-bit, flags symbolic; loop-free apart from 8-limb comparisons'),
]
