from vlib import H
PROPERTY = 'C10'
LEVEL = 'model_checking'
CLAIM = ('(1) Encoding part of signature checking: the real IsValidSignatureEncoding / IsLowDERSignature / IsDefinedHashtypeSignature / CheckSignatureEncoding / '
         'CheckPubKeyEncoding of script/interpreter.cpp agree with references written from BIP66, BIP62/BIP146 (LOW_S), STRICTENC and BIP143 (WITNESS_PUBKEYTYPE) for every byte '
         'string of the listed concrete lengths (all bytes symbolic) under every flag word (64 symbolic bits) and every SigVersion. '
         '(2) Message binding (harness sighash): the real SignatureHash<CTransaction> (legacy serializer incl. OP_CODESEPARATOR removal; BIP143 branch, with and without PrecomputedTransactionData) feeds SHA256 exactly the '
         'reference pre-image written from the protocol description / BIP143 (recording hash model with persistent midstates), for every enumerated shape (1-2 inputs, 0-2 outputs, input index, concrete 32-bit hash type values covering every base type / ANYONECANPAY / undefined-bit class, scriptCode kind) with '
         'version, locktime, prevouts, sequences, amounts and output scripts symbolic; SIGHASH_SINGLE without output gives the constant 1 (legacy) / zero hashOutputs (BIP143). (3) the real GenericTransactionSignatureChecker::CheckECDSASignature '
         'hands the verifier the signature minus its last byte, the key, and the sighash for that last byte as hash type - twice on one checker, so that the SigHashCache midstate (hit, miss on other scriptCode, shared slot of hash types 1 and 4) is covered. '
         'NOT claimed here: BIP341 SignatureHashSchnorr/CheckSchnorrSignature (tagged-hash midstates are dynamically initialised globals), and that CPubKey::Verify / VerifySchnorr accept exactly the '
         'mathematically valid signatures (elliptic-curve multiplication is out of SAT reach); low-S normalisation and DER parsing of the real secp256k1 library are decided in C50.')
LENS_Q = [0, 1, 8, 9, 10, 11, 12, 70, 71, 72, 73, 74]

def sh(*a): return ('sh_' + '_'.join(str(x) for x in a), 'sh, ' + ', '.join(str(x) for x in a))
def ck(*a): return ('ck_' + '_'.join(str(x) for x in a), 'ck, ' + ', '.join(str(x) for x in a))
# sh: NIN, NOUT, IDX, HT, SIGV, SCK        ck: NIN, NOUT, IDX, HT1, SIGV, SCK, HT2, SCK2
SH_Q = [sh(2, 2, 0, 0x01, 0, 1), sh(2, 2, 1, 0x43, 0, 2), sh(2, 1, 1, 0x03, 0, 4), sh(2, 2, 1, 0x82, 0, 3), sh(2, 2, 0, 0xffffff83, 0, 5), sh(1, 1, 0, 0x00, 0, 6), sh(2, 2, 1, 0x81, 0, 0), sh(2, 2, 0, 0x22, 0, 1), sh(2, 2, 0, 0x04, 0, 4),
        sh(2, 2, 0, 0x01, 1, 7), sh(2, 2, 1, 0x43, 1, 7), sh(2, 1, 1, 0x03, 1, 7), sh(2, 2, 1, 0x02, 1, 7), sh(2, 2, 0, 0x12345681, 1, 7), sh(2, 2, 1, 0x83, 1, 0), sh(1, 1, 0, 0x00, 1, 7),
        ck(2, 2, 0, 0x01, 0, 1, 0x01, 4), ck(2, 2, 1, 0x01, 0, 4, 0x41, 4), ck(2, 2, 0, 0x01, 0, 4, 0x04, 4), ck(2, 2, 1, 0x03, 1, 4, 0x83, 4), ck(2, 2, 0, 0x01, 1, 4, 0x21, 4), ck(2, 2, 1, 0x02, 1, 4, 0x01, 1)]
SH_T = SH_Q + [sh(nin, nout, idx, ht, sv, sck) for nin in (1, 2) for nout in (0, 1, 2) for idx in range(nin) for ht in (0, 1, 2, 3, 0x1f, 0x80, 0x81, 0x82, 0x83, 0x9f, 0x61, 0xffffffff) for sv in (0, 1) for sck in ((1, 2, 3, 5, 6) if sv == 0 else (7,))
               if ('sh_%d_%d_%d_%d_%d_%d' % (nin, nout, idx, ht, sv, sck)) not in {e[0] for e in SH_Q}]
HARNESSES = [
    H('sigenc', 'sigenc.cpp', 'h_sigenc', variants=[{'LEN': l} for l in LENS_Q], tvariants=[{'LEN': l} for l in range(0, 76)], shadow=['nofmt'],
      unwind=80, memunwind=80, timeout=300, objbits=10, diff_runs=12,
      functions=['IsValidSignatureEncoding', 'IsLowDERSignature', 'IsDefinedHashtypeSignature', 'CheckSignatureEncoding', 'set_error (script/interpreter.cpp)'],
      stubs=['CPubKey::CheckLowS replaced by a recorder returning a symbolic verdict (real secp256k1 normalisation: see C50 sig_normalize)', 'assertion_fail -> CBMC assertion'],
      bounds='signature lengths 0,1,8..12,70..74 (thorough: every length 0..75), every byte symbolic; all 64 flag bits symbolic'),
    H('pubkeyenc', 'sigenc.cpp', 'h_pubkeyenc', variants=[{'PLEN': l} for l in (0, 1, 32, 33, 34, 64, 65, 66)], shadow=['nofmt'], unwind=80, memunwind=80, timeout=300, objbits=10, diff_runs=12,
      functions=['CheckPubKeyEncoding', 'IsCompressedOrUncompressedPubKey', 'IsCompressedPubKey'], stubs=['assertion_fail -> CBMC assertion'],
      bounds='public key lengths 0,1,32,33,34,64,65,66, every byte symbolic; all 64 flag bits symbolic; SigVersion in {BASE, WITNESS_V0, TAPROOT, TAPSCRIPT}'),
    H('sighash', 'sighash.cpp', 'h_sighash', link=['script/interpreter.cpp', 'script/script.cpp', 'primitives/transaction.cpp', 'uint256.cpp', 'hash.cpp'], entries=SH_Q, tentries=SH_T, shadow=['nofmt'],
      unwind=270, memunwind=270, timeout=600, objbits=11, diff_runs=16,
      functions=['SignatureHash<CTransaction>', 'CTransactionSignatureSerializer (Serialize/SerializeInput/SerializeOutput/SerializeScriptCode)', 'GetPrevoutsSHA256/GetSequencesSHA256/GetOutputsSHA256', 'SHA256Uint256', 'SigHashCache::CacheIndex/Load/Store',
                 'PrecomputedTransactionData::Init (BIP143 part)', 'GenericTransactionSignatureChecker<CTransaction>::CheckECDSASignature (script/interpreter.cpp)', 'HashWriter (hash.h)', 'CScript::GetOp (script/script.cpp)', 'serialize.h formatters', 'CPubKey ctor/IsValid (pubkey.h)'],
      stubs=['CSHA256 -> recording model with persistent state (state = node of a tree of Write events; Finalize logs the message and returns its label): collision-free hash abstraction', 'VerifyECDSASignature (virtual) -> recorder with symbolic verdict',
             'CPubKey::Verify / XOnlyPubKey::VerifySchnorr etc. nondeterministic (unreached)', 'memory_cleanse -> no-op', 'tinyformat -> empty strings', 'assertion_fail -> CBMC assertion'],
      assumptions=['scriptCode parses completely (a script with a truncated push fails to execute whatever its digest; the legacy serializer then emits fewer bytes than announced - observed while building, historical consensus behaviour, not claimed)', 'legacy scriptCode bytes are concrete per kind (the script is parsed for OP_CODESEPARATOR removal); witness scriptCode: 3 symbolic bytes or concrete kinds', 'checker harness: amount >= 0 (negative amount = missing data path, not exercised)'],
      bounds='quick: 16 SignatureHash shapes + 6 two-call checker shapes (see SH_Q); thorough: full cross product NIN 1-2 x NOUT 0-2 x input index x 12 hash-type values x {legacy, witness v0} x scriptCode kinds. scriptPubKeys 2 bytes, scriptCode <= 4 bytes; hash types are concrete values per shape (12 values in thorough), everything else symbolic'),
]
