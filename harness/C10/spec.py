from vlib import H
PROPERTY = 'C10'
LEVEL = 'model_checking'
CLAIM = ('Encoding part of signature checking only: the real IsValidSignatureEncoding / IsLowDERSignature / IsDefinedHashtypeSignature / CheckSignatureEncoding / '
         'CheckPubKeyEncoding of script/interpreter.cpp agree with references written from BIP66, BIP62/BIP146 (LOW_S), STRICTENC and BIP143 (WITNESS_PUBKEYTYPE) for every byte '
         'string of the listed concrete lengths (all bytes symbolic) under every flag word (64 symbolic bits) and every SigVersion. '
         'NOT claimed here: sighash message binding, CheckECDSASignature/CheckSchnorrSignature checker logic, and that CPubKey::Verify / VerifySchnorr accept exactly the '
         'mathematically valid signatures (elliptic-curve multiplication is out of SAT reach); low-S normalisation and DER parsing of the real secp256k1 library are decided in C50.')
LENS_Q = [0, 1, 8, 9, 10, 11, 12, 70, 71, 72, 73, 74]
HARNESSES = [
    H('sigenc', 'sigenc.cpp', 'h_sigenc', variants=[{'LEN': l} for l in LENS_Q], tvariants=[{'LEN': l} for l in range(0, 76)], shadow=['nofmt'],
      unwind=80, memunwind=80, timeout=300, objbits=10, diff_runs=12,
      functions=['IsValidSignatureEncoding', 'IsLowDERSignature', 'IsDefinedHashtypeSignature', 'CheckSignatureEncoding', 'set_error (script/interpreter.cpp)'],
      stubs=['CPubKey::CheckLowS replaced by a recorder returning a symbolic verdict (real secp256k1 normalisation: see C50 sig_normalize)', 'assertion_fail -> CBMC assertion'],
      bounds='signature lengths 0,1,8..12,70..74 (thorough: every length 0..75), every byte symbolic; all 64 flag bits symbolic'),
    H('pubkeyenc', 'sigenc.cpp', 'h_pubkeyenc', variants=[{'PLEN': l} for l in (0, 1, 32, 33, 34, 64, 65, 66)], shadow=['nofmt'], unwind=80, memunwind=80, timeout=300, objbits=10, diff_runs=12,
      functions=['CheckPubKeyEncoding', 'IsCompressedOrUncompressedPubKey', 'IsCompressedPubKey'], stubs=['assertion_fail -> CBMC assertion'],
      bounds='public key lengths 0,1,32,33,34,64,65,66, every byte symbolic; all 64 flag bits symbolic; SigVersion in {BASE, WITNESS_V0, TAPROOT, TAPSCRIPT}'),
]
