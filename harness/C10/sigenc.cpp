// C10 (encoding part): signature / public-key encoding checks of script/interpreter.cpp (included so that the static functions are
// reachable): IsValidSignatureEncoding (BIP66 strict DER), IsDefinedHashtypeSignature, IsLowDERSignature, CheckSignatureEncoding
// (BIP66 DERSIG / BIP62-146 LOW_S / STRICTENC flag logic), CheckPubKeyEncoding (STRICTENC / BIP143 WITNESS_PUBKEYTYPE).
// Oracles are written from the BIP texts as a sequential parser (not the index arithmetic of the code).
// CPubKey::CheckLowS (elliptic-curve library side) is replaced by a recording stub returning a symbolic verdict; the real
// secp256k1 normalisation is decided in harness/C50 (sig_normalize, der_parse).
#include <verif.h>
#include <verif_stubs_common.h>
#include <script/interpreter.cpp>
#include <string.h>

#ifndef LEN
#define LEN 9
#endif
#ifndef PLEN
#define PLEN 33
#endif

// ---- recording stub -------------------------------------------------------------------------------------------------
static unsigned g_lows_calls; static size_t g_lows_len; static bool g_lows_prefix_ok, g_lows_ret; static const unsigned char* g_sig_bytes;
bool CPubKey::CheckLowS(const std::vector<unsigned char>& v)
{
    g_lows_calls++; g_lows_len = v.size();
    g_lows_prefix_ok = true;
    for (size_t i = 0; i < (LEN ? LEN : 1); i++) if (i < v.size()) g_lows_prefix_ok = g_lows_prefix_ok && v[i] == g_sig_bytes[i];
    return g_lows_ret;
}

// ---- BIP66 reference: 0x30 [total-length] 0x02 [R-length] [R] 0x02 [S-length] [S] [sighash] ----------------------------
// reads one INTEGER at position p of the DER part sig[0..end): minimal, positive; advances p
static bool ref_integer(const unsigned char* sig, size_t end, size_t& p)
{
    if (p >= end || sig[p] != 0x02) return false;              // "R/S must be an integer"
    p++;
    if (p >= end) return false;
    const size_t len = sig[p]; p++;                             // single length byte
    if (len == 0) return false;                                 // "zero-length integers are not allowed"
    if (len > end - p) return false;                            // element must lie inside the signature
    if (sig[p] & 0x80) return false;                            // "negative numbers are not allowed"
    if (len > 1 && sig[p] == 0x00 && !(sig[p + 1] & 0x80)) return false;   // "null bytes at the start are not allowed, unless the value would otherwise be negative"
    p += len;
    return true;
}
static bool ref_bip66(const unsigned char* sig, size_t n)
{
    if (n < 9 || n > 73) return false;                          // minimum and maximum size constraints
    if (sig[0] != 0x30) return false;                           // compound structure
    if (sig[1] != n - 3) return false;                          // length covers the entire signature (without the sighash byte)
    size_t p = 2; const size_t end = n - 1;                     // DER part excludes the trailing sighash byte
    if (!ref_integer(sig, end, p)) return false;
    if (!ref_integer(sig, end, p)) return false;
    return p == end;                                            // S is followed by exactly the sighash byte
}
static bool ref_defined_hashtype(const unsigned char* sig, size_t n)
{
    if (n == 0) return false;
    const unsigned h = sig[n - 1] & ~0x80u;                     // ANYONECANPAY may be combined with ALL(1) / NONE(2) / SINGLE(3)
    return h == 1 || h == 2 || h == 3;
}

extern "C" void h_sigenc()
{
    std::vector<unsigned char> sig((size_t)LEN);
    unsigned char raw[LEN ? LEN : 1];
    for (int i = 0; i < LEN; i++) { raw[i] = nondet_u8(); sig[i] = raw[i]; }
    g_sig_bytes = raw;
    const bool der = ref_bip66(raw, LEN), hashtype_ok = ref_defined_hashtype(raw, LEN);
    VASSERT(IsValidSignatureEncoding(sig) == der, "IsValidSignatureEncoding accepts exactly the BIP66 strict-DER signatures");
    VASSERT(IsDefinedHashtypeSignature(sig) == hashtype_ok, "IsDefinedHashtypeSignature: hashtype & ~ANYONECANPAY in {ALL, NONE, SINGLE}");

    // IsLowDERSignature
    { g_lows_calls = 0; g_lows_ret = nondet_bool(); ScriptError e = SCRIPT_ERR_UNKNOWN_ERROR;
      const bool r = IsLowDERSignature(sig, &e);
      if (!der) VASSERT(!r && e == SCRIPT_ERR_SIG_DER && g_lows_calls == 0, "IsLowDERSignature: non-DER -> SIG_DER without consulting the curve library");
      else { VASSERT(g_lows_calls == 1 && g_lows_len == LEN - 1 && g_lows_prefix_ok, "IsLowDERSignature: CheckLowS receives the signature without its hashtype byte");
             VASSERT(r == g_lows_ret && (r ? e == SCRIPT_ERR_UNKNOWN_ERROR : e == SCRIPT_ERR_SIG_HIGH_S), "IsLowDERSignature: result is CheckLowS, error SIG_HIGH_S"); } }

    // CheckSignatureEncoding under every combination of flags (all 64 bits symbolic)
    const uint64_t fbits = nondet_u64();
    const script_verify_flags flags = script_verify_flags::from_int(fbits);
    const bool f_der = fbits & (uint64_t{1} << (int)script_verify_flag_name::SCRIPT_VERIFY_DERSIG), f_lows = fbits & (uint64_t{1} << (int)script_verify_flag_name::SCRIPT_VERIFY_LOW_S),
               f_strict = fbits & (uint64_t{1} << (int)script_verify_flag_name::SCRIPT_VERIFY_STRICTENC);
    g_lows_calls = 0; g_lows_ret = nondet_bool();
    ScriptError err = SCRIPT_ERR_UNKNOWN_ERROR;
    const bool ok = CheckSignatureEncoding(sig, flags, &err);
    // expected (BIP66: DERSIG/LOW_S/STRICTENC require strict DER; BIP62 rule 5 / BIP146: LOW_S; STRICTENC: defined hashtype); empty signature always passes
    bool exp_ok = true; ScriptError exp_err = SCRIPT_ERR_UNKNOWN_ERROR; bool exp_call = false;
    if (LEN != 0) {
        if ((f_der || f_lows || f_strict) && !der) { exp_ok = false; exp_err = SCRIPT_ERR_SIG_DER; }
        else if (f_lows && (exp_call = true, !g_lows_ret)) { exp_ok = false; exp_err = SCRIPT_ERR_SIG_HIGH_S; }
        else if (f_strict && !hashtype_ok) { exp_ok = false; exp_err = SCRIPT_ERR_SIG_HASHTYPE; }
    }
    VASSERT(ok == exp_ok, "CheckSignatureEncoding verdict follows the DERSIG / LOW_S / STRICTENC rules");
    VASSERT(err == exp_err, "CheckSignatureEncoding reports the first violated rule (SIG_DER, SIG_HIGH_S, SIG_HASHTYPE) and leaves the error untouched on success");
    VASSERT(g_lows_calls == (exp_call ? 1u : 0u), "the low-S check is consulted exactly when LOW_S is set and the signature is strict DER");
    verif_observe(ok); verif_observe((uint64_t)err);
#if LEN >= 9 && LEN <= 73
    VWITNESS(der, "some strict-DER signature of this length");
    VWITNESS(der && ok && f_lows && f_strict, "accepted under LOW_S|STRICTENC");
    VWITNESS(der && !ok && err == SCRIPT_ERR_SIG_HIGH_S, "high-S rejection");
    VWITNESS(der && !ok && err == SCRIPT_ERR_SIG_HASHTYPE, "undefined hashtype rejection");
#endif
#if LEN > 0
    VWITNESS(!der && ok, "non-DER signature passes when no encoding flag is set");
    VWITNESS(!ok && err == SCRIPT_ERR_SIG_DER, "SIG_DER rejection");
#endif
    VREACH("end");
}

extern "C" void h_pubkeyenc()
{
    std::vector<unsigned char> pk((size_t)PLEN);
    unsigned char raw[PLEN ? PLEN : 1];
    for (int i = 0; i < PLEN; i++) { raw[i] = nondet_u8(); pk[i] = raw[i]; }
    const uint64_t fbits = nondet_u64();
    const script_verify_flags flags = script_verify_flags::from_int(fbits);
    const bool f_strict = fbits & (uint64_t{1} << (int)script_verify_flag_name::SCRIPT_VERIFY_STRICTENC), f_wpk = fbits & (uint64_t{1} << (int)script_verify_flag_name::SCRIPT_VERIFY_WITNESS_PUBKEYTYPE);
    const unsigned sv = (unsigned)nondet_range(0, 3);
    const SigVersion sigversion = (SigVersion)sv;
    // SEC1 forms: 0x04 + 64 bytes (uncompressed), 0x02/0x03 + 32 bytes (compressed)
    const bool compressed = PLEN == 33 && (raw[0] == 0x02 || raw[0] == 0x03);
    const bool uncompressed = PLEN == 65 && raw[0] == 0x04;
    ScriptError err = SCRIPT_ERR_UNKNOWN_ERROR;
    const bool ok = CheckPubKeyEncoding(pk, flags, sigversion, &err);
    bool exp_ok = true; ScriptError exp_err = SCRIPT_ERR_UNKNOWN_ERROR;
    if (f_strict && !(compressed || uncompressed)) { exp_ok = false; exp_err = SCRIPT_ERR_PUBKEYTYPE; }
    else if (f_wpk && sv == 1 /* WITNESS_V0 */ && !compressed) { exp_ok = false; exp_err = SCRIPT_ERR_WITNESS_PUBKEYTYPE; }   // BIP143: only compressed keys in segwit v0
    VASSERT(ok == exp_ok && err == exp_err, "CheckPubKeyEncoding follows the STRICTENC / WITNESS_PUBKEYTYPE rules");
    VASSERT(IsCompressedOrUncompressedPubKey(pk) == (compressed || uncompressed) && IsCompressedPubKey(pk) == compressed, "key-form predicates match SEC1 prefixes and lengths");
    verif_observe(ok); verif_observe((uint64_t)err);
#if PLEN == 33 || PLEN == 65
    VWITNESS(ok && f_strict && f_wpk, "accepted with both flags");
#else
    VWITNESS(ok && !f_strict && f_wpk, "malformed key passes without STRICTENC outside segwit v0");
#endif
#if PLEN == 65
    VWITNESS(!ok && err == SCRIPT_ERR_WITNESS_PUBKEYTYPE, "uncompressed key rejected in segwit v0");
#endif
#if PLEN != 33 && PLEN != 65
    VWITNESS(!ok && err == SCRIPT_ERR_PUBKEYTYPE, "malformed key rejected under STRICTENC");
#endif
    VREACH("end");
}
