// C10 (message binding): what exactly does a signature commit to?
// Real code: SignatureHash<CTransaction> (legacy CTransactionSignatureSerializer incl. OP_CODESEPARATOR removal, BIP143 branch with
// GetPrevoutsSHA256 / GetSequencesSHA256 / GetOutputsSHA256 / SHA256Uint256), SigHashCache::{CacheIndex,Load,Store},
// PrecomputedTransactionData::Init (BIP143 part), GenericTransactionSignatureChecker<CTransaction>::CheckECDSASignature (script/interpreter.cpp),
// HashWriter (hash.h), COutPoint/CTxOut/CScript/compact-size formatters (serialize.h).
// CSHA256 is a RECORDING model with persistent state: an object's state is the id of a node in a tree of Write events, so copies of a
// hasher (the midstate cache copies HashWriters) legitimately share a prefix and then diverge; Finalize materialises the message that
// was fed, logs it and returns the (injective) label of that message as digest. So "the digest" is a free-algebra term and
// "the signature commits to field X in the documented position" becomes "the byte string fed to SHA256 equals the reference pre-image".
// References written from the original protocol description (legacy) and from BIP143.
// Concrete per entry (template arguments): NIN, NOUT, input index, the hash type (32-bit value; CBMC's simplifier does not fold masks of partly
// symbolic words, and the serializer's loop bounds depend on its bits), sigversion, scriptCode kind. Symbolic: version, locktime, prevouts, sequences, amounts, scriptPubKeys, witness scriptCode bytes.
#include <verif.h>
#include <verif_stubs_common.h>
#include <verif_stubs_pubkey.h>
#include <script/interpreter.h>
#include <primitives/transaction.h>
#include <hash.h>
#include <crypto/sha256.h>
#include <string.h>

void memory_cleanse(void*, size_t) {}

// ---------------- recording CSHA256 with persistent (tree-shaped) state ----------------
#define MAXEV 220
#define POOL 1500
#define MAXMSG 24
#define MAXSER 260
struct Ev { int parent; unsigned off, len; uint8_t first; };
static Ev g_ev[MAXEV]; static int g_nev = 1;                 // node 0 = empty message
static uint8_t g_pool[POOL]; static unsigned g_used;
static uint8_t g_msg[MAXMSG][MAXSER]; static unsigned g_msglen[MAXMSG]; static uint8_t g_first[MAXMSG]; static unsigned g_nmsg;   // g_first: first byte of each message, kept in a small array so that labels stay concrete for symbolic execution
CSHA256::CSHA256() { s[0] = 0; bytes = 0; }
CSHA256& CSHA256::Write(const unsigned char* data, size_t len)
{
    __CPROVER_assert(g_nev < MAXEV && g_used + len <= POOL, "hash recorder capacity");
    for (size_t i = 0; i < len; i++) g_pool[g_used + i] = data[i];
    g_ev[g_nev].parent = (int)s[0]; g_ev[g_nev].off = g_used; g_ev[g_nev].len = (unsigned)len; g_ev[g_nev].first = len ? data[0] : 0;
    s[0] = (uint32_t)g_nev; g_nev++; g_used += (unsigned)len; bytes += len;
    return *this;
}
CSHA256& CSHA256::Reset() { s[0] = 0; bytes = 0; return *this; }
void CSHA256::Finalize(unsigned char hash[OUTPUT_SIZE])
{
    __CPROVER_assert(g_nmsg < MAXMSG, "message log capacity");
    unsigned total = 0;
    for (int n = (int)s[0]; n != 0; n = g_ev[n].parent) total += g_ev[n].len;
    __CPROVER_assert(total <= MAXSER, "message length capacity");
    unsigned end = total;
    for (int n = (int)s[0]; n != 0; n = g_ev[n].parent) { end -= g_ev[n].len; for (unsigned i = 0; i < g_ev[n].len; i++) g_msg[g_nmsg][end + i] = g_pool[g_ev[n].off + i]; }
    uint8_t first = 0; for (int n = (int)s[0]; n != 0; n = g_ev[n].parent) if (g_ev[n].len) first = g_ev[n].first;
    g_first[g_nmsg] = first; g_msglen[g_nmsg] = total; g_nmsg++;
    memset(hash, 0, 32); hash[0] = (unsigned char)g_nmsg; hash[31] = 0xD1;   // label of message number g_nmsg (1-based)
}
static bool is_label(const uint8_t* h) { if (h[0] == 0 || h[0] > g_nmsg || h[31] != 0xD1) return false; for (int i = 1; i < 31; i++) if (h[i]) return false; return true; }

// ---------------- harness-side description and reference pre-images ----------------
struct W { uint8_t b[MAXSER]; int n = 0; };
static void put(W& w, uint8_t x) { w.b[w.n++] = x; }
static void le(W& w, uint64_t x, int bytes) { for (int i = 0; i < bytes; i++) put(w, (uint8_t)(x >> (8 * i))); }
static void cs(W& w, uint64_t n) { if (n < 0xFD) put(w, (uint8_t)n); else { put(w, 0xFD); le(w, n, 2); } }
#define PKLEN 2
#define MAXSC 6
struct Desc {
    uint32_t version, locktime;
    uint8_t prevhash[2][32]; uint32_t previdx[2], seq[2];
    int64_t value[2]; uint8_t pk[2][PKLEN];
    int64_t amount;
    uint8_t sc[MAXSC]; int sclen;            // scriptCode as passed
    uint8_t scs[MAXSC]; int scslen;          // legacy: scriptCode with OP_CODESEPARATOR opcodes removed (written by hand per kind)
};
// scriptCode kinds. For the legacy path the script is parsed, so its bytes are concrete; expected stripped form from the rule
// "every OP_CODESEPARATOR (0xab) that is an opcode - not push data - is removed".
//   0: empty            1: OP_1 OP_CODESEPARATOR OP_2      -> OP_1 OP_2
//   2: PUSH2(ab ab) OP_CODESEPARATOR                        -> PUSH2(ab ab)         (0xab inside push data stays)
//   3: OP_CODESEPARATOR OP_CODESEPARATOR OP_CHECKSIG        -> OP_CHECKSIG
//   4: OP_DUP OP_CHECKSIG (no separator)                    5: OP_CHECKSIG OP_CODESEPARATOR (separator last) -> OP_CHECKSIG
//   6: PUSHDATA1(len 1: ab) OP_CODESEPARATOR              -> PUSHDATA1(ab)        (push data of an explicit-length push stays)
//   (scripts with a truncated push are not claimed: they fail to execute whatever the digest, and the legacy serializer's output for them is a historical quirk)
//   7: (witness only) 3 fully symbolic bytes
template <int SCK> static void draw_script(Desc& d)
{
    static const uint8_t K[8][MAXSC] = {{0}, {0x51, 0xab, 0x52}, {0x02, 0xab, 0xab, 0xab}, {0xab, 0xab, 0xac}, {0x76, 0xac}, {0xac, 0xab}, {0x4c, 0x01, 0xab, 0xab}, {0, 0, 0}};
    static const int KL[8] = {0, 3, 4, 3, 2, 2, 4, 3};
    static const uint8_t S[8][MAXSC] = {{0}, {0x51, 0x52}, {0x02, 0xab, 0xab}, {0xac}, {0x76, 0xac}, {0xac}, {0x4c, 0x01, 0xab}, {0, 0, 0}};
    static const int SL[8] = {0, 2, 3, 1, 2, 1, 3, 3};
    d.sclen = KL[SCK]; d.scslen = SL[SCK];
    for (int i = 0; i < MAXSC; i++) { d.sc[i] = K[SCK][i]; d.scs[i] = S[SCK][i]; }
    if (SCK == 7) for (int i = 0; i < 3; i++) d.sc[i] = d.scs[i] = nondet_u8();
}
template <int NIN, int NOUT> static void draw(Desc& d)
{
    d.version = nondet_u32(); d.locktime = nondet_u32(); d.amount = nondet_i64();
    for (int i = 0; i < NIN; i++) { for (int k = 0; k < 32; k++) d.prevhash[i][k] = nondet_u8(); d.previdx[i] = nondet_u32(); d.seq[i] = nondet_u32(); }
    for (int i = 0; i < NOUT; i++) { d.value[i] = nondet_i64(); for (int k = 0; k < PKLEN; k++) d.pk[i][k] = nondet_u8(); }
}
template <int NIN, int NOUT> static void build(const Desc& d, CMutableTransaction& m)
{
    m.version = d.version; m.nLockTime = d.locktime; m.vin.resize(NIN); m.vout.resize(NOUT);
    for (int i = 0; i < NIN; i++) {
        uint256 h; memcpy(h.data(), d.prevhash[i], 32);
        m.vin[i].prevout.hash = Txid::FromUint256(h); m.vin[i].prevout.n = d.previdx[i]; m.vin[i].nSequence = d.seq[i];
        m.vin[i].scriptSig.resize(1); m.vin[i].scriptSig[0] = 0x51;      // a non-empty scriptSig: must never be part of any pre-image
    }
    for (int i = 0; i < NOUT; i++) { m.vout[i].nValue = d.value[i]; m.vout[i].scriptPubKey.resize(PKLEN); for (int k = 0; k < PKLEN; k++) m.vout[i].scriptPubKey[k] = d.pk[i][k]; }
}
static void ref_outpoint(const Desc& d, W& w, int i) { for (int k = 0; k < 32; k++) put(w, d.prevhash[i][k]); le(w, d.previdx[i], 4); }
static void ref_txout(const Desc& d, W& w, int i) { le(w, (uint64_t)d.value[i], 8); cs(w, PKLEN); for (int k = 0; k < PKLEN; k++) put(w, d.pk[i][k]); }

// legacy pre-image (original Satoshi algorithm as documented): returns false when the result is the constant "one" (SIGHASH_SINGLE without matching output)
template <int NIN, int NOUT> static bool ref_legacy(const Desc& d, int idx, uint32_t hashtype, W& w)
{
    const int base = hashtype & 0x1f; const bool acp = hashtype & 0x80;
    if (base == 3 && idx >= NOUT) return false;
    le(w, d.version, 4);
    cs(w, acp ? 1 : NIN);
    for (int i = 0; i < NIN; i++) {
        if (acp && i != idx) continue;
        ref_outpoint(d, w, i);
        if (i == idx) { cs(w, d.scslen); for (int k = 0; k < d.scslen; k++) put(w, d.scs[k]); } else cs(w, 0);
        le(w, (i != idx && (base == 2 || base == 3)) ? 0 : d.seq[i], 4);
    }
    if (base == 2) cs(w, 0);
    else if (base == 3) { cs(w, idx + 1); for (int i = 0; i < idx; i++) { le(w, ~0ULL, 8); cs(w, 0); } ref_txout(d, w, idx); }
    else { cs(w, NOUT); for (int i = 0; i < NOUT; i++) ref_txout(d, w, i); }
    le(w, d.locktime, 4);
    le(w, hashtype, 4);
    return true;
}
// finds the label of dSHA256(content): a logged message equal to content whose label is itself the sole content of a later logged message
static bool msg_is(unsigned label, const W& w) { if (label == 0 || label > g_nmsg || g_msglen[label - 1] != (unsigned)w.n) return false; bool e = true; for (int i = 0; i < w.n; i++) e = e && g_msg[label - 1][i] == w.b[i]; return e; }
static bool msg_is_label(unsigned label, unsigned inner) { if (label == 0 || label > g_nmsg || g_msglen[label - 1] != 32) return false; const uint8_t* m = g_msg[label - 1]; if (m[0] != inner || m[31] != 0xD1) return false; for (int i = 1; i < 31; i++) if (m[i]) return false; return true; }
// field32 is either 32 zero bytes (want_zero) or the label of SHA256(SHA256(content))
static bool field_is_dsha(const uint8_t* field32, bool want_zero, const W& content)
{
    if (want_zero) { for (int i = 0; i < 32; i++) if (field32[i]) return false; return true; }
    if (!is_label(field32)) return false;
    const unsigned outer = field32[0];
    if (outer < 2 || g_msglen[outer - 1] != 32) return false;
    const unsigned inner = g_first[outer - 1];
    return msg_is_label(outer, inner) && msg_is(inner, content);
}
// BIP143 pre-image check on a logged message
template <int NIN, int NOUT> static bool check_bip143(const Desc& d, int idx, uint32_t hashtype, unsigned label)
{
    const int base = hashtype & 0x1f; const bool acp = hashtype & 0x80;
    const unsigned want = 4 + 32 + 32 + 36 + 1 + d.sclen + 8 + 4 + 32 + 4 + 4;
    if (label == 0 || label > g_nmsg || g_msglen[label - 1] != want) return false;
    const uint8_t* m = g_msg[label - 1];
    W prevouts, seqs, outs, single;
    for (int i = 0; i < NIN; i++) { ref_outpoint(d, prevouts, i); le(seqs, d.seq[i], 4); }
    for (int i = 0; i < NOUT; i++) ref_txout(d, outs, i);
    if (idx < NOUT) ref_txout(d, single, idx);
    bool ok = true; unsigned p = 0;
    W head; le(head, d.version, 4);
    for (int i = 0; i < 4; i++) ok = ok && m[p + i] == head.b[i];
    p += 4;
    ok = ok && field_is_dsha(m + p, acp, prevouts); p += 32;
    ok = ok && field_is_dsha(m + p, acp || base == 2 || base == 3, seqs); p += 32;
    W mid; ref_outpoint(d, mid, idx); cs(mid, d.sclen); for (int k = 0; k < d.sclen; k++) put(mid, d.sc[k]); le(mid, (uint64_t)d.amount, 8); le(mid, d.seq[idx], 4);
    for (int i = 0; i < mid.n; i++) ok = ok && m[p + i] == mid.b[i];
    p += mid.n;
    if (base == 3) ok = ok && field_is_dsha(m + p, idx >= NOUT, single);
    else ok = ok && field_is_dsha(m + p, base == 2, outs);
    p += 32;
    W tail; le(tail, d.locktime, 4); le(tail, hashtype, 4);
    for (int i = 0; i < tail.n; i++) ok = ok && m[p + i] == tail.b[i];
    return ok;
}
// the digest returned for (idx, hashtype) is the double hash of exactly the reference pre-image
template <int NIN, int NOUT, int SIGV> static bool digest_ok(const Desc& d, int idx, uint32_t hashtype, const uint256& h)
{
    if (SIGV == 0) {
        W w; const bool hashed = ref_legacy<NIN, NOUT>(d, idx, hashtype, w);
        if (!hashed) return h == uint256::ONE;
        if (!is_label(h.data())) return false;
        const unsigned outer = h.data()[0]; if (outer < 2 || g_msglen[outer - 1] != 32) return false;
        const unsigned inner = g_first[outer - 1];
        return msg_is_label(outer, inner) && msg_is(inner, w);
    } else {
        if (!is_label(h.data())) return false;
        const unsigned outer = h.data()[0]; if (outer < 2 || g_msglen[outer - 1] != 32) return false;
        const unsigned inner = g_first[outer - 1];
        return msg_is_label(outer, inner) && check_bip143<NIN, NOUT>(d, idx, hashtype, inner);
    }
}
static CScript mkscript(const Desc& d) { CScript s; s.resize(d.sclen); for (int k = 0; k < d.sclen; k++) s[k] = d.sc[k]; return s; }

// ---- entry kind "sh": one SignatureHash call, no caches, then again with PrecomputedTransactionData (BIP143 cache) -----
template <int NIN, int NOUT, int IDX, unsigned HT, int SIGV, int SCK>
static void run_sh()
{
    Desc d; draw<NIN, NOUT>(d); draw_script<SCK>(d);
    CMutableTransaction m; build<NIN, NOUT>(d, m);
    const CTransaction tx(std::move(m));
    g_nmsg = 0;   // forget the txid computation
    const uint32_t hashtype = HT;
    const CScript code = mkscript(d);
    const SigVersion sv = SIGV ? SigVersion::WITNESS_V0 : SigVersion::BASE;
    const uint256 h = SignatureHash(code, tx, IDX, (int32_t)hashtype, d.amount, sv, nullptr, nullptr);
    const bool ok = digest_ok<NIN, NOUT, SIGV>(d, IDX, hashtype, h);
    VASSERT(ok, SIGV ? "BIP143: the digest is dSHA256 of version|hashPrevouts|hashSequence|outpoint|scriptCode|amount|sequence|hashOutputs|locktime|hashtype with the documented blanking rules"
                     : "legacy: the digest is dSHA256 of the modified transaction copy (scriptCode without OP_CODESEPARATOR, blanked scripts/sequences/outputs per hash type) followed by the 4-byte hash type, or the constant 1 for SIGHASH_SINGLE without output");
    verif_observe(ok); verif_observe(g_nmsg);
    if (SIGV) {
        // the same call through the per-transaction BIP143 cache must commit to the same message
        PrecomputedTransactionData txdata; txdata.Init(tx, {}, /*force=*/true);
        VASSERT(txdata.m_bip143_segwit_ready, "Init(force) prepares the BIP143 cache");
        const uint256 h2 = SignatureHash(code, tx, IDX, (int32_t)hashtype, d.amount, sv, &txdata, nullptr);
        const bool ok2 = digest_ok<NIN, NOUT, SIGV>(d, IDX, hashtype, h2);
        VASSERT(ok2, "BIP143 with PrecomputedTransactionData: same pre-image as without the cache");
        verif_observe(ok2);
    }
    VWITNESS(ok, "a digest matching the reference exists");
    VREACH("end");
}

// ---- entry kind "ck": the checker. Two CheckECDSASignature calls on ONE checker object (shared SigHashCache), hash-type bytes HT1 and HT2,
// scriptCode kinds SCK and SCK2. The virtual VerifyECDSASignature is a recorder with a symbolic verdict. -----
struct RecChecker : public GenericTransactionSignatureChecker<CTransaction> {
    using GenericTransactionSignatureChecker<CTransaction>::GenericTransactionSignatureChecker;
    mutable int calls = 0; mutable uint256 seen_hash; mutable unsigned seen_siglen = 0; mutable uint8_t seen_sig[4]; mutable bool verdict = false; mutable unsigned seen_pklen = 0;
    bool VerifyECDSASignature(const std::vector<unsigned char>& vchSig, const CPubKey& vchPubKey, const uint256& sighash) const override
    {
        calls++; seen_hash = sighash; seen_siglen = (unsigned)vchSig.size(); for (unsigned i = 0; i < vchSig.size() && i < 4; i++) seen_sig[i] = vchSig[i];
        seen_pklen = vchPubKey.size(); verdict = nondet_bool(); return verdict;
    }
};
template <int NIN, int NOUT, int IDX, unsigned HT1, int SIGV, int SCK, unsigned HT2, int SCK2>
static void run_ck()
{
    Desc d; draw<NIN, NOUT>(d);
    CMutableTransaction m; build<NIN, NOUT>(d, m);
    const CTransaction tx(std::move(m));
    PrecomputedTransactionData txdata; if (SIGV) txdata.Init(tx, {}, true);
    VASSUME(d.amount >= 0);
    RecChecker checker(&tx, IDX, d.amount, txdata, MissingDataBehavior::ASSERT_FAIL);
    std::vector<unsigned char> pub(33); pub[0] = 0x02; for (int i = 1; i < 33; i++) pub[i] = nondet_u8();
    const SigVersion sv = SIGV ? SigVersion::WITNESS_V0 : SigVersion::BASE;
    for (int round = 0; round < 2; round++) {
        Desc dd = d; if (round == 0) draw_script<SCK>(dd); else draw_script<SCK2>(dd);
        const uint8_t ht = (uint8_t)(round == 0 ? HT1 : HT2);
        std::vector<unsigned char> sig(3); sig[0] = nondet_u8(); sig[1] = nondet_u8(); sig[2] = ht;
        const CScript code = mkscript(dd);
        checker.calls = 0;      // (the message log is NOT reset: the BIP143 cache holds labels of earlier messages)
        const bool r = checker.CheckECDSASignature(sig, pub, code, sv);
        VASSERT(checker.calls == 1, "the signature verifier is consulted exactly once for a non-empty signature and a non-empty key");
        VASSERT(r == checker.verdict, "CheckECDSASignature accepts iff the verifier accepts");
        VASSERT(checker.seen_siglen == 2 && checker.seen_sig[0] == sig[0] && checker.seen_sig[1] == sig[1] && checker.seen_pklen == 33, "the verifier sees the signature without its hash-type byte and the given key");
        const bool ok = digest_ok<NIN, NOUT, SIGV>(dd, IDX, (uint32_t)ht, checker.seen_hash);
        VASSERT(ok, "the verified message is the sighash for the LAST byte of the signature as hash type, this scriptCode, this input (also when the midstate cache is warm)");
        verif_observe(r); verif_observe(ok);
    }
    // degenerate inputs
    { std::vector<unsigned char> none; checker.calls = 0; const CScript code; VASSERT(!checker.CheckECDSASignature(none, pub, code, sv) && checker.calls == 0, "an empty signature is rejected without verification"); }
    { std::vector<unsigned char> sig(1); sig[0] = 1; std::vector<unsigned char> nopub; checker.calls = 0; const CScript code; VASSERT(!checker.CheckECDSASignature(sig, nopub, code, sv) && checker.calls == 0, "an empty public key is rejected without verification"); }
    VREACH("end");
}

#define VERIF_ENTRY(name, kind, ...) extern "C" void h_##name() { run_##kind<__VA_ARGS__>(); }
#include VERIF_ENTRIES_INC
