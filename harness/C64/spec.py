from vlib import H
PROPERTY = 'C64'
LEVEL = 'model_checking'
CLAIM = ('Reject-filter insertion table of the real TxDownloadManagerImpl::MempoolRejectedTx (node/txdownloadman_impl.cpp) for every TxValidationResult (one query each), for a rejected copy with and without witness, first-time and repeated failure: '
         'a reject filter is keyed by the txid of a witness transaction only for TX_INPUTS_NOT_STANDARD (the documented witness-independent failure); TX_WITNESS_STRIPPED inserts nothing and forgets no request; every other failure inserts exactly the wtxid of the '
         'rejected copy (into the reconsiderable filter for TX_RECONSIDERABLE) and forgets only requests for that wtxid; hence the wtxid of a genuine transaction with the same txid but another witness is in no reject filter. '
         'Filters are exact sets (the bloom false-positive behaviour is not the subject). First-time TX_MISSING_INPUTS (orphan handling), AlreadyHaveTx with a mempool, request scheduling and message interleavings are not decided.')
ST = ['TxDownloadManagerImpl: typed raw storage, only m_lazy_recent_rejects, m_lazy_recent_rejects_reconsiderable, m_orphanage set (no constructor run)', 'CRollingBloomFilter::insert/contains -> exact small sets',
      'TxOrphanage -> recording implementation (holds no transaction)', 'TxRequestTracker::ForgetTxHash -> recorder; GetCandidatePeers -> empty', 'CSHA256 -> harness-chosen txid / wtxid', 'logging off', 'tinyformat -> empty strings', 'assertion_fail -> CBMC assertion']
import re, os
from vlib import SRC
# enum values read from the current source
body = re.search(r'enum class TxValidationResult \{(.*?)\};', open(os.path.join(SRC, 'consensus/validation.h')).read(), re.S).group(1)
RES = re.findall(r'^\s*(TX_[A-Z_]+)', body, re.M)
entries = []
for i, r in enumerate(RES):
    for w in (1, 0):
        for f in (1, 0):
            if r == 'TX_MISSING_INPUTS' and f: continue
            entries.append(('%s_w%d_f%d' % (r[3:].lower(), w, f), '%d, %d, %d' % (i, w, f)))
QUICK_W0 = ('TX_CONSENSUS', 'TX_INPUTS_NOT_STANDARD', 'TX_WITNESS_STRIPPED', 'TX_RECONSIDERABLE')
QUICK_F0 = ('TX_MISSING_INPUTS', 'TX_INPUTS_NOT_STANDARD', 'TX_WITNESS_STRIPPED', 'TX_RECONSIDERABLE', 'TX_WITNESS_MUTATED')
def in_quick(name):
    r, w, f = re.match(r'(.*)_w(\d)_f(\d)$', name).groups(); r = 'TX_' + r.upper()
    if w == '1' and f == '1': return True
    if w == '0' and f == '1': return r in QUICK_W0
    if w == '1' and f == '0': return r in QUICK_F0
    return r in ('TX_INPUTS_NOT_STANDARD', 'TX_MISSING_INPUTS')
quick = [x for x in entries if in_quick(x[0])]
HARNESSES = [
    H('reject', 'reject.cpp', 'h_reject', link=['node/txdownloadman_impl.cpp', 'primitives/transaction.cpp', 'script/script.cpp', 'uint256.cpp', 'hash.cpp'],
      entries=quick, tentries=entries, shadow=['nofmt'], fsarray=2048, unwind=16, memunwind=72, timeout=600, objbits=11,
      functions=['TxDownloadManagerImpl::MempoolRejectedTx', 'TxDownloadManagerImpl::Find1P1CPackage', 'RecentRejectsFilter/RecentRejectsReconsiderableFilter accessors (txdownloadman_impl.h)', 'CTransaction::HasWitness/GetHash/GetWitnessHash'],
      stubs=ST, assumptions=['TX_MISSING_INPUTS only with first_time_failure == false'], bounds='all %d TxValidationResult values (concrete per query);' % len(RES) + ' witness / no witness; first_time_failure true / false; one-input transaction'),
]
