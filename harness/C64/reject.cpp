// C64 (reject-filter insertion table): the real TxDownloadManagerImpl::MempoolRejectedTx (node/txdownloadman_impl.cpp, with Find1P1CPackage) on a phantom
// TxDownloadManagerImpl: the two rolling bloom filters are exact small sets (CRollingBloomFilter::insert/contains defined here, so "contains" is precise),
// the orphanage is a recording TxOrphanage, TxRequestTracker::ForgetTxHash is recorded. The rejected transaction is a real CTransaction whose txid and wtxid
// are chosen through the hash model (with witness: txid != wtxid; without: equal).
#include <verif.h>
#include <verif_stubs_common.h>
#include <crypto/sha256.h>
#include <string.h>
#include <memory>
#include <vector>
#include <optional>
#include <set>
#include <map>
#include <node/txdownloadman_impl.h>
#include <node/txorphanage.h>
#include <common/bloom.h>
#include <consensus/validation.h>
#include <primitives/transaction.h>
#include <txrequest.h>
#include <logging.h>
#include <util/threadnames.h>
#include <util/time.h>
#include <util/strencodings.h>
#include <crypto/siphash.h>
#include <policy/packages.h>

using namespace node;

// ---- hash model: the k-th double-SHA256 computed after reset yields the k-th harness-chosen id (first byte; rest zero). A transaction without witness hashes once
// (txid == wtxid), one with witness twice (txid, then wtxid)
static uint8_t g_ids[4]; static int g_fin;
CSHA256::CSHA256() {}
CSHA256& CSHA256::Write(const unsigned char*, size_t len) { bytes += len; return *this; }
CSHA256& CSHA256::Reset() { bytes = 0; return *this; }
void CSHA256::Finalize(unsigned char hash[OUTPUT_SIZE]) { memset(hash, 0, 32); hash[0] = g_ids[(g_fin / 2) & 3]; hash[1] = 0x5a; g_fin++; }

// ---- environment
bool util::log::ShouldDebugLog(uint64_t) { return false; }
void util::log::Log(util::log::Entry) {}
std::string util::ThreadGetInternalName() { return std::string(); }
std::chrono::seconds GetMockTime() { return std::chrono::seconds{0}; }
NodeClock::time_point NodeClock::now() noexcept { return NodeClock::time_point{}; }
std::chrono::system_clock::time_point std::chrono::system_clock::now() noexcept { return {}; }

extern "C" {
int pthread_mutex_lock(pthread_mutex_t*) noexcept { return 0; }
int pthread_mutex_trylock(pthread_mutex_t*) noexcept { return 0; }
int pthread_mutex_unlock(pthread_mutex_t*) noexcept { return 0; }
}
namespace std { void __throw_system_error(int) { __CPROVER_assert(0, "mutex error"); __CPROVER_assume(0); __builtin_trap(); } }

// ---- exact filters: every CRollingBloomFilter is a set of keys (first byte of the 32-byte key identifies it in this harness)
#define MAXK 6
struct ExactSet { const CRollingBloomFilter* who; int n; uint8_t key[MAXK]; };
static ExactSet g_set[2];
static ExactSet& set_of(const CRollingBloomFilter* f) { return f == g_set[0].who ? g_set[0] : g_set[1]; }
void CRollingBloomFilter::insert(std::span<const unsigned char> vKey)
{
    VASSERT(vKey.size() == 32 && vKey[1] == 0x5a, "filter keys are transaction hashes");
    VASSERT(this == g_set[0].who || this == g_set[1].who, "only the two reject filters are written");
    ExactSet& s = set_of(this); VASSERT(s.n < MAXK, "exact-set model capacity"); if (s.n < MAXK) s.key[s.n++] = vKey[0];
}
bool CRollingBloomFilter::contains(std::span<const unsigned char> vKey) const
{
    const ExactSet& s = set_of(this); bool r = false;
    for (int i = 0; i < MAXK; i++) if (i < s.n && s.key[i] == vKey[0]) r = true;
    return r;
}
static bool in_set(int which, uint8_t id) { bool r = false; for (int i = 0; i < MAXK; i++) if (i < g_set[which].n && g_set[which].key[i] == id) r = true; return r; }

// ---- callees of branches that the table does not enter (first-time TX_MISSING_INPUTS orphan handling, lazy filter creation, package hashing with a child):
// reaching one of them fails the check
#define UNREACHED(what) do { __CPROVER_assert(0, "unexpected call: " what); __CPROVER_assume(0); } while (0)
CRollingBloomFilter::CRollingBloomFilter(const unsigned int, const double) { UNREACHED("CRollingBloomFilter constructor (filters are pre-installed)"); }
size_t TxRequestTracker::Count(NodeId) const { UNREACHED("TxRequestTracker::Count"); return 0; }
size_t TxRequestTracker::CountInFlight(NodeId) const { UNREACHED("TxRequestTracker::CountInFlight"); return 0; }
void TxRequestTracker::ReceivedInv(NodeId, const GenTxid&, bool, std::chrono::microseconds) { UNREACHED("TxRequestTracker::ReceivedInv"); }
uint64_t PresaltedSipHasher::operator()(const uint256&) const noexcept { UNREACHED("SipHash"); return 0; }
uint256 GetPackageHash(const std::vector<CTransactionRef>&) { UNREACHED("GetPackageHash"); return uint256{}; }
std::string HexStr(const std::span<const uint8_t>) { return std::string(); }

// ---- recorded collaborators
static int g_forget_n; static uint8_t g_forget[MAXK];
void TxRequestTracker::ForgetTxHash(const uint256& h) { if (g_forget_n < MAXK) g_forget[g_forget_n] = h.data()[0]; g_forget_n++; }
void TxRequestTracker::GetCandidatePeers(const uint256&, std::vector<NodeId>&) const {}
static bool forgot(uint8_t id) { bool r = false; for (int i = 0; i < MAXK; i++) if (i < g_forget_n && g_forget[i] == id) r = true; return r; }

struct RecOrphanage final : public TxOrphanage {
    int erase_calls{0}; uint8_t erased{0}; bool erase_result{false}; int other_calls{0};
    bool AddTx(const CTransactionRef&, NodeId) override { other_calls++; return false; }
    bool AddAnnouncer(const Wtxid&, NodeId) override { other_calls++; return false; }
    CTransactionRef GetTx(const Wtxid&) const override { return nullptr; }
    bool HaveTx(const Wtxid&) const override { return false; }
    bool HaveTxFromPeer(const Wtxid&, NodeId) const override { return false; }
    CTransactionRef GetTxToReconsider(NodeId) override { return nullptr; }
    bool EraseTx(const Wtxid& w) override { erase_calls++; erased = w.ToUint256().data()[0]; return erase_result; }
    void EraseForPeer(NodeId) override { other_calls++; }
    void EraseForBlock(const CBlock&) override { other_calls++; }
    std::vector<std::pair<Wtxid, NodeId>> AddChildrenToWorkSet(const CTransaction&, FastRandomContext&) override { return {}; }
    bool HaveTxToReconsider(NodeId) override { return false; }
    std::vector<CTransactionRef> GetChildrenFromSamePeer(const CTransactionRef&, NodeId) const override { return {}; }
    std::vector<OrphanInfo> GetOrphanTransactions() const override { return {}; }
    Usage TotalOrphanUsage() const override { return 0; }
    Usage UsageByPeer(NodeId) const override { return 0; }
    void SanityCheck() const override {}
    Count CountAnnouncements() const override { return 0; }
    Count CountUniqueOrphans() const override { return 0; }
    Count AnnouncementsFromPeer(NodeId) const override { return 0; }
    Count LatencyScoreFromPeer(NodeId) const override { return 0; }
    Count MaxGlobalLatencyScore() const override { return 0; }
    Count TotalLatencyScore() const override { return 0; }
    Usage ReservedPeerUsage() const override { return 0; }
    Count MaxPeerLatencyScore() const override { return 0; }
    Usage MaxGlobalUsage() const override { return 0; }
};

#define ID_TXID 0x11
#define ID_WTXID 0x22     // the malleated copy's wtxid
#define ID_GENUINE 0x33   // wtxid of the genuine transaction (same txid, different witness): never computed, only queried

// RESULT: the TxValidationResult (concrete per entry: a symbolic result makes symex enter the orphan-handling branch of TX_MISSING_INPUTS, which needs a mempool);
// WITNESS: the rejected copy carries a witness; FIRST: first_time_failure
template <int RESULT, int WITNESS, int FIRST>
static void h_reject_t()
{
    // phantom manager: typed raw storage; the members used by the function under test are brought to life
    TxDownloadManagerImpl* dm = static_cast<TxDownloadManagerImpl*>(::operator new(sizeof(TxDownloadManagerImpl)));
    alignas(16) static unsigned char filt0[sizeof(CRollingBloomFilter)], filt1[sizeof(CRollingBloomFilter)];
    g_set[0].who = reinterpret_cast<CRollingBloomFilter*>(filt0); g_set[1].who = reinterpret_cast<CRollingBloomFilter*>(filt1);
    new (&dm->m_lazy_recent_rejects) std::unique_ptr<CRollingBloomFilter>(reinterpret_cast<CRollingBloomFilter*>(filt0));
    new (&dm->m_lazy_recent_rejects_reconsiderable) std::unique_ptr<CRollingBloomFilter>(reinterpret_cast<CRollingBloomFilter*>(filt1));
    RecOrphanage* orph = new RecOrphanage(); orph->erase_result = nondet_bool();
    new (&dm->m_orphanage) std::unique_ptr<TxOrphanage>(orph);

    // the rejected (possibly malleated) copy
    CMutableTransaction m; m.vin.resize(1); m.vout.resize(1);
    if (WITNESS) { m.vin[0].scriptWitness.stack.resize(1); m.vin[0].scriptWitness.stack[0].push_back(nondet_u8()); }
    g_ids[0] = ID_TXID; g_ids[1] = ID_WTXID; g_fin = 0;
    const CTransactionRef ptx(new CTransaction(std::move(m)));
    const uint8_t txid = ptx->GetHash().ToUint256().data()[0], wtxid = ptx->GetWitnessHash().ToUint256().data()[0];
    VASSERT(txid == ID_TXID && wtxid == (WITNESS ? ID_WTXID : ID_TXID), "hash model: txid/wtxid as chosen");

    const int result = RESULT;
    static_assert(!(RESULT == (int)TxValidationResult::TX_MISSING_INPUTS && FIRST), "orphan handling (first-time missing inputs) is not part of this table");
    TxValidationState state; state.Invalid((TxValidationResult)result);
    const NodeId peer = 5;
    const RejectedTxTodo todo = dm->MempoolRejectedTx(ptx, state, peer, FIRST);
    verif_observe(g_set[0].n * 16 + g_set[1].n * 4 + (todo.m_should_add_extra_compact_tx ? 1 : 0));

    const bool stripped = result == (int)TxValidationResult::TX_WITNESS_STRIPPED, missing = result == (int)TxValidationResult::TX_MISSING_INPUTS;
    const bool recons = result == (int)TxValidationResult::TX_RECONSIDERABLE, inputs_nonstd = result == (int)TxValidationResult::TX_INPUTS_NOT_STANDARD;
    // (1) keyed by txid only for the documented witness-independent failure, and only when the txid differs from the wtxid
    const bool txid_in = in_set(0, ID_TXID) || in_set(1, ID_TXID);
    if (WITNESS) VASSERT(txid_in == inputs_nonstd, "the txid of a witness transaction enters a reject filter only for TX_INPUTS_NOT_STANDARD (witness-independent)");
    VASSERT(!in_set(1, ID_TXID) || !WITNESS, "the reconsiderable filter is never keyed by the txid of a witness transaction");
    // (2) witness-stripped / missing-inputs-again: nothing at all
    if (stripped || missing) VASSERT(g_set[0].n == 0 && g_set[1].n == 0 && g_forget_n == 0, "TX_WITNESS_STRIPPED (and a repeated TX_MISSING_INPUTS) inserts nothing and forgets nothing");
    // (3) every other failure: exactly the wtxid of the rejected copy goes to exactly one filter
    if (!stripped && !missing) {
        VASSERT(in_set(recons ? 1 : 0, wtxid) && !in_set(recons ? 0 : 1, wtxid), "the wtxid of the rejected copy enters the reject filter (the reconsiderable one for TX_RECONSIDERABLE)");
        VASSERT(forgot(wtxid), "requests for that wtxid are forgotten");
        VASSERT(g_set[0].n + g_set[1].n == 1 + ((WITNESS && inputs_nonstd) ? 1 : 0), "nothing else is inserted");
        VASSERT(forgot(ID_TXID) == (!WITNESS || inputs_nonstd), "requests by txid are forgotten only when the txid was inserted (or equals the wtxid)");
    }
    // (4) consequence for the genuine transaction (same txid, other witness): its wtxid is in no filter, so wtxid-keyed lookups do not find it
    VASSERT(!in_set(0, ID_GENUINE) && !in_set(1, ID_GENUINE), "the genuine transaction's wtxid is in no reject filter");
    // (5) bookkeeping
    VASSERT(todo.m_should_add_extra_compact_tx == (FIRST && !stripped), "extra compact-block transaction flag");
    VASSERT(orph->erase_calls == (missing ? 0 : 1) && (missing || orph->erased == wtxid), "the rejected copy (by wtxid) leaves the orphanage unless inputs are still missing");
    VASSERT(!todo.m_package_to_validate.has_value() && todo.m_unique_parents.empty(), "no package (the orphanage holds no child)");
    VWITNESS(orph->erase_result || missing, "orphan_erased_or_missing");
    VREACH("end");
}

#ifdef VERIF_ENTRIES_INC
#define VERIF_ENTRY(name, ...) extern "C" void h_##name() { h_reject_t<__VA_ARGS__>(); }
#include VERIF_ENTRIES_INC
#endif
