// C07 (part): retarget rules. Real pow.cpp (CalculateNextWorkRequired, PermittedDifficultyTransition) and real arith_uint256.cpp
// (SetCompact, GetCompact, comparisons, shifts, assignment), composed with two ARITHMETIC LEMMAS that are proved on the real code in c07_div.cpp:
//
//   base_uint<256>::operator*=(uint32_t)  ==  a*m mod 2^256          (harness mul32: proved for ALL 2^256 x 2^32 inputs)
//   base_uint<256>::operator/=            ==  floor(a/b), i.e. the unique q with q*b <= a < (q+1)*b   (harness division: proved for the dividend shapes in reach, see spec)
//
// In this file the two operators are replaced by reference implementations of exactly these specifications (digit-wise product; schoolbook binary
// long division, whose result is re-checked against the contract on every native run), every call is logged, and the harness checks that the real code feeds them the right operands
// and post-processes the quotient correctly, for ALL mantissas / times / new bits. Reason: deciding the bit-serial 256-bit division (and, to a
// lesser degree, the limb multiplication) inside the full retarget query needs ~2^(symbolic dividend bits) solver work (measured: 32 bits ~30 s,
// 40 bits > 10 min; the retarget dividend has 46 symbolic bits). Variants with -DREAL_MUL keep the real multiplication (thorough tier).
// Monotonicity of the two specifications (x<=y => a*x<=a*y, x<=y => floor(x/d)<=floor(y/d)) is handed to the solver as redundant assumptions
// between logged calls: they are mathematical consequences of the specifications, true in every execution, so they exclude nothing.
#include "c07_common.h"

#ifndef EXP
#define EXP 0x1d
#endif
static constexpr int64_t IV = TSPAN / SPACING;          // difficulty adjustment interval (blocks)

// ---- contract stub for base_uint<256>::operator/= ------------------------------------------------------------------------------
struct DivRec { W a; uint64_t b; W q; };
static DivRec div_log[4];
static int div_calls;

static W w_long_div256(const W& a, uint64_t d)          // schoolbook binary long division of a 256-bit dividend, most significant bit first
{
    W q = w_u64(0); unsigned __int128 r = 0;
    for (int i = 255; i >= 0; i--) {
        r = (r << 1) | ((a.l[i / 64] >> (i % 64)) & 1);
        if (r >= d) { r -= d; q.l[i / 64] |= (uint64_t)1 << (i % 64); }
    }
    return q;
}

// (an explicit specialisation is not allowed after the header's `extern template class base_uint<256>`, so the definition is attached to the
//  member's symbol by name; base_uint<256> is a standard-layout class holding exactly uint32_t pn[8], least significant limb first)
struct Raw256 { uint32_t pn[8]; };
static_assert(sizeof(base_uint<256>) == sizeof(Raw256) && alignof(base_uint<256>) == alignof(Raw256));
Raw256* c07_div_contract(Raw256* self, const Raw256* bp) __asm__("_ZN9base_uintILj256EEdVERKS0_");
Raw256* c07_div_contract(Raw256* self, const Raw256* bp)
{
    uint32_t* pn = self->pn; const Raw256& b = *bp;
    W a = w_u64(0);
    for (int i = 0; i < 8; i++) a.l[i / 2] |= (uint64_t)pn[i] << (32 * (i % 2));
    bool small = true;
    for (int i = 2; i < 8; i++) if (b.pn[i] != 0) small = false;
    const uint64_t d = (uint64_t)b.pn[0] | ((uint64_t)b.pn[1] << 32);
    VASSERT(small && d != 0, "contract stub of operator/=: divisor is non-zero and fits 64 bits (pow.cpp divides by nPowTargetTimespan)");
    const W q = w_long_div256(a, d);
    if (verif_native()) VASSERT(w_le(w_mul64(q, d), a) && w_lt(a, w_mul64(w_add(q, w_u64(1)), d)), "reference long division meets the floor-division contract (checked on every native run)");
    for (int k = 0; k < 4; k++) if (k < div_calls && div_log[k].b == d) {                       // lemma: floor(x/d) <= floor(y/d) for x <= y
        if (w_le(div_log[k].a, a)) VASSUME(w_le(div_log[k].q, q));
        if (w_le(a, div_log[k].a)) VASSUME(w_le(q, div_log[k].q));
    }
    if (div_calls < 4) { div_log[div_calls].a = a; div_log[div_calls].b = d; div_log[div_calls].q = q; }
    div_calls++;
    for (int i = 0; i < 8; i++) pn[i] = (uint32_t)(q.l[i / 2] >> (32 * (i % 2)));
    return self;
}

// x * m for a 256-bit x and a 32-bit m, by linearity over the 32-bit digits of x:  sum_i digit_i(x) * m * 2^(32 i)
static W w_mul32_digits(const W& x, uint32_t m)
{
    W acc = w_u64(0);
    for (int i = 0; i < 8; i++) {
        const uint32_t digit = (uint32_t)(x.l[i / 2] >> (32 * (i % 2)));
        acc = w_add(acc, w_shl(w_u64((uint64_t)m * (uint64_t)digit), 32 * i));
    }
    return acc;
}
static bool w_eq(const W& a, const W& b) { return w_cmp(a, b) == 0; }

#ifndef REAL_MUL
// ---- specification stub for base_uint<256>::operator*=(uint32_t) (proved equal to the real one for all inputs by harness mul32) ----
struct MulRec { W a; uint32_t m; W p; };
static MulRec mul_log[4];
static int mul_calls;
Raw256* c07_mul_spec(Raw256* self, uint32_t m) __asm__("_ZN9base_uintILj256EEmLEj");
Raw256* c07_mul_spec(Raw256* self, uint32_t m)
{
    W a = w_u64(0);
    for (int i = 0; i < 8; i++) a.l[i / 2] |= (uint64_t)self->pn[i] << (32 * (i % 2));
    const W p = w_mul32_digits(a, m);                    // exact product (< 2^288)
    for (int k = 0; k < 4; k++) if (k < mul_calls && w_eq(mul_log[k].a, a)) {        // lemma: a*x <= a*y for x <= y
        if (mul_log[k].m <= m) VASSUME(w_le(mul_log[k].p, p));
        if (mul_log[k].m >= m) VASSUME(w_le(p, mul_log[k].p));
    }
    if (mul_calls < 4) { mul_log[mul_calls].a = a; mul_log[mul_calls].m = m; mul_log[mul_calls].p = p; }
    mul_calls++;
    for (int i = 0; i < 8; i++) self->pn[i] = (uint32_t)(p.l[i / 2] >> (32 * (i % 2)));      // mod 2^256
    return self;
}
#endif
static void w_to_bytes32(const W& x, uint8_t out[32]) { for (int i = 0; i < 32; i++) out[i] = (uint8_t)(x.l[i / 8] >> (8 * (i % 8))); }
// min(q, powLimit) as bytes
static void clamp_to_limit(const W& q, uint8_t out[32])
{
    uint8_t lim[32]; limit_bytes(lim);
    w_to_bytes32(q, out);
    const bool fits = q.l[4] == 0 && q.l[5] == 0;
    if (!fits || ref_cmp256(out, lim) > 0) for (int i = 0; i < 32; i++) out[i] = lim[i];
}

// previous target: any encoding with exponent EXP whose value is in (0, powLimit]
static constexpr unsigned OLD_SHIFT = EXP >= 3 ? 8 * (EXP - 3) : 0;
static uint32_t draw_old_nbits(W* value, uint32_t* mant)
{
    const uint32_t m = nondet_u32() & 0x007fffffu;      // (masking keeps the exponent byte syntactically constant for the solver)
    const uint32_t nbits = ((uint32_t)EXP << 24) | m;
    const RefTarget t = ref_decode_compact(nbits);
    uint8_t lim[32]; limit_bytes(lim);
    VASSUME(!t.overflow && !ref_is_zero256(t.b) && ref_cmp256(t.b, lim) <= 0);
    *value = w_le_bytes32(t.b);
    *mant = EXP >= 3 ? m : (m >> (8 * (3 - (EXP < 3 ? EXP : 3))));     // value = mant * 256^max(EXP-3, 0)
    return nbits;
}

static void config_checks()
{
    uint8_t lim[32]; limit_bytes(lim);
    const W L = w_le_bytes32(lim);
    VASSERT(TSPAN > 0 && SPACING > 0 && TSPAN % SPACING == 0 && TSPAN % 4 == 0 && TSPAN * 4 <= 0xffffffffLL, "chain constants: timespan positive, multiple of spacing and of 4, 4*timespan fits the 32-bit multiplier");
    if (!NO_RETARGET) VASSERT(w_lt(w_mul64(L, (uint64_t)TSPAN * 4), w_shl(w_u64(1), 256)), "chain constants: powLimit * 4 * timespan < 2^256 (retarget product cannot wrap)");
}

// CalculateNextWorkRequired = compact(min(floor(old * clamp(last - first, T/4, 4T) / T), powLimit)); the result passes PermittedDifficultyTransition
extern "C" void h_retarget()
{
    config_checks();
    const Consensus::Params p = make_params();
    W oldv;
    uint32_t old_mant;
    const uint32_t old_nbits = draw_old_nbits(&oldv, &old_mant);
    const uint32_t t_last = nondet_u32(), t_first = nondet_u32();
#if BIP94
    static_assert(IV >= 2 && IV <= 8, "BIP94 variant needs a real chain of one retarget period: shrink the interval with SPACING_OVERRIDE");
    CBlockIndex blk[IV];
    for (int i = 0; i < IV; i++) {
        blk[i].nHeight = i; blk[i].pprev = i ? &blk[i - 1] : nullptr; blk[i].BuildSkip();
        blk[i].nBits = i == 0 ? old_nbits : nondet_u32();     // BIP94: only the first block of the period counts; the others are arbitrary
        blk[i].nTime = nondet_u32();
    }
    CBlockIndex& last = blk[IV - 1];
    last.nTime = t_last;
    const uint32_t prev_nbits = last.nBits;
#else
    CBlockIndex last;
    last.nHeight = (int)nondet_range(0, INT_MAX);
    last.nBits = old_nbits; last.nTime = t_last;
    const uint32_t prev_nbits = old_nbits;
#endif
    div_calls = 0;
#ifndef REAL_MUL
    mul_calls = 0;
#endif
    const uint32_t got = CalculateNextWorkRequired(&last, (int64_t)t_first, p);
    verif_observe(got);
    if (NO_RETARGET) {
        VASSERT(got == prev_nbits && div_calls == 0, "no-retargeting chain: required bits = previous bits");
    } else {
        int64_t ts = (int64_t)t_last - (int64_t)t_first;
        if (ts < TSPAN / 4) ts = TSPAN / 4;
        if (ts > TSPAN * 4) ts = TSPAN * 4;
#ifndef REAL_MUL
        VASSERT(mul_calls == 1 && w_eq(mul_log[0].a, oldv) && mul_log[0].m == (uint32_t)ts, "one multiplication: old target * clamp(last - first, T/4, 4T)");
        const W N = mul_log[0].p;
#else
        const W N = w_mul32_digits(oldv, (uint32_t)ts);      // old * clamped timespan
#endif
        VASSERT(N.l[4] == 0 && N.l[5] == 0, "the product does not wrap 256 bits");
        VASSERT(div_calls == 1 && w_eq(div_log[0].a, N) && div_log[0].b == (uint64_t)TSPAN, "one division: (old target * clamped timespan) / target timespan");
        uint8_t want[32], lim[32];
        limit_bytes(lim);
        clamp_to_limit(div_log[0].q, want);
        VASSERT(got == ref_encode_compact(want, false), "required bits = compact(min(floor(old * clamped timespan / T), powLimit))");
#if CLAMPS
        VWITNESS(got == ref_encode_compact(lim, false) && !w_eq(div_log[0].q, w_le_bytes32(want)), "result clamped to powLimit");
#endif
        VWITNESS(got != ref_encode_compact(lim, false) && got != prev_nbits, "result differs from previous bits and from the limit");
        VWITNESS(ts == TSPAN / 4 && (int64_t)t_last - (int64_t)t_first < 0, "negative actual timespan clamped to T/4");
        VWITNESS(ts == TSPAN * 4 && (int64_t)t_last - (int64_t)t_first > TSPAN * 4, "long timespan clamped to 4T");
        VWITNESS(ts > TSPAN / 4 && ts < TSPAN * 4 && ts != TSPAN, "unclamped timespan");
    }
#ifdef IMPLICATION
    // every required difficulty is accepted by the presync transition check at a retarget height
    const int64_t h = IV * (int64_t)nondet_range(0, 1000);
    VASSERT(PermittedDifficultyTransition(p, h, prev_nbits, got), "PermittedDifficultyTransition accepts the computed required bits at a retarget height");
#endif
    VREACH("end");
}

// PermittedDifficultyTransition against its specification: always true on min-difficulty chains; off retarget heights iff unchanged;
// at retarget heights iff  round(min(old*(T/4)/T, L)) <= target(new) <= round(min(old*4T/T, L)),  round = decode(encode(.)), "/" = floor division.
extern "C" void h_permitted()
{
    config_checks();
    const Consensus::Params p = make_params();
    W oldv;
    uint32_t old_mant;
    const uint32_t old_nbits = draw_old_nbits(&oldv, &old_mant);
    const uint32_t new_nbits = nondet_u32();
    const int64_t h = (int64_t)nondet_range(0, INT_MAX);
    div_calls = 0;
#ifndef REAL_MUL
    mul_calls = 0;
#endif
    const bool got = PermittedDifficultyTransition(p, h, old_nbits, new_nbits);
    verif_observe(got);
    if (ALLOW_MIN) {
        VASSERT(got, "min-difficulty chains: every transition permitted");
    } else if (h % IV != 0) {
        VASSERT(got == (old_nbits == new_nbits), "off retarget heights: permitted iff bits unchanged");
        VWITNESS(got, "unchanged bits permitted off retarget height");
        VWITNESS(!got, "changed bits rejected off retarget height");
    } else {
        const RefTarget nt = ref_decode_compact(new_nbits);          // the check ignores sign/overflow flags of the new bits: value mod 2^256
        // upper bound: first division, always performed
#ifndef REAL_MUL
        VASSERT(mul_calls >= 1 && w_eq(mul_log[0].a, oldv) && mul_log[0].m == (uint32_t)(TSPAN * 4), "first multiplication: old target * 4T");
        const W N1 = mul_log[0].p;
#else
        const W N1 = w_mul32_digits(oldv, (uint32_t)(TSPAN * 4));
#endif
        VASSERT(N1.l[4] == 0 && N1.l[5] == 0, "old * 4T does not wrap 256 bits");
        VASSERT(div_calls >= 1 && w_eq(div_log[0].a, N1) && div_log[0].b == (uint64_t)TSPAN, "first division: old target * 4T / T");
        uint8_t ub[32], lb[32];
        clamp_to_limit(div_log[0].q, ub);
        const RefTarget U = ref_decode_compact(ref_encode_compact(ub, false));
        const bool too_easy = ref_cmp256(nt.b, U.b) > 0;
        bool too_hard = false;
        if (!too_easy) {
#ifndef REAL_MUL
            VASSERT(mul_calls == 2 && w_eq(mul_log[1].a, oldv) && mul_log[1].m == (uint32_t)(TSPAN / 4), "second multiplication: old target * (T/4)");
            const W N2 = mul_log[1].p;
#else
            const W N2 = w_mul32_digits(oldv, (uint32_t)(TSPAN / 4));
#endif
            VASSERT(div_calls == 2 && w_eq(div_log[1].a, N2) && div_log[1].b == (uint64_t)TSPAN, "second division: old target * (T/4) / T");
            clamp_to_limit(div_log[1].q, lb);
            const RefTarget D = ref_decode_compact(ref_encode_compact(lb, false));
            too_hard = ref_cmp256(D.b, nt.b) > 0;
            VWITNESS(got && ref_cmp256(nt.b, D.b) == 0, "exactly 4x harder (rounded) permitted");
            VWITNESS(got && ref_cmp256(nt.b, U.b) == 0, "exactly 4x easier (rounded) permitted");
        }
        VASSERT(got == (!too_easy && !too_hard), "retarget height: permitted iff new target within [round(min(old/4, L)), round(min(4*old, L))]");
        VWITNESS(got && new_nbits != old_nbits, "a changed target is permitted");
        VWITNESS(!got && too_easy, "too-easy target rejected");
        VWITNESS(!got && too_hard, "too-hard target rejected");
    }
    VREACH("end");
}
