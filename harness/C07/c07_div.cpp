// C07 (part): the multi-precision kernels of arith_uint256.cpp, all real (no stubs), against wide-integer references.
#include "c07_common.h"

static W w_of(const arith_uint256& x)
{
    const uint256 u = ArithToUint256(x);
    uint8_t b[32];
    for (int i = 0; i < 32; i++) b[i] = u.data()[i];
    return w_le_bytes32(b);
}
static arith_uint256 arith_from_limbs(const uint32_t l[8])
{
    uint256 u;
    for (int i = 0; i < 8; i++) for (int k = 0; k < 4; k++) u.data()[4 * i + k] = (uint8_t)(l[i] >> (8 * k));
    return UintToArith256(u);
}
static W w_mul32_digits(const W& x, uint32_t m)
{
    W acc = w_u64(0);
    for (int i = 0; i < 8; i++) {
        const uint32_t digit = (uint32_t)(x.l[i / 2] >> (32 * (i % 2)));
        acc = w_add(acc, w_shl(w_u64((uint64_t)m * (uint64_t)digit), 32 * i));
    }
    return acc;
}

// base_uint<256>::operator*=(uint32_t): for every 256-bit a and every 32-bit m the result is a*m mod 2^256
extern "C" void h_mul32()
{
    uint32_t l[8];
    for (int i = 0; i < 8; i++) l[i] = nondet_u32();
    const uint32_t m = nondet_u32();
    arith_uint256 a = arith_from_limbs(l);
    const W before = w_of(a);
    a *= m;
    const W got = w_of(a);
    verif_observe(got.l[0]); verif_observe(got.l[3]);
    W want = w_mul32_digits(before, m);
    want.l[4] = 0; want.l[5] = 0;                      // mod 2^256
    VASSERT(w_cmp(got, want) == 0, "operator*=(uint32_t): a*m mod 2^256");
    VWITNESS(w_mul32_digits(before, m).l[4] != 0, "product wraps");
    VWITNESS(got.l[3] != 0 && w_mul32_digits(before, m).l[4] == 0, "large product without wrap");
    VREACH("end");
}

// base_uint<256>::operator/= (real bit-serial restoring division) against the floor-division contract  q*b <= a < (q+1)*b.
// Dividend a = X * 2^SH with XB symbolic bits X (SH, XB concrete per variant); divisor: the chain's timespan (DIVISOR) or, with DB, any DB-bit value.
#ifndef XB
#define XB 16
#endif
#ifndef SH
#define SH 0
#endif
#if !defined(DB) && !defined(DIVISOR)
#define DIVISOR 1209600
#endif
extern "C" void h_division()
{
    const uint64_t x = nondet_u64() & ((((uint64_t)1) << XB) - 1);
#ifdef DB
    const uint64_t d = nondet_range(1, (((uint64_t)1) << DB) - 1);
#else
    const uint64_t d = DIVISOR;
#endif
    arith_uint256 a(x);
    a <<= SH;
    const W av = w_shl(w_u64(x), SH);
    VASSERT(w_cmp(w_of(a), av) == 0, "operator<<=: X * 2^SH");
    const arith_uint256 b(d);
    a /= b;
    const W q = w_of(a);
    verif_observe(q.l[0]); verif_observe(q.l[3]);
    VASSERT(w_le(w_mul64(q, d), av) && w_lt(av, w_mul64(w_add(q, w_u64(1)), d)), "operator/=: q*b <= a < (q+1)*b (floor division)");
    VWITNESS(w_cmp(q, w_u64(0)) == 0 && x != 0, "dividend smaller than divisor gives 0");
    VWITNESS(w_cmp(w_mul64(q, d), av) == 0 && x != 0, "exact division");
    VWITNESS(w_cmp(w_mul64(q, d), av) != 0 && w_cmp(q, w_u64(0)) != 0, "division with remainder");
    VREACH("end");
}

