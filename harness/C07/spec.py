import re, os
from vlib import H as _H, SRC
def H(*a, **k):
    k.setdefault('diff_runs', 16)
    return _H(*a, **k)
PROPERTY = 'C07'
LEVEL = 'model_checking'

# ---- consensus PoW constants of every built-in chain, read from the current source on every run
def chain_constants():
    txt = open(os.path.join(SRC, 'kernel/chainparams.cpp')).read()
    parts = re.split(r'\nclass (\w+Params) : public CChainParams', txt)
    chains = []
    for name, body in zip(parts[1::2], parts[2::2]):
        def field(f, conv):
            m = re.search(r'consensus\.%s\s*=\s*([^;]+);' % f, body)
            if not m: raise SystemExit('C07 spec: cannot find %s for %s in chainparams.cpp' % (f, name))
            return conv(m.group(1).strip())
        def num(s):
            if not re.fullmatch(r'[0-9 *]+', s): raise SystemExit('C07 spec: unexpected expression %r' % s)
            return eval(s)
        def boolean(s):
            return {'true': 1, 'false': 0}.get(s, None)      # None: option-dependent (regtest enforce_BIP94) -> both values are checked
        lim = field('powLimit', lambda s: re.fullmatch(r'uint256\{"([0-9a-f]{64})"\}', s).group(1))
        chains.append(dict(name=name, limit=lim, timespan=field('nPowTargetTimespan', num), spacing=field('nPowTargetSpacing', num),
                           allowmin=field('fPowAllowMinDifficultyBlocks', boolean), noretarget=field('fPowNoRetargeting', boolean), bip94=field('enforce_BIP94', boolean)))
    if len(chains) < 5: raise SystemExit('C07 spec: expected >= 5 chains, found %d' % len(chains))
    return chains
CHAINS = chain_constants()
DEFS = {}
for i, c in enumerate(CHAINS):
    DEFS['CH%d_LIMIT' % i] = '"%s"' % c['limit']; DEFS['CH%d_TIMESPAN' % i] = c['timespan']; DEFS['CH%d_SPACING' % i] = c['spacing']
    DEFS['CH%d_ALLOWMIN' % i] = c['allowmin']; DEFS['CH%d_NORETARGET' % i] = c['noretarget']; DEFS['CH%d_BIP94' % i] = 0 if c['bip94'] is None else c['bip94']
NAMES = ', '.join('%d=%s' % (i, c['name']) for i, c in enumerate(CHAINS))
# distinct (limit) values: the PoW check depends on the chain only through powLimit
by_limit = {}
for i, c in enumerate(CHAINS): by_limit.setdefault(c['limit'], i)
LIMIT_CHAINS = sorted(by_limit.values())

CLAIM = ('Proof-of-work and difficulty code (pow.cpp, arith_uint256.cpp, chain.cpp) executed symbolically with the PoW constants of every built-in chain (%s) read from '
         'kernel/chainparams.cpp on each run. (a) compact codec: SetCompact for all 2^32 nBits and GetCompact for all 2^256 values equal a byte-array reference of the documented '
         'format; compact rounding is monotone. (b) CheckProofOfWorkImpl/DeriveTarget for all hashes x all nBits: accept iff target positive, non-overflowing, <= powLimit and hash <= target. '
         '(c) CalculateNextWorkRequired = compact(min(floor(old*clamp(last-first,T/4,4T)/T), powLimit)) and PermittedDifficultyTransition = its specification, for all mantissas/times/new bits per '
         'compact exponent, with the two multi-precision operators replaced by their specifications (operator*=(uint32_t): proved equal to a*m mod 2^256 on the real code for ALL inputs; '
         'operator/=: real bit-serial division proved equal to floor division only for dividends below 2^28 -- longer symbolic divisions are beyond SAT, stated in bounds). '
         '(d) GetNextWorkRequired rule dispatch (retarget heights, first block of the period, min-difficulty rules) on real block-index chains with a 4-block interval. '
         '(e) GetMedianTimePast = order-statistic median on chains of up to 5 (thorough 7) blocks. Not covered: ContextualCheckBlockHeader itself (comparison against MTP and the 2-hour future limit, needs ChainstateManager), the 11-block median window, the 2016-block interval itself, block-index chains longer than 12.' % NAMES)
LINK = ['pow.cpp', 'arith_uint256.cpp', 'chain.cpp', 'uint256.cpp']
FN = ['arith_uint256::SetCompact', 'arith_uint256::GetCompact', 'base_uint<256>::operator<<=, >>=, *=(uint32_t), /=, CompareTo, bits', 'UintToArith256/ArithToUint256',
      'DeriveTarget', 'CheckProofOfWorkImpl', 'CalculateNextWorkRequired', 'GetNextWorkRequired', 'PermittedDifficultyTransition', 'CBlockIndex::GetAncestor/BuildSkip']
def valid_exps(c):
    L = int(c['limit'], 16); out = []
    for e in range(0, 35):
        # some 23-bit mantissa gives a target in (0, L]
        vals = [(m >> (8 * (3 - e))) if e < 3 else (m << (8 * (e - 3))) for m in (1, 0x80, 0x8000, 0x7fffff)]
        if any(0 < v <= L for v in vals): out.append(e)
    return out
def clamps(c, e):
    # can 4 * (largest valid previous target with exponent e) exceed powLimit?  (guards the "clamped to powLimit" witness)
    L = int(c['limit'], 16)
    mx = max(v for v in ((m >> (8 * (3 - e))) if e < 3 else (m << (8 * (e - 3))) for m in range(1, 0x800000, 0x101)) if v <= L) if e in valid_exps(c) else 0
    top = (0x7fffff >> (8 * (3 - e))) if e < 3 else (0x7fffff << (8 * (e - 3)))
    mx = min(top, L)
    return 1 if 4 * mx > L else 0
def chain_idx(name):
    return [i for i, c in enumerate(CHAINS) if c['name'] == name][0]
def rvariant(i, e, bip=None):
    c = CHAINS[i]; v = {'CHAIN': i, 'EXP': e, 'CLAMPS': clamps(c, e)}
    b = c['bip94'] if bip is None else bip
    if b: v.update({'BIP94': 1, 'SPACING_OVERRIDE': c['timespan'] // 4})
    elif c['bip94'] is None: v.update({'BIP94': 0})
    return v
def retarget_variants(quick):
    vs = []
    for i, c in enumerate(CHAINS):
        exps = valid_exps(c); top = max(exps)
        bips = [c['bip94']] if c['bip94'] is not None else [0, 1]
        same_as_main = i != 0 and (c['limit'], c['timespan'], c['noretarget'], c['bip94']) == (CHAINS[0]['limit'], CHAINS[0]['timespan'], CHAINS[0]['noretarget'], CHAINS[0]['bip94'])
        for b in bips:
            if c['noretarget']: pick = [top - 1]
            elif same_as_main: pick = [] if quick else [top - 1]      # CalculateNextWorkRequired does not read fPowAllowMinDifficultyBlocks
            elif quick: pick = [top, top - 1, 0x17, 3] if i == 0 else [top - 1]
            else: pick = exps
            vs += [rvariant(i, e, b) for e in pick]
    return vs
def permitted_variants(quick):
    vs = []
    for i, c in enumerate(CHAINS):
        exps = valid_exps(c); top = max(exps)
        if c['allowmin']: pick = [top - 1] if (not quick or c['name'] == 'CTestNetParams') else []
        elif quick: pick = [top - 1, 0x17, 1] if i == 0 else [top]
        else: pick = exps if i == 0 else exps[-8:]
        vs += [{'CHAIN': i, 'EXP': e} for e in pick]
    return vs
def permits_variants(quick):
    vs = []
    for i, c in enumerate(CHAINS):
        if c['allowmin'] or c['noretarget']: continue
        exps = valid_exps(c); top = max(exps)
        if quick: pick = [top - 1] if i == 0 else []
        else: pick = [e for e in exps if e in (1, 3, 8, 16) or e >= 20] if i == 0 else exps[-4:]
        vs += [rvariant(i, e) for e in pick]
    return vs
def realmul_variants():
    c = CHAINS[0]; exps = valid_exps(c)
    return [rvariant(0, e) for e in exps if e in (3, 4, 5, 6) or e >= 20]
SWEEP = ['default', 'kissat', 'cvc5int', 'z3']
# base_uint<256>::operator/= is a restoring division: one loop iteration per quotient bit, i.e. bits(dividend) - bits(divisor) + 1 iterations.
# dividend <= mantissa(23 bits) * 4*timespan (23 bits) * 256^(EXP-3); divisor = timespan (>= 17 bits). The bound is checked by --unwinding-assertions.
DIVFN = '_ZN9base_uintILj256EEdVERKS0_'
def div_unwind(v):
    e = v.get('EXP', 3)
    k = 8 * max(e - 3, 0) + 46 - 17 + 3
    return ','.join('%s.%d:%d' % (DIVFN, i, k) for i in range(24))
TS = sorted(set(c['timespan'] for c in CHAINS))
DIV_VARIANTS = [{'XB': 28 if t > 500000 else 24, 'SH': 0, 'DIVISOR': t} for t in TS]
DIV_TVARIANTS = DIV_VARIANTS + [{'XB': 30 if t > 500000 else 26, 'SH': 0, 'DIVISOR': t} for t in TS]
STUBS = ['base_uint<256>::operator*=(uint32_t) replaced in the retarget/permitted harnesses by the reference a*m mod 2^256 (digit-wise); the real operator is proved equal to it for ALL inputs by harness mul32',
         'base_uint<256>::operator/= replaced in the retarget/permitted harnesses by schoolbook long division (= floor(a/b), re-checked against q*b <= a < (q+1)*b on every native run); the real bit-serial operator is checked against that contract by harness division only for the dividend shapes listed there (46-bit symbolic dividends times 256^k are beyond SAT: measured 32 bits ~30 s, 40 bits > 10 min)',
         'monotonicity of both specifications (x<=y => a*x<=a*y and floor(x/d)<=floor(y/d)) supplied to the solver as redundant assumptions between logged calls']
RB = ('previous target: concrete compact exponent per variant (quick: 7 exponents on main incl. the three highest, up to 3 per other chain; thorough: every exponent with a target in (0,powLimit]), '
      '23-bit mantissa symbolic; block times: all 32-bit first/last times (signed difference, both clamps); BIP94 chains: one real period of 4 blocks (spacing scaled to timespan/4), other blocks\' bits arbitrary')
RA = ['previous target in (0, powLimit] (guaranteed by CheckProofOfWork on every indexed header)', 'block times are 32-bit header fields (nFirstBlockTime is passed from CBlockIndex::GetBlockTime)']
HARNESSES = [
    H('compact_decode', 'c07.cpp', 'h_compact_decode', link=LINK, defines=DEFS, functions=FN, unwind=40,
      bounds='all 2^32 nBits values (full input domain)', timeout=300, backends=['default']),
    H('compact_encode', 'c07.cpp', 'h_compact_encode', link=LINK, defines=DEFS, functions=FN, unwind=40,
      bounds='all 2^256 values, both sign arguments (full input domain)', timeout=300, backends=['default']),
    H('checkpow', 'c07.cpp', 'h_checkpow', link=LINK, defines=DEFS, functions=FN, unwind=40, variants=[{'CHAIN': i} for i in LIMIT_CHAINS],
      bounds='all 2^256 hashes x all 2^32 nBits, for each distinct powLimit of the built-in chains', timeout=300, backends=['default']),
    H('rounding_monotone', 'c07.cpp', 'h_rounding_monotone', link=LINK, defines=DEFS, functions=FN, unwind=40, variants=[{'CHAIN': i} for i in LIMIT_CHAINS],
      bounds='all pairs of 256-bit values x <= y, for each distinct powLimit', timeout=300, backends=['default', 'kissat']),
    H('retarget', 'c07_retarget.cpp', 'h_retarget', link=LINK, defines=DEFS, functions=FN, unwind=260, variants=retarget_variants(True), tvariants=retarget_variants(False),
      stubs=STUBS, bounds=RB, assumptions=RA, timeout=400, backends=['default']),
    H('retarget_realmul', 'c07_retarget.cpp', 'h_retarget', link=LINK, defines=dict(DEFS, REAL_MUL=1), functions=FN, unwind=260, tier='thorough',
      variants=realmul_variants(),
      stubs=STUBS[1:], bounds=RB + '; real operator*=(uint32_t) (only the division is replaced)', assumptions=RA, timeout=900, backends=['kissat', 'default']),
    H('retarget_permits', 'c07_retarget.cpp', 'h_retarget', link=LINK, defines=dict(DEFS, IMPLICATION=1), functions=FN, unwind=260, tier='thorough',
      variants=permits_variants(False),
      stubs=STUBS, bounds=RB + '; additionally PermittedDifficultyTransition(height = interval*k, k<=1000, previous bits, computed bits) must hold (thorough tier: main chain exponents 1,3,8,16,20..30, signet 4 highest)',
      assumptions=RA, timeout=900, backends=['kissat', 'default']),
    H('permitted', 'c07_retarget.cpp', 'h_permitted', link=LINK, defines=DEFS, functions=FN, unwind=260, variants=permitted_variants(True), tvariants=permitted_variants(False),
      stubs=STUBS, bounds='old target: concrete compact exponent per variant, 23-bit mantissa symbolic, value in (0,powLimit]; new bits: all 2^32 values; heights 0..2^31-1',
      timeout=400, backends=['default']),
    H('nextwork', 'c07_next.cpp', 'h_nextwork', link=LINK, defines=DEFS, functions=FN, unwind=100,
      variants=[{'CHAIN': i, 'LAST': l, 'SPACING_OVERRIDE': CHAINS[i]['timespan'] // 4} for i in (0, 1) for l in (2, 3, 6, 7)],
      tvariants=[{'CHAIN': i, 'LAST': l, 'SPACING_OVERRIDE': CHAINS[i]['timespan'] // 4} for i in range(len(CHAINS)) for l in (1, 2, 3, 4, 5, 6, 7, 11)],
      stubs=['CalculateNextWorkRequired replaced by an argument recorder with unconstrained result in the nextwork harness only (its arithmetic is the subject of the retarget harness)'],
      bounds='real CBlockIndex chains of 3..8 blocks (thorough up to 12) with the retarget interval shrunk to 4 blocks (spacing := timespan/4, other constants per chain); every block\'s nBits (limit or arbitrary) and nTime, and the new header\'s time symbolic',
      timeout=300),
    H('mtp', 'c07_next.cpp', 'h_mtp', link=LINK, defines=dict(DEFS, SPACING_OVERRIDE=CHAINS[0]['timespan'] // 4), functions=FN + ['CBlockIndex::GetMedianTimePast (std::sort)'], unwind=40,
      variants=[{'MTPN': n} for n in (1, 2, 5)], tvariants=[{'MTPN': n} for n in range(1, 8)],
      bounds='median-time-past on chains of 1, 2, 5 blocks (thorough 1..7), all block times symbolic 32-bit; the full 11-block window gave no verdict in 300 s (symbolic std::sort)', timeout=900, backends=['default', 'kissat']),
    H('mul32', 'c07_div.cpp', 'h_mul32', link=LINK, defines=DEFS, functions=FN, unwind=40,
      bounds='all 2^256 multiplicands x all 2^32 multipliers (full input domain of operator*=(uint32_t))', timeout=400, backends=['kissat', 'default']),
    H('division', 'c07_div.cpp', 'h_division', link=LINK, defines=DEFS, functions=FN, unwind=40, ubsan=False,
      variants=DIV_VARIANTS, tvariants=DIV_TVARIANTS,
      unwindset=lambda v: ','.join('%s.%d:%d' % (DIVFN, i, max(34, v['XB'] + v['SH'] - (1 if 'DB' in v else int(v['DIVISOR']).bit_length()) + 4)) for i in range(24)),
      bounds='real operator/= against q*b <= a < (q+1)*b for all dividends below 2^28 (timespan 1209600) / 2^24 (timespan 86400), thorough 2^30 / 2^26; quotients of up to ~10 bits. Longer quotients are beyond SAT (measured: 16 symbolic bits shifted by 100 bits, or 8-bit symbolic divisors: no verdict in 200 s)',
      timeout=300, backends=['default', 'kissat']),
]
