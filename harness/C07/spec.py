import re, os
from vlib import H, SRC
PROPERTY = 'C07'
LEVEL = 'model_checking'

# ---- consensus PoW constants of every built-in chain, read from the current source on every run
def chain_constants():
    txt = open(os.path.join(SRC, 'kernel/chainparams.cpp')).read()
    parts = re.split(r'\nclass (\w+Params) : public CChainParams', txt)
    chains = []
    for name, body in zip(parts[1::2], parts[2::2]):
        def field(f, conv):
            m = re.search(r'consensus\.%s\s*=\s*([^;]+);' % f, body)
            if not m: raise SystemExit('C07 spec: cannot find %s for %s in chainparams.cpp' % (f, name))
            return conv(m.group(1).strip())
        def num(s):
            if not re.fullmatch(r'[0-9 *]+', s): raise SystemExit('C07 spec: unexpected expression %r' % s)
            return eval(s)
        def boolean(s):
            return {'true': 1, 'false': 0}.get(s, None)      # None: option-dependent (regtest enforce_BIP94) -> both values are checked
        lim = field('powLimit', lambda s: re.fullmatch(r'uint256\{"([0-9a-f]{64})"\}', s).group(1))
        chains.append(dict(name=name, limit=lim, timespan=field('nPowTargetTimespan', num), spacing=field('nPowTargetSpacing', num),
                           allowmin=field('fPowAllowMinDifficultyBlocks', boolean), noretarget=field('fPowNoRetargeting', boolean), bip94=field('enforce_BIP94', boolean)))
    if len(chains) < 5: raise SystemExit('C07 spec: expected >= 5 chains, found %d' % len(chains))
    return chains
CHAINS = chain_constants()
DEFS = {}
for i, c in enumerate(CHAINS):
    DEFS['CH%d_LIMIT' % i] = '"%s"' % c['limit']; DEFS['CH%d_TIMESPAN' % i] = c['timespan']; DEFS['CH%d_SPACING' % i] = c['spacing']
    DEFS['CH%d_ALLOWMIN' % i] = c['allowmin']; DEFS['CH%d_NORETARGET' % i] = c['noretarget']; DEFS['CH%d_BIP94' % i] = 0 if c['bip94'] is None else c['bip94']
NAMES = ', '.join('%d=%s' % (i, c['name']) for i, c in enumerate(CHAINS))
# distinct (limit) values: the PoW check depends on the chain only through powLimit
by_limit = {}
for i, c in enumerate(CHAINS): by_limit.setdefault(c['limit'], i)
LIMIT_CHAINS = sorted(by_limit.values())

CLAIM = ('Real arith_uint256::SetCompact/GetCompact, DeriveTarget, CheckProofOfWorkImpl, CalculateNextWorkRequired, GetNextWorkRequired and '
         'PermittedDifficultyTransition (pow.cpp, arith_uint256.cpp, chain.cpp) executed symbolically against byte-array / division-free wide-integer '
         'oracles written from the compact-format documentation and the retarget rule, with the PoW constants of every built-in chain (%s) read from '
         'kernel/chainparams.cpp on each run.' % NAMES)
LINK = ['pow.cpp', 'arith_uint256.cpp', 'chain.cpp', 'uint256.cpp']
FN = ['arith_uint256::SetCompact', 'arith_uint256::GetCompact', 'base_uint<256>::operator<<=, >>=, *=(uint32_t), /=, CompareTo, bits', 'UintToArith256/ArithToUint256',
      'DeriveTarget', 'CheckProofOfWorkImpl', 'CalculateNextWorkRequired', 'GetNextWorkRequired', 'PermittedDifficultyTransition', 'CBlockIndex::GetAncestor/BuildSkip']
def valid_exps(c):
    L = int(c['limit'], 16); out = []
    for e in range(0, 35):
        # some 23-bit mantissa gives a target in (0, L]
        vals = [(m >> (8 * (3 - e))) if e < 3 else (m << (8 * (e - 3))) for m in (1, 0x80, 0x8000, 0x7fffff)]
        if any(0 < v <= L for v in vals): out.append(e)
    return out
def retarget_variants(quick):
    vs = []
    for i, c in enumerate(CHAINS):
        exps = valid_exps(c)
        top = max(exps)
        base = {'CHAIN': i}
        bips = [c['bip94']] if c['bip94'] is not None else [0, 1]
        for b in bips:
            v0 = dict(base)
            if b: v0.update({'BIP94': 1, 'SPACING_OVERRIDE': c['timespan'] // 4})
            elif c['bip94'] is None: v0.update({'BIP94': 0})
            if c['noretarget']:
                pick = [top - 1]
            elif quick:
                if i == 0: pick = [top, top - 1, top - 2, 0x1b, 0x18, 4, 2]
                elif (c['limit'], c['timespan'], 0, 0) == (CHAINS[0]['limit'], CHAINS[0]['timespan'], b or 0, c['noretarget']): pick = [top]
                else: pick = [top, top - 1, 0x1a]
            else:
                pick = exps
            for e in pick:
                v = dict(v0); v['EXP'] = e; vs.append(v)
    return vs
def permitted_variants(quick):
    vs = []
    for i, c in enumerate(CHAINS):
        exps = valid_exps(c); top = max(exps)
        if c['allowmin']: pick = [top - 1]
        elif quick: pick = [top, top - 1, top - 2, 0x1a, 3, 1]
        else: pick = exps
        vs += [{'CHAIN': i, 'EXP': e} for e in pick]
    return vs
SWEEP = ['default', 'kissat', 'cvc5int', 'z3']
# base_uint<256>::operator/= is a restoring division: one loop iteration per quotient bit, i.e. bits(dividend) - bits(divisor) + 1 iterations.
# dividend <= mantissa(23 bits) * 4*timespan (23 bits) * 256^(EXP-3); divisor = timespan (>= 17 bits). The bound is checked by --unwinding-assertions.
DIVFN = '_ZN9base_uintILj256EEdVERKS0_'
def div_unwind(v):
    e = v.get('EXP', 3)
    k = 8 * max(e - 3, 0) + 46 - 17 + 3
    return ','.join('%s.%d:%d' % (DIVFN, i, k) for i in range(24))
HARNESSES = [
    H('compact_decode', 'c07.cpp', 'h_compact_decode', link=LINK, defines=DEFS, functions=FN, unwind=40,
      bounds='all 2^32 nBits values (full input domain)', timeout=300, backends=['default', 'kissat']),
    H('compact_encode', 'c07.cpp', 'h_compact_encode', link=LINK, defines=DEFS, functions=FN, unwind=40,
      bounds='all 2^256 values, both sign arguments (full input domain)', timeout=300, backends=['default', 'kissat']),
    H('checkpow', 'c07.cpp', 'h_checkpow', link=LINK, defines=DEFS, functions=FN, unwind=40, variants=[{'CHAIN': i} for i in LIMIT_CHAINS],
      bounds='all 2^256 hashes x all 2^32 nBits, for each distinct powLimit of the built-in chains', timeout=300, backends=['default', 'kissat']),
    H('retarget', 'c07_retarget.cpp', 'h_retarget', link=LINK, ubsan=False, defines=DEFS, functions=FN, unwind=100, unwindset=div_unwind, variants=retarget_variants(True), tvariants=retarget_variants(False),
      bounds='previous target: concrete compact exponent per variant (quick: 7 exponents on main incl. the three highest, 3 per other chain; thorough: every exponent with a target in (0,powLimit]), '
             '23-bit mantissa symbolic; block times: all 32-bit first/last times (signed difference, both clamps); BIP94 chains: one real period of 4 blocks (spacing scaled to timespan/4), other blocks\' bits arbitrary',
      assumptions=['previous target in (0, powLimit] (guaranteed by CheckProofOfWork on every indexed header)', 'block times are 32-bit header fields (nFirstBlockTime is passed from CBlockIndex::GetBlockTime)'],
      timeout=300, backends=SWEEP),
    H('permitted', 'c07_retarget.cpp', 'h_permitted', link=LINK, ubsan=False, defines=DEFS, functions=FN, unwind=100, unwindset=div_unwind, variants=permitted_variants(True), tvariants=permitted_variants(False),
      bounds='old target: concrete compact exponent per variant, mantissa symbolic, in (0,powLimit]; new bits: all 2^32 values; heights 0..2^31-1',
      timeout=300, backends=SWEEP),
    H('nextwork', 'c07_next.cpp', 'h_nextwork', link=LINK, defines=DEFS, functions=FN, unwind=100,
      variants=[{'CHAIN': i, 'LAST': l, 'SPACING_OVERRIDE': CHAINS[i]['timespan'] // 4} for i in sorted(set([0, 1, len(CHAINS) - 1])) for l in (2, 3, 6, 7)],
      tvariants=[{'CHAIN': i, 'LAST': l, 'SPACING_OVERRIDE': CHAINS[i]['timespan'] // 4} for i in range(len(CHAINS)) for l in (1, 2, 3, 4, 5, 6, 7, 11)],
      stubs=['CalculateNextWorkRequired replaced by an argument recorder with unconstrained result in the nextwork harness only (its arithmetic is the subject of the retarget harness)'],
      bounds='real CBlockIndex chains of 3..8 blocks (thorough up to 12) with the retarget interval shrunk to 4 blocks (spacing := timespan/4, other constants per chain); every block\'s nBits (limit or arbitrary) and nTime, and the new header\'s time symbolic',
      timeout=300),
]
