// C07 shared harness prelude: chain constants and small helpers.
#pragma once
#include <verif.h>
#include <compact_ref.h>
#include <wide_ref.h>
#include <pow.h>
#include <arith_uint256.h>
#include <uint256.h>
#include <chain.h>
#include <primitives/block.h>
#include <consensus/params.h>
#include <climits>

// ---- chain constants: extracted from kernel/chainparams.cpp by spec.py on every run, passed as CH<i>_* macros; CHAIN selects one
#ifndef CHAIN
#define CHAIN 0
#endif
#define CAT3_(a, b, c) a##b##c
#define CAT3(a, b, c) CAT3_(a, b, c)
#define CP(x) CAT3(CH, CHAIN, x)
static constexpr uint256 POW_LIMIT{CP(_LIMIT)};
static constexpr int64_t TSPAN = CP(_TIMESPAN);
#ifdef SPACING_OVERRIDE                      // retarget interval shrunk for harnesses that need a real block-index chain (stated in bounds)
static constexpr int64_t SPACING = SPACING_OVERRIDE;
#else
static constexpr int64_t SPACING = CP(_SPACING);
#endif
static constexpr bool ALLOW_MIN = CP(_ALLOWMIN);
static constexpr bool NO_RETARGET = CP(_NORETARGET);
#ifndef BIP94
#define BIP94 CP(_BIP94)
#endif

static Consensus::Params make_params()
{
    Consensus::Params p;
    p.powLimit = POW_LIMIT;
    p.nPowTargetTimespan = TSPAN;
    p.nPowTargetSpacing = SPACING;
    p.fPowAllowMinDifficultyBlocks = ALLOW_MIN;
    p.fPowNoRetargeting = NO_RETARGET;
    p.enforce_BIP94 = BIP94;
    return p;
}

static void limit_bytes(uint8_t out[32]) { for (int i = 0; i < 32; i++) out[i] = POW_LIMIT.data()[i]; }   // uint256 stores little endian

static bool same_bytes(const arith_uint256& a, const uint8_t b[32])
{
    const uint256 u = ArithToUint256(a);
    bool eq = true;
    for (int i = 0; i < 32; i++) if (u.data()[i] != b[i]) eq = false;
    return eq;
}

