// C07 (part): GetNextWorkRequired rule dispatch on a real CBlockIndex chain (real pow.cpp GetNextWorkRequired, chain.cpp GetAncestor/BuildSkip).
// CalculateNextWorkRequired is replaced HERE by a recorder (arguments recorded, unconstrained result): its arithmetic is checked by the
// `retarget` harness; this harness checks that it is called with the right block and the right first-block time, and every other rule.
#include <verif.h>
#include <compact_ref.h>
#include <pow.h>
#include <arith_uint256.h>
#include <uint256.h>
#include <chain.h>
#include <primitives/block.h>
#include <consensus/params.h>

#ifndef CHAIN
#define CHAIN 0
#endif
#ifndef LAST
#define LAST 3                 // height of pindexLast; the chain is blocks 0..LAST
#endif
#define CAT3_(a, b, c) a##b##c
#define CAT3(a, b, c) CAT3_(a, b, c)
#define CP(x) CAT3(CH, CHAIN, x)
static constexpr uint256 POW_LIMIT{CP(_LIMIT)};
static constexpr int64_t TSPAN = CP(_TIMESPAN);
static constexpr int64_t SPACING = SPACING_OVERRIDE;     // interval shrunk to TSPAN / SPACING_OVERRIDE blocks (stated in bounds)
static constexpr bool ALLOW_MIN = CP(_ALLOWMIN);
static constexpr int IV = (int)(TSPAN / SPACING);
static_assert(IV >= 2 && IV <= 8);

static const CBlockIndex* rec_last; static int64_t rec_first_time; static int rec_calls; static uint32_t rec_ret;
unsigned int CalculateNextWorkRequired(const CBlockIndex* pindexLast, int64_t nFirstBlockTime, const Consensus::Params&)
{
    rec_last = pindexLast; rec_first_time = nFirstBlockTime; rec_calls++;
    rec_ret = nondet_u32();
    return rec_ret;
}

extern "C" void h_nextwork()
{
    Consensus::Params p;
    p.powLimit = POW_LIMIT; p.nPowTargetTimespan = TSPAN; p.nPowTargetSpacing = SPACING;
    p.fPowAllowMinDifficultyBlocks = ALLOW_MIN; p.fPowNoRetargeting = CP(_NORETARGET); p.enforce_BIP94 = CP(_BIP94);
    uint8_t lim[32];
    for (int i = 0; i < 32; i++) lim[i] = POW_LIMIT.data()[i];
    const uint32_t limit_bits = ref_encode_compact(lim, false);

    CBlockIndex blk[LAST + 1];
    uint32_t bits[LAST + 1], tm[LAST + 1];
    for (int i = 0; i <= LAST; i++) {
        blk[i].nHeight = i; blk[i].pprev = i ? &blk[i - 1] : nullptr; blk[i].BuildSkip();
        // each block's bits: either the limit or an arbitrary other value (so that runs of min-difficulty blocks are likely)
        bits[i] = nondet_bool() ? limit_bits : nondet_u32();
        tm[i] = nondet_u32();
        blk[i].nBits = bits[i]; blk[i].nTime = tm[i];
    }
    CBlockHeader hdr;
    hdr.nTime = nondet_u32();
    hdr.nBits = nondet_u32();       // must not influence the result
    rec_calls = 0;
    const uint32_t got = GetNextWorkRequired(&blk[LAST], &hdr, p);
    verif_observe(got);

    const int next = LAST + 1;
    if (next % IV == 0) {
        VASSERT(rec_calls == 1 && rec_last == &blk[LAST], "retarget height: CalculateNextWorkRequired called once with the previous block");
        VASSERT(rec_first_time == (int64_t)tm[LAST - (IV - 1)], "retarget height: first-block time = time of the first block of the closing period (height last-(interval-1))");
        VASSERT(got == rec_ret, "retarget height: required bits = CalculateNextWorkRequired result");
    } else {
        VASSERT(rec_calls == 0, "no retarget off the adjustment interval");
        if (!ALLOW_MIN) {
            VASSERT(got == bits[LAST], "off retarget heights the required bits equal the previous block's bits");
        } else if ((int64_t)hdr.nTime > (int64_t)tm[LAST] + 2 * SPACING) {
            VASSERT(got == limit_bits, "min-difficulty chains: a block more than 2*spacing after its parent must use the limit");
            VWITNESS(true, "late block gets min difficulty");
        } else {
            // the last block, walking back, that is not a special min-difficulty block: stop at a period start, at genesis, or at bits != limit
            int k = LAST;
            for (int step = 0; step <= LAST; step++) if (k > 0 && k % IV != 0 && bits[k] == limit_bits) k--;
            VASSERT(got == bits[k], "min-difficulty chains: otherwise the bits of the last non-min-difficulty block of the period (or the period start)");
            VWITNESS(k != LAST, "walk-back skips at least one min-difficulty block");
            VWITNESS(k == LAST, "previous block is not min-difficulty");
            VWITNESS(k % IV == 0 && bits[k] == limit_bits && k != LAST, "walk-back stops at the period start");
        }
    }
    VREACH("end");
}

// Median time past (the "after the median of the previous 11" part of the header rules): real CBlockIndex::GetMedianTimePast (chain.h, std::sort from
// libstdc++) on a real chain of MTPN blocks with symbolic times, against the order-statistic definition of the median (no sorting in the oracle).
#ifndef MTPN
#define MTPN 11
#endif
extern "C" void h_mtp()
{
    CBlockIndex blk[MTPN];
    uint32_t tm[MTPN];
    for (int i = 0; i < MTPN; i++) { blk[i].nHeight = i; blk[i].pprev = i ? &blk[i - 1] : nullptr; tm[i] = nondet_u32(); blk[i].nTime = tm[i]; }
    const int64_t got = blk[MTPN - 1].GetMedianTimePast();
    verif_observe((uint64_t)got);
    const int n = MTPN < 11 ? MTPN : 11;                 // the block itself and up to 10 ancestors
    const int first = MTPN - n;
    // median = element of rank n/2 (0-based) of the multiset: fewer than n/2+1 elements are smaller, at least n/2+1 are smaller or equal
    int less = 0, leq = 0; bool member = false;
    for (int i = first; i < MTPN; i++) { if ((int64_t)tm[i] < got) less++; if ((int64_t)tm[i] <= got) leq++; if ((int64_t)tm[i] == got) member = true; }
    VASSERT(member, "median time past is the time of one of the last 11 blocks");
    VASSERT(less <= n / 2 && leq >= n / 2 + 1, "median time past is the element of rank n/2 among the times of the block and its (up to) 10 ancestors");
#if MTPN > 1
    VWITNESS(got == (int64_t)tm[MTPN - 1] && tm[0] != tm[MTPN - 1], "the newest block can be the median");
    VWITNESS(got != (int64_t)tm[MTPN - 1], "the newest block need not be the median");
#endif
    VREACH("end");
}
