// C07: proof of work and required difficulty. Real code: pow.cpp, arith_uint256.cpp (+ chain.cpp for CBlockIndex::GetAncestor).
// Oracles: ref/compact_ref.h (byte-array model of the compact encoding, from the documentation comment) and
// ref/wide_ref.h (division-free 384-bit arithmetic: quotients are specified by q*d <= n < (q+1)*d).
#include <verif.h>
#include <compact_ref.h>
#include <wide_ref.h>
#include <pow.h>
#include <arith_uint256.h>
#include <uint256.h>
#include <chain.h>
#include <primitives/block.h>
#include <consensus/params.h>
#include <climits>

// ---- chain constants: extracted from kernel/chainparams.cpp by spec.py on every run, passed as CH<i>_* macros; CHAIN selects one
#ifndef CHAIN
#define CHAIN 0
#endif
#define CAT3_(a, b, c) a##b##c
#define CAT3(a, b, c) CAT3_(a, b, c)
#define CP(x) CAT3(CH, CHAIN, x)
static constexpr uint256 POW_LIMIT{CP(_LIMIT)};
static constexpr int64_t TSPAN = CP(_TIMESPAN);
#ifdef SPACING_OVERRIDE                      // retarget interval shrunk for harnesses that need a real block-index chain (stated in bounds)
static constexpr int64_t SPACING = SPACING_OVERRIDE;
#else
static constexpr int64_t SPACING = CP(_SPACING);
#endif
static constexpr bool ALLOW_MIN = CP(_ALLOWMIN);
static constexpr bool NO_RETARGET = CP(_NORETARGET);
#ifndef BIP94
#define BIP94 CP(_BIP94)
#endif

static Consensus::Params make_params()
{
    Consensus::Params p;
    p.powLimit = POW_LIMIT;
    p.nPowTargetTimespan = TSPAN;
    p.nPowTargetSpacing = SPACING;
    p.fPowAllowMinDifficultyBlocks = ALLOW_MIN;
    p.fPowNoRetargeting = NO_RETARGET;
    p.enforce_BIP94 = BIP94;
    return p;
}

static void limit_bytes(uint8_t out[32]) { for (int i = 0; i < 32; i++) out[i] = POW_LIMIT.data()[i]; }   // uint256 stores little endian

static bool same_bytes(const arith_uint256& a, const uint8_t b[32])
{
    const uint256 u = ArithToUint256(a);
    bool eq = true;
    for (int i = 0; i < 32; i++) if (u.data()[i] != b[i]) eq = false;
    return eq;
}

// ------------------------------------------------------------------------------------------------------------------
// (1a) SetCompact for every 32-bit nBits: value (mod 2^256), negative and overflow flags equal the reference decode;
//      re-encoding yields the canonical encoding of the same value.
extern "C" void h_compact_decode()
{
    const uint32_t c = nondet_u32();
    bool neg = nondet_bool(), ovf = nondet_bool();
    arith_uint256 a;
    a.SetCompact(c, &neg, &ovf);
    const RefTarget r = ref_decode_compact(c);
    verif_observe(a.GetLow64()); verif_observe(neg); verif_observe(ovf);
    VASSERT(neg == r.negative, "SetCompact: negative flag = sign bit set and truncated magnitude non-zero");
    VASSERT(ovf == r.overflow, "SetCompact: overflow flag = mantissa*256^(exp-3) does not fit 256 bits");
    VASSERT(same_bytes(a, r.b), "SetCompact: value = mantissa*256^(exp-3) mod 2^256 (fractions truncated)");
    if (!r.overflow) {
        const uint32_t c2 = a.GetCompact(neg);
        verif_observe(c2);
        VASSERT(c2 == ref_encode_compact(r.b, r.negative), "GetCompact(SetCompact(x)) is the canonical encoding of the decoded value");
        arith_uint256 a2; bool neg2 = false, ovf2 = true;
        a2.SetCompact(c2, &neg2, &ovf2);
        VASSERT(a2 == a && neg2 == neg && !ovf2, "decoding the re-encoded value gives the same number and sign");
        const uint32_t c3 = a2.GetCompact(neg2);
        VASSERT(c3 == c2, "canonical encodings are fixed points");
        VWITNESS(c2 != c && !neg, "a non-canonical positive encoding exists");
    }
    VWITNESS(r.negative, "negative");
    VWITNESS(r.overflow, "overflow");
    VWITNESS(!r.overflow && !r.negative && (c >> 24) == 0x1d && (c & 0xffffff) == 0x00ffff, "0x1d00ffff decodes without flags");
    VWITNESS((c >> 24) == 34 && !r.overflow && (c & 0x7fffff) != 0, "exponent 34 with one-byte mantissa does not overflow");
    VWITNESS((c >> 24) == 33 && r.overflow, "exponent 33 overflow");
    VWITNESS((c >> 24) <= 2 && (c & 0x7fffff) != 0 && ref_is_zero256(r.b), "small exponent truncates mantissa to zero");
    VREACH("end");
}

// (1b) GetCompact for every 256-bit value, both sign arguments; SetCompact(GetCompact(v)) keeps exactly the encoded bytes (<= v).
extern "C" void h_compact_encode()
{
    uint8_t v[32];
    uint256 u;
    for (int i = 0; i < 32; i++) { v[i] = nondet_u8(); u.data()[i] = v[i]; }
    const bool fneg = nondet_bool();
    const arith_uint256 a = UintToArith256(u);
    const uint32_t c = a.GetCompact(fneg);
    verif_observe(c);
    const uint32_t want = ref_encode_compact(v, fneg);
    VASSERT(c == want, "GetCompact: shortest MPI-style length, top three bytes as mantissa, sign only for non-zero mantissa");
    arith_uint256 back; bool neg = false, ovf = true;
    back.SetCompact(c, &neg, &ovf);
    VASSERT(!ovf, "an encoded 256-bit value never decodes with overflow");
    VASSERT(back <= a, "compact encoding rounds down");
    const RefTarget r = ref_decode_compact(want);
    VASSERT(same_bytes(back, r.b), "decode(encode(v)) equals the reference");
    VWITNESS((c >> 24) == 33, "value with bit 255 set gets exponent 33");
    VWITNESS(c == 0, "zero");
    VWITNESS((c >> 24) == 1, "one-byte value");
    VWITNESS(back != a, "rounding loses low bytes");
    VREACH("end");
}

// ------------------------------------------------------------------------------------------------------------------
// (2) CheckProofOfWorkImpl: for every 256-bit hash and every nBits:
//     accepted <=> not negative, not overflowing, 0 < target <= powLimit, hash <= target   (all compared as big-endian byte strings)
extern "C" void h_checkpow()
{
    const Consensus::Params p = make_params();
    uint8_t hb[32], lim[32];
    uint256 hash;
    for (int i = 0; i < 32; i++) { hb[i] = nondet_u8(); hash.data()[i] = hb[i]; }
    const uint32_t nbits = nondet_u32();
    limit_bytes(lim);
    const bool got = CheckProofOfWorkImpl(hash, nbits, p);
    verif_observe(got);
    const RefTarget t = ref_decode_compact(nbits);
    const bool target_ok = !t.negative && !t.overflow && !ref_is_zero256(t.b) && ref_cmp256(t.b, lim) <= 0;
    const bool want = target_ok && ref_cmp256(hb, t.b) <= 0;
    VASSERT(got == want, "CheckProofOfWorkImpl accepts iff target positive, non-overflowing, <= powLimit and hash <= target");
    const auto d = DeriveTarget(nbits, p.powLimit);
    VASSERT(d.has_value() == target_ok, "DeriveTarget yields a target iff nBits is a valid target for the chain");
    if (d) VASSERT(same_bytes(*d, t.b), "DeriveTarget value equals the decoded target");
    VWITNESS(got, "some header hash is accepted");
    VWITNESS(got && ref_cmp256(hb, t.b) == 0, "hash equal to target is accepted");
    VWITNESS(!got && target_ok, "hash above a valid target is rejected");
    VWITNESS(!got && t.negative, "negative target rejected");
    VWITNESS(!got && t.overflow, "overflowing target rejected");
    VWITNESS(!got && !t.negative && !t.overflow && !ref_is_zero256(t.b) && ref_cmp256(t.b, lim) > 0, "target above powLimit rejected");
    VWITNESS(got && nbits == ref_encode_compact(lim, false), "the compact form of powLimit is an accepted target");
    VWITNESS(!got && nbits == ref_encode_compact(lim, false) + 1, "one mantissa step above the compact powLimit is rejected");
    VREACH("end");
}

// ------------------------------------------------------------------------------------------------------------------
// (3) retargeting. Case split: the compact exponent EXP of the previous target is concrete, its 23-bit mantissa symbolic.
#ifndef EXP
#define EXP 0x1d
#endif
static constexpr int64_t IV = TSPAN / SPACING;          // difficulty adjustment interval (blocks)

// previous target: any encoding with exponent EXP whose value is in (0, powLimit]
static uint32_t draw_old_nbits(W* value)
{
    const uint32_t m = (uint32_t)nondet_range(0, 0x7fffff);
    const uint32_t nbits = ((uint32_t)EXP << 24) | m;
    const RefTarget t = ref_decode_compact(nbits);
    uint8_t lim[32]; limit_bytes(lim);
    VASSUME(!t.overflow && !ref_is_zero256(t.b) && ref_cmp256(t.b, lim) <= 0);
    *value = w_le_bytes32(t.b);
    return nbits;
}

// "got is the canonical compact encoding of min(floor(N/d), powLimit)", without dividing
static bool is_compact_of_clamped_quotient(const W& N, uint64_t d, uint32_t got)
{
    uint8_t lim[32]; limit_bytes(lim);
    const W L = w_le_bytes32(lim);
    const W dL1 = w_mul64(w_add(L, w_u64(1)), d);
    if (w_le(dL1, N)) return got == ref_encode_compact(lim, false);     // floor(N/d) > L  <=>  N >= d*(L+1)
    if (w_lt(N, w_u64(d))) return got == 0;                             // quotient 0
    int n = 0;                                                          // byte length: smallest n with Q < 2^(8n-1)  <=>  N < d*2^(8n-1);  Q <= L < 2^256 -> n <= 33
    for (int k = 1; k <= 33; k++) if (n == 0 && w_lt(N, w_shl(w_u64(d), 8 * k - 1))) n = k;
    const uint32_t gn = got >> 24, gm = got & 0x007fffffu;
    if ((got & 0x00800000u) != 0 || (int)gn != n) return false;
    bool ok = false;
    for (int k = 1; k <= 33; k++) if (k == n) {
        if (k >= 3) {                                                   // mantissa = floor(Q / 256^(k-3)):  gm*d*256^(k-3) <= N < (gm+1)*d*256^(k-3)
            const W lo = w_shl(w_mul64(w_u64(gm), d), 8 * (k - 3));
            const W hi = w_shl(w_mul64(w_u64((uint64_t)gm + 1), d), 8 * (k - 3));
            ok = w_le(lo, N) && w_lt(N, hi);
        } else {                                                        // mantissa = Q * 256^(3-k)
            const uint32_t q = gm >> (8 * (3 - k));
            ok = (q << (8 * (3 - k))) == gm && w_le(w_mul64(w_u64(q), d), N) && w_lt(N, w_mul64(w_u64((uint64_t)q + 1), d));
        }
    }
    return ok;
}

static void config_checks()
{
    uint8_t lim[32]; limit_bytes(lim);
    const W L = w_le_bytes32(lim);
    VASSERT(TSPAN > 0 && SPACING > 0 && TSPAN % SPACING == 0 && TSPAN % 4 == 0 && TSPAN * 4 <= 0xffffffffLL, "chain constants: timespan positive, multiple of spacing and of 4, 4*timespan fits the 32-bit multiplier");
    if (!NO_RETARGET) VASSERT(w_lt(w_mul64(L, (uint64_t)TSPAN * 4), w_shl(w_u64(1), 256)), "chain constants: powLimit * 4 * timespan < 2^256 (retarget product cannot wrap)");
}

// CalculateNextWorkRequired = compact(min(old * clamp(last - first, T/4, 4T) / T, powLimit)); the result passes PermittedDifficultyTransition
extern "C" void h_retarget()
{
    config_checks();
    const Consensus::Params p = make_params();
    W oldv;
    const uint32_t old_nbits = draw_old_nbits(&oldv);
    const uint32_t t_last = nondet_u32(), t_first = nondet_u32();
#if BIP94
    static_assert(IV >= 2 && IV <= 8, "BIP94 variant needs a real chain of one retarget period: shrink the interval with SPACING_OVERRIDE");
    CBlockIndex blk[IV];
    for (int i = 0; i < IV; i++) {
        blk[i].nHeight = i; blk[i].pprev = i ? &blk[i - 1] : nullptr; blk[i].BuildSkip();
        blk[i].nBits = i == 0 ? old_nbits : nondet_u32();     // BIP94: only the first block of the period counts; the others are arbitrary
        blk[i].nTime = nondet_u32();
    }
    CBlockIndex& last = blk[IV - 1];
    last.nTime = t_last;
    const uint32_t prev_nbits = last.nBits;
#else
    CBlockIndex last;
    last.nHeight = (int)nondet_range(0, INT_MAX);
    last.nBits = old_nbits; last.nTime = t_last;
    const uint32_t prev_nbits = old_nbits;
#endif
    const uint32_t got = CalculateNextWorkRequired(&last, (int64_t)t_first, p);
    verif_observe(got);
    if (NO_RETARGET) {
        VASSERT(got == prev_nbits, "no-retargeting chain: required bits = previous bits");
    } else {
        int64_t ts = (int64_t)t_last - (int64_t)t_first;
        if (ts < TSPAN / 4) ts = TSPAN / 4;
        if (ts > TSPAN * 4) ts = TSPAN * 4;
        const W N = w_mul64(oldv, (uint64_t)ts);
        VASSERT(is_compact_of_clamped_quotient(N, (uint64_t)TSPAN, got), "required bits = compact(min(old * clamp(timespan, T/4, 4T) / T, powLimit))");
        uint8_t lim[32]; limit_bytes(lim);
        VWITNESS(got == ref_encode_compact(lim, false), "result clamped to / equal to powLimit");
        VWITNESS(got != ref_encode_compact(lim, false) && got != prev_nbits, "result differs from previous bits and from the limit");
        VWITNESS(ts == TSPAN / 4 && (int64_t)t_last - (int64_t)t_first < 0, "negative actual timespan clamped to T/4");
        VWITNESS(ts == TSPAN * 4 && (int64_t)t_last - (int64_t)t_first > TSPAN * 4, "long timespan clamped to 4T");
        VWITNESS(ts > TSPAN / 4 && ts < TSPAN * 4 && ts != TSPAN, "unclamped timespan");
    }
    // every required difficulty is accepted by the presync transition check at a retarget height
    const int64_t h = IV * (int64_t)nondet_range(0, 1000);
    VASSERT(PermittedDifficultyTransition(p, h, prev_nbits, got), "PermittedDifficultyTransition accepts the computed required bits at a retarget height");
    VREACH("end");
}

// PermittedDifficultyTransition against its specification: always true on min-difficulty chains; off retarget heights iff unchanged;
// at retarget heights iff  round(min(old/4, L)) <= target(new) <= round(min(old*4, L))  where round = decode(encode(.)).
extern "C" void h_permitted()
{
    config_checks();
    const Consensus::Params p = make_params();
    W oldv;
    const uint32_t old_nbits = draw_old_nbits(&oldv);
    const uint32_t new_nbits = nondet_u32();
    const int64_t h = (int64_t)nondet_range(0, INT_MAX);
    const bool got = PermittedDifficultyTransition(p, h, old_nbits, new_nbits);
    verif_observe(got);
    if (ALLOW_MIN) {
        VASSERT(got, "min-difficulty chains: every transition permitted");
    } else if (h % IV != 0) {
        VASSERT(got == (old_nbits == new_nbits), "off retarget heights: permitted iff bits unchanged");
        VWITNESS(got, "unchanged bits permitted off retarget height");
        VWITNESS(!got, "changed bits rejected off retarget height");
    } else {
        // old*4T/T = 4*old and old*(T/4)/T = floor(old/4) exactly (no wrap: config_checks); then clamp to L and round through the compact form
        uint8_t lim[32]; limit_bytes(lim);
        const RefTarget nt = ref_decode_compact(new_nbits);          // the check ignores sign/overflow flags of the new bits: value mod 2^256
        // U = round(min(4*old, L)), D = round(min(floor(old/4), L)), round(x) = decode(encode(x)) (keeps the top three bytes)
        uint8_t o[32], x4[32], d4[32];
        for (int i = 0; i < 32; i++) o[i] = ref_decode_compact(old_nbits).b[i];
        unsigned carry = 0;
        for (int i = 0; i < 32; i++) { const unsigned v = ((unsigned)o[i] << 2) | carry; x4[i] = (uint8_t)v; carry = v >> 8; }
        if (carry != 0 || ref_cmp256(x4, lim) > 0) for (int i = 0; i < 32; i++) x4[i] = lim[i];
        for (int i = 0; i < 32; i++) d4[i] = (uint8_t)((o[i] >> 2) | ((i + 1 < 32 ? o[i + 1] : 0) << 6));
        if (ref_cmp256(d4, lim) > 0) for (int i = 0; i < 32; i++) d4[i] = lim[i];
        const RefTarget U = ref_decode_compact(ref_encode_compact(x4, false)), D = ref_decode_compact(ref_encode_compact(d4, false));
        const bool want = ref_cmp256(nt.b, U.b) <= 0 && ref_cmp256(D.b, nt.b) <= 0;
        VASSERT(got == want, "retarget height: permitted iff new target within [round(old/4), round(min(4*old, powLimit))]");
        VWITNESS(got && new_nbits != old_nbits, "a changed target is permitted");
        VWITNESS(!got && ref_cmp256(nt.b, U.b) > 0, "too-easy target rejected");
        VWITNESS(!got && ref_cmp256(D.b, nt.b) > 0, "too-hard target rejected");
        VWITNESS(got && ref_cmp256(nt.b, U.b) == 0, "exactly 4x easier (rounded) permitted");
        VWITNESS(got && ref_cmp256(nt.b, D.b) == 0, "exactly 4x harder (rounded) permitted");
    }
    VREACH("end");
}
