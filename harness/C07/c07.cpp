// C07: proof of work and required difficulty. Real code: pow.cpp, arith_uint256.cpp. This file: compact codec and CheckProofOfWorkImpl, no stubs.
// Oracle: ref/compact_ref.h (byte-array model of the compact encoding, written from the documentation comment).
#include "c07_common.h"

// ------------------------------------------------------------------------------------------------------------------
// (1a) SetCompact for every 32-bit nBits: value (mod 2^256), negative and overflow flags equal the reference decode;
//      re-encoding yields the canonical encoding of the same value.
extern "C" void h_compact_decode()
{
    const uint32_t c = nondet_u32();
    bool neg = nondet_bool(), ovf = nondet_bool();
    arith_uint256 a;
    a.SetCompact(c, &neg, &ovf);
    const RefTarget r = ref_decode_compact(c);
    verif_observe(a.GetLow64()); verif_observe(neg); verif_observe(ovf);
    VASSERT(neg == r.negative, "SetCompact: negative flag = sign bit set and truncated magnitude non-zero");
    VASSERT(ovf == r.overflow, "SetCompact: overflow flag = mantissa*256^(exp-3) does not fit 256 bits");
    VASSERT(same_bytes(a, r.b), "SetCompact: value = mantissa*256^(exp-3) mod 2^256 (fractions truncated)");
    if (!r.overflow) {
        const uint32_t c2 = a.GetCompact(neg);
        verif_observe(c2);
        VASSERT(c2 == ref_encode_compact(r.b, r.negative), "GetCompact(SetCompact(x)) is the canonical encoding of the decoded value");
        arith_uint256 a2; bool neg2 = false, ovf2 = true;
        a2.SetCompact(c2, &neg2, &ovf2);
        VASSERT(a2 == a && neg2 == neg && !ovf2, "decoding the re-encoded value gives the same number and sign");
        const uint32_t c3 = a2.GetCompact(neg2);
        VASSERT(c3 == c2, "canonical encodings are fixed points");
        VWITNESS(c2 != c && !neg, "a non-canonical positive encoding exists");
    }
    VWITNESS(r.negative, "negative");
    VWITNESS(r.overflow, "overflow");
    VWITNESS(!r.overflow && !r.negative && (c >> 24) == 0x1d && (c & 0xffffff) == 0x00ffff, "0x1d00ffff decodes without flags");
    VWITNESS((c >> 24) == 34 && !r.overflow && (c & 0x7fffff) != 0, "exponent 34 with one-byte mantissa does not overflow");
    VWITNESS((c >> 24) == 33 && r.overflow, "exponent 33 overflow");
    VWITNESS((c >> 24) <= 2 && (c & 0x7fffff) != 0 && ref_is_zero256(r.b), "small exponent truncates mantissa to zero");
    VREACH("end");
}

// (1b) GetCompact for every 256-bit value, both sign arguments; SetCompact(GetCompact(v)) keeps exactly the encoded bytes (<= v).
extern "C" void h_compact_encode()
{
    uint8_t v[32];
    uint256 u;
    for (int i = 0; i < 32; i++) { v[i] = nondet_u8(); u.data()[i] = v[i]; }
    const bool fneg = nondet_bool();
    const arith_uint256 a = UintToArith256(u);
    const uint32_t c = a.GetCompact(fneg);
    verif_observe(c);
    const uint32_t want = ref_encode_compact(v, fneg);
    VASSERT(c == want, "GetCompact: shortest MPI-style length, top three bytes as mantissa, sign only for non-zero mantissa");
    arith_uint256 back; bool neg = false, ovf = true;
    back.SetCompact(c, &neg, &ovf);
    VASSERT(!ovf, "an encoded 256-bit value never decodes with overflow");
    VASSERT(back <= a, "compact encoding rounds down");
    const RefTarget r = ref_decode_compact(want);
    VASSERT(same_bytes(back, r.b), "decode(encode(v)) equals the reference");
    VWITNESS((c >> 24) == 33, "value with bit 255 set gets exponent 33");
    VWITNESS(c == 0, "zero");
    VWITNESS((c >> 24) == 1, "one-byte value");
    VWITNESS(back != a, "rounding loses low bytes");
    VREACH("end");
}

// ------------------------------------------------------------------------------------------------------------------
// (2) CheckProofOfWorkImpl: for every 256-bit hash and every nBits:
//     accepted <=> not negative, not overflowing, 0 < target <= powLimit, hash <= target   (all compared as big-endian byte strings)
extern "C" void h_checkpow()
{
    const Consensus::Params p = make_params();
    uint8_t hb[32], lim[32];
    uint256 hash;
    for (int i = 0; i < 32; i++) { hb[i] = nondet_u8(); hash.data()[i] = hb[i]; }
    const uint32_t nbits = nondet_u32();
    limit_bytes(lim);
    const bool got = CheckProofOfWorkImpl(hash, nbits, p);
    verif_observe(got);
    const RefTarget t = ref_decode_compact(nbits);
    const bool target_ok = !t.negative && !t.overflow && !ref_is_zero256(t.b) && ref_cmp256(t.b, lim) <= 0;
    const bool want = target_ok && ref_cmp256(hb, t.b) <= 0;
    VASSERT(got == want, "CheckProofOfWorkImpl accepts iff target positive, non-overflowing, <= powLimit and hash <= target");
    const auto d = DeriveTarget(nbits, p.powLimit);
    VASSERT(d.has_value() == target_ok, "DeriveTarget yields a target iff nBits is a valid target for the chain");
    if (d) VASSERT(same_bytes(*d, t.b), "DeriveTarget value equals the decoded target");
    VWITNESS(got, "some header hash is accepted");
    VWITNESS(got && ref_cmp256(hb, t.b) == 0, "hash equal to target is accepted");
    VWITNESS(!got && target_ok, "hash above a valid target is rejected");
    VWITNESS(!got && t.negative, "negative target rejected");
    VWITNESS(!got && t.overflow, "overflowing target rejected");
    VWITNESS(!got && !t.negative && !t.overflow && !ref_is_zero256(t.b) && ref_cmp256(t.b, lim) > 0, "target above powLimit rejected");
    VWITNESS(got && nbits == ref_encode_compact(lim, false), "the compact form of powLimit is an accepted target");
    VWITNESS(!got && nbits == ref_encode_compact(lim, false) + 1, "one mantissa step above the compact powLimit is rejected");
    VREACH("end");
}


// (1c) compact rounding is monotone: for all 256-bit x <= y, SetCompact(GetCompact(x)) <= SetCompact(GetCompact(y)), and clamping to powLimit
//      first keeps the order. Together with `retarget` (required bits = compact(min(q, L))) and `permitted` (accepted iff
//      round(min(q_lo, L)) <= target(new) <= round(min(q_hi, L)) with q_lo = floor(old*(T/4)/T), q_hi = floor(old*4T/T)) and the monotonicity of
//      floor(old*ts/T) in ts, this yields: every required difficulty is accepted by PermittedDifficultyTransition (checked directly, on the real
//      code, by the thorough-tier harness retarget_permits).
extern "C" void h_rounding_monotone()
{
    const Consensus::Params p = make_params();
    uint8_t xb[32], yb[32], lim[32];
    uint256 ux, uy;
    for (int i = 0; i < 32; i++) { xb[i] = nondet_u8(); yb[i] = nondet_u8(); ux.data()[i] = xb[i]; uy.data()[i] = yb[i]; }
    VASSUME(ref_cmp256(xb, yb) <= 0);
    limit_bytes(lim);
    const arith_uint256 L = UintToArith256(p.powLimit);
    arith_uint256 x = UintToArith256(ux), y = UintToArith256(uy);
    VASSERT(x <= y, "arith_uint256 comparison agrees with the big-endian byte order");
    if (x > L) x = L;
    if (y > L) y = L;
    VASSERT(x <= y, "clamping to powLimit keeps the order");
    arith_uint256 rx, ry;
    rx.SetCompact(x.GetCompact());
    ry.SetCompact(y.GetCompact());
    verif_observe(rx.GetLow64()); verif_observe(ry.GetLow64());
    VASSERT(rx <= ry, "compact rounding (SetCompact o GetCompact) is monotone");
    VASSERT(rx <= x && ry <= y, "compact rounding never rounds up");
    VWITNESS(rx == ry && !(x == y), "distinct values round to the same compact target");
    VWITNESS(!(rx == ry), "distinct rounded values");
    VWITNESS(y == L && ref_cmp256(yb, lim) > 0, "clamped");
    VREACH("end");
}
