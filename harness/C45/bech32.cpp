// C45 kernel: bech32 / bech32m (src/bech32.cpp: Encode, Decode, PolyMod, PreparePolynomialCoefficients, VerifyChecksum, CreateChecksum).
// Reference: BIP173 / BIP350 reference algorithm transcribed from the BIP text (generator constants, hrp expansion, checksum constant
// 1 resp. 0x2bc830a3, character set "qpzry9x8gf2tvdw0s3jn54khce6mua7l").
#include <verif.h>
#include <vector>
#ifdef NO_CHAR_ERRORS
// CheckCharacters records the index of every offending character in a std::vector<int>. For well-formed strings no index is ever recorded,
// but symbolic execution explores the (infeasible) growth path of that vector for every character. The growth function is replaced by an
// ASSERTION that it is unreachable (so this is checked, not assumed).
template <> template <> void std::vector<int>::_M_realloc_insert<int>(iterator, int&&)
{
    __CPROVER_assert(0, "CheckCharacters never records an offending character for a well-formed string");
    __CPROVER_assume(0);
}
#endif
#include <bech32.cpp>     // the real translation unit, included to reach the functions in its anonymous namespace
#include <string.h>

#ifndef NDATA
#define NDATA 4
#endif
#ifndef ENC
#define ENC 1            // 1 = bech32, 2 = bech32m
#endif
#ifndef HRP
#define HRP "bc"
#endif
#define HLEN ((int)sizeof(HRP) - 1)

static const bech32::Encoding KENC = ENC == 1 ? bech32::Encoding::BECH32 : bech32::Encoding::BECH32M;
static const char REF_CHARSET[] = "qpzry9x8gf2tvdw0s3jn54khce6mua7l";
static uint32_t ref_polymod_step(uint32_t chk, uint8_t v)
{
    static const uint32_t GEN[5] = {0x3b6a57b2u, 0x26508e6du, 0x1ea119fau, 0x3d4233ddu, 0x2a1462b3u};
    const uint32_t b = chk >> 25;
    chk = ((chk & 0x1ffffffu) << 5) ^ v;
    for (int i = 0; i < 5; i++) if ((b >> i) & 1) chk ^= GEN[i];
    return chk;
}
// polymod over hrp_expand(hrp) + data[0..n)
static uint32_t ref_polymod(const uint8_t* data, int n)
{
    uint32_t chk = 1;
    for (int i = 0; i < HLEN; i++) chk = ref_polymod_step(chk, (uint8_t)(HRP[i] >> 5));
    chk = ref_polymod_step(chk, 0);
    for (int i = 0; i < HLEN; i++) chk = ref_polymod_step(chk, (uint8_t)(HRP[i] & 31));
    for (int i = 0; i < n; i++) chk = ref_polymod_step(chk, data[i]);
    return chk;
}
static void ref_checksum(const uint8_t* data, uint8_t out[6])
{
    uint8_t tmp[NDATA + 6];
    for (int i = 0; i < NDATA; i++) tmp[i] = data[i];
    for (int i = 0; i < 6; i++) tmp[NDATA + i] = 0;
    const uint32_t pm = ref_polymod(tmp, NDATA + 6) ^ (ENC == 1 ? 1u : 0x2bc830a3u);
    for (int i = 0; i < 6; i++) out[i] = (pm >> (5 * (5 - i))) & 31;
}

// Encode == reference string; the checksum verifies as its own encoding only
extern "C" void h_bech32_encode()
{
    uint8_t d[NDATA + 1];
    std::vector<uint8_t> values(NDATA);
    for (int i = 0; i < NDATA; i++) { d[i] = (uint8_t)nondet_range(0, 31); values[i] = d[i]; }
    uint8_t cs[6]; ref_checksum(d, cs);
    const std::string hrp(HRP);
    const std::string s = bech32::Encode(KENC, hrp, values);
    bool same = s.size() == (size_t)(HLEN + 1 + NDATA + 6);
    if (same) {
        for (int i = 0; i < HLEN; i++) same = same && s[i] == HRP[i];
        same = same && s[HLEN] == '1';
        for (int i = 0; i < NDATA; i++) same = same && s[HLEN + 1 + i] == REF_CHARSET[d[i]];
        for (int i = 0; i < 6; i++) same = same && s[HLEN + 1 + NDATA + i] == REF_CHARSET[cs[i]];
    }
    verif_observe(same);
    VASSERT(same, "Encode == hrp + '1' + charset(data) + charset(BIP173/BIP350 reference checksum)");
    // codeword verifies as its own encoding, never as the other one
    std::vector<uint8_t> cw(NDATA + 6);
    for (int i = 0; i < NDATA; i++) cw[i] = d[i];
    for (int i = 0; i < 6; i++) cw[NDATA + i] = cs[i];
    const bech32::Encoding v = bech32::VerifyChecksum(hrp, cw);
    VASSERT(v == KENC, "a reference codeword verifies as its own encoding (and hence not as the other one)");
#if NDATA > 0
    VWITNESS(cs[0] == 31, "checksum symbol 31 reachable");
#endif
    VREACH("end");
}

// Decode(Encode(x)) == x
extern "C" void h_bech32_roundtrip()
{
    uint8_t d[NDATA + 1];
    std::vector<uint8_t> values(NDATA);
    for (int i = 0; i < NDATA; i++) { d[i] = (uint8_t)nondet_range(0, 31); values[i] = d[i]; }
    const std::string hrp(HRP);
    std::string s = bech32::Encode(KENC, hrp, values);
#ifdef UPPER
    for (size_t i = 0; i < s.size(); i++) if (s[i] >= 'a' && s[i] <= 'z') s[i] = (char)(s[i] - 32);   // all upper case is valid (BIP173)
#endif
#ifdef MIXED
    s[0] = (char)(s[0] - 32);   // mixed case must be rejected (hrp "bc": first char becomes 'B', the rest stays lower case)
#endif
    const bech32::DecodeResult r = bech32::Decode(s);
#ifdef MIXED
    // the data part may consist of digits only, in which case the string is not mixed-case
    bool has_lower = false;
    for (size_t i = 1; i < s.size(); i++) has_lower = has_lower || (s[i] >= 'a' && s[i] <= 'z');
    if (has_lower) VASSERT(r.encoding == bech32::Encoding::INVALID, "mixed-case strings are rejected");
    VWITNESS(has_lower && r.encoding == bech32::Encoding::INVALID, "mixed case rejection reachable");
#else
    VASSERT(r.encoding == KENC, "Decode recognises the encoding that was used");
    bool same = r.hrp.size() == (size_t)HLEN && r.data.size() == (size_t)NDATA;
    if (same) {
        for (int i = 0; i < HLEN; i++) same = same && r.hrp[i] == HRP[i];
        for (int i = 0; i < NDATA; i++) same = same && r.data[i] == d[i];
    }
    verif_observe(same);
    VASSERT(same, "Decode(Encode(enc, hrp, data)) returns hrp (lower case) and data");
#endif
    VREACH("end");
}

// error detection: a valid codeword with 1..WEIGHT symbol errors in the data/checksum part never verifies as the encoding it was made with
#ifndef WEIGHT
#define WEIGHT 4
#endif
extern "C" void h_bech32_errors()
{
    const std::string hrp(HRP);
    std::vector<uint8_t> values(NDATA);
#ifdef SAMPLE
    // a sampled (concrete) payload, every error pattern symbolic: "all 1-4 character substitutions of sampled addresses"
    for (int i = 0; i < NDATA; i++) values[i] = (uint8_t)((SAMPLE * (i + 1) + 3 * i * i + 5) & 31);
#else
    for (int i = 0; i < NDATA; i++) values[i] = (uint8_t)nondet_range(0, 31);
#endif
    const std::vector<uint8_t> cs = bech32::CreateChecksum(KENC, hrp, values);
    std::vector<uint8_t> cw(NDATA + 6);
    int weight = 0;
    for (int i = 0; i < NDATA + 6; i++) {
        const uint8_t e = (uint8_t)nondet_range(0, 31);          // symbol error at position i (0 = no error)
        weight += e != 0;
        cw[i] = (uint8_t)((i < NDATA ? values[i] : cs[i - NDATA]) ^ e);
    }
    VASSUME(weight >= 1 && weight <= WEIGHT);
    const bech32::Encoding v = bech32::VerifyChecksum(hrp, cw);
    verif_observe((uint64_t)v);
    VASSERT(v != KENC, "1..4 substituted characters never pass the checksum the string was encoded with");
    VWITNESS(weight == WEIGHT, "maximal error weight reachable");
    VREACH("end");
}

// character screening of Decode (BIP173: "Decoders MUST NOT accept strings where some characters are uppercase and some are lowercase",
// and only printable US-ASCII 33..126): real CheckCharacters on every string of CLEN bytes, every byte value symbolic
#ifndef CLEN
#define CLEN 4
#endif
extern "C" void h_bech32_case()
{
    std::string str(CLEN, 'q');                      // short-string storage, no heap shape involved
    bool lower = false, upper = false, bad = false;
    for (int i = 0; i < CLEN; i++) {
        const unsigned char c = nondet_u8(); str[i] = (char)c;
        // reference by enumeration of the two alphabets (no range arithmetic shared with the code under test)
        bool lo = false, up = false;
        for (int k = 0; k < 26; k++) { lo = lo || c == "abcdefghijklmnopqrstuvwxyz"[k]; up = up || c == "ABCDEFGHIJKLMNOPQRSTUVWXYZ"[k]; }
        lower = lower || lo; upper = upper || up; bad = bad || c < 33 || c > 126;
    }
    std::vector<int> errors; errors.reserve(CLEN);   // no reallocation on symbolic paths
    const bool ok = bech32::CheckCharacters(str, errors);
    verif_observe(ok);
    VASSERT(ok == !(bad || (lower && upper)), "CheckCharacters accepts iff every character is printable ASCII and letters are not mixed-case");
    VASSERT(ok == errors.empty(), "error positions are reported iff the string is rejected");
    VWITNESS(!ok && !bad, "a mixed-case string is rejected"); VWITNESS(ok && upper, "an all-upper-case string is accepted");
    VREACH("end");
}

// the decoding table is the inverse of the encoding character set (both letter cases), and nothing else decodes
extern "C" void h_bech32_tables()
{
    const uint8_t v = (uint8_t)nondet_range(0, 31);
    const unsigned char ch = (unsigned char)bech32::CHARSET[v];
    VASSERT(ch == (unsigned char)REF_CHARSET[v], "CHARSET equals the BIP173 character set");
    VASSERT(bech32::CHARSET_REV[ch] == (int8_t)v, "CHARSET_REV inverts CHARSET");
    const unsigned char up = (ch >= 'a' && ch <= 'z') ? (unsigned char)(ch - 32) : ch;
    VASSERT(bech32::CHARSET_REV[up] == (int8_t)v, "CHARSET_REV accepts the upper-case form");
    const uint8_t c = (uint8_t)nondet_range(0, 127);
    const int8_t r = bech32::CHARSET_REV[c];
    const unsigned char lc = (c >= 'A' && c <= 'Z') ? (unsigned char)(c + 32) : c;
    VASSERT(r >= -1 && r <= 31, "table entries are -1 or a 5-bit value");
    if (r >= 0) VASSERT((unsigned char)REF_CHARSET[r] == lc, "only characters of the character set decode, to their own index");
    VWITNESS(r == -1 && c == '1', "the separator is not a data character");
    VWITNESS(r == -1 && c == 'b', "b is not a data character");
    VWITNESS(r == 31, "l decodes to 31");
    verif_observe((uint64_t)r);
    VREACH("end");
}
