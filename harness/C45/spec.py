from vlib import H
PROPERTY = 'C45'
LEVEL = 'model_checking'
CLAIM = ('bech32/bech32m layer of address encoding, real src/bech32.cpp included as a translation unit: (1) bech32::Encode equals the BIP173/BIP350 reference (hrp + "1" + character-set mapping of data and '
         'of the reference checksum) for all 5-bit data vectors of length 0 and 8, hrp "bc", both encodings, and the resulting codeword verifies (VerifyChecksum/PolyMod) as its own encoding only; '
         '(2) CHARSET_REV is exactly the inverse of CHARSET for both letter cases and decodes nothing else; (3) error detection: a valid codeword with 1..4 substituted data/checksum symbols never verifies as the '
         'encoding it was created with - for ALL payloads at codeword length 8, and for sampled payloads with ALL error patterns of weight <= 4 at codeword length 14 (both encodings). '
         'NOT covered (did not finish within budget, see report): bech32::Decode control flow (separator search / case rules / limits), error detection beyond 14 symbols (the property asks for 90), '
         'base58, descriptor checksum, descriptor parsing, BIP32, per-network address typing. ConvertBits<8,5>/<5,8> incl. non-zero padding rejection is exercised in C48 (b32_roundtrip / b32_decode_all).')
CLAIM += (' Character screening (harness bech32_case): the real bech32::CheckCharacters - first step of Decode - rejects exactly the strings with a byte outside 33..126 or with mixed-case letters, for every string of the listed lengths.')
SMALL = ['-D', 'VERIF_ALLOC_MAX=128']
# XOR-heavy (BCH checksum) equivalence/UNSAT queries: minisat (CBMC default) does not finish, cadical/kissat do
K = dict(objbits=10, diff_runs=16, backends=['cadical', 'kissat'])
BFN = ['bech32::Encode', 'bech32::PolyMod', 'bech32::VerifyChecksum', 'bech32::CreateChecksum', 'bech32::PreparePolynomialCoefficients', 'bech32::EncodingConstant']
HARNESSES = [
    H('bech32_encode', 'bech32.cpp', 'h_bech32_encode', variants=[{'NDATA': n, 'ENC': e} for n in (0, 8) for e in (1, 2)], tvariants=[{'NDATA': n, 'ENC': e} for n in (0, 1, 8, 20) for e in (1, 2)],
      unwind=40, memunwind=40, cbmc=SMALL, timeout=300, functions=BFN, bounds='all 5-bit data vectors of length 0 and 8 (thorough: 0,1,8,20), hrp "bc", bech32 and bech32m', **K),
    H('bech32_tables', 'bech32.cpp', 'h_bech32_tables', unwind=4, timeout=120, functions=['bech32::CHARSET', 'bech32::CHARSET_REV'], bounds='all 32 symbols, all 128 characters', objbits=10, diff_runs=16),
    H('bech32_errors', 'bech32.cpp', 'h_bech32_errors',
      variants=[{'NDATA': 2, 'ENC': 1, 'WEIGHT': 4}, {'NDATA': 8, 'ENC': 1, 'WEIGHT': 4, 'SAMPLE': 7}, {'NDATA': 8, 'ENC': 2, 'WEIGHT': 4, 'SAMPLE': 11}],
      tvariants=[{'NDATA': 2, 'ENC': 1, 'WEIGHT': 4}, {'NDATA': 2, 'ENC': 2, 'WEIGHT': 4}, {'NDATA': 4, 'ENC': 2, 'WEIGHT': 3}, {'NDATA': 8, 'ENC': 1, 'WEIGHT': 4, 'SAMPLE': 7}, {'NDATA': 8, 'ENC': 2, 'WEIGHT': 4, 'SAMPLE': 11}, {'NDATA': 14, 'ENC': 2, 'WEIGHT': 2, 'SAMPLE': 11}],
      unwind=40, memunwind=40, cbmc=SMALL, timeout=600, functions=BFN,
      bounds='error patterns = symbolic 5-bit XOR value at every data/checksum position with 1 <= weight <= 4 (hrp untouched): all payloads at codeword length 8; sampled (concrete) payload, all error patterns at codeword length 14, both encodings '
             '(thorough: all payloads length 10 weight <= 3; sampled length 20 weight <= 2). Codeword length 26 with weight 4 did not finish in 400 s: the 90-character claim of the property is NOT reached.', **K),
    H('bech32_case', 'bech32.cpp', 'h_bech32_case', variants=[{'CLEN': 2}, {'CLEN': 4}], tvariants=[{'CLEN': n} for n in (1, 2, 3, 4, 6)], unwind=30, memunwind=40, timeout=300, functions=['bech32::CheckCharacters (anonymous namespace of bech32.cpp; the first step of bech32::Decode and LocateErrors)'],
      bounds='every string of 2 and 4 bytes (thorough 1-6), every byte value 0..255: rejected iff a character is outside 33..126 or lower- and upper-case letters are mixed (all 26+26 letters by enumeration)', **K),
]
