from vlib import H
PROPERTY = 'C45'
LEVEL = 'model_checking'
CLAIM = 'wip'
SMALL = ['-D', 'VERIF_ALLOC_MAX=128']
# XOR-heavy (BCH checksum) equivalence/UNSAT queries: minisat (default) does not finish, cadical/kissat do
K = dict(objbits=10, diff_runs=16, backends=['cadical', 'kissat'])
BFN = ['bech32::Encode', 'bech32::Decode', 'bech32::PolyMod', 'bech32::VerifyChecksum', 'bech32::CreateChecksum', 'bech32::PreparePolynomialCoefficients', 'bech32::CheckCharacters']
RI = '_ZNSt6vectorIiSaIiEE17_M_realloc_insertIJiEEEvN9__gnu_cxx17__normal_iteratorIPiS1_EEDpOT_'
# CheckCharacters pushes the index of every offending character into a vector<int>; symex cannot see that a well-formed string never does:
# bound the reallocation copy loops (unwinding assertions prove the bound: 2 for well-formed strings, 18 for the mixed-case variant)
def ri_unwind(v):
    k = 18 if 'MIXED' in v else 2
    return ','.join('%s.%d:%d' % (RI, i, k) for i in range(4))
HARNESSES = [
    H('bech32_encode', 'bech32.cpp', 'h_bech32_encode', variants=[{'NDATA': n, 'ENC': e} for n in (0, 8) for e in (1, 2)], unwind=40, memunwind=40, cbmc=SMALL, timeout=180, functions=BFN, bounds='', **K),
    H('bech32_tables', 'bech32.cpp', 'h_bech32_tables', unwind=4, timeout=120, functions=['bech32::CHARSET', 'bech32::CHARSET_REV'], bounds='all 32 symbols, all 128 characters', objbits=10, diff_runs=16),
    H('bech32_errors', 'bech32.cpp', 'h_bech32_errors', variants=[{'NDATA': 2, 'ENC': 1, 'WEIGHT': 4}, {'NDATA': 6, 'ENC': 2, 'WEIGHT': 2}, {'NDATA': 4, 'ENC': 2, 'WEIGHT': 3}], unwind=40, memunwind=40, cbmc=SMALL, timeout=180, functions=BFN, bounds='', **K),
]
