// C12 (number codec): CScriptNum encode/decode, full width. Real code: script/script.h CScriptNum::serialize / set_vch / ctor
// with the minimal-encoding rule / getint clamping / arithmetic operators used by the interpreter.
#include <verif.h>
#include <verif_stubs_common.h>
#include <script/script.h>
#include <limits>
#include "c12_ref.h"

#ifndef LEN
#define LEN 4
#endif

// reference decode of a little-endian sign-magnitude number of LEN bytes
static int64_t ref_decode(const uint8_t* b, int len)
{
    if (len == 0) return 0;
    uint64_t mag = 0;
    for (int i = 0; i < len; i++) mag |= (uint64_t)b[i] << (8 * i);
    const bool neg = b[len - 1] & 0x80;
    if (neg) mag &= ~((uint64_t)0x80 << (8 * (len - 1)));
    return neg ? -(int64_t)mag : (int64_t)mag;
}
static bool ref_minimal(const uint8_t* b, int len)
{
    if (len == 0) return true;
    if ((b[len - 1] & 0x7f) != 0) return true;
    return len > 1 && (b[len - 2] & 0x80) != 0;   // the extra byte is only allowed to carry the sign when the byte below has its top bit set
}

// decode: all byte strings of LEN bytes, both minimal modes, max size 4 (default) and 5 (CLTV/CSV)
extern "C" void h_decode()
{
    uint8_t b[8] = {0}; std::vector<unsigned char> v; v.resize(LEN);
    for (int i = 0; i < LEN; i++) { b[i] = nondet_u8(); v[i] = b[i]; }
    const bool minimal = nondet_bool();
    const size_t maxsz = nondet_bool() ? 5 : 4;
    bool threw = false; int64_t got = 0; int gi = 0;
    try { CScriptNum n(v, minimal, maxsz); got = n.GetInt64(); gi = n.getint(); } catch (const scriptnum_error&) { threw = true; }
    const bool want_throw = (size_t)LEN > maxsz || (minimal && !ref_minimal(b, LEN));
    verif_observe(threw); verif_observe((uint64_t)got);
    VASSERT(threw == want_throw, "CScriptNum rejects exactly over-long and (under MINIMALDATA) non-minimal encodings");
    if (!threw) {
        const int64_t want = ref_decode(b, LEN);
        VASSERT(got == want, "decoded value equals little-endian sign-magnitude reference");
        const int64_t cl = want > std::numeric_limits<int>::max() ? std::numeric_limits<int>::max() : want < std::numeric_limits<int>::min() ? std::numeric_limits<int>::min() : want;
        VASSERT(gi == (int)cl, "getint clamps to the int range");
    }
#if LEN <= 5
    VWITNESS(!threw, "some encoding accepted");
#endif
#if LEN > 0
    VWITNESS(threw, "some encoding rejected");
#endif
    VREACH("end");
}

// encode: every 64-bit value except INT64_MIN round-trips through serialize -> decode(minimal) and the encoding is minimal
extern "C" void h_encode()
{
    const int64_t x = nondet_i64();
    VASSUME(x != std::numeric_limits<int64_t>::min());
    const std::vector<unsigned char> v = CScriptNum::serialize(x);
    VASSERT(v.size() <= 8, "at most 8 bytes");
    uint8_t b[9] = {0}; const int len = (int)v.size();
    for (int i = 0; i < 9; i++) if (i < len) b[i] = v[i];
    bool ok = false;
    for (int l = 0; l <= 9; l++) if (l == len) ok = ref_decode(b, l) == x && ref_minimal(b, l) && (l > 0) == (x != 0);
    VASSERT(ok, "serialize yields the minimal sign-magnitude encoding of the value");
    if (x > -(1LL << 47) && x < (1LL << 47)) {   // (the reference handles items of <= MAXL = 6 bytes; a larger value reaching it traps, it is never silently wrong) the stand-in used by the EvalScript harnesses (verif_repl_serialize = r_encode) is byte-identical to the real serialize
        const Item e = r_encode(x); bool same = e.len == len; for (int i = 0; i < 9 && i < MAXL; i++) if (i < len && e.b[i] != b[i]) same = false;
        VASSERT(same, "reference encoder r_encode (stand-in for serialize in evalop/evalseq/evalmono) equals CScriptNum::serialize for every |value| < 2^47");
    }
    verif_observe((uint64_t)len);
    VWITNESS(len == 8, "8-byte encoding reachable (9 bytes would need |x| >= 2^63, i.e. only the excluded INT64_MIN)"); VWITNESS(len == 0, "zero encodes as the empty string"); VWITNESS(len == 1 && x < 0, "negative one-byte"); VREACH("end");
}
