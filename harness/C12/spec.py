import re, os
from vlib import H, SRC
PROPERTY = 'C12'
LEVEL = 'model_checking'
CLAIM = ('The real EvalScript (script/interpreter.cpp) executed on a single concrete opcode (or the TOALTSTACK/FROMALTSTACK pair) over a symbolic initial stack '
         '(concrete element lengths incl. the 4/5-byte number boundary, symbolic bytes, symbolic MINIMALDATA/DISCOURAGE_UPGRADABLE_NOPS flags) agrees with an independent '
         'reference semantics: success/failure, the exact ScriptError, and the complete resulting stack. Covers numeric unary/binary/ternary opcodes, stack manipulation '
         '(incl. PICK/ROLL with symbolic depth), EQUAL(VERIFY), SIZE, VERIFY, RETURN, NOPs, disabled and reserved opcodes.')
CLAIM += (' Tapscript signature opcodes (harness tapsig): the real EvalScript under SigVersion::TAPSCRIPT executes OP_CHECKSIG / OP_CHECKSIGVERIFY / OP_CHECKSIGADD as BIP342 specifies - empty key fails, a non-empty signature costs exactly 50 units of the validation-weight budget and the script fails iff the budget drops BELOW zero, the Schnorr verifier (recorder) is consulted exactly for non-empty signature x 32-byte key, unknown key types succeed unless discouraged, CHECKSIGADD pushes n + success - for a symbolic remaining budget, all bytes and flags. The initial budget (witness size + 50) set in VerifyWitnessProgram is not decided.')
# opcode values are read from the current source
OPS = {m.group(1): int(m.group(2), 16) for m in re.finditer(r'^\s*(OP_[A-Z0-9_]+)\s*=\s*(0x[0-9a-fA-F]+)\s*,', open(os.path.join(SRC, 'script/script.h')).read(), re.M)}
def v(op, lens, ok=True, fail=False, op2=None, sv=0):
    """(entry name, template args): OPC, OPC2, NITEMS, L0..L3, WIT, SV"""
    ls = (list(lens) + [0, 0, 0, 0])[:4]
    name = '%s%s_%s%s' % (op[3:].lower(), ('_' + op2[3:].lower()) if op2 else '', 'x'.join(map(str, lens)) or 'empty', '_w0' if sv else '')
    return (name, '%d, %d, %d, %d, %d, %d, %d, %d, %d' % (OPS[op], OPS[op2] if op2 else 0, len(lens), ls[0], ls[1], ls[2], ls[3], (1 if ok else 0) | (2 if fail else 0), sv))
UN = ['OP_1ADD', 'OP_1SUB', 'OP_NEGATE', 'OP_ABS', 'OP_NOT', 'OP_0NOTEQUAL']
BIN = ['OP_ADD', 'OP_SUB', 'OP_BOOLAND', 'OP_BOOLOR', 'OP_NUMEQUAL', 'OP_NUMEQUALVERIFY', 'OP_NUMNOTEQUAL', 'OP_LESSTHAN', 'OP_GREATERTHAN', 'OP_LESSTHANOREQUAL', 'OP_GREATERTHANOREQUAL', 'OP_MIN', 'OP_MAX']
quick = []
for op in UN: quick += [v(op, [1]), v(op, [5], ok=False, fail=True), v(op, [], ok=False, fail=True)]
for op in ['OP_ADD', 'OP_SUB', 'OP_NUMEQUALVERIFY', 'OP_LESSTHAN', 'OP_MIN', 'OP_BOOLAND']: quick += [v(op, [1, 2], fail=True), v(op, [2, 5], ok=False, fail=True), v(op, [1], ok=False, fail=True)]
quick += [v('OP_WITHIN', [1, 1, 1]), v('OP_WITHIN', [2, 1, 0]), v('OP_ADD', [4, 4], fail=True), v('OP_1ADD', [4]), v('OP_LESSTHAN', [4, 4], fail=True), v('OP_NEGATE', [4]), v('OP_ABS', [3])]
for op, n in [('OP_DUP', 1), ('OP_DROP', 1), ('OP_2DROP', 2), ('OP_2DUP', 2), ('OP_3DUP', 3), ('OP_OVER', 2), ('OP_2OVER', 4), ('OP_ROT', 3), ('OP_SWAP', 2), ('OP_2SWAP', 4), ('OP_NIP', 2), ('OP_TUCK', 2), ('OP_IFDUP', 1), ('OP_DEPTH', 2)]:
    quick += [v(op, [2, 1, 3, 2][:n])]
    if n > 0 and op != 'OP_DEPTH': quick += [v(op, [2, 1, 3, 2][:n - 1], ok=False, fail=True)]
quick += [v('OP_PICK', [2, 1], fail=True), v('OP_ROLL', [2, 1], fail=True)]   # deeper PICK/ROLL with a symbolic depth: CBMC returns counterexamples that do not replay (imprecise symbolic index into the heap array of vectors); not claimed
quick += [v('OP_EQUAL', [3, 3]), v('OP_EQUAL', [2, 3]), v('OP_EQUALVERIFY', [2, 2], fail=True), v('OP_SIZE', [3]), v('OP_SIZE', [0]), v('OP_VERIFY', [2], fail=True), v('OP_VERIFY', [0], ok=False, fail=True)]
quick += [v('OP_RETURN', [1], ok=False, fail=True), v('OP_NOP', [1]), v('OP_NOP4', [1], fail=True), v('OP_CAT', [1, 1], ok=False, fail=True), v('OP_MUL', [1, 1], ok=False, fail=True), v('OP_VERIF', [1], ok=False, fail=True),
          v('OP_RESERVED', [1], ok=False, fail=True), v('OP_ENDIF', [1], ok=False, fail=True)]
quick += [v('OP_TOALTSTACK', [2, 1], op2='OP_FROMALTSTACK'), v('OP_FROMALTSTACK', [1], ok=False, fail=True)]
thorough = list(quick)
for op in UN: thorough.append(v(op, [4]))
for op in ['OP_ADD', 'OP_SUB', 'OP_NUMEQUALVERIFY', 'OP_LESSTHAN', 'OP_MIN', 'OP_BOOLAND']: thorough.append(v(op, [4, 4], fail=True))
thorough += [v('OP_WITHIN', [2, 2, 2]), v('OP_WITHIN', [4, 1, 0])]
for op in BIN:
    for lens in ([0, 0], [1, 4], [4, 4], [3, 2], [5, 1], [4, 5]): thorough.append(v(op, lens, ok=(5 not in lens), fail=(5 in lens)))
for op in UN:
    for l in (0, 1, 2, 3): thorough.append(v(op, [l]))
def uniq(lst):
    seen = set(); out = []
    for e in lst:
        if e[0] not in seen: seen.add(e[0]); out.append(e)
    return out
quick = uniq(quick); thorough = uniq(thorough)

def sq(ops, lens, ok=True, fail=False, sv=0):
    o = ([OPS[x] for x in ops] + [-1, -1, -1, -1])[:4]; ls = (list(lens) + [0, 0, 0])[:3]
    name = '_'.join(x[3:].lower() for x in ops) + '__' + ('x'.join(map(str, lens)) or 'empty') + ('_w0' if sv else '')
    return (name, '%d, %d, %d, %d, %d, %d, %d, %d, %d, %d' % (o[0], o[1], o[2], o[3], len(lens), ls[0], ls[1], ls[2], (1 if ok else 0) | (2 if fail else 0), sv))
seq_quick = [
    sq(['OP_IF', 'OP_1', 'OP_ENDIF'], [1]), sq(['OP_IF', 'OP_ENDIF'], [1], fail=True, sv=1), sq(['OP_NOTIF', 'OP_2', 'OP_ELSE', 'OP_3'], [1], ok=False, fail=True),
    sq(['OP_IF', 'OP_ELSE', 'OP_7', 'OP_ENDIF'], [1]), sq(['OP_IF', 'OP_ENDIF'], [], ok=False, fail=True), sq(['OP_NOTIF', 'OP_VERIF', 'OP_ENDIF'], [1], ok=False, fail=True),
    sq(['OP_IF', 'OP_MUL', 'OP_ENDIF'], [0], ok=False, fail=True), sq(['OP_IF', 'OP_RETURN', 'OP_ENDIF', 'OP_1NEGATE'], [1], fail=True), sq(['OP_ELSE'], [1], ok=False, fail=True),
    sq(['OP_CHECKLOCKTIMEVERIFY'], [4], fail=True), sq(['OP_CHECKLOCKTIMEVERIFY'], [5], fail=True), sq(['OP_CHECKLOCKTIMEVERIFY'], [], fail=True), sq(['OP_CHECKSEQUENCEVERIFY'], [4], fail=True), sq(['OP_CHECKSEQUENCEVERIFY'], [5], fail=True),
    sq(['OP_CHECKSIG'], [1, 1], fail=True), sq(['OP_CHECKSIG'], [0, 2], fail=False), sq(['OP_CHECKSIGVERIFY'], [2, 1], fail=True), sq(['OP_CHECKSIG', 'OP_VERIFY'], [1, 1], fail=True), sq(['OP_CHECKSIG'], [1], ok=False, fail=True),
    sq(['OP_16', 'OP_1NEGATE', 'OP_ADD'], []), sq(['OP_0', 'OP_NOT', 'OP_VERIFY'], []), sq(['OP_DUP', 'OP_SIZE', 'OP_EQUAL'], [1]),
]
HARNESSES = [
    H('scriptnum_decode', 'scriptnum.cpp', 'h_decode', link=['script/script.cpp', 'uint256.cpp'], variants=[{'LEN': l} for l in range(0, 7)], shadow=['nofmt'], unwind=12, memunwind=40, timeout=400, objbits=10,
      functions=['CScriptNum::CScriptNum(vector, fRequireMinimal, nMaxNumSize)', 'CScriptNum::set_vch', 'CScriptNum::getint', 'CScriptNum::GetInt64'],
      bounds='all byte strings of length 0..6, both minimal modes, nMaxNumSize 4 and 5'),
    H('scriptnum_encode', 'scriptnum.cpp', 'h_encode', link=['script/script.cpp', 'uint256.cpp'], shadow=['nofmt'], unwind=12, memunwind=12, cbmc=['-D', 'VERIF_ALLOC_MAX=32'], timeout=1200, objbits=10, backends=['default', 'kissat'],
      functions=['CScriptNum::serialize'], bounds='all 64-bit values except INT64_MIN (excluded by the documented contract of serialize): minimal encoding that decodes back; byte-equality with the stand-in encoder for |value| < 2^47; allocations asserted <= 32 bytes', assumptions=['value != INT64_MIN']),
    H('evalseq', 'evalseq.cpp', 'h_evalseq', link=['script/interpreter.cpp', 'script/script.cpp', 'script/script_error.cpp', 'primitives/transaction.cpp', 'uint256.cpp', 'hash.cpp', 'crypto/ripemd160.cpp', 'crypto/sha1.cpp', 'crypto/sha256.cpp'],
      entries=seq_quick, shadow=['nofmt'], unwind=12, memunwind=40, timeout=900, objbits=11, replace={'_ZN10CScriptNum9serializeERKl': 'verif_repl_serialize'},
      functions=['EvalScript: ConditionStack, OP_IF/NOTIF/ELSE/ENDIF/VERIF, OP_0..OP_16, OP_CHECKLOCKTIMEVERIFY, OP_CHECKSEQUENCEVERIFY, OP_CHECKSIG(VERIFY) via EvalChecksigPreTapscript, FindAndDelete'],
      stubs=['CScriptNum::serialize replaced (inside EvalScript only) by a single-allocation encoder; harness scriptnum_encode proves it byte-identical to the real serialize for every |value| < 2^47; a larger value reaching it traps', 'signature checker = abstract checker with symbolic verdicts (records its arguments)', 'CPubKey/XOnlyPubKey nondeterministic stubs (unreached: no encoding flags)', 'tinyformat -> empty strings'],
      bounds='%d scripts of <= 4 opcodes; <= 3 stack elements of concrete length <= 5; flags MINIMALDATA, MINIMALIF, CLTV, CSV, NULLFAIL, DISCOURAGE_UPGRADABLE_NOPS symbolic; SigVersion BASE or WITNESS_V0 per entry' % len(seq_quick)),
    H('evalop', 'evalop.cpp', 'h_evalop', link=['script/interpreter.cpp', 'script/script.cpp', 'script/script_error.cpp', 'primitives/transaction.cpp', 'uint256.cpp', 'hash.cpp', 'crypto/ripemd160.cpp', 'crypto/sha1.cpp', 'crypto/sha256.cpp'],
      entries=quick, tentries=thorough, shadow=['nofmt'], unwind=12, memunwind=40, timeout=900, objbits=11, replace={'_ZN10CScriptNum9serializeERKl': 'verif_repl_serialize'},
      functions=['EvalScript (script/interpreter.cpp)', 'CScriptNum ctor/getint/getvch/serialize/IsMinimallyEncoded (script/script.h)', 'CastToBool', 'CScript::GetOp/GetScriptOp', 'stack helpers (stacktop, popstack)', 'std::vector<std::vector<unsigned char>> (libstdc++)'],
      stubs=['CScriptNum::serialize replaced (inside EvalScript only) by a single-allocation encoder; harness scriptnum_encode proves it byte-identical to the real serialize for every |value| < 2^47; a larger value reaching it traps', 'tinyformat -> empty strings', 'assertion_fail -> CBMC assertion', 'BaseSignatureChecker (default: every check fails; not reached by these opcodes)'],
      bounds='one opcode per query (%d quick / %d thorough shapes); <= 4 stack elements of 0..5 bytes (concrete lengths, symbolic bytes); flags MINIMALDATA, DISCOURAGE_UPGRADABLE_NOPS, MINIMALIF symbolic; SigVersion BASE' % (len(quick), len(thorough))),
    H('tapsig', 'tapsig.cpp', 'h_tapsig', link=['script/interpreter.cpp', 'script/script.cpp', 'script/script_error.cpp', 'primitives/transaction.cpp', 'uint256.cpp', 'hash.cpp', 'crypto/ripemd160.cpp', 'crypto/sha1.cpp', 'crypto/sha256.cpp'],
      entries=[('o%x_s%d_p%d_n%d' % a, '0x%x, %d, %d, %d' % a) for a in ((0xac, 64, 32, 0), (0xac, 0, 32, 0), (0xac, 1, 33, 0), (0xad, 64, 32, 0), (0xad, 0, 1, 0), (0xba, 64, 32, 1), (0xba, 0, 0, 1), (0xba, 65, 31, 4))],
      tentries=[('o%x_s%d_p%d_n%d' % a, '0x%x, %d, %d, %d' % a) for a in [(o, s, p, n) for o in (0xac, 0xad, 0xba) for s in (0, 1, 64, 65) for p in (0, 1, 32, 33) for n in ((0,) if o != 0xba else (0, 1, 2, 4))]],
      shadow=['nofmt'], unwind=70, memunwind=72, timeout=900, objbits=11, replace={'_ZN10CScriptNum9serializeERKl': 'verif_repl_serialize'},
      functions=['EvalScript (OP_CHECKSIG/OP_CHECKSIGVERIFY/OP_CHECKSIGADD under SigVersion::TAPSCRIPT)', 'EvalChecksig', 'EvalChecksigTapscript (validation weight budget)', 'CScriptNum', 'CScript::GetOp'],
      stubs=['BaseSignatureChecker::CheckSchnorrSignature (virtual) -> recorder with symbolic verdict', 'CScriptNum::serialize replaced (inside EvalScript only) by the single-allocation encoder proved byte-identical by scriptnum_encode', 'CPubKey/XOnlyPubKey verification nondeterministic (unreached)', 'tinyformat -> empty strings', 'assertion_fail -> CBMC assertion'],
      assumptions=['remaining validation weight in [0, 4 000 050] when the opcode starts (it is witness size + 50 initially and the script fails as soon as it would become negative)'],
      bounds='one signature opcode per query; signature lengths 0,1,64,65; key lengths 0,1,31,32,33; accumulator 0-4 bytes; budget, all bytes, MINIMALDATA and DISCOURAGE_UPGRADABLE_PUBKEYTYPE symbolic. The initial budget (serialized witness size + 50, set in VerifyWitnessProgram) is not decided here'),
]
