// Reference semantics of Bitcoin script for the C12/C11 harnesses, written from the script rules (not from interpreter.cpp).
#pragma once
#include <verif.h>
#include <script/interpreter.h>
#include <script/script.h>
#include <script/script_error.h>
#include <string.h>
#define MAXL 6        // longest item the reference handles
#define MAXS 8        // reference stack capacity

struct Item { int len; uint8_t b[MAXL]; };
struct RStack { int n; Item it[MAXS]; };

// ---------------------------------------------------------------- reference semantics (from the script rules, not from the code)
static bool r_truth(const Item& x)   // CastToBool: any non-zero byte, except that negative zero (sign bit only in the last byte) is false
{
    for (int i = 0; i < x.len; i++) if (x.b[i] != 0) { if (i == x.len - 1 && x.b[i] == 0x80) return false; return true; }
    return false;
}
// numbers: little-endian sign-magnitude, at most 4 bytes as operands; MINIMALDATA requires the shortest encoding
static bool r_decode(const Item& x, bool minimal, int64_t& out)
{
    if (x.len > 4) return false;
    if (minimal && x.len > 0) {
        if ((x.b[x.len - 1] & 0x7f) == 0) { if (x.len <= 1 || (x.b[x.len - 2] & 0x80) == 0) return false; }
    }
    if (x.len == 0) { out = 0; return true; }
    int64_t v = 0;
    for (int i = 0; i < x.len; i++) v |= (int64_t)x.b[i] << (8 * i);
    if (x.b[x.len - 1] & 0x80) { v &= ~((int64_t)0x80 << (8 * (x.len - 1))); v = -v; }
    out = v; return true;
}
static Item r_encode(int64_t v)
{
    Item r; r.len = 0; for (int i = 0; i < MAXL; i++) r.b[i] = 0;
    if (v == 0) return r;
    const bool neg = v < 0; uint64_t a = neg ? (uint64_t)(-v) : (uint64_t)v;
    while (a) { r.b[r.len++] = (uint8_t)(a & 0xff); a >>= 8; }
    if (r.b[r.len - 1] & 0x80) r.b[r.len++] = neg ? 0x80 : 0x00; else if (neg) r.b[r.len - 1] |= 0x80;
    return r;
}
static Item r_bool(bool v) { Item r; r.len = v ? 1 : 0; for (int i = 0; i < MAXL; i++) r.b[i] = 0; if (v) r.b[0] = 1; return r; }
static bool r_eq(const Item& a, const Item& b) { if (a.len != b.len) return false; for (int i = 0; i < a.len; i++) if (a.b[i] != b.b[i]) return false; return true; }

enum { E_OK = SCRIPT_ERR_OK };
static const uint64_t F_MINIMALDATA = script_verify_flags{SCRIPT_VERIFY_MINIMALDATA}.as_int();
static const uint64_t F_DISCOURAGE_NOPS = script_verify_flags{SCRIPT_VERIFY_DISCOURAGE_UPGRADABLE_NOPS}.as_int();
static const uint64_t F_MINIMALIF = script_verify_flags{SCRIPT_VERIFY_MINIMALIF}.as_int();
static const uint64_t F_CLTV = script_verify_flags{SCRIPT_VERIFY_CHECKLOCKTIMEVERIFY}.as_int();
static const uint64_t F_CSV = script_verify_flags{SCRIPT_VERIFY_CHECKSEQUENCEVERIFY}.as_int();
static const uint64_t F_NULLFAIL = script_verify_flags{SCRIPT_VERIFY_NULLFAIL}.as_int();
// environment of the signature checker (symbolic verdicts chosen by the harness) and what the reference expects it to be asked
struct REnv { bool sig_ok; bool lock_ok; bool seq_ok; int64_t asked_lock; int64_t asked_seq; bool lock_asked; bool seq_asked; bool sig_asked; };
static REnv r_env;
#define POP() (st.n--)
#define TOP(i) st.it[st.n + (i)]    // TOP(-1) is the top
#define PUSH(x) do { st.it[st.n] = (x); st.n++; } while (0)
#define NEED(k) do { if (st.n < (k)) return SCRIPT_ERR_INVALID_STACK_OPERATION; } while (0)
#define NUM(var, item) int64_t var; if (!r_decode(item, minimal, var)) return SCRIPT_ERR_SCRIPTNUM   // operand longer than 4 bytes, or non-minimal under MINIMALDATA

// executes one opcode on st; returns the script error (OK on success). alt: alt stack (for the TOALTSTACK/FROMALTSTACK pair)
static int r_exec(int op, RStack& st, RStack& alt, uint64_t flags)
{
    const bool minimal = flags & F_MINIMALDATA;
    switch (op) {
    // ---- unary numeric
    case OP_1ADD: case OP_1SUB: case OP_NEGATE: case OP_ABS: case OP_NOT: case OP_0NOTEQUAL: {
        NEED(1); NUM(a, TOP(-1)); int64_t r = 0;
        if (op == OP_1ADD) r = a + 1; else if (op == OP_1SUB) r = a - 1; else if (op == OP_NEGATE) r = -a; else if (op == OP_ABS) r = a < 0 ? -a : a;
        else if (op == OP_NOT) r = (a == 0); else r = (a != 0);
        POP(); PUSH(r_encode(r)); return E_OK; }
    // ---- binary numeric
    case OP_ADD: case OP_SUB: case OP_BOOLAND: case OP_BOOLOR: case OP_NUMEQUAL: case OP_NUMEQUALVERIFY: case OP_NUMNOTEQUAL: case OP_LESSTHAN:
    case OP_GREATERTHAN: case OP_LESSTHANOREQUAL: case OP_GREATERTHANOREQUAL: case OP_MIN: case OP_MAX: {
        NEED(2); NUM(a, TOP(-2)); NUM(b, TOP(-1)); int64_t r = 0;
        switch (op) {
        case OP_ADD: r = a + b; break; case OP_SUB: r = a - b; break; case OP_BOOLAND: r = (a != 0 && b != 0); break; case OP_BOOLOR: r = (a != 0 || b != 0); break;
        case OP_NUMEQUAL: case OP_NUMEQUALVERIFY: r = (a == b); break; case OP_NUMNOTEQUAL: r = (a != b); break; case OP_LESSTHAN: r = (a < b); break;
        case OP_GREATERTHAN: r = (a > b); break; case OP_LESSTHANOREQUAL: r = (a <= b); break; case OP_GREATERTHANOREQUAL: r = (a >= b); break;
        case OP_MIN: r = a < b ? a : b; break; case OP_MAX: r = a > b ? a : b; break; }
        POP(); POP();
        if (op == OP_NUMEQUALVERIFY) { if (!r) return SCRIPT_ERR_NUMEQUALVERIFY; return E_OK; }
        PUSH(r_encode(r)); return E_OK; }
    case OP_WITHIN: { NEED(3); NUM(x, TOP(-3)); NUM(lo, TOP(-2)); NUM(hi, TOP(-1)); POP(); POP(); POP(); PUSH(r_bool(lo <= x && x < hi)); return E_OK; }
    // ---- stack manipulation
    case OP_DUP: { NEED(1); Item a = TOP(-1); PUSH(a); return E_OK; }
    case OP_DROP: { NEED(1); POP(); return E_OK; }
    case OP_2DROP: { NEED(2); POP(); POP(); return E_OK; }
    case OP_2DUP: { NEED(2); Item a = TOP(-2), b = TOP(-1); PUSH(a); PUSH(b); return E_OK; }
    case OP_3DUP: { NEED(3); Item a = TOP(-3), b = TOP(-2), c = TOP(-1); PUSH(a); PUSH(b); PUSH(c); return E_OK; }
    case OP_OVER: { NEED(2); Item a = TOP(-2); PUSH(a); return E_OK; }
    case OP_2OVER: { NEED(4); Item a = TOP(-4), b = TOP(-3); PUSH(a); PUSH(b); return E_OK; }
    case OP_ROT: { NEED(3); Item a = TOP(-3), b = TOP(-2), c = TOP(-1); TOP(-3) = b; TOP(-2) = c; TOP(-1) = a; return E_OK; }
    case OP_2ROT: { NEED(6); return E_OK; /* not used: NITEMS <= 4 */ }
    case OP_SWAP: { NEED(2); Item a = TOP(-2), b = TOP(-1); TOP(-2) = b; TOP(-1) = a; return E_OK; }
    case OP_2SWAP: { NEED(4); Item a = TOP(-4), b = TOP(-3), c = TOP(-2), d = TOP(-1); TOP(-4) = c; TOP(-3) = d; TOP(-2) = a; TOP(-1) = b; return E_OK; }
    case OP_NIP: { NEED(2); Item b = TOP(-1); POP(); TOP(-1) = b; return E_OK; }
    case OP_TUCK: { NEED(2); Item a = TOP(-2), b = TOP(-1); TOP(-2) = b; TOP(-1) = a; PUSH(b); return E_OK; }
    case OP_IFDUP: { NEED(1); Item a = TOP(-1); if (r_truth(a)) PUSH(a); return E_OK; }
    case OP_DEPTH: { Item d = r_encode(st.n); PUSH(d); return E_OK; }
    case OP_PICK: case OP_ROLL: {
        NEED(2); NUM(n, TOP(-1)); POP();
        if (n < 0 || n >= st.n) return SCRIPT_ERR_INVALID_STACK_OPERATION;
        Item x = st.it[st.n - 1 - n];
        if (op == OP_ROLL) { for (int i = st.n - 1 - (int)n; i + 1 < st.n; i++) st.it[i] = st.it[i + 1]; st.n--; }
        PUSH(x); return E_OK; }
    case OP_TOALTSTACK: { NEED(1); alt.it[alt.n++] = TOP(-1); POP(); return E_OK; }
    case OP_FROMALTSTACK: { if (alt.n < 1) return SCRIPT_ERR_INVALID_ALTSTACK_OPERATION; PUSH(alt.it[alt.n - 1]); alt.n--; return E_OK; }
    // ---- byte-string ops
    case OP_EQUAL: case OP_EQUALVERIFY: { NEED(2); bool e = r_eq(TOP(-2), TOP(-1)); POP(); POP(); if (op == OP_EQUALVERIFY) return e ? E_OK : SCRIPT_ERR_EQUALVERIFY; PUSH(r_bool(e)); return E_OK; }
    case OP_SIZE: { NEED(1); Item s = r_encode(TOP(-1).len); PUSH(s); return E_OK; }
    // ---- misc
    case OP_VERIFY: { NEED(1); bool t = r_truth(TOP(-1)); if (!t) return SCRIPT_ERR_VERIFY; POP(); return E_OK; }
    case OP_RETURN: return SCRIPT_ERR_OP_RETURN;
    case OP_NOP: return E_OK;
    case OP_NOP1: case OP_NOP4: case OP_NOP5: case OP_NOP6: case OP_NOP7: case OP_NOP8: case OP_NOP9: case OP_NOP10:
        return (flags & F_DISCOURAGE_NOPS) ? SCRIPT_ERR_DISCOURAGE_UPGRADABLE_NOPS : E_OK;
    // disabled opcodes fail even when not executed
    case OP_CAT: case OP_SUBSTR: case OP_LEFT: case OP_RIGHT: case OP_INVERT: case OP_AND: case OP_OR: case OP_XOR: case OP_2MUL: case OP_2DIV:
    case OP_MUL: case OP_DIV: case OP_MOD: case OP_LSHIFT: case OP_RSHIFT: return SCRIPT_ERR_DISABLED_OPCODE;
    case OP_VER: case OP_RESERVED: case OP_RESERVED1: case OP_RESERVED2: case OP_VERIF: case OP_VERNOTIF: return SCRIPT_ERR_BAD_OPCODE;
    case OP_ELSE: case OP_ENDIF: return SCRIPT_ERR_UNBALANCED_CONDITIONAL;
    // ---- small constants
    case OP_0: { PUSH(r_encode(0)); return E_OK; }
    case OP_1NEGATE: { PUSH(r_encode(-1)); return E_OK; }
    case OP_1: case OP_2: case OP_3: case OP_4: case OP_5: case OP_6: case OP_7: case OP_8: case OP_9: case OP_10: case OP_11: case OP_12: case OP_13: case OP_14: case OP_15: case OP_16:
        { PUSH(r_encode(op - (OP_1 - 1))); return E_OK; }
    // ---- lock times (BIP65 / BIP112): NOPs unless the flag is set; operands up to 5 bytes; negative fails; the checker decides
    case OP_CHECKLOCKTIMEVERIFY: case OP_CHECKSEQUENCEVERIFY: {
        const bool cltv = op == OP_CHECKLOCKTIMEVERIFY;
        if (!(flags & (cltv ? F_CLTV : F_CSV))) return E_OK;
        NEED(1);
        Item x = TOP(-1);
        if (x.len > 5) return SCRIPT_ERR_SCRIPTNUM;
        if (minimal && x.len > 0 && (x.b[x.len - 1] & 0x7f) == 0 && (x.len <= 1 || (x.b[x.len - 2] & 0x80) == 0)) return SCRIPT_ERR_SCRIPTNUM;
        int64_t v = 0; for (int i = 0; i < x.len; i++) v |= (int64_t)x.b[i] << (8 * i);
        if (x.len > 0 && (x.b[x.len - 1] & 0x80)) { v &= ~((int64_t)0x80 << (8 * (x.len - 1))); v = -v; }
        if (v < 0) return cltv ? SCRIPT_ERR_NEGATIVE_LOCKTIME : SCRIPT_ERR_NEGATIVE_LOCKTIME;
        if (cltv) { r_env.lock_asked = true; r_env.asked_lock = v; if (!r_env.lock_ok) return SCRIPT_ERR_UNSATISFIED_LOCKTIME; }
        else {
            if (v & ((int64_t)1 << 31)) return E_OK;      // disable flag set: behaves as a NOP
            r_env.seq_asked = true; r_env.asked_seq = v; if (!r_env.seq_ok) return SCRIPT_ERR_UNSATISFIED_LOCKTIME;
        }
        return E_OK; }
    // ---- signature checks with an abstract checker (no encoding flags set): (sig pubkey -- bool)
    case OP_CHECKSIG: case OP_CHECKSIGVERIFY: {
        NEED(2); Item sig = TOP(-2);
        r_env.sig_asked = true;
        const bool okc = r_env.sig_ok;
        if (!okc && (flags & F_NULLFAIL) && sig.len > 0) return SCRIPT_ERR_SIG_NULLFAIL;
        POP(); POP();
        if (op == OP_CHECKSIGVERIFY) return okc ? E_OK : SCRIPT_ERR_CHECKSIGVERIFY;
        PUSH(r_bool(okc)); return E_OK; }
    }
    return -1;
}


// whole script of up to NOPS opcodes (no push-data opcodes): conditionals, skipping of non-executed branches, end-of-script balance
static int r_script(const int* ops, int nops, RStack& st, RStack& alt, uint64_t flags, bool witness_v0)
{
    bool cond[8]; int nc = 0; int opcount = 0;
    for (int i = 0; i < nops; i++) {
        const int op = ops[i];
        bool exec = true; for (int k = 0; k < nc; k++) if (!cond[k]) exec = false;
        if (op > OP_16 && ++opcount > 201) return SCRIPT_ERR_OP_COUNT;
        // disabled opcodes fail even in a non-executed branch
        switch (op) { case OP_CAT: case OP_SUBSTR: case OP_LEFT: case OP_RIGHT: case OP_INVERT: case OP_AND: case OP_OR: case OP_XOR: case OP_2MUL: case OP_2DIV:
            case OP_MUL: case OP_DIV: case OP_MOD: case OP_LSHIFT: case OP_RSHIFT: return SCRIPT_ERR_DISABLED_OPCODE; default: break; }
        if (op == OP_IF || op == OP_NOTIF) {
            bool v = false;
            if (exec) {
                if (st.n < 1) return SCRIPT_ERR_INVALID_STACK_OPERATION;   // this code base reports a missing IF operand as a stack error
                const Item& t = st.it[st.n - 1];
                if (witness_v0 && (flags & F_MINIMALIF)) { if (t.len > 1) return SCRIPT_ERR_MINIMALIF; if (t.len == 1 && t.b[0] != 1) return SCRIPT_ERR_MINIMALIF; }
                v = r_truth(t); if (op == OP_NOTIF) v = !v;
                st.n--;
            }
            cond[nc++] = v; continue;
        }
        if (op == OP_ELSE) { if (nc == 0) return SCRIPT_ERR_UNBALANCED_CONDITIONAL; cond[nc - 1] = !cond[nc - 1]; continue; }
        if (op == OP_ENDIF) { if (nc == 0) return SCRIPT_ERR_UNBALANCED_CONDITIONAL; nc--; continue; }
        if (op == OP_VERIF || op == OP_VERNOTIF) return SCRIPT_ERR_BAD_OPCODE;   // fail even when not executed
        if (!exec) continue;
        const int e = r_exec(op, st, alt, flags);
        if (e != E_OK) return e;
        if (st.n + alt.n > 1000) return SCRIPT_ERR_STACK_SIZE;
    }
    if (nc != 0) return SCRIPT_ERR_UNBALANCED_CONDITIONAL;
    return E_OK;
}

// Symex-friendly stand-in for CScriptNum::serialize (used by the EvalScript harnesses through H(replace=...)): same result as the
// reference encoder r_encode, but built with ONE allocation of constant size, so that the result's symbolic length does not change
// the heap shape. Its equivalence with the real CScriptNum::serialize for every int64 value is the subject of harness scriptnum_encode.
std::vector<unsigned char> verif_repl_serialize(const int64_t& value) asm("verif_repl_serialize");
std::vector<unsigned char> verif_repl_serialize(const int64_t& value)
{
    const Item e = r_encode(value == INT64_MIN ? 0 : value);   // INT64_MIN is excluded by the contract of serialize (never produced from <=5-byte operands)
    std::vector<unsigned char> r; r.reserve(9);
    unsigned char* p = r.data();
    for (int i = 0; i < MAXL; i++) if (i < e.len) p[i] = e.b[i];
    struct Raw { unsigned char* start; unsigned char* finish; unsigned char* eos; };
    reinterpret_cast<Raw*>(&r)->finish = p + e.len;
    return r;
}
