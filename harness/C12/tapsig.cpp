// C12 (tapscript signature opcodes, BIP342): OP_CHECKSIG / OP_CHECKSIGVERIFY / OP_CHECKSIGADD executed by the REAL EvalScript under
// SigVersion::TAPSCRIPT, incl. the validation-weight ("sigops") budget: real EvalChecksigTapscript / EvalChecksig / CScriptNum.
// Concrete per entry: opcode, signature length, public-key length, length of the CHECKSIGADD accumulator. Symbolic: all bytes, the
// remaining budget (64-bit), the flag bits that matter, and the verdict of the Schnorr verifier (virtual CheckSchnorrSignature -> recorder).
// Reference written from BIP342 ("Rules for signature opcodes").
#include <verif.h>
#include <verif_stubs_common.h>
#include <verif_stubs_pubkey.h>
#include <script/interpreter.h>
#include <script/script.h>
#include <script/script_error.h>
#include <string.h>
#include "c12_ref.h"   // verif_repl_serialize: stand-in for CScriptNum::serialize inside EvalScript, proved byte-identical by harness scriptnum_encode

struct RecChecker : public BaseSignatureChecker {
    mutable int calls = 0; mutable bool verdict = false; mutable unsigned siglen = 0, pklen = 0;
    bool CheckSchnorrSignature(std::span<const unsigned char> sig, std::span<const unsigned char> pubkey, SigVersion sigversion, ScriptExecutionData& execdata, ScriptError* serror) const override
    {
        calls++; siglen = (unsigned)sig.size(); pklen = (unsigned)pubkey.size(); verdict = nondet_bool();
        if (!verdict && serror) *serror = SCRIPT_ERR_SCHNORR_SIG;
        return verdict;
    }
};

// OPC: 0xac CHECKSIG, 0xad CHECKSIGVERIFY, 0xba CHECKSIGADD; NLEN: byte length of the accumulator n (CHECKSIGADD only)
template <int OPC, int SIGLEN, int PKLEN_, int NLEN>
static void run()
{
    std::vector<std::vector<unsigned char>> stack; stack.reserve(6);
    std::vector<unsigned char> sig(SIGLEN), pk(PKLEN_), num(NLEN);
    for (int i = 0; i < SIGLEN; i++) sig[i] = nondet_u8();
    for (int i = 0; i < PKLEN_; i++) pk[i] = nondet_u8();
    uint8_t nb[4] = {0, 0, 0, 0};
    for (int i = 0; i < NLEN; i++) { nb[i] = nondet_u8(); num[i] = nb[i]; }
    stack.push_back(std::move(sig));
    if (OPC == 0xba) stack.push_back(std::move(num));
    stack.push_back(std::move(pk));

    uint64_t fl = 0;
    const bool discourage = nondet_bool();
    const bool minimal = nondet_bool();
    if (discourage) fl |= script_verify_flags{SCRIPT_VERIFY_DISCOURAGE_UPGRADABLE_PUBKEYTYPE}.as_int();
    if (minimal) fl |= script_verify_flags{SCRIPT_VERIFY_MINIMALDATA}.as_int();       // minimal number encoding is policy, also in tapscript
    const script_verify_flags flags = script_verify_flags::from_int(fl);

    ScriptExecutionData execdata;
    const int64_t budget = nondet_i64();
    VASSUME(budget >= 0 && budget <= 4000000 + 50);      // budget = witness size + 50 at the start, never negative while the script runs
    execdata.m_validation_weight_left = budget; execdata.m_validation_weight_left_init = true;
    execdata.m_tapleaf_hash_init = true; execdata.m_annex_init = true; execdata.m_annex_present = false;

    CScript script; script << (opcodetype)OPC;
    RecChecker checker;
    ScriptError err = SCRIPT_ERR_UNKNOWN_ERROR;
    const bool ok = EvalScript(stack, script, flags, checker, SigVersion::TAPSCRIPT, execdata, &err);
    verif_observe(ok); verif_observe((uint64_t)err);

    // ---- BIP342 reference ----
    // accumulator: minimally encoded CScriptNum of at most 4 bytes
    bool n_ok = true; int64_t n = 0;
    if (OPC == 0xba) {
        if (NLEN > 0) {
            if (minimal && (nb[NLEN - 1] & 0x7f) == 0 && (NLEN == 1 || !(nb[NLEN - 2] & 0x80))) n_ok = false;      // non-minimal encoding (MINIMALDATA only)
            for (int i = 0; i < NLEN; i++) n |= (int64_t)nb[i] << (8 * i);
            if (nb[NLEN - 1] & 0x80) n = -(n & ~((int64_t)0x80 << (8 * (NLEN - 1))));
        }
    }
    const bool have_sig = SIGLEN != 0;
    bool want_ok; bool success = have_sig; int64_t left = budget;
    bool budget_fail = false, verify_called = false;
    if (!n_ok) want_ok = false;
    else if (PKLEN_ == 0) want_ok = false;                                            // "If the public key size is zero, the script MUST fail"
    else {
        want_ok = true;
        if (have_sig) { left -= 50; if (left < 0) { want_ok = false; budget_fail = true; } }   // "the sigops budget is decreased by 50; if that brings the budget below zero, the script MUST fail"
        if (want_ok) {
            if (PKLEN_ == 32) { if (have_sig) { verify_called = true; } }            // signature validated against the key; failure terminates the script
            else if (discourage) want_ok = false;                                      // unknown public key type: policy flag forbids it, consensus treats the check as successful
        }
    }
    if (n_ok && PKLEN_ != 0 && !budget_fail) VASSERT(checker.calls == (verify_called ? 1 : 0), "the Schnorr verifier is consulted exactly when a non-empty signature meets a 32-byte key within budget");
    if (verify_called && checker.calls == 1 && !checker.verdict) want_ok = false;
    if (want_ok && OPC == 0xad && !success) want_ok = false;                        // CHECKSIGVERIFY with an empty signature fails
    VASSERT(ok == want_ok, "tapscript signature opcode succeeds iff BIP342 says so (empty key, sigops budget, verifier verdict, unknown key type, VERIFY)");
    if (budget_fail && n_ok) VASSERT(!ok && err == SCRIPT_ERR_TAPSCRIPT_VALIDATION_WEIGHT, "exceeding the validation weight budget is reported as such");
    if (ok) {
        VASSERT(execdata.m_validation_weight_left == left, "the remaining budget is reduced by exactly 50 per executed non-empty signature");
        if (OPC == 0xac) {
            VASSERT(stack.size() == 1 && stack[0].size() == (success ? 1u : 0u) && (!success || stack[0][0] == 1), "CHECKSIG pushes true for a valid non-empty signature, an empty vector for an empty one");
        } else if (OPC == 0xad) {
            VASSERT(stack.size() == 0, "CHECKSIGVERIFY leaves nothing");
        } else {
            const CScriptNum res(stack.size() == 1 ? stack[0] : std::vector<unsigned char>{}, false, 5);
            VASSERT(stack.size() == 1 && res.GetInt64() == n + (success ? 1 : 0), "CHECKSIGADD pushes n + 1 for a valid non-empty signature and n for an empty one");
        }
        if (verify_called) VASSERT(checker.siglen == (unsigned)SIGLEN && checker.pklen == 32, "the verifier sees the signature and key from the stack");
    }
    const bool can_succeed = PKLEN_ != 0 && !(OPC == 0xad && SIGLEN == 0);
    const bool can_fail = PKLEN_ == 0 || SIGLEN != 0 || PKLEN_ != 32 || (OPC == 0xad && SIGLEN == 0) || (OPC == 0xba && NLEN > 0);
    if (can_succeed) VWITNESS(ok, "some execution succeeds");
    if (can_fail) VWITNESS(!ok, "some execution fails");
#if 1
    if (SIGLEN != 0 && PKLEN_ != 0) { VWITNESS(ok && budget == 50, "a script that uses its budget up exactly succeeds"); VWITNESS(!ok && budget == 49, "one unit less fails"); }
#endif
    VREACH("end");
}
#define VERIF_ENTRY(name, ...) extern "C" void h_##name() { run<__VA_ARGS__>(); }
#include VERIF_ENTRIES_INC
