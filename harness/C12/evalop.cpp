// C12: EvalScript implements Bitcoin script semantics -- one concrete opcode (or two for the altstack pair) executed by the
// REAL interpreter (script/interpreter.cpp EvalScript, CScriptNum, CastToBool, CScript::GetOp) on a symbolic initial stack,
// compared with an independent reference semantics written from the script rules.
// Shapes (opcode, number of stack items, byte length of each item) are concrete per variant; every byte and the flag word are
// symbolic.
#include <verif.h>
#include <verif_stubs_common.h>
#include <verif_stubs_pubkey.h>
#include <script/interpreter.h>
#include <script/script.h>
#include <script/script_error.h>
#include <string.h>

#define MAXL 6        // longest item the reference handles
#define MAXS 8        // reference stack capacity

struct Item { int len; uint8_t b[MAXL]; };
struct RStack { int n; Item it[MAXS]; };

// ---------------------------------------------------------------- reference semantics (from the script rules, not from the code)
static bool r_truth(const Item& x)   // CastToBool: any non-zero byte, except that negative zero (sign bit only in the last byte) is false
{
    for (int i = 0; i < x.len; i++) if (x.b[i] != 0) { if (i == x.len - 1 && x.b[i] == 0x80) return false; return true; }
    return false;
}
// numbers: little-endian sign-magnitude, at most 4 bytes as operands; MINIMALDATA requires the shortest encoding
static bool r_decode(const Item& x, bool minimal, int64_t& out)
{
    if (x.len > 4) return false;
    if (minimal && x.len > 0) {
        if ((x.b[x.len - 1] & 0x7f) == 0) { if (x.len <= 1 || (x.b[x.len - 2] & 0x80) == 0) return false; }
    }
    if (x.len == 0) { out = 0; return true; }
    int64_t v = 0;
    for (int i = 0; i < x.len; i++) v |= (int64_t)x.b[i] << (8 * i);
    if (x.b[x.len - 1] & 0x80) { v &= ~((int64_t)0x80 << (8 * (x.len - 1))); v = -v; }
    out = v; return true;
}
static Item r_encode(int64_t v)
{
    Item r; r.len = 0; for (int i = 0; i < MAXL; i++) r.b[i] = 0;
    if (v == 0) return r;
    const bool neg = v < 0; uint64_t a = neg ? (uint64_t)(-v) : (uint64_t)v;
    while (a) { r.b[r.len++] = (uint8_t)(a & 0xff); a >>= 8; }
    if (r.b[r.len - 1] & 0x80) r.b[r.len++] = neg ? 0x80 : 0x00; else if (neg) r.b[r.len - 1] |= 0x80;
    return r;
}
static Item r_bool(bool v) { Item r; r.len = v ? 1 : 0; for (int i = 0; i < MAXL; i++) r.b[i] = 0; if (v) r.b[0] = 1; return r; }
static bool r_eq(const Item& a, const Item& b) { if (a.len != b.len) return false; for (int i = 0; i < a.len; i++) if (a.b[i] != b.b[i]) return false; return true; }

enum { E_OK = SCRIPT_ERR_OK };
static const uint64_t F_MINIMALDATA = script_verify_flags{SCRIPT_VERIFY_MINIMALDATA}.as_int();
static const uint64_t F_DISCOURAGE_NOPS = script_verify_flags{SCRIPT_VERIFY_DISCOURAGE_UPGRADABLE_NOPS}.as_int();
static const uint64_t F_MINIMALIF = script_verify_flags{SCRIPT_VERIFY_MINIMALIF}.as_int();
#define POP() (st.n--)
#define TOP(i) st.it[st.n + (i)]    // TOP(-1) is the top
#define PUSH(x) do { st.it[st.n] = (x); st.n++; } while (0)
#define NEED(k) do { if (st.n < (k)) return SCRIPT_ERR_INVALID_STACK_OPERATION; } while (0)
#define NUM(var, item) int64_t var; if (!r_decode(item, minimal, var)) return SCRIPT_ERR_SCRIPTNUM   // operand longer than 4 bytes, or non-minimal under MINIMALDATA

// executes one opcode on st; returns the script error (OK on success). alt: alt stack (for the TOALTSTACK/FROMALTSTACK pair)
static int r_exec(int op, RStack& st, RStack& alt, uint64_t flags)
{
    const bool minimal = flags & F_MINIMALDATA;
    switch (op) {
    // ---- unary numeric
    case OP_1ADD: case OP_1SUB: case OP_NEGATE: case OP_ABS: case OP_NOT: case OP_0NOTEQUAL: {
        NEED(1); NUM(a, TOP(-1)); int64_t r = 0;
        if (op == OP_1ADD) r = a + 1; else if (op == OP_1SUB) r = a - 1; else if (op == OP_NEGATE) r = -a; else if (op == OP_ABS) r = a < 0 ? -a : a;
        else if (op == OP_NOT) r = (a == 0); else r = (a != 0);
        POP(); PUSH(r_encode(r)); return E_OK; }
    // ---- binary numeric
    case OP_ADD: case OP_SUB: case OP_BOOLAND: case OP_BOOLOR: case OP_NUMEQUAL: case OP_NUMEQUALVERIFY: case OP_NUMNOTEQUAL: case OP_LESSTHAN:
    case OP_GREATERTHAN: case OP_LESSTHANOREQUAL: case OP_GREATERTHANOREQUAL: case OP_MIN: case OP_MAX: {
        NEED(2); NUM(a, TOP(-2)); NUM(b, TOP(-1)); int64_t r = 0;
        switch (op) {
        case OP_ADD: r = a + b; break; case OP_SUB: r = a - b; break; case OP_BOOLAND: r = (a != 0 && b != 0); break; case OP_BOOLOR: r = (a != 0 || b != 0); break;
        case OP_NUMEQUAL: case OP_NUMEQUALVERIFY: r = (a == b); break; case OP_NUMNOTEQUAL: r = (a != b); break; case OP_LESSTHAN: r = (a < b); break;
        case OP_GREATERTHAN: r = (a > b); break; case OP_LESSTHANOREQUAL: r = (a <= b); break; case OP_GREATERTHANOREQUAL: r = (a >= b); break;
        case OP_MIN: r = a < b ? a : b; break; case OP_MAX: r = a > b ? a : b; break; }
        POP(); POP();
        if (op == OP_NUMEQUALVERIFY) { if (!r) return SCRIPT_ERR_NUMEQUALVERIFY; return E_OK; }
        PUSH(r_encode(r)); return E_OK; }
    case OP_WITHIN: { NEED(3); NUM(x, TOP(-3)); NUM(lo, TOP(-2)); NUM(hi, TOP(-1)); POP(); POP(); POP(); PUSH(r_bool(lo <= x && x < hi)); return E_OK; }
    // ---- stack manipulation
    case OP_DUP: { NEED(1); Item a = TOP(-1); PUSH(a); return E_OK; }
    case OP_DROP: { NEED(1); POP(); return E_OK; }
    case OP_2DROP: { NEED(2); POP(); POP(); return E_OK; }
    case OP_2DUP: { NEED(2); Item a = TOP(-2), b = TOP(-1); PUSH(a); PUSH(b); return E_OK; }
    case OP_3DUP: { NEED(3); Item a = TOP(-3), b = TOP(-2), c = TOP(-1); PUSH(a); PUSH(b); PUSH(c); return E_OK; }
    case OP_OVER: { NEED(2); Item a = TOP(-2); PUSH(a); return E_OK; }
    case OP_2OVER: { NEED(4); Item a = TOP(-4), b = TOP(-3); PUSH(a); PUSH(b); return E_OK; }
    case OP_ROT: { NEED(3); Item a = TOP(-3), b = TOP(-2), c = TOP(-1); TOP(-3) = b; TOP(-2) = c; TOP(-1) = a; return E_OK; }
    case OP_2ROT: { NEED(6); return E_OK; /* not used: NITEMS <= 4 */ }
    case OP_SWAP: { NEED(2); Item a = TOP(-2), b = TOP(-1); TOP(-2) = b; TOP(-1) = a; return E_OK; }
    case OP_2SWAP: { NEED(4); Item a = TOP(-4), b = TOP(-3), c = TOP(-2), d = TOP(-1); TOP(-4) = c; TOP(-3) = d; TOP(-2) = a; TOP(-1) = b; return E_OK; }
    case OP_NIP: { NEED(2); Item b = TOP(-1); POP(); TOP(-1) = b; return E_OK; }
    case OP_TUCK: { NEED(2); Item a = TOP(-2), b = TOP(-1); TOP(-2) = b; TOP(-1) = a; PUSH(b); return E_OK; }
    case OP_IFDUP: { NEED(1); Item a = TOP(-1); if (r_truth(a)) PUSH(a); return E_OK; }
    case OP_DEPTH: { Item d = r_encode(st.n); PUSH(d); return E_OK; }
    case OP_PICK: case OP_ROLL: {
        NEED(2); NUM(n, TOP(-1)); POP();
        if (n < 0 || n >= st.n) return SCRIPT_ERR_INVALID_STACK_OPERATION;
        Item x = st.it[st.n - 1 - n];
        if (op == OP_ROLL) { for (int i = st.n - 1 - (int)n; i + 1 < st.n; i++) st.it[i] = st.it[i + 1]; st.n--; }
        PUSH(x); return E_OK; }
    case OP_TOALTSTACK: { NEED(1); alt.it[alt.n++] = TOP(-1); POP(); return E_OK; }
    case OP_FROMALTSTACK: { if (alt.n < 1) return SCRIPT_ERR_INVALID_ALTSTACK_OPERATION; PUSH(alt.it[alt.n - 1]); alt.n--; return E_OK; }
    // ---- byte-string ops
    case OP_EQUAL: case OP_EQUALVERIFY: { NEED(2); bool e = r_eq(TOP(-2), TOP(-1)); POP(); POP(); if (op == OP_EQUALVERIFY) return e ? E_OK : SCRIPT_ERR_EQUALVERIFY; PUSH(r_bool(e)); return E_OK; }
    case OP_SIZE: { NEED(1); Item s = r_encode(TOP(-1).len); PUSH(s); return E_OK; }
    // ---- misc
    case OP_VERIFY: { NEED(1); bool t = r_truth(TOP(-1)); if (!t) return SCRIPT_ERR_VERIFY; POP(); return E_OK; }
    case OP_RETURN: return SCRIPT_ERR_OP_RETURN;
    case OP_NOP: return E_OK;
    case OP_NOP1: case OP_NOP4: case OP_NOP5: case OP_NOP6: case OP_NOP7: case OP_NOP8: case OP_NOP9: case OP_NOP10:
        return (flags & F_DISCOURAGE_NOPS) ? SCRIPT_ERR_DISCOURAGE_UPGRADABLE_NOPS : E_OK;
    // disabled opcodes fail even when not executed
    case OP_CAT: case OP_SUBSTR: case OP_LEFT: case OP_RIGHT: case OP_INVERT: case OP_AND: case OP_OR: case OP_XOR: case OP_2MUL: case OP_2DIV:
    case OP_MUL: case OP_DIV: case OP_MOD: case OP_LSHIFT: case OP_RSHIFT: return SCRIPT_ERR_DISABLED_OPCODE;
    case OP_VER: case OP_RESERVED: case OP_RESERVED1: case OP_RESERVED2: case OP_VERIF: case OP_VERNOTIF: return SCRIPT_ERR_BAD_OPCODE;
    case OP_ELSE: case OP_ENDIF: return SCRIPT_ERR_UNBALANCED_CONDITIONAL;
    }
    return -1;
}

// one instantiation per shape: opcode, optional second opcode (0 = none), number of stack elements and their byte lengths,
// WIT: bit 0 = expect some success, bit 1 = expect some failure (reachability witnesses), SV: 0 = BASE, 1 = WITNESS_V0
template <int OPC, int OPC2, int NITEMS, int L0, int L1, int L2, int L3, int WIT, int SV>
static void run()
{
    const int LENS[4] = {L0, L1, L2, L3};
    RStack st, alt; st.n = NITEMS; alt.n = 0;
    std::vector<std::vector<unsigned char>> stack;
    stack.reserve(NITEMS + 4);      // no reallocation of the outer vector during the run (keeps shapes concrete)
    for (int i = 0; i < NITEMS; i++) {
        st.it[i].len = LENS[i]; for (int j = 0; j < MAXL; j++) st.it[i].b[j] = 0;
        std::vector<unsigned char> v; v.resize(LENS[i]);
        for (int j = 0; j < LENS[i]; j++) { st.it[i].b[j] = nondet_u8(); v[j] = st.it[i].b[j]; }
        stack.push_back(std::move(v));
    }
    // flag word: symbolic over the bits that matter for these opcodes
    uint64_t fl = 0;
    if (nondet_bool()) fl |= F_MINIMALDATA;
    if (nondet_bool()) fl |= F_DISCOURAGE_NOPS;
    if (nondet_bool()) fl |= F_MINIMALIF;
    const script_verify_flags flags = script_verify_flags::from_int(fl);
    CScript script;
    script << (opcodetype)OPC;
    if (OPC2 != 0) script << (opcodetype)OPC2;
    const BaseSignatureChecker checker;
    ScriptError err = SCRIPT_ERR_UNKNOWN_ERROR;
    const SigVersion sv = SV ? SigVersion::WITNESS_V0 : SigVersion::BASE;
    const bool ok = EvalScript(stack, script, flags, checker, sv, &err);

    int want = r_exec(OPC, st, alt, fl);
    if (OPC2 != 0 && want == E_OK) want = r_exec(OPC2, st, alt, fl);
    VASSERT(want != -1, "reference covers this opcode");
    verif_observe(ok); verif_observe((uint64_t)err);
    VASSERT(ok == (want == E_OK), "EvalScript succeeds iff the reference semantics succeed");
    VASSERT((int)err == want, "script error code equals the reference");
    if (ok) {
        VASSERT((int)stack.size() == st.n, "resulting stack depth equals the reference");
        for (int i = 0; i < MAXS; i++) if (i < st.n && i < (int)stack.size()) {
            bool same = (int)stack[i].size() == st.it[i].len;
            for (int j = 0; j < MAXL; j++) if (same && j < st.it[i].len && stack[i][j] != st.it[i].b[j]) same = false;
            VASSERT(same, "every resulting stack element equals the reference (length and bytes)");
        }
    }
    if (WIT & 1) VWITNESS(ok, "some input succeeds");
    if (WIT & 2) VWITNESS(!ok, "some input fails");
    VREACH("end");
}
#define VERIF_ENTRY(name, ...) extern "C" void h_##name() { run<__VA_ARGS__>(); }
#include VERIF_ENTRIES_INC
