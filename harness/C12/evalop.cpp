// C12: EvalScript implements Bitcoin script semantics -- one concrete opcode (or two for the altstack pair) executed by the
// REAL interpreter (script/interpreter.cpp EvalScript, CScriptNum, CastToBool, CScript::GetOp) on a symbolic initial stack,
// compared with an independent reference semantics written from the script rules.
// Shapes (opcode, number of stack items, byte length of each item) are concrete per variant; every byte and the flag word are
// symbolic.
#include <verif.h>
#include <verif_stubs_common.h>
#include <verif_stubs_pubkey.h>
#include <script/interpreter.h>
#include <script/script.h>
#include <script/script_error.h>
#include <string.h>

#include "c12_ref.h"

// one instantiation per shape: opcode, optional second opcode (0 = none), number of stack elements and their byte lengths,
// WIT: bit 0 = expect some success, bit 1 = expect some failure (reachability witnesses), SV: 0 = BASE, 1 = WITNESS_V0
template <int OPC, int OPC2, int NITEMS, int L0, int L1, int L2, int L3, int WIT, int SV>
static void run()
{
    const int LENS[4] = {L0, L1, L2, L3};
    RStack st, alt; st.n = NITEMS; alt.n = 0;
    std::vector<std::vector<unsigned char>> stack;
    stack.reserve(NITEMS + 4);      // no reallocation of the outer vector during the run (keeps shapes concrete)
    for (int i = 0; i < NITEMS; i++) {
        st.it[i].len = LENS[i]; for (int j = 0; j < MAXL; j++) st.it[i].b[j] = 0;
        std::vector<unsigned char> v; v.resize(LENS[i]);
        for (int j = 0; j < LENS[i]; j++) { st.it[i].b[j] = nondet_u8(); v[j] = st.it[i].b[j]; }
        stack.push_back(std::move(v));
    }
    // flag word: symbolic over the bits that matter for these opcodes
    uint64_t fl = 0;
    if (nondet_bool()) fl |= F_MINIMALDATA;
    if (nondet_bool()) fl |= F_DISCOURAGE_NOPS;
    if (nondet_bool()) fl |= F_MINIMALIF;
    const script_verify_flags flags = script_verify_flags::from_int(fl);
    CScript script;
    script << (opcodetype)OPC;
    if (OPC2 != 0) script << (opcodetype)OPC2;
    const BaseSignatureChecker checker;
    ScriptError err = SCRIPT_ERR_UNKNOWN_ERROR;
    const SigVersion sv = SV ? SigVersion::WITNESS_V0 : SigVersion::BASE;
    const bool ok = EvalScript(stack, script, flags, checker, sv, &err);

    int want = r_exec(OPC, st, alt, fl);
    if (OPC2 != 0 && want == E_OK) want = r_exec(OPC2, st, alt, fl);
    VASSERT(want != -1, "reference covers this opcode");
    verif_observe(ok); verif_observe((uint64_t)err);
    VASSERT(ok == (want == E_OK), "EvalScript succeeds iff the reference semantics succeed");
    VASSERT((int)err == want, "script error code equals the reference");
    if (ok) {
        VASSERT((int)stack.size() == st.n, "resulting stack depth equals the reference");
        for (int i = 0; i < MAXS; i++) if (i < st.n && i < (int)stack.size()) {
            bool same = (int)stack[i].size() == st.it[i].len;
            for (int j = 0; j < MAXL; j++) if (same && j < st.it[i].len && stack[i][j] != st.it[i].b[j]) same = false;
            VASSERT(same, "every resulting stack element equals the reference (length and bytes)");
        }
    }
    if (WIT & 1) VWITNESS(ok, "some input succeeds");
    if (WIT & 2) VWITNESS(!ok, "some input fails");
    VREACH("end");
}
#define VERIF_ENTRY(name, ...) extern "C" void h_##name() { run<__VA_ARGS__>(); }
#include VERIF_ENTRIES_INC
