// C12: multi-opcode scripts through the REAL EvalScript: conditionals (IF/NOTIF/ELSE/ENDIF incl. MINIMALIF under witness v0, skipping of
// non-executed branches, unbalanced detection), small-constant pushes, CLTV/CSV argument handling and CHECKSIG(VERIFY)/NULLFAIL with an
// abstract signature checker whose verdicts are symbolic. Opcode sequence, stack element lengths and SigVersion are concrete per
// entry; element bytes, the flag word and the checker's verdicts are symbolic.
#include <verif.h>
#include <verif_stubs_common.h>
#include <verif_stubs_pubkey.h>
#include "c12_ref.h"

// abstract checker: verdicts chosen by the solver, arguments recorded
struct SymChecker : public BaseSignatureChecker {
    bool sig_ok, lock_ok, seq_ok;
    mutable int64_t asked_lock = -1, asked_seq = -1; mutable bool lock_asked = false, seq_asked = false, sig_asked = false;
    bool CheckECDSASignature(const std::vector<unsigned char>&, const std::vector<unsigned char>&, const CScript&, SigVersion) const override { sig_asked = true; return sig_ok; }
    bool CheckLockTime(const CScriptNum& n) const override { lock_asked = true; asked_lock = n.GetInt64(); return lock_ok; }
    bool CheckSequence(const CScriptNum& n) const override { seq_asked = true; asked_seq = n.GetInt64(); return seq_ok; }
};

template <int O1, int O2, int O3, int O4, int NITEMS, int L0, int L1, int L2, int WIT, int SV>
static void run()
{
    const int LENS[3] = {L0, L1, L2};
    const int OPSA[4] = {O1, O2, O3, O4};
    int nops = 0; for (int i = 0; i < 4; i++) if (OPSA[i] >= 0) nops = i + 1;
    RStack st, alt; st.n = NITEMS; alt.n = 0;
    std::vector<std::vector<unsigned char>> stack;
    stack.reserve(NITEMS + 6);
    for (int i = 0; i < NITEMS; i++) {
        st.it[i].len = LENS[i]; for (int j = 0; j < MAXL; j++) st.it[i].b[j] = 0;
        std::vector<unsigned char> v; v.resize(LENS[i]);
        for (int j = 0; j < LENS[i]; j++) { st.it[i].b[j] = nondet_u8(); v[j] = st.it[i].b[j]; }
        stack.push_back(std::move(v));
    }
    uint64_t fl = 0;
    if (nondet_bool()) fl |= F_MINIMALDATA;
    if (nondet_bool()) fl |= F_MINIMALIF;
    if (nondet_bool()) fl |= F_CLTV;
    if (nondet_bool()) fl |= F_CSV;
    if (nondet_bool()) fl |= F_NULLFAIL;
    if (nondet_bool()) fl |= F_DISCOURAGE_NOPS;
    const script_verify_flags flags = script_verify_flags::from_int(fl);
    CScript script;
    for (int i = 0; i < nops; i++) script << (opcodetype)OPSA[i];
    SymChecker checker; checker.sig_ok = nondet_bool(); checker.lock_ok = nondet_bool(); checker.seq_ok = nondet_bool();
    r_env.sig_ok = checker.sig_ok; r_env.lock_ok = checker.lock_ok; r_env.seq_ok = checker.seq_ok;
    r_env.lock_asked = r_env.seq_asked = r_env.sig_asked = false; r_env.asked_lock = r_env.asked_seq = -1;
    ScriptError err = SCRIPT_ERR_UNKNOWN_ERROR;
    const bool ok = EvalScript(stack, script, flags, checker, SV ? SigVersion::WITNESS_V0 : SigVersion::BASE, &err);

    const int want = r_script(OPSA, nops, st, alt, fl, SV != 0);
    VASSERT(want != -1, "reference covers these opcodes");
    verif_observe(ok); verif_observe((uint64_t)err);
    VASSERT(ok == (want == E_OK), "EvalScript succeeds iff the reference semantics succeed");
    VASSERT((int)err == want, "script error code equals the reference");
    if (ok) {
        VASSERT((int)stack.size() == st.n, "resulting stack depth equals the reference");
        for (int i = 0; i < MAXS; i++) if (i < st.n && i < (int)stack.size()) {
            bool same = (int)stack[i].size() == st.it[i].len;
            for (int j = 0; j < MAXL; j++) if (same && j < st.it[i].len && stack[i][j] != st.it[i].b[j]) same = false;
            VASSERT(same, "every resulting stack element equals the reference (length and bytes)");
        }
        // the checker was consulted exactly when, and with exactly the value, the rules say
        VASSERT(checker.lock_asked == r_env.lock_asked && (!r_env.lock_asked || checker.asked_lock == r_env.asked_lock), "CheckLockTime consulted with the decoded operand iff CLTV is enforced on an executed path");
        VASSERT(checker.seq_asked == r_env.seq_asked && (!r_env.seq_asked || checker.asked_seq == r_env.asked_seq), "CheckSequence consulted with the decoded operand iff CSV is enforced and not disabled");
        VASSERT(checker.sig_asked == r_env.sig_asked, "signature checker consulted iff CHECKSIG executes");
    }
    if (WIT & 1) VWITNESS(ok, "some input succeeds");
    if (WIT & 2) VWITNESS(!ok, "some input fails");
    VREACH("end");
}
#define VERIF_ENTRY(name, ...) extern "C" void h_##name() { run<__VA_ARGS__>(); }
#include VERIF_ENTRIES_INC
