// C31: GetBlockSubsidy follows the 21 million schedule (validation.cpp, real function linked from IR).
#include <verif.h>
#include <validation.h>
#include <consensus/params.h>
#include <consensus/amount.h>
#include <climits>

static Consensus::Params make_params(int interval) { Consensus::Params p; p.nSubsidyHalvingInterval = interval; return p; }

// all heights, fixed or symbolic interval: value = 50 BTC >> (h / I), 0 from era 64 on; in MoneyRange; monotone
extern "C" void h_subsidy_formula() {
#ifdef SYM_INTERVAL
    const int I = (int)nondet_range(1, INT_MAX);
#else
    const int I = INTERVAL;
#endif
    const Consensus::Params p = make_params(I);
    const int h = (int)nondet_range(0, INT_MAX);
    const CAmount s = GetBlockSubsidy(h, p);
    const int64_t era = (int64_t)h / (int64_t)I;
    const int64_t expected = era < 64 ? (int64_t)(5000000000LL >> era) : 0;
    verif_observe((uint64_t)s);
    VASSERT(s == expected, "subsidy equals 50 BTC >> (height / interval), zero from the 64th era");
    VASSERT(s >= 0 && s <= 5000000000LL && MoneyRange(s), "subsidy within [0, 50 BTC]");
    const int h2 = (int)nondet_range((uint64_t)h, INT_MAX);
    const CAmount s2 = GetBlockSubsidy(h2, p);
    VASSERT(s2 <= s, "subsidy never increases with height");
    VWITNESS(s == 625000000LL, "some height pays 6.25 BTC");
    VWITNESS(s == 0 && era == 64, "era 64 reachable and pays zero");
    VWITNESS(s == 1, "last satoshi era reachable");
    VREACH("end");
}

// total issuance over all eras (real function evaluated at each era start; the per-era constancy is h_subsidy_formula)
extern "C" void h_subsidy_supply() {
    const int I = INTERVAL;
    const Consensus::Params p = make_params(I);
    __int128 total = 0;
    for (int k = 0; k < 70; k++) {
        const int64_t start = (int64_t)k * I;
        if (start > INT_MAX) break;
        total += (__int128)I * GetBlockSubsidy((int)start, p);
    }
    VASSERT(total <= (__int128)MAX_MONEY, "total issuance never exceeds 21 million coins");
#if INTERVAL == 210000
    VASSERT(total == (__int128)2099999997690000LL, "mainnet-schedule issuance is exactly 20999999.9769 BTC");
#endif
    VREACH("end");
}
