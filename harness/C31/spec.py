import re, os
from vlib import H, SRC
PROPERTY = 'C31'
LEVEL = 'proof'
CLAIM = ('GetBlockSubsidy (real function from validation.cpp) equals 50 BTC >> (h / interval) with 0 from era 64, for every '
         'non-negative 32-bit height; for every halving interval configured in kernel/chainparams.cpp and for a symbolic interval >= 1; '
         'monotone; total issuance <= MAX_MONEY for each configured interval.')
# halving intervals are read from the current source of the chain parameters on every run
ivals = sorted(set(int(x) for x in re.findall(r'nSubsidyHalvingInterval\s*=\s*(\d+)\s*;', open(os.path.join(SRC, 'kernel/chainparams.cpp')).read())))
FN = ['GetBlockSubsidy (validation.cpp)', 'MoneyRange (consensus/amount.h)']
HARNESSES = [
    H('subsidy_formula', 'subsidy.cpp', 'h_subsidy_formula', link=['validation.cpp'],
      variants=[{'INTERVAL': i} for i in ivals] + [{'SYM_INTERVAL': 1, 'INTERVAL': 1}],
      functions=FN, bounds='all heights 0..2^31-1 (full input domain); intervals %s and symbolic 1..2^31-1; no loops' % ivals,
      backends=['default', 'cvc5int', 'z3'], timeout=300, unwind=1),
    H('subsidy_supply', 'subsidy.cpp', 'h_subsidy_supply', link=['validation.cpp'],
      variants=[{'INTERVAL': i} for i in ivals], functions=FN, unwind=72,
      bounds='sum over all eras starting below 2^31 (<= 70 eras), real function evaluated at each era start', timeout=300),
]
