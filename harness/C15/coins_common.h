// Shared by the coins-cache harnesses (C15, C02, C09): a real CCoinsViewCache stack over a harness map-model base view.
#pragma once
#include <verif.h>
#include <coins.h>
#include <random.h>
#include <verif_stubs_common.h>
#include <string.h>
#include <optional>

#ifndef NKEYS
#define NKEYS 2
#endif

// outpoint domain: key k = (txid with first byte k+1, n = k); concrete, so the real salted SipHash-1-3 of the cache map
// (deterministic keys) is constant-folded by symbolic execution
#ifndef VERIF_CUSTOM_KEYS
static inline COutPoint KEY(int k) { uint256 u; u.data()[0] = (unsigned char)(k + 1); return COutPoint(Txid::FromUint256(u), (uint32_t)k); }
static inline int KEYIDX(const COutPoint& o) { for (int k = 0; k < NKEYS; k++) if (o == KEY(k)) return k; return -1; }
#endif

// map-model base view: a plain array of optional coins
struct ModelCoin { bool present; int64_t value; uint32_t height; bool coinbase; };
struct ModelView : public CCoinsView {
    ModelCoin m[NKEYS];
    uint256 best;
    std::optional<Coin> GetCoin(const COutPoint& o) const override {
        int k = KEYIDX(o); if (k < 0 || !m[k].present) return std::nullopt;
        Coin c; c.out.nValue = m[k].value; c.nHeight = m[k].height; c.fCoinBase = m[k].coinbase; return c;   // scripts stay empty: a symbolic-presence coin would otherwise carry a symbolic script length
    }
    std::optional<Coin> PeekCoin(const COutPoint& o) const override { return GetCoin(o); }
    bool HaveCoin(const COutPoint& o) const override { int k = KEYIDX(o); return k >= 0 && m[k].present; }
    uint256 GetBestBlock() const override { return best; }
    std::vector<uint256> GetHeadBlocks() const override { return {}; }
    void BatchWrite(CoinsViewCacheCursor& cursor, const uint256& block) override {
        for (auto it = cursor.Begin(); it != cursor.End(); it = cursor.NextAndMaybeErase(*it)) {
            if (!it->second.IsDirty()) continue;
            int k = KEYIDX(it->first); if (k < 0) continue;
            if (it->second.coin.IsSpent()) m[k].present = false;
            else { m[k].present = true; m[k].value = it->second.coin.out.nValue; m[k].height = it->second.coin.nHeight; m[k].coinbase = it->second.coin.fCoinBase; }
        }
        best = block;
    }
    size_t EstimateSize() const override { return 0; }
};
