#include "coins_common.h"
extern "C" void h_bisect()
{
    ModelView base;
    for (int k = 0; k < NKEYS; k++) { base.m[k].present = nondet_bool(); base.m[k].value = (int64_t)nondet_range(0, 2100000000000000ULL); base.m[k].height = (uint32_t)nondet_range(0, 0x7fffffff); base.m[k].coinbase = nondet_bool(); }
    CCoinsViewCache cache(&base, /*deterministic=*/true);
    bool r = false;
#if STEP == 1
    r = cache.HaveCoinInCache(KEY(0));
#elif STEP == 2
    r = cache.HaveCoin(KEY(0));
#elif STEP == 3
    r = cache.HaveCoin(KEY(0)); r ^= cache.HaveCoin(KEY(1));
#elif STEP == 4
    { Coin c; c.out.nValue = 5; c.nHeight = 1; cache.AddCoin(KEY(0), std::move(c), true); } r = cache.HaveCoin(KEY(0));
#elif STEP == 5
    r = cache.SpendCoin(KEY(0), nullptr);
#endif
    verif_observe(r);
    VREACH("end");
}
