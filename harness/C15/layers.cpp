// C15: a stack of real CCoinsViewCache layers behaves like a single map.
// base (harness map model) <- parent (real CCoinsViewCache) <- child (real CCoinsViewCache)
// Shapes are concrete per variant: which keys exist in the base (PRESENT bit mask) and the operation sequence (OPi, Ki);
// all coin contents (value, height, coinbase flag) are symbolic. After every operation each layer must answer GetCoin/HaveCoin
// exactly like its map model, and the caches' own SanityCheck() assertions must hold.
#include "coins_common.h"

// operation codes
#define OP_NONE 0
#define OP_ADD 1      // child.AddCoin(key, coin, possible_overwrite = coin currently visible)   (minimum the API contract requires)
#define OP_ADDOW 2    // child.AddCoin(key, coin, possible_overwrite = true)
#define OP_SPEND 3    // child.SpendCoin(key, &moved)
#define OP_GET 4      // child.GetCoin(key) (fetches into the cache)
#define OP_FLUSH 5    // child.Flush()   (writes to parent, empties child)
#define OP_SYNC 6     // child.Sync()    (writes to parent, keeps child entries)
#define OP_PFLUSH 7   // parent.Flush()  (writes to base)
#define OP_UNCACHE 8  // child.Uncache(key)
#define OP_PADD 9     // parent.AddCoin(key, coin, overwrite as required) -- only used before the child has touched the key
#define OP_PSPEND 10  // parent.SpendCoin(key)
#define OP_ACCESS 11  // child.AccessCoin(key)
#define OP_PSYNC 12   // parent.Sync()
#define OP_ADDS 13    // like OP_ADD, the coin carries a 40-byte script (heap-allocated prevector: DynamicMemoryUsage() != 0, so the usage accounting is exercised)
#define OP_ADDOWS 14  // like OP_ADDOW, 40-byte script
#define SLEN 40
static ModelCoin bm[NKEYS], pm[NKEYS], cm[NKEYS];   // views of base, parent, child
static bool g_haslen[NKEYS];   // the child's coin under this key was added with the 40-byte script

static bool same(const std::optional<Coin>& c, const ModelCoin& m)
{
    if (c.has_value() != m.present) return false;
    if (!c) return true;
    return c->out.nValue == m.value && c->nHeight == m.height && (bool)c->fCoinBase == m.coinbase && !c->IsSpent();
}
static Coin fresh_coin(ModelCoin& m)
{
    Coin c; c.out.nValue = (int64_t)nondet_range(0, 2100000000000000ULL); c.nHeight = (uint32_t)nondet_range(0, 0x7fffffff); c.fCoinBase = nondet_bool();
    m.present = true; m.value = c.out.nValue; m.height = c.nHeight; m.coinbase = c.fCoinBase;
    return c;
}

static void check_all(ModelView& base, CCoinsViewCache& parent, CCoinsViewCache& child)
{
    for (int k = 0; k < NKEYS; k++) {
        VASSERT(base.m[k].present == bm[k].present && (!bm[k].present || (base.m[k].value == bm[k].value && base.m[k].height == bm[k].height && base.m[k].coinbase == bm[k].coinbase)), "base view equals its map model");
        // peek does not populate caches
        VASSERT(same(child.PeekCoin(KEY(k)), cm[k]), "child PeekCoin equals the single-map model");
        VASSERT(same(parent.PeekCoin(KEY(k)), pm[k]), "parent PeekCoin equals the single-map model");
    }
    child.SanityCheck(); parent.SanityCheck();
}

static void apply(int op, int k, ModelView& base, CCoinsViewCache& parent, CCoinsViewCache& child)
{
    switch (op) {
    case OP_ADD: { const bool ow = cm[k].present; Coin c = fresh_coin(cm[k]); child.AddCoin(KEY(k), std::move(c), ow); break; }
    case OP_ADDS: case OP_ADDOWS: {
        const bool ow = op == OP_ADDOWS ? true : cm[k].present; Coin c = fresh_coin(cm[k]);
        c.out.scriptPubKey.resize(SLEN); c.out.scriptPubKey[0] = 0x51; c.out.scriptPubKey[SLEN - 1] = nondet_u8();
        VASSERT(c.DynamicMemoryUsage() != 0, "a 40-byte script is heap allocated");
        child.AddCoin(KEY(k), std::move(c), ow); g_haslen[k] = true; break; }
    case OP_ADDOW: { Coin c = fresh_coin(cm[k]); child.AddCoin(KEY(k), std::move(c), true); break; }
    case OP_SPEND: {
        Coin moved; const bool r = child.SpendCoin(KEY(k), &moved);
        VASSERT(r == cm[k].present, "SpendCoin succeeds iff the coin is unspent in the child's view");
        if (r && g_haslen[k]) VASSERT(moved.out.scriptPubKey.size() == SLEN && moved.out.scriptPubKey[0] == 0x51, "SpendCoin hands back the script");
        if (r) VASSERT(moved.out.nValue == cm[k].value && moved.nHeight == cm[k].height && (bool)moved.fCoinBase == cm[k].coinbase, "SpendCoin hands back the spent coin");
        cm[k].present = false; break; }
    case OP_GET: { VASSERT(same(child.GetCoin(KEY(k)), cm[k]), "child GetCoin equals the single-map model"); VASSERT(child.HaveCoin(KEY(k)) == cm[k].present, "child HaveCoin equals the model"); break; }
    case OP_ACCESS: { const Coin& c = child.AccessCoin(KEY(k)); VASSERT(c.IsSpent() == !cm[k].present, "AccessCoin returns a spent coin iff absent"); if (!c.IsSpent()) VASSERT(c.out.nValue == cm[k].value && c.nHeight == cm[k].height, "AccessCoin content"); break; }
    case OP_FLUSH: { child.Flush(); for (int i = 0; i < NKEYS; i++) pm[i] = cm[i]; VASSERT(child.GetCacheSize() == 0, "Flush empties the child cache"); break; }
    case OP_SYNC: { child.Sync(); for (int i = 0; i < NKEYS; i++) pm[i] = cm[i]; break; }
    case OP_PFLUSH: { parent.Flush(); for (int i = 0; i < NKEYS; i++) bm[i] = pm[i]; break; }
    case OP_PSYNC: { parent.Sync(); for (int i = 0; i < NKEYS; i++) bm[i] = pm[i]; break; }
    case OP_UNCACHE: { child.Uncache(KEY(k)); break; }
    case OP_PADD: { const bool ow = pm[k].present; Coin c = fresh_coin(pm[k]); parent.AddCoin(KEY(k), std::move(c), ow); cm[k] = pm[k]; break; }
    case OP_PSPEND: { const bool r = parent.SpendCoin(KEY(k), nullptr); VASSERT(r == pm[k].present, "parent SpendCoin"); pm[k].present = false; cm[k] = pm[k]; break; }
    default: break;
    }
    if (op != OP_NONE) check_all(base, parent, child);
}

template <int PRESENT, int OP1, int K1, int OP2, int K2, int OP3, int K3, int OP4, int K4, int OP5, int K5>
static void run()
{
    ModelView base;
    for (int k = 0; k < NKEYS; k++) {
        base.m[k].present = (PRESENT >> k) & 1; base.m[k].value = (int64_t)nondet_range(0, 2100000000000000ULL); base.m[k].height = (uint32_t)nondet_range(0, 0x7fffffff); base.m[k].coinbase = nondet_bool();
        bm[k] = pm[k] = cm[k] = base.m[k];
    }
    CCoinsViewCache parent(&base, /*deterministic=*/true);
    CCoinsViewCache child(&parent, /*deterministic=*/true);
    apply(OP1, K1, base, parent, child);
    apply(OP2, K2, base, parent, child);
    apply(OP3, K3, base, parent, child);
    apply(OP4, K4, base, parent, child);
    apply(OP5, K5, base, parent, child);
    for (int k = 0; k < NKEYS; k++) { verif_observe(cm[k].present); verif_observe((uint64_t)cm[k].value); }
    VREACH("end");
}
#define VERIF_ENTRY(name, ...) extern "C" void h_##name() { run<__VA_ARGS__>(); }
#include VERIF_ENTRIES_INC
