// C15 step 1: one real CCoinsViewCache over the map-model base: add / spend / lookup agree with a map.
#include "coins_common.h"
extern "C" void h_cache1()
{
    ModelView base;
    for (int k = 0; k < NKEYS; k++) { base.m[k].present = nondet_bool(); base.m[k].value = (int64_t)nondet_range(0, 2100000000000000ULL); base.m[k].height = (uint32_t)nondet_range(0, 0x7fffffff); base.m[k].coinbase = nondet_bool(); }
    CCoinsViewCache cache(&base, /*deterministic=*/true);
    // model of the cache's view
    ModelCoin mv[NKEYS]; for (int k = 0; k < NKEYS; k++) mv[k] = base.m[k];
    // op: AddCoin on key K0 (symbolic value), then SpendCoin on key K1
    {
        Coin c; c.out.nValue = (int64_t)nondet_range(0, 2100000000000000ULL); c.nHeight = (uint32_t)nondet_range(0, 0x7fffffff); c.fCoinBase = nondet_bool();
        ModelCoin nm = {true, c.out.nValue, c.nHeight, (bool)c.fCoinBase};
        VASSUME(!mv[K0].present);   // AddCoin without possible_overwrite requires the coin to be absent
        cache.AddCoin(KEY(K0), std::move(c), false);
        mv[K0] = nm;
    }
    {
        Coin moved;
        bool r = cache.SpendCoin(KEY(K1), &moved);
        VASSERT(r == mv[K1].present, "SpendCoin succeeds iff the coin was unspent in the view");
        if (r) VASSERT(moved.out.nValue == mv[K1].value && moved.nHeight == mv[K1].height && (bool)moved.fCoinBase == mv[K1].coinbase, "SpendCoin returns the spent coin");
        mv[K1].present = false;
    }
    for (int k = 0; k < NKEYS; k++) {
        auto c = cache.GetCoin(KEY(k));
        VASSERT(c.has_value() == mv[k].present, "GetCoin presence equals the map model");
        if (c) VASSERT(c->out.nValue == mv[k].value && c->nHeight == mv[k].height && (bool)c->fCoinBase == mv[k].coinbase, "GetCoin content equals the map model");
        VASSERT(cache.HaveCoin(KEY(k)) == mv[k].present, "HaveCoin equals the map model");
        verif_observe(c.has_value());
    }
    cache.SanityCheck();
    VWITNESS(mv[1].present, "a coin can remain"); VREACH("end");
}
