from vlib import H
PROPERTY = 'C15'
LEVEL = 'model_checking'
CLAIM = ('Two real CCoinsViewCache layers (coins.cpp, libstdc++ unordered_map, flagged linked list) over a harness map-model base behave like a single map: for every '
         'enumerated operation sequence (AddCoin with/without overwrite, SpendCoin, GetCoin/HaveCoin/AccessCoin/PeekCoin, Uncache, Flush, Sync on child and parent) and every base '
         'population shape, with all coin contents symbolic, each layer answers exactly like its map model after every step, SpendCoin returns the spent coin, Flush/Sync '
         'propagate the child view to the parent and the parent view to the base, and the caches\' own SanityCheck()/Assume() invariants hold.')
CLAIM += (' Two sequences carry a 40-byte (heap-allocated) script so that the memory-usage accounting (cachedCoinsUsage against SanityCheck\'s recomputation) is non-trivial when a coin is added, spent through SpendCoin(&moved) and flushed.')
LINK = ['coins.cpp', 'primitives/transaction.cpp', 'script/script.cpp', 'uint256.cpp', 'hash.cpp']
OPS = dict(ADD=1, ADDOW=2, SPEND=3, GET=4, FLUSH=5, SYNC=6, PFLUSH=7, UNCACHE=8, PADD=9, PSPEND=10, ACCESS=11, PSYNC=12, ADDS=13, ADDOWS=14)
def seq(present, *ops):
    """(entry name, template args): PRESENT, then five (OP, K) pairs"""
    pairs = []; names = []
    for o in ops:
        name, k = (o.split(':') + ['0'])[:2]
        pairs.append((OPS[name], int(k))); names.append(name.lower() + (k if ':' in o else ''))
    while len(pairs) < 5: pairs.append((0, 0))
    return ('p%d_%s' % (present, '_'.join(names)), ', '.join([str(present)] + ['%d, %d' % p for p in pairs]))
QUICK = [
    seq(0, 'ADD:0', 'SPEND:0', 'FLUSH', 'GET:0'),                  # FRESH coin created and spent in the child never reaches the parent
    seq(1, 'PSPEND:0', 'ADD:0', 'FLUSH', 'PFLUSH'),                # parent has a spent dirty entry, child re-adds
    seq(1, 'ADDOW:0', 'FLUSH', 'PFLUSH'),                          # overwrite an unfetched base coin
    seq(1, 'ADDOW:0', 'SPEND:0', 'FLUSH', 'PFLUSH'),               # overwrite then spend: base coin must end spent
    seq(3, 'PSPEND:0', 'PSPEND:1', 'PFLUSH'),
    seq(0, 'PADD:0', 'PFLUSH', 'ADDOW:0', 'FLUSH'),
    seq(0, 'ADDS:0', 'SPEND:0', 'FLUSH', 'GET:0'),                 # same with a 40-byte script: memory-usage accounting (cachedCoinsUsage vs. SanityCheck recomputation) is non-trivial
    seq(1, 'ADDOWS:0', 'SPEND:0', 'FLUSH', 'PFLUSH'),
]
HARNESSES = [
    H('layers', 'layers.cpp', 'h_layers', link=LINK, entries=QUICK, shadow=['nofmt', 'nopool'], unwind=48, memunwind=112, timeout=600, objbits=11,
      functions=['CCoinsViewCache::FetchCoin/GetCoin/PeekCoin/HaveCoin/AccessCoin/AddCoin/SpendCoin/Uncache/BatchWrite/Flush/Sync/SanityCheck (coins.cpp)', 'CCoinsCacheEntry flag list (coins.h)', 'CoinsViewCacheCursor (coins.h)',
                 'std::unordered_map<COutPoint, CCoinsCacheEntry, SaltedCoinsCacheHasher> (libstdc++ headers; real SipHash-1-3 on concrete keys)'],
      stubs=['PoolAllocator forwards to operator new (ref/nopool shadow of support/allocators/pool.h; PoolResource is C61)', 'tinyformat -> empty strings', 'FastRandomContext/ChaCha20 nondeterministic (unused: deterministic hasher keys)',
             'assertion_fail -> CBMC assertion', 'std::_Prime_rehash_policy integer model (tool/models/stl_models.cpp)', 'coin scripts are empty except in the ADDS/ADDOWS sequences (40 bytes, first byte OP_1, last byte symbolic)'],
      assumptions=['AddCoin(possible_overwrite=false) is only called when the coin is not visible in that layer (API contract)', 'the parent is not modified behind a child that already cached the key'],
      bounds='2 keys, 8 operation sequences of <= 5 operations x base population shapes as listed in QUICK; all coin values/heights/coinbase flags symbolic. NOT decided (no verdict within 700 s): every sequence in which the child cache fetches a PRESENT coin from its parent (GetCoin/AccessCoin/SpendCoin of a base coin through two layers) and the FRESH-add + Flush sequences; the node value of std::unordered_map lives in an untyped byte buffer through which constant propagation of symbolic execution is lost, so list walks and script-length loops stop folding'),
]
