import re, os
from vlib import H, SRC
PROPERTY = 'C11'
LEVEL = 'model_checking'
CLAIM = ('Flag monotonicity decided on the real EvalScript: for each enumerated script shape (one per flag-sensitive opcode family) the same script, initial stack and checker verdicts are run '
         'under a symbolic flag word F and under an arbitrary subset of F; acceptance under F implies acceptance under the subset, and equal flag words give identical verdict, error and stack. '
         'Flags covered: MINIMALDATA, MINIMALIF, CHECKLOCKTIMEVERIFY, CHECKSEQUENCEVERIFY, NULLFAIL, DISCOURAGE_UPGRADABLE_NOPS. "Consensus flags are a subset of standard flags" is the C28 kernel. '
         'VerifyScript-level gates (P2SH, WITNESS, CLEANSTACK, SIGPUSHONLY) and signature-encoding flags inside CHECKSIG are not decided here (encoding flags: C10).')
OPS = {m.group(1): int(m.group(2), 16) for m in re.finditer(r'^\s*(OP_[A-Z0-9_]+)\s*=\s*(0x[0-9a-fA-F]+)\s*,', open(os.path.join(SRC, 'script/script.h')).read(), re.M)}
def sq(ops, lens, sv=0):
    o = ([OPS[x] for x in ops] + [-1, -1, -1, -1])[:4]; ls = (list(lens) + [0, 0, 0])[:3]
    name = '_'.join(x[3:].lower() for x in ops) + '__' + ('x'.join(map(str, lens)) or 'empty') + ('_w0' if sv else '')
    return (name, '%d, %d, %d, %d, %d, %d, %d, %d, %d' % (o[0], o[1], o[2], o[3], len(lens), ls[0], ls[1], ls[2], sv))
ENT = [sq(['OP_1ADD'], [2]), sq(['OP_ADD'], [1, 2]), sq(['OP_IF', 'OP_ENDIF'], [1], sv=1), sq(['OP_NOTIF', 'OP_ENDIF'], [2], sv=1),
       sq(['OP_CHECKLOCKTIMEVERIFY'], [2]), sq(['OP_CHECKSEQUENCEVERIFY'], [4]), sq(['OP_CHECKSIG'], [1, 1]), sq(['OP_NOP4'], [1]),
       sq(['OP_PICK'], [2, 1]), sq(['OP_NOP1', 'OP_CHECKLOCKTIMEVERIFY', 'OP_DROP'], [1])]
HARNESSES = [
    H('evalmono', 'evalmono.cpp', 'h_evalmono', link=['script/interpreter.cpp', 'script/script.cpp', 'script/script_error.cpp', 'primitives/transaction.cpp', 'uint256.cpp', 'hash.cpp', 'crypto/ripemd160.cpp', 'crypto/sha1.cpp', 'crypto/sha256.cpp'],
      entries=ENT, shadow=['nofmt'], unwind=12, memunwind=40, timeout=900, objbits=11, replace={'_ZN10CScriptNum9serializeERKl': 'verif_repl_serialize'},
      functions=['EvalScript (two executions per query)', 'CScriptNum decoding with/without MINIMALDATA', 'OP_IF/NOTIF MINIMALIF', 'OP_CHECKLOCKTIMEVERIFY / OP_CHECKSEQUENCEVERIFY', 'EvalChecksigPreTapscript NULLFAIL', 'upgradable NOPs'],
      stubs=['CScriptNum::serialize replaced by a single-allocation encoder equal to the reference encoder (C12 scriptnum_encode)', 'signature checker = abstract checker with symbolic verdicts, identical in both executions',
             'CPubKey/XOnlyPubKey nondeterministic stubs (unreached)', 'tinyformat -> empty strings'],
      bounds='%d script shapes of <= 3 opcodes, <= 2 stack elements of concrete length <= 4, 6 flag bits symbolic in F and in the subset mask' % len(ENT)),
]
