// C11: script verification flags behave as soft forks (they only tighten) -- decided on the REAL EvalScript: the same script on the
// same initial stack with the same signature-checker verdicts is run under a symbolic flag word F and under a symbolic subset
// F' = F & M; success under F must imply success under F' (removing flags never turns an accepted script into a rejected one),
// and equal flag words give identical verdict, error code and resulting stack (determinism).
#include <verif.h>
#include <verif_stubs_common.h>
#include <verif_stubs_pubkey.h>
#include "../C12/c12_ref.h"

struct SymChecker : public BaseSignatureChecker {
    bool sig_ok, lock_ok, seq_ok;
    bool CheckECDSASignature(const std::vector<unsigned char>&, const std::vector<unsigned char>&, const CScript&, SigVersion) const override { return sig_ok; }
    bool CheckLockTime(const CScriptNum&) const override { return lock_ok; }
    bool CheckSequence(const CScriptNum&) const override { return seq_ok; }
};

static uint64_t sym_flags()
{
    uint64_t fl = 0;
    if (nondet_bool()) fl |= F_MINIMALDATA;
    if (nondet_bool()) fl |= F_MINIMALIF;
    if (nondet_bool()) fl |= F_CLTV;
    if (nondet_bool()) fl |= F_CSV;
    if (nondet_bool()) fl |= F_NULLFAIL;
    if (nondet_bool()) fl |= F_DISCOURAGE_NOPS;
    return fl;
}

template <int O1, int O2, int O3, int O4, int NITEMS, int L0, int L1, int L2, int SV>
static void run()
{
    const int LENS[3] = {L0, L1, L2};
    const int OPSA[4] = {O1, O2, O3, O4};
    int nops = 0; for (int i = 0; i < 4; i++) if (OPSA[i] >= 0) nops = i + 1;
    std::vector<std::vector<unsigned char>> s1, s2;
    s1.reserve(NITEMS + 6); s2.reserve(NITEMS + 6);
    for (int i = 0; i < NITEMS; i++) {
        std::vector<unsigned char> a, b; a.resize(LENS[i]); b.resize(LENS[i]);
        for (int j = 0; j < LENS[i]; j++) { const uint8_t x = nondet_u8(); a[j] = x; b[j] = x; }
        s1.push_back(std::move(a)); s2.push_back(std::move(b));
    }
    const uint64_t F = sym_flags();
    const uint64_t Fp = F & sym_flags();          // any subset of F
    CScript script;
    for (int i = 0; i < nops; i++) script << (opcodetype)OPSA[i];
    SymChecker checker; checker.sig_ok = nondet_bool(); checker.lock_ok = nondet_bool(); checker.seq_ok = nondet_bool();
    const SigVersion sv = SV ? SigVersion::WITNESS_V0 : SigVersion::BASE;
    ScriptError e1 = SCRIPT_ERR_UNKNOWN_ERROR, e2 = SCRIPT_ERR_UNKNOWN_ERROR;
    const bool ok1 = EvalScript(s1, script, script_verify_flags::from_int(F), checker, sv, &e1);
    const bool ok2 = EvalScript(s2, script, script_verify_flags::from_int(Fp), checker, sv, &e2);
    verif_observe(ok1); verif_observe(ok2); verif_observe((uint64_t)e1); verif_observe((uint64_t)e2);
    VASSERT(!ok1 || ok2, "a script accepted under flags F is accepted under every subset of F (flags only tighten)");
    if (F == Fp) {
        VASSERT(ok1 == ok2 && e1 == e2, "same flags: same verdict and error (deterministic)");
        bool same = s1.size() == s2.size();
        if (ok1 && same) for (size_t i = 0; i < s1.size() && i < 8; i++) { if (s1[i].size() != s2[i].size()) same = false; else for (size_t j = 0; j < s1[i].size() && j < 6; j++) if (s1[i][j] != s2[i][j]) same = false; }
        if (ok1) VASSERT(same, "same flags: same resulting stack");
    }
    VWITNESS(ok1 && ok2, "accepted under both");
    VWITNESS(!ok1 && ok2, "a flag actually tightens: rejected under F, accepted under the subset");
    VREACH("end");
}
#define VERIF_ENTRY(name, ...) extern "C" void h_##name() { run<__VA_ARGS__>(); }
#include VERIF_ENTRIES_INC
