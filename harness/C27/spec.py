from vlib import H
PROPERTY = 'C27'
LEVEL = 'model_checking'
CLAIM = ('Kernel level only: the dust sentence of the property ("a transaction with a dust output is accepted only if it pays zero fee before and after prioritisation and has a single dust output"). '
         'Memory cap, cluster limits, TRUC topology, rolling minimum fee and CheckEphemeralSpends (needs a live CTxMemPool) are NOT claimed. '
         'Real PreCheckEphemeralTx (policy/ephemeral_policy.cpp), GetDust / IsDust / GetDustThreshold / IsStandardTx (policy/policy.cpp), CScript::IsUnspendable / IsWitnessProgram, GetSerializeSize(CTxOut), Solver (for IsStandardTx): '
         '(a) GetDust(tx, rate) == ascending indices of the outputs that are spendable (not OP_RETURN-prefixed, <= 10,000 bytes) and worth less than the fee, at the dust relay feerate rounded up, of 8 + 1 + script length + 148 bytes '
         '(67 instead of 148 for witness programs: 4..42 bytes, OP_0/OP_1..OP_16, one push of the rest); (b) PreCheckEphemeralTx returns true <=> no dust output OR (base fee == 0 AND modified fee == 0), for all 64-bit fees, '
         'failure = TX_NOT_STANDARD "dust", success leaves the state valid; (c) IsStandardTx on an otherwise standard transaction (version 2, one input with empty scriptSig, P2WPKH/P2WSH/P2A outputs) is true <=> at most one dust output, reason "dust". '
         'The fee function: in harness `ephemeral` CFeeRate::GetFee is replaced by the functional reference ceil(rate*vbytes/1000) (equality of the real GetFee/EvaluateFeeUp with it is C30) for every rate in [0, MAX_MONEY]; '
         'harness `realfee` runs the real GetFee end-to-end against a division-free oracle (1000*value < rate*size) for rates below 2^13 sat/kvB (default 3000).')
def e(lens, mode=0):
    ls = (list(lens) + [0, 0, 0])[:3]
    return ('m%d_%s' % (mode, 'x'.join(map(str, lens))), '%d, %d, %d, %d, %d' % (len(lens), ls[0], ls[1], ls[2], mode))
quick = [e([3]), e([0]), e([4]), e([22, 1]), e([4, 3, 22]), e([22, 22], 1), e([22, 4, 34], 1)]
thorough = quick + [e([1]), e([2]), e([22]), e([34]), e([42]), e([43]), e([4, 4]), e([3, 3, 3]), e([22, 34, 4]), e([34, 34, 34], 1), e([4, 4], 1), e([22], 1)]
LINKS = ['policy/ephemeral_policy.cpp', 'policy/policy.cpp', 'policy/feerate.cpp', 'script/script.cpp', 'script/solver.cpp', 'primitives/transaction.cpp', 'uint256.cpp']
FN = ['PreCheckEphemeralTx (policy/ephemeral_policy.cpp)', 'GetDust, IsDust, GetDustThreshold, IsStandardTx, IsStandard (policy/policy.cpp)', 'CScript::IsUnspendable, CScript::IsWitnessProgram, CScript::IsPushOnly (script/script.*)',
      'Solver (script/solver.cpp)', 'GetSerializeSize(CTxOut), GetTransactionWeight', 'ValidationState::Invalid / GetResult / GetRejectReason', 'CTransaction(CMutableTransaction&&)']
STUBS = ['CSHA256 unconstrained (txid irrelevant)', 'std::vector<uint32_t>::_M_realloc_insert (libstdc++ growth routine of the returned index list) replaced by a fixed-capacity-4 growth model (capacity policy unobservable; a second growth is asserted not to happen)',
         'tinyformat -> empty strings', 'memory_cleanse no-op', 'assertion_fail -> CBMC assertion']
HARNESSES = [
    H('ephemeral', 'ephemeral.cpp', 'h_eph', link=LINKS, entries=quick, tentries=thorough, shadow=['nofmt'], unwind=50, memunwind=48, timeout=600, objbits=10, backends=['default', 'kissat', 'cadical'],
      functions=FN, stubs=STUBS + ['CFeeRate::GetFee -> functional reference ceil(rate*vbytes/1000) with argument log (lemma: C30); the harness asserts it is consulted with exactly size 8+1+len+148|67 for every spendable output'],
      assumptions=['output values in [0, MAX_MONEY]', 'dust relay feerate in [0, MAX_MONEY] sat/kvB', 'MODE 1 entries: the transaction is otherwise standard by construction (so that only the dust-count rule decides)'],
      bounds='1..3 outputs; script lengths (0) (3) (4) (22,1) (4,3,22) all bytes symbolic [so OP_RETURN prefixes and witness-program shapes are decided by the solver]; IsStandardTx: (P2WPKH,P2WPKH) (P2WPKH,P2A,P2WSH) with symbolic programs; '
             'amounts, dust feerate, base fee, modified fee symbolic; thorough adds lengths 1,2,22,34,42,43 and more combinations'),
    H('realfee', 'ephemeral.cpp', 'h_eph', link=LINKS, entries=[e([3]), e([22])], defines={'REALFEE': 1, 'RBITS': 13}, shadow=['nofmt'], unwind=50, memunwind=48, timeout=600, objbits=10, backends=['default', 'kissat', 'cadical', 'z3'],
      functions=FN + ['CFeeRate::GetFee (policy/feerate.cpp)', 'FeeFrac::EvaluateFeeUp (util/feefrac.h)', 'CeilDiv (util/overflow.h)'], stubs=STUBS,
      assumptions=['output values in [0, MAX_MONEY]', 'dust relay feerate in [0, 2^13) sat/kvB (2^20 needs ~190 s with z3 for one 3-byte output and does not finish for a 22-byte one: not claimed)'],
      bounds='one output of 3 or 22 symbolic bytes, real fee arithmetic end to end'),
]
