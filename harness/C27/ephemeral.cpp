// C27 (kernel level): dust and the ephemeral-dust pre-check. Real code: policy/ephemeral_policy.cpp PreCheckEphemeralTx, policy/policy.cpp GetDust / IsDust /
// GetDustThreshold / IsStandardTx (dust-count rule), policy/feerate.cpp CFeeRate::GetFee, util/feefrac.h EvaluateFeeUp, script/script.cpp IsWitnessProgram,
// CScript::IsUnspendable, GetSerializeSize(CTxOut), ValidationState::Invalid.
// Concrete per entry: number of outputs and every scriptPubKey length. Symbolic: every script byte, every amount, the dust relay feerate, base fee and modified fee.
#include <verif.h>
#include <verif_stubs_common.h>
#include <verif_hash_nondet.h>
#include <policy/ephemeral_policy.h>
#include <policy/policy.h>
#include <policy/feerate.h>
#include <consensus/validation.h>
#include <primitives/transaction.h>
#include <script/script.h>
#include <string.h>

void memory_cleanse(void*, size_t) {}
#ifndef REALFEE
// CFeeRate::GetFee replaced by a functional reference (fee = ceil(rate * vbytes / 1000) for a non-negative sat/kvB rate) that logs its arguments: the real
// GetFee / EvaluateFeeUp is proven equal to exactly this by C30 (harness getfee); the REALFEE build of this file runs the real one for small rates.
static int32_t g_fee_arg[8]; static int64_t g_fee_ret[8]; static int g_fee_calls;
CAmount CFeeRate::GetFee(int32_t virtual_bytes) const
{
    __CPROVER_assert(m_feerate.size == 1000 && m_feerate.fee >= 0 && m_feerate.fee <= MAX_MONEY && virtual_bytes >= 0 && virtual_bytes < 4096 && g_fee_calls < 8, "GetFee reference: sat/kvB rate, small non-negative sizes");
    // a function: the same size gets the same (logged) answer, so that repeated evaluations do not create new division circuits
    for (int k = 0; k < 8; k++) if (k < g_fee_calls && g_fee_arg[k] == virtual_bytes) return g_fee_ret[k];
    const uint64_t num = (uint64_t)m_feerate.fee * (uint64_t)virtual_bytes;     // < 2^51 * 2^12
    const int64_t r = (int64_t)((num + 999) / 1000);
    g_fee_arg[g_fee_calls] = virtual_bytes; g_fee_ret[g_fee_calls] = r; g_fee_calls++;
    return r;
}
#endif
#define MAXOUT 3
#define MAXLEN 44

// Growth model for std::vector<uint32_t> (the index list returned by GetDust): the out-of-line libstdc++ growth routine _M_realloc_insert is replaced, by symbol,
// with "allocate capacity 4 on the first growth" (capacity policy is unobservable; more than 4 elements would need a second growth, which is asserted not to
// happen). Reason: GetDust pushes under symbolic conditions, and the generic routine then copies a symbolic number of elements into a buffer of symbolic size.
extern "C" void model_vec_u32_grow(uint32_t** self, uint32_t* pos, const uint32_t* v) __asm__("_ZNSt6vectorIjSaIjEE17_M_realloc_insertIJRKjEEEvN9__gnu_cxx17__normal_iteratorIPjS1_EEDpOT_");
extern "C" void model_vec_u32_grow(uint32_t** self, uint32_t* pos, const uint32_t* v)
{
    __CPROVER_assert(self[0] == nullptr && self[1] == nullptr && pos == nullptr, "vector<uint32_t> growth model: only the first growth (from empty, append) is modelled");
    uint32_t* buf = static_cast<uint32_t*>(operator new(4 * sizeof(uint32_t)));
    buf[0] = *v;
    self[0] = buf; self[1] = buf + 1; self[2] = buf + 4;
}

struct Out { int len; uint8_t b[MAXLEN]; int64_t value; };
// reference dust rule, from the definition in the policy documentation: an output is dust iff it is spendable and its value is below the fee, at the dust
// relay feerate (sat/kvB, rounded up), of its own serialization (8 + compactsize + script) plus the input that spends it: 148 bytes, or 67 bytes
// (32+4+1+107/4+4) if the script is a witness program (4..42 bytes, version opcode OP_0/OP_1..OP_16, then one push of exactly the rest).
static bool ref_is_dust(const Out& o, int64_t rate_kvb, int& call)
{
    const bool unspendable = (o.len > 0 && o.b[0] == 0x6a) || o.len > 10000;
    if (unspendable) return false;                         // no fee is computed for unspendable outputs
    const bool witprog = o.len >= 4 && o.len <= 42 && (o.b[0] == 0x00 || (o.b[0] >= 0x51 && o.b[0] <= 0x60)) && (int)o.b[1] + 2 == o.len;
    const int64_t size = 8 + 1 + o.len + (witprog ? 67 : 148);
#ifndef REALFEE
    // the fee function must have been asked for exactly this size; its (logged) answer is the threshold
    call++;
    for (int k = 0; k < 8; k++) if (k < g_fee_calls && g_fee_arg[k] == size) return o.value < g_fee_ret[k];
    call = 100; return false;                               // the fee function was never asked for this size
#else
    // value < ceil(rate * size / 1000)  <=>  1000 * value < rate * size   (integers, rate >= 0)
    return (__int128)o.value * 1000 < (__int128)rate_kvb * size;
#endif
}

// MODE 0: GetDust + PreCheckEphemeralTx, 1: IsStandardTx dust-count rule
template <int NOUT, int L0, int L1, int L2, int MODE>
static void run()
{
    const int LENS[MAXOUT] = {L0, L1, L2};
    Out o[MAXOUT];
    CMutableTransaction m; m.vin.resize(1); m.vout.resize(NOUT);
    m.version = 2;
    for (int i = 0; i < NOUT; i++) {
        o[i].len = LENS[i]; o[i].value = nondet_i64();
        VASSUME(o[i].value >= 0 && o[i].value <= MAX_MONEY);
        CScript s; s.resize(LENS[i]);
        for (int k = 0; k < LENS[i]; k++) { o[i].b[k] = nondet_u8(); s[k] = o[i].b[k]; }
        if (MODE == 1) {    // otherwise-standard outputs: P2WPKH (22), P2WSH (34) or P2A (4) templates: concrete opcode skeleton, symbolic program bytes
            static const uint8_t P2A[4] = {0x51, 0x02, 0x4e, 0x73};
            if (LENS[i] == 4) for (int k = 0; k < 4; k++) { o[i].b[k] = P2A[k]; s[k] = P2A[k]; }
            else { o[i].b[0] = 0x00; s[0] = 0x00; o[i].b[1] = (uint8_t)(LENS[i] - 2); s[1] = (uint8_t)(LENS[i] - 2); }
        }
        m.vout[i].nValue = o[i].value; m.vout[i].scriptPubKey = s;
    }
    const CTransaction tx(std::move(m));
    const int64_t rate = nondet_i64();
#ifdef REALFEE
    VASSUME(rate >= 0 && rate < (1LL << RBITS));            // end-to-end with the real GetFee: small rates only (64-bit division vs multiplication oracle)
#else
    VASSUME(rate >= 0 && rate <= MAX_MONEY);                // -dustrelayfee is a parsed money amount per kvB
#endif
    const CFeeRate dust_rate{rate};

    bool dust[MAXOUT]; int ndust = 0;
#ifndef REALFEE
    g_fee_calls = 0;
    { const std::vector<uint32_t> warm = GetDust(tx, dust_rate); verif_observe(warm.size()); }      // logs the (size, fee) pairs, one per spendable output in order
#endif
    int call = 0;
    for (int i = 0; i < NOUT; i++) { dust[i] = ref_is_dust(o[i], rate, call); if (dust[i]) ndust++; }
#ifndef REALFEE
    VASSERT(call <= NOUT, "the fee function was consulted for every spendable output with size = 8 + 1 + script length + 148 (67 for witness programs)");
#endif

    if (MODE == 0) {
        const std::vector<uint32_t> got = GetDust(tx, dust_rate);
        bool same = (int)got.size() == ndust; int p = 0;
        for (int i = 0; i < NOUT; i++) if (dust[i]) { if (same && p < (int)got.size() && got[p] != (uint32_t)i) same = false; p++; }
        verif_observe(got.size());
        VASSERT(same, "GetDust == indices (ascending) of the outputs that are dust by the reference rule");

        const int64_t base_fee = nondet_i64(), mod_fee = nondet_i64();
        TxValidationState state;
        const bool ok = PreCheckEphemeralTx(tx, dust_rate, base_fee, mod_fee, state);
        verif_observe(ok);
        VASSERT(ok == (ndust == 0 || (base_fee == 0 && mod_fee == 0)), "PreCheckEphemeralTx passes <=> no dust output, or base fee and modified fee are both zero");
        if (ok) VASSERT(state.IsValid(), "validation state untouched on success");
        else VASSERT(state.IsInvalid() && state.GetResult() == TxValidationResult::TX_NOT_STANDARD && state.GetRejectReason() == "dust", "failure is TX_NOT_STANDARD / dust");
        VWITNESS(ok && ndust > 0, "zero-fee transaction with dust passes");
        VWITNESS(!ok && base_fee == 0, "dust with only a modified fee is rejected");
        VWITNESS(!ok && mod_fee == 0, "dust with only a base fee is rejected");
        VWITNESS(ok && ndust == 0 && base_fee != 0, "fee-paying transaction without dust passes");
        if (NOUT >= 2) VWITNESS(ndust == NOUT, "every output dust");
    } else {
        // the "at most one dust output" standardness rule on an otherwise standard transaction (version 2, one empty scriptSig, standard witness outputs)
        std::string reason;
        const bool std_ok = IsStandardTx(tx, /*max_datacarrier_bytes=*/std::nullopt, /*permit_bare_multisig=*/nondet_bool(), dust_rate, reason);
        verif_observe(std_ok);
        VASSERT(std_ok == (ndust <= 1), "otherwise-standard transaction is standard <=> at most one dust output");
        if (!std_ok) VASSERT(reason == "dust", "reject reason dust");
        VWITNESS(std_ok && ndust == 1, "one dust output is standard");
        if (NOUT >= 2) VWITNESS(!std_ok, "two dust outputs are non-standard");
    }
    VREACH("end");
}
#define VERIF_ENTRY(name, ...) extern "C" void h_##name() { run<__VA_ARGS__>(); }
#include VERIF_ENTRIES_INC
