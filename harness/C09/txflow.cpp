// C09 / C02: connecting one transaction to a real CCoinsViewCache stack and disconnecting it again; existence / double-spend rules.
// Real code: UpdateCoins, ApplyTxInUndo (validation.cpp), AddCoins, CCoinsViewCache::{HaveInputs,SpendCoin,AddCoin,HaveCoin,PeekCoin,Flush}
// (coins.cpp), Consensus::CheckTxInputs (consensus/tx_verify.cpp), CScript::IsUnspendable.
// Concrete per entry (template arguments): which of the two base outpoints exist (PRESENT), which the transaction spends (SPEND mask),
// number of outputs and whether output 0 is an OP_RETURN, scenario. Symbolic: every coin value / height / coinbase flag, output values,
// block height.
#define NKEYS 4
#define VERIF_CUSTOM_KEYS
#include <primitives/transaction.h>
#include <uint256.h>
// the transaction under test has a fixed, concrete txid so that the outpoints of its outputs are concrete cache keys
static uint256 T_ID(int which) { uint256 u; u.data()[0] = (unsigned char)(0x11 * (which + 1)); u.data()[31] = 0x7f; return u; }
// outpoint domain: 0,1 = pre-existing base outpoints; 2,3 = outputs 0,1 of the transaction under test
static inline COutPoint KEY(int k) { if (k < 2) { uint256 u; u.data()[0] = (unsigned char)(k + 1); return COutPoint(Txid::FromUint256(u), (uint32_t)k); } return COutPoint(Txid::FromUint256(T_ID(0)), (uint32_t)(k - 2)); }
static inline int KEYIDX(const COutPoint& o) { for (int k = 0; k < NKEYS; k++) if (o == KEY(k)) return k; return -1; }
#include "../C15/coins_common.h"
#include <verif_hash_nondet.h>
#include <consensus/tx_verify.h>
#include <consensus/validation.h>
#include <primitives/transaction.h>
#include <undo.h>
#include <validation.h>
#include <util/moneystr.h>

// non-static free functions of validation.cpp without a public declaration
void UpdateCoins(const CTransaction& tx, CCoinsViewCache& inputs, CTxUndo& txundo, int nHeight);
int ApplyTxInUndo(Coin&& undo, CCoinsViewCache& view, const COutPoint& out);
static int g_txsel = 0;
Txid CTransaction::ComputeHash() const { return Txid::FromUint256(T_ID(g_txsel)); }
Wtxid CTransaction::ComputeWitnessHash() const { return Wtxid::FromUint256(T_ID(g_txsel)); }
std::string FormatMoney(const CAmount) { return std::string(); }

static COutPoint DKEY(int k) { return KEY(k); }

static bool same(const std::optional<Coin>& c, const ModelCoin& m)
{
    if (c.has_value() != m.present) return false;
    if (!c) return true;
    return c->out.nValue == m.value && c->nHeight == m.height && (bool)c->fCoinBase == m.coinbase && !c->IsSpent();
}

// SCEN 0: connect then disconnect restores the view exactly (C09)
// SCEN 1: after connecting, a second transaction spending the same inputs / a never-created outpoint / the unspendable output is refused (C02)
template <int PRESENT, int SPEND, int NOUT, int OPRET0, int SCEN>
static void run()
{
    ModelView base; ModelCoin mv[NKEYS];
    for (int k = 0; k < NKEYS; k++) {
        base.m[k].present = k < 2 && ((PRESENT >> k) & 1); base.m[k].value = (int64_t)nondet_range(0, 2100000000000000ULL);
        base.m[k].height = (uint32_t)nondet_range(1, 0x7ffffffe); base.m[k].coinbase = nondet_bool();
        mv[k] = base.m[k];
    }
#ifdef ONE_LAYER
    CCoinsViewCache view(&base, true);   // the UTXO view validation works on: one cache over the (map-model) database view
#else
    CCoinsViewCache parent(&base, true);
    CCoinsViewCache view(&parent, true);
#endif

    g_txsel = 0;
    CMutableTransaction m;
    for (int k = 0; k < 2; k++) if ((SPEND >> k) & 1) { CTxIn in; in.prevout = KEY(k); m.vin.push_back(in); }
    m.vout.resize(NOUT);
    for (int o = 0; o < NOUT; o++) { m.vout[o].nValue = (int64_t)nondet_range(0, 2100000000000000ULL); if (o == 0 && OPRET0) { m.vout[o].scriptPubKey.resize(1); m.vout[o].scriptPubKey[0] = 0x6a; } }
    const CTransaction tx(std::move(m));
    const int height = (int)nondet_range(1, 0x7ffffffe);

    // ---- existence: HaveInputs iff every spent outpoint is present and unspent
    const bool all_present = ((SPEND & PRESENT) == SPEND);
    VASSERT(view.HaveInputs(tx) == all_present, "HaveInputs iff every prevout exists unspent in the view");
    if (!all_present) {
        TxValidationState st; CAmount fee = 0;
        VASSERT(!Consensus::CheckTxInputs(tx, st, view, height, fee) && st.GetResult() == TxValidationResult::TX_MISSING_INPUTS, "a transaction spending a missing output is refused as missing-inputs");
        VREACH("end-missing"); return;
    }

    // ---- connect
    CTxUndo undo;
    UpdateCoins(tx, view, undo, height);
    for (int k = 0; k < 2; k++) if ((SPEND >> k) & 1) {
        VASSERT(!view.HaveCoin(KEY(k)), "a spent output is no longer available");
        mv[k].present = false;
    }
    for (int o = 0; o < NOUT; o++) {
        const bool unspendable = (o == 0 && OPRET0);
        VASSERT(view.HaveCoin(DKEY(2 + o)) == !unspendable, "outputs are added to the UTXO view unless provably unspendable");
        if (!unspendable) { mv[2 + o].present = true; mv[2 + o].value = tx.vout[o].nValue; mv[2 + o].height = (uint32_t)height; mv[2 + o].coinbase = false; }
    }
    for (int k = 0; k < NKEYS; k++) VASSERT(same(view.PeekCoin(DKEY(k)), mv[k]), "view after connect equals the map model");
    VASSERT((int)undo.vprevout.size() == __builtin_popcount(SPEND), "one undo record per input");

    if (SCEN == 1) {
        // a second transaction (different txid) spending one of the same inputs, or the unspendable output, or an output that was never created
        g_txsel = 1;
        for (int target = 0; target < 4; target++) {
            CMutableTransaction m2; CTxIn in; in.prevout = (target < 3) ? DKEY(target) : COutPoint(Txid::FromUint256(T_ID(0)), 7); m2.vin.push_back(in); m2.vout.resize(1); m2.vout[0].nValue = 0;
            const CTransaction tx2(std::move(m2));
            const bool avail = target < 3 && mv[target].present;
            VASSERT(view.HaveInputs(tx2) == avail, "an output can be spent only if it exists and has not been spent");
            if (!avail) { TxValidationState st; CAmount fee = 0; VASSERT(!Consensus::CheckTxInputs(tx2, st, view, height, fee) && st.GetResult() == TxValidationResult::TX_MISSING_INPUTS, "double spend / non-existent / unspendable output refused"); }
        }
        view.SanityCheck();
        VREACH("end-doublespend"); return;
    }

    // ---- disconnect (the per-transaction body of DisconnectBlock)
    for (int o = 0; o < NOUT; o++) {
        if (o == 0 && OPRET0) continue;
        Coin coin; const bool is_spent = view.SpendCoin(DKEY(2 + o), &coin);
        VASSERT(is_spent && coin.out.nValue == tx.vout[o].nValue && coin.nHeight == (uint32_t)height && !coin.fCoinBase, "disconnect finds exactly the output that connect created");
        mv[2 + o].present = false;
    }
    int j = (int)undo.vprevout.size();
    for (int k = 1; k >= 0; k--) if ((SPEND >> k) & 1) {
        j--;
        const int res = ApplyTxInUndo(std::move(undo.vprevout[j]), view, KEY(k));
        VASSERT(res == DISCONNECT_OK, "undo of an input is clean");
        mv[k] = base.m[k];
    }
    for (int k = 0; k < NKEYS; k++) VASSERT(same(view.PeekCoin(DKEY(k)), base.m[k]), "after disconnect the view equals the view before connect (value, height, coinbase flag)");
    view.SanityCheck();
#ifdef ONE_LAYER
    view.Flush();
#else
    view.Flush(); parent.Flush();
#endif
    for (int k = 0; k < 2; k++) {
        const bool p = (PRESENT >> k) & 1;
        VASSERT(base.m[k].present == p, "flushing connect+disconnect leaves the base UTXO set unchanged (presence)");
    }
    VREACH("end-roundtrip");
}
#define VERIF_ENTRY(name, ...) extern "C" void h_##name() { run<__VA_ARGS__>(); }
#include VERIF_ENTRIES_INC
