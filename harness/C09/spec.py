from vlib import H
PROPERTY = 'C09'
LEVEL = 'model_checking'
CLAIM = ('Connect/undo inverse on one transaction over a real two-layer CCoinsViewCache stack: after the real UpdateCoins(tx) followed by the per-transaction body of DisconnectBlock '
         '(spend the created outputs, ApplyTxInUndo in reverse input order) every outpoint of the domain answers exactly as before (value, height AND coinbase flag), ApplyTxInUndo '
         'returns DISCONNECT_OK, and flushing leaves the base unchanged; for every enumerated shape (which base coins exist, which are spent, 1-2 outputs, OP_RETURN output) with all '
         'coin contents, output values and the block height symbolic. Whole-chain replay equality, undo files on disk and ActivateBestChainStep are not decided.')
LINK = ['validation.cpp', 'coins.cpp', 'consensus/tx_verify.cpp', 'primitives/transaction.cpp', 'script/script.cpp', 'uint256.cpp', 'hash.cpp']
def e(present, spend, nout, opret, scen):
    return ('p%d_s%d_o%d%s_%s' % (present, spend, nout, 'r' if opret else '', 'rt' if scen == 0 else 'ds'), '%d, %d, %d, %d, %d' % (present, spend, nout, opret, scen))
RT = [e(1, 1, 1, 0, 0), e(3, 3, 2, 0, 0), e(3, 1, 2, 1, 0), e(3, 2, 1, 0, 0), e(1, 3, 1, 0, 0)]
DS = [e(1, 1, 1, 0, 1), e(3, 3, 2, 1, 1), e(2, 2, 2, 0, 1), e(0, 1, 1, 0, 1)]
ST = ['PoolAllocator forwards to operator new (ref/nopool)', 'tinyformat -> empty strings', 'CTransaction::ComputeHash/ComputeWitnessHash return fixed distinct constants (concrete cache keys; SHA-256 is not the subject)',
      'FormatMoney -> empty string', 'FastRandomContext/ChaCha20 nondeterministic (unused)', 'assertion_fail -> CBMC assertion', 'base view = harness map model', 'coin scripts empty except the OP_RETURN marker']
FN = ['UpdateCoins', 'ApplyTxInUndo (validation.cpp)', 'AddCoins', 'CCoinsViewCache::HaveInputs/SpendCoin/AddCoin/HaveCoin/PeekCoin/AccessCoin/Flush/BatchWrite (coins.cpp)', 'Consensus::CheckTxInputs (tx_verify.cpp)', 'CScript::IsUnspendable', 'CTxUndo']
HARNESSES = [
    H('txflow', 'txflow.cpp', 'h_txflow', link=LINK, entries=RT, shadow=['nofmt', 'nopool'], unwind=20, memunwind=112, timeout=900, objbits=11, functions=FN, stubs=ST,
      bounds='2 base outpoints + 2 created outpoints; shapes: ' + ', '.join(x[0] for x in RT) + '; all values symbolic'),
    H('txflow1', 'txflow.cpp', 'h_txflow', link=LINK, entries=RT, defines={'ONE_LAYER': 1}, shadow=['nofmt', 'nopool'], unwind=20, memunwind=112, timeout=900, objbits=11, functions=FN, stubs=ST,
      bounds='ONE cache layer over the map-model base; 2 base outpoints + 2 created outpoints; shapes: ' + ', '.join(x[0] for x in RT) + '; all values symbolic'),
]
