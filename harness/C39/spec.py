from vlib import H
PROPERTY = 'C39'
LEVEL = 'model_checking'
CLAIM = ('Queue kernel of private broadcast: the real PrivateBroadcast (private_broadcast.cpp: Add, Remove, PickTxForSend, GetTxForNode, NodeConfirmedReception, DidNodeConfirmReception, '
         'HavePendingTransactions, GetStale, IsPending, DerivePriority, GetSendStatusByNode on the real std::unordered_map/std::vector) started from an arbitrary well-formed queue state over two '
         'transactions (presence, number of recorded sends and max_send_attempts in 1..3 concrete per shape; node ids, pick/confirmation/add times, confirmation flags, max_transactions in 0..3 and a '
         'non-decreasing clock symbolic) and driven by up to three operations of concrete kind agrees after every operation with a reference queue written from the header documentation: Add returns '
         'Added/AlreadyPresent/QueueFull by the documented rule and resets only exhausted transactions; the queue never exceeds max_transactions; no transaction has more than max_send_attempts sends; '
         'PickTxForSend returns a transaction iff one is pending, only a pending one, never one that is less urgent than another pending one (fewest sends, fewest confirmations, oldest send, oldest confirmation), '
         'and records exactly one new send for exactly that node id; a node id maps to at most one transaction and GetTxForNode(id) returns exactly the transaction picked for id; GetStale returns exactly the '
         'pending transactions not added/confirmed within the documented durations. The default limits are 10,000 transactions / 1,000 sends. '
         'The mempool/net_processing side of the property (m_last_inv_sequence rule, staying out of the mempool, announcing only on private-broadcast connections) is not decided.')
OPS = dict(none=0, add0=1, add0copy=2, add1=3, rm0=4, rm1=5, pick=6, confirm=7, q=8, stale=9)
W = dict(added=1, notadded=2, t0=4, t1=8, none=16, known=32, unknown=64, stale=128)
def pend(s, ms): return 0 <= s < ms
def auto_wit(ms, s0, s1, op):
    # which witnesses are satisfiable for a single operation from this shape (only decides which witnesses are demanded; a wrong guess makes the run inconclusive, never green)
    S = [s0, s1]; w = 0; n = sum(1 for x in S if x >= 0)
    if op == 'pick':
        p0, p1 = pend(s0, ms), pend(s1, ms)
        if p0 and (not p1 or s0 < s1 or (s0 == s1 and s0 >= 1)): w |= W['t0']
        if p1 and (not p0 or s1 < s0 or (s0 == s1 and s0 >= 1)): w |= W['t1']
        if not p0 and not p1: w |= W['none']
    if op in ('add0', 'add0copy', 'add1'):
        me = s1 if op == 'add1' else s0
        if me < 0: w |= W['notadded'] | W['added']      # full (max_transactions == n) or room
        else: w |= W['notadded'] if pend(me, ms) else W['added']
    if op == 'confirm' and (s0 > 0 or s1 > 0): w |= W['known']
    if op == 'q': w |= W['unknown'] | (W['known'] if (s0 > 0 or s1 > 0) else 0)
    if op == 'stale' and any(pend(x, ms) for x in S): w |= W['stale']
    return w
def e(ms, s0, s1, *ops, wit=None):
    assert s0 <= ms and s1 <= ms
    o = (list(ops) + ['none', 'none', 'none'])[:3]
    nm = 'm%d_s%s%s_%s' % (ms, 'a' if s0 < 0 else s0, 'a' if s1 < 0 else s1, '_'.join(ops))
    if wit is None:
        wit = auto_wit(ms, s0, s1, ops[0])
        if len(ops) == 2 and ops[1] == 'q' and ops[0] in ('confirm',): wit |= auto_wit(ms, s0, s1, 'q')
    else: wit = sum(W[x] for x in wit)
    return (nm, '%d, %d, %d, %d, %d, %d, %d' % (ms, s0, s1, OPS[o[0]], OPS[o[1]], OPS[o[2]], wit))
def states(ms): return [(a, b) for a in range(-1, ms + 1) for b in range(-1, ms + 1)]
quick = []
# PickTxForSend from every state shape with max_send_attempts = 2 (followed by the read-only queries on the post state), and boundary shapes for 1 and 3
for a, b in states(2):
    if not (a == b == 1): quick.append(e(2, a, b, 'pick', 'q'))   # (1,1): both pending with equal counts, the choice is decided by the symbolic times -> no verdict in 400 s; the comparison itself is decided by harness `priority`
for a, b in [(0, 0), (1, 0)]: quick.append(e(1, a, b, 'pick', 'q'))
for a, b in [(3, 2), (1, 3)]: quick.append(e(3, a, b, 'pick', 'q'))
# Add / Remove / Confirm single steps
for ms, a, b in [(2, -1, -1), (2, -1, 1), (2, 0, 0), (2, 2, 1), (3, 3, 0), (3, 2, 3)]: quick.append(e(ms, a, b, 'add0'))
for ms, a, b in [(2, -1, 0), (2, 1, 1), (3, 3, 1)]: quick.append(e(ms, a, b, 'add0copy'))
for ms, a, b in [(2, -1, 1), (2, 1, 1), (3, 3, 1)]: quick.append(e(ms, a, b, 'rm0', 'q'))
for ms, a, b in [(2, 1, 0), (2, 2, 1), (3, 3, 2)]: quick.append(e(ms, a, b, 'confirm', 'q'))
# GetStale (at most one pending transaction; two pending ones are out of reach, see bounds)
for ms, a, b in [(2, 0, -1), (2, 1, 2), (2, -1, 1), (3, 2, 3), (2, 2, 2)]: quick.append(e(ms, a, b, 'stale'))
# three-operation histories
quick += [e(1, 0, -1, 'pick', 'rm0', 'add0', wit=['t0', 'added']), e(2, 2, -1, 'pick', 'add0', 'pick', wit=['t0', 'none', 'added'])]
# quick keeps ~27 shapes (budget: ~90 s CPU per query); the rest of the list above runs in the thorough tier
DEFER = {'m2_sa1_pick_q', 'm2_sa2_pick_q', 'm2_s1a_pick_q', 'm2_s2a_pick_q', 'm2_s02_pick_q', 'm2_s20_pick_q', 'm2_s00_add0', 'm3_s23_add0', 'm3_s31_add0copy', 'm2_sa1_rm0_q', 'm2_s10_confirm_q', 'm2_sa1_stale', 'm2_s22_stale', 'm3_s31_rm0_q'}
thorough = list(quick)
quick = [x for x in quick if x[0] not in DEFER]
for ms in (1, 2, 3):
    for a, b in states(ms):
        for op in (('pick', 'add0', 'add0copy', 'rm0', 'confirm') if ms == 2 else ('pick',)):
            if op == 'pick' and pend(a, ms) and pend(b, ms) and a == b and a >= 1: continue
            thorough.append(e(ms, a, b, op, 'q'))
        if ms == 2 and not (pend(a, ms) and pend(b, ms)): thorough.append(e(ms, a, b, 'stale'))
def uniq(l):
    seen = set(); out = []
    for x in l:
        if x[0] not in seen: seen.add(x[0]); out.append(x)
    return out
quick = uniq(quick); thorough = uniq(thorough)
TP = 'NSt6chrono10time_pointI9NodeClockNS7_8durationIlSt5ratioILl1ELl1000000000EEEEEE'
TP2 = TP.replace('NS7_', 'NSA_')
# loops with a constant trip count above the global bound: 16-byte address copies (prevector in CService), 13 initial hash buckets
BIG = ['_ZNSt6vectorIN16PrivateBroadcast10SendStatusESaIS1_EE17_M_realloc_insertIJRl8CService%sEEEvN9__gnu_cxx17__normal_iteratorIPS1_S3_EEDpOT_.0' % TP,
       '_ZNSt6vectorIN16PrivateBroadcast10SendStatusESaIS1_EE17_M_realloc_insertIJRKlRK8CService%sEEEvN9__gnu_cxx17__normal_iteratorIPS1_S3_EEDpOT_.0' % TP2,
       '_ZNSt6vectorIN16PrivateBroadcast10SendStatusESaIS1_EE12emplace_backIJRl8CService%sEEERS1_DpOT_.0' % TP,
       '_ZNSt6vectorIN16PrivateBroadcast10SendStatusESaIS1_EE12emplace_backIJRKlRK8CService%sEEERS1_DpOT_.0' % TP2,
       '_ZSt16__do_uninit_copyIPKN16PrivateBroadcast10SendStatusEPS1_ET0_T_S6_S5_.0']
HT = '_ZNSt10_HashtableISt10shared_ptrIK12CTransactionESt4pairIKS3_N16PrivateBroadcast12TxSendStatusEESaIS8_ENSt8__detail10_Select1stENS6_19CTransactionRefCompENS6_19CTransactionRefHashENSA_18_Mod_range_hashingENSA_20_Default_ranged_hashENSA_20_Prime_rehash_policyENSA_17_Hashtable_traitsILb1ELb0ELb1EEEE13_M_rehash_auxEmSt17integral_constantIbLb1EE.0'
US = ','.join(['%s:17' % x for x in BIG] + [HT + ':14'])
LINK = ['private_broadcast.cpp', 'primitives/transaction.cpp', 'script/script.cpp', 'uint256.cpp', 'hash.cpp', 'netaddress.cpp']
FN = ['PrivateBroadcast::Add/Remove/PickTxForSend/GetTxForNode/NodeConfirmedReception/DidNodeConfirmReception/HavePendingTransactions/GetStale/IsPending/DerivePriority/GetSendStatusByNode (private_broadcast.cpp)',
      'PrivateBroadcast::Priority::operator<=>, CTransactionRefHash/CTransactionRefComp (private_broadcast.h)', 'std::unordered_map (find/try_emplace/extract), std::vector<SendStatus>, std::ranges::max_element (libstdc++ headers)']
STUBS = ['NodeClock::now -> harness clock (symbolic, non-decreasing)', 'CSHA256 -> harness-chosen transaction id (wtxid = txid = id)', 'pthread_mutex_lock/trylock/unlock -> no-op (single thread)',
         'std::views::filter pipe in PickTxForSend rewritten to an equivalent hand-written filter view (tool/overlay.py, clang-14 cannot instantiate libstdc++ views)',
         'std::_Prime_rehash_policy integer model (tool/models/stl_models.cpp)', 'assertion_fail -> CBMC assertion', 'shared_ptr<CTransaction> disposal (delete of a transaction whose last reference is dropped) emptied: deallocation is not modelled', 'tinyformat -> empty strings']
HARNESSES = [
    H('limits', 'pbq.cpp', 'h_limits', link=LINK, shadow=['nofmt'], unwind=16, memunwind=40, timeout=300, objbits=10, functions=['PrivateBroadcast::PrivateBroadcast, MAX_TRANSACTIONS, MAX_SEND_ATTEMPTS'], stubs=STUBS,
      bounds='constants'),
    H('priority', 'pbq.cpp', 'h_prio', link=LINK, variants=[{'PN0': a, 'PN1': b} for a, b in [(0, 0), (1, 1), (2, 2), (1, 2)]], tvariants=[{'PN0': a, 'PN1': b} for a, b in [(0, 0), (1, 1), (2, 2), (1, 2), (2, 0), (3, 3), (3, 1)]], shadow=['nofmt'], unwind=18, memunwind=40, timeout=400, objbits=11,
      functions=['PrivateBroadcast::DerivePriority, PrivateBroadcast::Priority::operator<=> (private_broadcast.cpp/.h)', 'std::vector<SendStatus>'], stubs=STUBS,
      bounds='two send lists of 0..3 sends; node ids, pick and confirmation times (after the epoch) and confirmation flags symbolic'),
    H('pbq', 'pbq.cpp', 'h_pbq', link=LINK, noop=['_ZNSt15_Sp_counted_ptrIP12CTransactionLN9__gnu_cxx12_Lock_policyE2EE10_M_disposeEv'], entries=quick, tentries=thorough, shadow=['nofmt'], unwind=6, unwindset=US, memunwind=40, timeout=600, objbits=11, functions=FN, stubs=STUBS,
      assumptions=['start state well-formed: size <= max_transactions, sends per transaction <= max_send_attempts, node ids pairwise distinct, times after the epoch and not in the future (each re-asserted after every operation)',
                   'PickTxForSend is called with a node id not used before (documented precondition; the code Assume()s it)'],
      bounds='%d quick / %d thorough shapes: 2 transactions (absent or 0..3 recorded sends each), max_send_attempts 1..3, 1-3 operations (mostly single inductive steps from an arbitrary state, followed by the read-only queries); ids/times/flags/max_transactions symbolic. '
             'Not established (no verdict within 400 s): PickTxForSend when both transactions are pending with equal non-zero send counts (choice decided by symbolic times; the comparison itself is decided by harness `priority`), histories with two or more picks after such a choice, GetStale with two pending transactions' % (len(quick), len(thorough))),
]
