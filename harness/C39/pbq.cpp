// C39 (queue kernel): the real PrivateBroadcast (private_broadcast.cpp) driven from an arbitrary well-formed queue state by <= 3 operations
// of concrete kind and compared, after every operation, with a reference queue written from the documentation in private_broadcast.h and
// the property text. Single inductive steps (DESIGN 2.3): the start state is built directly inside the real unordered_map (presence and number
// of sends per transaction are the concrete shape; node ids, times, confirmation flags, limits and the clock are symbolic), the state
// invariants (size <= max_transactions, one transaction per node id) are assumed before and asserted after.
#include <verif.h>
#include <verif_stubs_common.h>
#include <crypto/sha256.h>
#include <optional>
#include <tuple>
#include <unordered_map>
#include <vector>
#include <string.h>
#include <primitives/transaction.h>
#include <util/time.h>
#include <sync.h>
#include <net.h>
#define private public
#include <private_broadcast.h>
#undef private

// ---- environment stubs
// the hash of the next transaction is chosen by the harness: wtxid == txid == (id, 0, ..., 0)
static uint8_t g_next_id;
CSHA256::CSHA256() {}
CSHA256& CSHA256::Write(const unsigned char*, size_t len) { bytes += len; return *this; }
CSHA256& CSHA256::Reset() { bytes = 0; return *this; }
void CSHA256::Finalize(unsigned char hash[OUTPUT_SIZE]) { memset(hash, 0, 32); hash[0] = g_next_id; }
// symbolic non-decreasing clock
static int64_t g_now;
NodeClock::time_point NodeClock::now() noexcept { return NodeClock::time_point{std::chrono::nanoseconds{g_now}}; }
static void tick() { const int64_t d = (int64_t)nondet_range(0, (uint64_t)1 << 50); g_now += d; }
extern "C" {
int pthread_mutex_lock(pthread_mutex_t*) noexcept { return 0; }
int pthread_mutex_trylock(pthread_mutex_t*) noexcept { return 0; }
int pthread_mutex_unlock(pthread_mutex_t*) noexcept { return 0; }
}

// ---- reference queue
#define MAXS 4
struct MSend { int64_t node; int64_t picked; bool conf; int64_t conft; };
struct MTx { bool present; int64_t added; int n; MSend s[MAXS]; };
static MTx M[2];
static uint64_t g_maxtx, g_maxsend;
static int64_t ns(NodeClock::time_point t) { return t.time_since_epoch().count(); }

static bool m_pending(int i) { return M[i].present && (uint64_t)M[i].n < g_maxsend; }
static int m_size() { return (M[0].present ? 1 : 0) + (M[1].present ? 1 : 0); }
static int m_conf(int i) { int c = 0; for (int k = 0; k < MAXS; k++) if (k < M[i].n && M[i].s[k].conf) c++; return c; }
// most recent pick / confirmation time (0 = never; the clock is assumed to be after the epoch)
static int64_t m_lastpick(int i) { int64_t t = 0; for (int k = 0; k < MAXS; k++) if (k < M[i].n && M[i].s[k].picked > t) t = M[i].s[k].picked; return t; }
static int64_t m_lastconf(int i) { int64_t t = 0; for (int k = 0; k < MAXS; k++) if (k < M[i].n && M[i].s[k].conf && M[i].s[k].conft > t) t = M[i].s[k].conft; return t; }
// documented order: fewest sends, then fewest confirmations, then oldest send, then oldest confirmation. true = i strictly more urgent than j
static bool m_more_urgent(int i, int j)
{
    if (M[i].n != M[j].n) return M[i].n < M[j].n;
    const int ci = m_conf(i), cj = m_conf(j);
    if (ci != cj) return ci < cj;
    const int64_t pi = m_lastpick(i), pj = m_lastpick(j);
    if (pi != pj) return pi < pj;
    return m_lastconf(i) < m_lastconf(j);
}
// which transaction holds node id (-1 none); *slot = index of the send
static int m_find_node(int64_t node, int* slot)
{
    int r = -1; *slot = -1;
    for (int i = 0; i < 2; i++) for (int k = 0; k < MAXS; k++) if (M[i].present && k < M[i].n && M[i].s[k].node == node && r < 0) { r = i; *slot = k; }
    return r;
}
static bool m_nodes_distinct()
{
    bool ok = true;
    for (int i = 0; i < 2; i++) for (int k = 0; k < MAXS; k++) for (int j = 0; j < 2; j++) for (int l = 0; l < MAXS; l++)
        if ((i != j || k != l) && M[i].present && M[j].present && k < M[i].n && l < M[j].n && M[i].s[k].node == M[j].s[l].node) ok = false;
    return ok;
}

static CTransactionRef mk_tx(uint8_t id, uint32_t lock)
{
    CMutableTransaction m; m.vin.resize(1); m.vout.resize(1); m.nLockTime = lock;
    g_next_id = id;
    return CTransactionRef(new CTransaction(std::move(m)));
}

enum { K_NONE, K_ADD0, K_ADD0_COPY, K_ADD1, K_REMOVE0, K_REMOVE1, K_PICK, K_CONFIRM, K_QUERIES, K_STALE };
// witnesses expected per entry (a label is confirmed if one of its instances is)
enum { W_ADDED = 1, W_NOTADDED = 2, W_PICK_T0 = 4, W_PICK_T1 = 8, W_PICK_NONE = 16, W_KNOWN = 32, W_UNKNOWN = 64, W_STALE = 128 };

struct World {
    PrivateBroadcast* pb; CTransactionRef t[2]; CTransactionRef t0copy;
    int64_t last_pick_node; int last_pick_tx;
};

// the real container holds exactly the reference state
static void compare_state(World& w)
{
    PrivateBroadcast& pb = *w.pb;
    bool ok_presence = true, ok_fields = true, ok_count = true;
    for (int i = 0; i < 2; i++) {
        auto it = pb.m_transactions.find(w.t[i]);
        const bool present = it != pb.m_transactions.end();
        if (present != M[i].present) ok_presence = false;
        if (present && M[i].present) {
            const auto& st = it->second;
            if (st.send_statuses.size() != (size_t)M[i].n) ok_count = false;
            if (ns(st.time_added) != M[i].added) ok_fields = false;
            for (int k = 0; k < MAXS; k++) if (k < M[i].n && (size_t)k < st.send_statuses.size()) {
                const auto& s = st.send_statuses[k];
                if (s.nodeid != M[i].s[k].node || ns(s.picked) != M[i].s[k].picked || s.confirmed.has_value() != M[i].s[k].conf) ok_fields = false;
                if (s.confirmed.has_value() && M[i].s[k].conf && ns(*s.confirmed) != M[i].s[k].conft) ok_fields = false;
            }
        }
    }
    VASSERT(ok_presence, "queue holds exactly the transactions of the reference queue");
    VASSERT(pb.m_transactions.size() == (size_t)m_size(), "queue size equals reference size");
    VASSERT(ok_count, "number of recorded sends per transaction equals the reference");
    VASSERT(ok_fields, "time_added / node id / pick time / confirmation of every send equal the reference");
    // invariants of the property
    VASSERT(pb.m_transactions.size() <= g_maxtx, "queue never holds more than max_transactions");
    VASSERT(m_nodes_distinct(), "one transaction per node id");
    VASSERT((!M[0].present || (uint64_t)M[0].n <= g_maxsend) && (!M[1].present || (uint64_t)M[1].n <= g_maxsend), "a transaction is never sent more than max_send_attempts times");
}

template <int WIT> static void do_add(World& w, int i, const CTransactionRef& ref)
{
    const auto r = w.pb->Add(ref);
    verif_observe((uint64_t)r);
    if (M[i].present) {
        if (m_pending(i)) { VASSERT(r == PrivateBroadcast::AddResult::AlreadyPresent, "Add: present with attempts remaining -> AlreadyPresent, unchanged"); }
        else { VASSERT(r == PrivateBroadcast::AddResult::Added, "Add: exhausted transaction is reset -> Added"); M[i].added = g_now; M[i].n = 0; }
    } else if ((uint64_t)m_size() >= g_maxtx) {
        VASSERT(r == PrivateBroadcast::AddResult::QueueFull, "Add: queue at max_transactions -> QueueFull, unchanged");
    } else {
        VASSERT(r == PrivateBroadcast::AddResult::Added, "Add: new transaction -> Added"); M[i].present = true; M[i].added = g_now; M[i].n = 0;
    }
    if constexpr ((WIT & W_ADDED) != 0) VWITNESS(r == PrivateBroadcast::AddResult::Added, "add_added");
    if constexpr ((WIT & W_NOTADDED) != 0) VWITNESS(r != PrivateBroadcast::AddResult::Added, "add_not_added");
}
static void do_remove(World& w, int i)
{
    const auto r = w.pb->Remove(w.t[i]);
    verif_observe(r.has_value() ? 1 + *r : 0);
    if (M[i].present) { VASSERT(r.has_value() && *r == (size_t)m_conf(i), "Remove: returns the number of confirmed sends"); M[i].present = false; M[i].n = 0; }
    else VASSERT(!r.has_value(), "Remove: unknown transaction -> nullopt");
}
template <int WIT> static void do_pick(World& w)
{
    const int64_t node = nondet_i64();
    int slot; VASSUME(m_find_node(node, &slot) < 0);    // documented precondition: a node id is used for at most one PickTxForSend
    const CService addr;
    const auto r = w.pb->PickTxForSend(node, addr);
    const bool any_pending = m_pending(0) || m_pending(1);
    VASSERT(r.has_value() == any_pending, "PickTxForSend: returns a transaction iff one has attempts remaining");
    int c = -1;
    if (r.has_value()) { if (r->get() == w.t[0].get()) c = 0; else if (r->get() == w.t[1].get()) c = 1; VASSERT(c >= 0, "PickTxForSend: returns a transaction of the queue"); }
    verif_observe((uint64_t)(c + 1));
    if (c >= 0) {
        VASSERT(m_pending(c), "PickTxForSend: returns only pending transactions (present, attempts remaining)");
        VASSERT(!(m_pending(1 - c) && m_more_urgent(1 - c, c)), "PickTxForSend: no other pending transaction is more urgent (fewest sends, fewest confirmations, oldest send, oldest confirmation)");
        const int k = M[c].n;
        if (k < MAXS) { M[c].s[k].node = node; M[c].s[k].picked = g_now; M[c].s[k].conf = false; M[c].s[k].conft = 0; }
        M[c].n = k + 1;
        w.last_pick_node = node; w.last_pick_tx = c;
        // served only in answer to the request of that node: the node id maps back to exactly this transaction
        const auto g = w.pb->GetTxForNode(node);
        VASSERT(g.has_value() && g->get() == w.t[c].get(), "GetTxForNode(id) returns exactly what was picked for id");
        VASSERT(!w.pb->DidNodeConfirmReception(node), "a fresh pick is unconfirmed");
    }
    if constexpr ((WIT & W_PICK_T0) != 0) VWITNESS(c == 0, "pick_tx0");
    if constexpr ((WIT & W_PICK_T1) != 0) VWITNESS(c == 1, "pick_tx1");
    if constexpr ((WIT & W_PICK_NONE) != 0) VWITNESS(!r.has_value(), "pick_none");
}
template <int WIT> static void do_confirm(World& w)
{
    const int64_t node = nondet_i64();
    w.pb->NodeConfirmedReception(node);
    int slot; const int i = m_find_node(node, &slot);
    if (i >= 0) { for (int k = 0; k < MAXS; k++) if (k == slot) { M[i].s[k].conf = true; M[i].s[k].conft = g_now; } }
    if constexpr ((WIT & W_KNOWN) != 0) VWITNESS(i >= 0, "confirm_known_node");
}
template <int WIT> static void do_queries(World& w)
{
    const int64_t node = nondet_i64();
    int slot; const int i = m_find_node(node, &slot);
    const auto g = w.pb->GetTxForNode(node);
    int c = -1; if (g.has_value()) c = g->get() == w.t[0].get() ? 0 : g->get() == w.t[1].get() ? 1 : 2;
    verif_observe((uint64_t)(c + 1));
    VASSERT(c == i, "GetTxForNode: the transaction picked for that node id, nullopt for unknown ids");
    bool conf = false; for (int k = 0; k < MAXS; k++) if (i >= 0 && k == slot) conf = M[i].s[k].conf;
    VASSERT(w.pb->DidNodeConfirmReception(node) == conf, "DidNodeConfirmReception");
    VASSERT(w.pb->HavePendingTransactions() == (m_pending(0) || m_pending(1)), "HavePendingTransactions");
    if constexpr ((WIT & W_KNOWN) != 0) VWITNESS(c >= 0, "query_known_node");
    if constexpr ((WIT & W_UNKNOWN) != 0) VWITNESS(c < 0, "query_unknown_node");
}

template <int WIT> static void do_stale(World& w)
{
    // stale: pending and (never confirmed: added more than 5 min ago | else: last confirmation more than 1 min ago)
    const std::vector<CTransactionRef>& stale = *new std::vector<CTransactionRef>(w.pb->GetStale());   // never destroyed
    bool in[2] = {false, false}; bool foreign = false;
    for (size_t q = 0; q < 3; q++) if (q < stale.size()) { if (stale[q].get() == w.t[0].get()) in[0] = true; else if (stale[q].get() == w.t[1].get()) in[1] = true; else foreign = true; }
    int want_n = 0; bool ok = true;
    for (int j = 0; j < 2; j++) {
        const bool want = m_pending(j) && (m_conf(j) == 0 ? M[j].added < g_now - 300000000000LL : m_lastconf(j) < g_now - 60000000000LL);
        if (want) want_n++;
        if (want != in[j]) ok = false;
    }
    VASSERT(ok && !foreign && stale.size() == (size_t)want_n, "GetStale: exactly the pending transactions not sent/confirmed recently");
    if constexpr ((WIT & W_STALE) != 0) VWITNESS(stale.size() > 0, "some_stale");
}

template <int OP, int WIT> static void run_op(World& w)
{
    if constexpr (OP != K_NONE) {
        tick();
        if constexpr (OP == K_ADD0) do_add<WIT>(w, 0, w.t[0]);
        if constexpr (OP == K_ADD0_COPY) do_add<WIT>(w, 0, w.t0copy);     // a different object with the same wtxid is the same transaction
        if constexpr (OP == K_ADD1) do_add<WIT>(w, 1, w.t[1]);
        if constexpr (OP == K_REMOVE0) do_remove(w, 0);
        if constexpr (OP == K_REMOVE1) do_remove(w, 1);
        if constexpr (OP == K_PICK) do_pick<WIT>(w);
        if constexpr (OP == K_CONFIRM) do_confirm<WIT>(w);
        if constexpr (OP == K_QUERIES) do_queries<WIT>(w);
        if constexpr (OP == K_STALE) do_stale<WIT>(w);
        compare_state(w);
    }
}

// S0/S1: -1 = transaction absent, otherwise number of recorded sends; OPa..OPc operations
// MAXSEND (max_send_attempts) is part of the shape: it decides which transactions are pending, i.e. which hash nodes the filtered walk visits
template <int MAXSEND, int S0, int S1, int OPa, int OPb, int OPc, int WIT>
static void h_pbq_t()
{
    g_maxtx = nondet_range(0, 3); g_maxsend = MAXSEND;
    g_now = (int64_t)nondet_range(1, (uint64_t)1 << 61);
    // never destroyed: deallocation walks are outside the claim
    PrivateBroadcast& pb = *new PrivateBroadcast(g_maxtx, g_maxsend);
    World& w = *new World; w.pb = &pb; w.last_pick_node = 0; w.last_pick_tx = -1;
    w.t[0] = mk_tx(1, 0); w.t[1] = mk_tx(2, 0); w.t0copy = mk_tx(1, 0);
    const int S[2] = {S0, S1};
    for (int i = 0; i < 2; i++) {
        M[i].present = S[i] >= 0; M[i].n = S[i] >= 0 ? S[i] : 0; M[i].added = 0;
        if (S[i] < 0) continue;
        auto [it, fresh] = pb.m_transactions.try_emplace(w.t[i]);
        M[i].added = (int64_t)nondet_range(1, (uint64_t)1 << 61); VASSUME(M[i].added <= g_now);
        it->second.time_added = NodeClock::time_point{std::chrono::nanoseconds{M[i].added}};
        for (int k = 0; k < S[i]; k++) {
            MSend& s = M[i].s[k];
            s.node = nondet_i64(); s.picked = (int64_t)nondet_range(1, (uint64_t)1 << 61); s.conf = nondet_bool(); s.conft = s.conf ? (int64_t)nondet_range(1, (uint64_t)1 << 61) : 0;
            VASSUME(s.picked >= M[i].added && s.picked <= g_now && (!s.conf || (s.conft >= s.picked && s.conft <= g_now)));
            it->second.send_statuses.emplace_back(s.node, CService{}, NodeClock::time_point{std::chrono::nanoseconds{s.picked}});
            if (s.conf) it->second.send_statuses.back().confirmed = NodeClock::time_point{std::chrono::nanoseconds{s.conft}};
        }
    }
    // state invariants established by the operations themselves (re-asserted after every operation)
    VASSUME((uint64_t)m_size() <= g_maxtx);
    VASSUME(m_nodes_distinct());
    VASSUME((S0 < 0 || (uint64_t)S0 <= g_maxsend) && (S1 < 0 || (uint64_t)S1 <= g_maxsend));
    run_op<OPa, WIT>(w); run_op<OPb, WIT>(w); run_op<OPc, WIT>(w);
    VREACH("end");
}

#ifndef PN0
#define PN0 1
#define PN1 1
#endif
// priority kernel: DerivePriority and Priority::operator<=> against the documented order, for two send lists of concrete lengths with symbolic contents
template <int N0, int N1>
static void h_prio_t()
{
    const int N[2] = {N0, N1};
    std::vector<PrivateBroadcast::SendStatus>* v[2];
    g_maxsend = 8;
    for (int i = 0; i < 2; i++) {
        v[i] = new std::vector<PrivateBroadcast::SendStatus>();
        M[i].present = true; M[i].n = N[i]; M[i].added = 0;
        for (int k = 0; k < N[i]; k++) {
            MSend& s = M[i].s[k];
            s.node = nondet_i64(); s.picked = (int64_t)nondet_range(1, (uint64_t)1 << 61); s.conf = nondet_bool(); s.conft = s.conf ? (int64_t)nondet_range(1, (uint64_t)1 << 61) : 0;
            v[i]->emplace_back(s.node, CService{}, NodeClock::time_point{std::chrono::nanoseconds{s.picked}});
            if (s.conf) v[i]->back().confirmed = NodeClock::time_point{std::chrono::nanoseconds{s.conft}};
        }
    }
    const PrivateBroadcast::Priority p0 = PrivateBroadcast::DerivePriority(*v[0]), p1 = PrivateBroadcast::DerivePriority(*v[1]);
    VASSERT(p0.num_picked == (size_t)N0 && p0.num_confirmed == (size_t)m_conf(0) && ns(p0.last_picked) == m_lastpick(0) && ns(p0.last_confirmed) == m_lastconf(0), "DerivePriority: number of sends, confirmations, most recent send and confirmation");
    VASSERT(p1.num_picked == (size_t)N1 && p1.num_confirmed == (size_t)m_conf(1) && ns(p1.last_picked) == m_lastpick(1) && ns(p1.last_confirmed) == m_lastconf(1), "DerivePriority: number of sends, confirmations, most recent send and confirmation");
    const bool gt = p0 > p1, lt = p0 < p1, eq = (p0 <=> p1) == 0;
    verif_observe((gt ? 4 : 0) + (lt ? 2 : 0) + (eq ? 1 : 0));
    VASSERT(gt == m_more_urgent(0, 1), "priority is higher exactly when more urgent: fewer sends, then fewer confirmations, then older send, then older confirmation");
    VASSERT(lt == m_more_urgent(1, 0), "priority is lower exactly when the other is more urgent");
    VASSERT(eq == (!m_more_urgent(0, 1) && !m_more_urgent(1, 0)), "equal priority exactly when all four keys are equal");
    if constexpr (N0 == N1 && N0 > 0) { VWITNESS(gt, "tie_on_counts_decided_by_times_gt"); VWITNESS(lt, "tie_on_counts_decided_by_times_lt"); }
    if constexpr (N0 == N1) VWITNESS(eq, "equal");
    if constexpr (N0 < N1) VWITNESS(gt, "fewer_sends_wins");
    VREACH("end");
}
extern "C" void h_prio() { h_prio_t<PN0, PN1>(); }

// limits of the property: the defaults are 10,000 transactions / 1,000 sends and the default constructor installs them
extern "C" void h_limits()
{
    PrivateBroadcast pb;
    VASSERT(PrivateBroadcast::MAX_TRANSACTIONS == 10000 && PrivateBroadcast::MAX_SEND_ATTEMPTS == 1000, "documented limits");
    VASSERT(pb.m_max_transactions == 10000 && pb.m_max_send_attempts == 1000, "default-constructed queue uses the documented limits");
    VREACH("end");
}

#ifdef VERIF_ENTRIES_INC
#define VERIF_ENTRY(name, ...) extern "C" void h_##name() { h_pbq_t<__VA_ARGS__>(); }
#include VERIF_ENTRIES_INC
#endif
