// C13 (2): signature cache entries and the caching signature checker (REAL src/script/sigcache.cpp: SignatureCache constructor,
// ComputeEntryECDSA/ComputeEntrySchnorr, Get/Set, CachingTransactionSignatureChecker::VerifyECDSASignature/VerifySchnorrSignature; REAL
// CuckooCache in MODE 3) under a RECORDING, COLLISION-FREE model of CSHA256: every hasher object carries the exact byte string written so
// far (copying a hasher copies its prefix, exactly like a SHA256 midstate); Finalize returns a digest chosen by the solver subject to
// "two digests are equal iff the two messages are equal". The cuckoo cache therefore sees arbitrary (solver-chosen) hash locations.
//   MODE 1  entry format and domain separation: the message behind every entry is exactly  nonce(32) | tag | 0^31 | sighash(32) |
//           pubkey | signature  with tag 'E' for ECDSA and 'S' for Schnorr; an ECDSA and a Schnorr entry over byte-identical
//           (sighash | pubkey | signature) payloads are different entries; entries of the same kind are equal iff the payloads are.
//   MODE 2  checker protocol, cache (Get/Set) and underlying verification stubbed by recorders with symbolic answers: the cache is asked
//           exactly once, for the entry of exactly this (signature, pubkey, sighash) and kind, with erase == !store; on a hit the result is
//           true and nothing else happens; on a miss the underlying verifier is asked exactly once about exactly this triple, its verdict is
//           the result, and the entry is stored iff store && verdict.
//   MODE 3  end to end with the real cache (2 slots): a sequence of 3 signature checks (kind per call concrete; payload bytes, store
//           flags and the underlying verifier's verdict function symbolic; payload lengths chosen so that ECDSA and Schnorr payloads can be
//           byte-identical) returns, for every call, exactly the verdict the underlying verifier gives for that call's triple: the
//           cache never changes a verdict.
#include <verif.h>
#include <script/sigcache.h>
#include <script/interpreter.h>
#include <crypto/sha256.h>
#include <pubkey.h>
#include <random.h>
#include <uint256.h>
#include <util/log.h>
#include <util/time.h>
#include <util/threadnames.h>
#include <util/check.h>
#include <pthread.h>
#include <chrono>
#include <math.h>
#include <string.h>

#ifndef MODE
#define MODE 1
#endif

// ---------------------------------------------------------------- recording, collision-free CSHA256
#define MSGMAX 240
#define CHUNKMAX 80
#define NLOG 24
#define NDIG 8
// A hasher object stores (in `bytes`) the index of the last chunk written; chunks form a parent chain, so copying a hasher shares its
// prefix. Every chunk and every flattened message is its own heap object (cheap for symex).
struct Chunk { unsigned parent; unsigned len; unsigned total; unsigned char b[CHUNKMAX]; };
struct Msg { unsigned n; unsigned char b[MSGMAX]; };
struct Digest { unsigned char d[32]; };
static Chunk* g_chunk[NLOG]; static unsigned g_nchunk;      // index 0 = empty message (no chunk)
static Msg* g_msg[NDIG]; static Digest* g_dig[NDIG]; static unsigned g_ndig;
static bool g_hash_model_overflow;
CSHA256::CSHA256() { bytes = 0; }
CSHA256& CSHA256::Write(const unsigned char* data, size_t len)
{
    if (g_nchunk == 0) g_nchunk = 1;
    const unsigned from = (unsigned)bytes;
    const unsigned before = from ? g_chunk[from]->total : 0;
    if (g_nchunk >= NLOG || len > CHUNKMAX || before + len > MSGMAX) { g_hash_model_overflow = true; return *this; }
    Chunk* c = new Chunk;
    c->parent = from; c->len = (unsigned)len; c->total = before + (unsigned)len;
    for (unsigned i = 0; i < CHUNKMAX; i++) c->b[i] = i < len ? data[i] : 0;
    g_chunk[g_nchunk] = c;
    bytes = g_nchunk++;
    return *this;
}
CSHA256& CSHA256::Reset() { bytes = 0; return *this; }
static void flatten(unsigned idx, Msg* m)
{
    m->n = idx ? g_chunk[idx]->total : 0;
    for (unsigned i = 0; i < MSGMAX; i++) m->b[i] = 0;
    for (int depth = 0; depth < 8; depth++) if (idx != 0) {
        const Chunk* c = g_chunk[idx];
        const unsigned off = c->total - c->len;
        for (unsigned i = 0; i < CHUNKMAX; i++) if (i < c->len) m->b[off + i] = c->b[i];
        idx = c->parent;
    }
    if (idx != 0) g_hash_model_overflow = true;
}
static bool same_msg(const Msg* a, const Msg* b)
{
    if (a->n != b->n) return false;
    bool eq = true;
    for (unsigned i = 0; i < MSGMAX; i++) if (i < a->n && a->b[i] != b->b[i]) eq = false;
    return eq;
}
void CSHA256::Finalize(unsigned char hash[OUTPUT_SIZE])
{
    if (g_ndig >= NDIG) { g_hash_model_overflow = true; return; }
    Msg* m = new Msg; flatten((unsigned)bytes, m);
    Digest* d = new Digest;
    // functional: an earlier digest of an equal message is returned again
    bool seen = false;
    for (unsigned j = 0; j < NDIG; j++) if (j < g_ndig && !seen && same_msg(g_msg[j], m)) { seen = true; for (int k = 0; k < 32; k++) d->d[k] = g_dig[j]->d[k]; }
    if (!seen) {
        // collision-free: a new message gets a digest different from every earlier one (the only assumption made about SHA256)
        for (int k = 0; k < 4; k++) { const uint64_t w = nondet_u64(); memcpy(d->d + 8 * k, &w, 8); }
        for (unsigned j = 0; j < NDIG; j++) if (j < g_ndig) VASSUME(memcmp(g_dig[j]->d, d->d, 32) != 0);
        // ... and is not the all-zero string: CuckooCache::setup() fills the table with value-initialised (all-zero) elements, which
        // contains() reports as present (see cuckoo.cpp); an all-zero SHA256 output is the one digest value the cache design excludes
        bool zero = true; for (int k = 0; k < 32; k++) if (d->d[k] != 0) zero = false;
        VASSUME(!zero);
    }
    for (int k = 0; k < 32; k++) hash[k] = d->d[k];
    g_msg[g_ndig] = m; g_dig[g_ndig] = d; g_ndig++;
}
// message behind a digest value (or null)
static const Msg* msg_of(const uint256& e) { const Msg* r = nullptr; for (unsigned j = 0; j < NDIG; j++) if (j < g_ndig && r == nullptr && memcmp(g_dig[j]->d, e.begin(), 32) == 0) r = g_msg[j]; return r; }

// ---------------------------------------------------------------- environment stubs
static unsigned char g_nonce[32];
void GetRandBytes(std::span<unsigned char> bytes) noexcept { for (size_t i = 0; i < bytes.size(); i++) { const unsigned char x = nondet_u8(); bytes[i] = x; if (i < 32) g_nonce[i] = x; } }
namespace util::log { void Log(Entry) {} }
std::chrono::seconds GetMockTime() { return std::chrono::seconds{0}; }
namespace util { std::string ThreadGetInternalName() { return std::string(); } }
namespace std { namespace chrono { inline namespace _V2 { system_clock::time_point system_clock::now() noexcept { return time_point(); } } } }
extern "C" {
int pthread_rwlock_rdlock(pthread_rwlock_t*) noexcept { return 0; }
int pthread_rwlock_wrlock(pthread_rwlock_t*) noexcept { return 0; }
int pthread_rwlock_unlock(pthread_rwlock_t*) noexcept { return 0; }
float log2f(float x) noexcept { float r = 0; for (int i = 0; i < 8; i++) if (x >= 2) { x = x / 2; r = r + 1; } return r; }
}
[[noreturn]] void assertion_fail(const std::source_location&, std::string_view) { __CPROVER_assert(0, "Assert()/Assume() in code under test failed"); __CPROVER_assume(0); __builtin_trap(); }

// ---------------------------------------------------------------- the underlying (cache-free) verifier: recorder with symbolic verdicts
struct Triple { int kind; unsigned char hash[32]; unsigned char pk[65]; unsigned pklen; unsigned char sig[80]; unsigned siglen; };
static Triple g_cur;              // the triple the harness is currently asking about
static bool g_cur_verdict;        // what the cache-free verifier answers for it
static unsigned g_verify_calls; static bool g_verify_args_ok;
static void note_verify(int kind, const uint256& h, const unsigned char* pk, unsigned pklen, const unsigned char* sig, unsigned siglen)
{
    g_verify_calls++;
    bool ok = (kind == g_cur.kind) && pklen == g_cur.pklen && siglen == g_cur.siglen && memcmp(h.begin(), g_cur.hash, 32) == 0;
    for (unsigned i = 0; i < 65; i++) if (i < pklen && i < g_cur.pklen && pk[i] != g_cur.pk[i]) ok = false;
    for (unsigned i = 0; i < 80; i++) if (i < siglen && i < g_cur.siglen && sig[i] != g_cur.sig[i]) ok = false;
    if (!ok) g_verify_args_ok = false;
}
template <> bool GenericTransactionSignatureChecker<CTransaction>::VerifyECDSASignature(const std::vector<unsigned char>& vchSig, const CPubKey& pubkey, const uint256& sighash) const
{ note_verify('E', sighash, pubkey.data(), pubkey.size(), vchSig.data(), (unsigned)vchSig.size()); return g_cur_verdict; }
template <> bool GenericTransactionSignatureChecker<CTransaction>::VerifySchnorrSignature(std::span<const unsigned char> sig, const XOnlyPubKey& pubkey, const uint256& sighash) const
{ note_verify('S', sighash, pubkey.data(), (unsigned)pubkey.size(), sig.data(), (unsigned)sig.size()); return g_cur_verdict; }
// remaining virtuals of the base class (not reached)
template <> bool GenericTransactionSignatureChecker<CTransaction>::CheckECDSASignature(const std::vector<unsigned char>&, const std::vector<unsigned char>&, const CScript&, SigVersion) const { return false; }
template <> bool GenericTransactionSignatureChecker<CTransaction>::CheckSchnorrSignature(std::span<const unsigned char>, std::span<const unsigned char>, SigVersion, ScriptExecutionData&, ScriptError*) const { return false; }
template <> bool GenericTransactionSignatureChecker<CTransaction>::CheckLockTime(const CScriptNum&) const { return false; }
template <> bool GenericTransactionSignatureChecker<CTransaction>::CheckSequence(const CScriptNum&) const { return false; }

#if MODE == 2
// MODE 2 links sigcache.cpp with semantic interposition (so that Get/Set can be replaced although their callers live in the same TU); the
// libstdc++.so instantiation of std::allocator<char>'s trivial special members then stays out of line: empty bodies
extern "C" {
void verif_alloc_char_ctor(void*) __asm__("_ZNSaIcEC2Ev"); void verif_alloc_char_ctor(void*) {}
void verif_alloc_char_cctor(void*, void*) __asm__("_ZNSaIcEC2ERKS_"); void verif_alloc_char_cctor(void*, void*) {}
void verif_alloc_char_dtor(void*) __asm__("_ZNSaIcED2Ev"); void verif_alloc_char_dtor(void*) {}
}
// ---------------------------------------------------------------- cache stubbed: recorders
static unsigned g_get_calls, g_set_calls; static uint256 g_get_entry, g_set_entry; static bool g_get_erase, g_hit;
bool SignatureCache::Get(const uint256& entry, const bool erase) { g_get_calls++; g_get_entry = entry; g_get_erase = erase; return g_hit; }
void SignatureCache::Set(const uint256& entry) { g_set_calls++; g_set_entry = entry; }
#endif

// ---------------------------------------------------------------- helpers
#ifndef PKLEN
#define PKLEN 33
#endif
#ifndef SIGLEN
#define SIGLEN 63
#endif
#ifndef PKHDR33
#define PKHDR33 2
#endif
#ifndef PKHDR65
#define PKHDR65 4
#endif
static void draw_triple(Triple& t, int kind, unsigned pklen, unsigned siglen)
{
    t.kind = kind; t.pklen = pklen; t.siglen = siglen;
    for (int i = 0; i < 32; i++) t.hash[i] = nondet_u8();
    for (unsigned i = 0; i < 65; i++) t.pk[i] = i < pklen ? nondet_u8() : 0;
    for (unsigned i = 0; i < 80; i++) t.sig[i] = i < siglen ? nondet_u8() : 0;
    // the header byte decides the key length (CPubKey::GetLen), i.e. a shape: concrete (02/03 -> 33 bytes, 04/06/07 -> 65 bytes)
    if (kind == 'E') t.pk[0] = (pklen == 33) ? (unsigned char)PKHDR33 : (unsigned char)PKHDR65;
}
// the message the documentation of SignatureCache promises for an entry:  nonce | tag | 31 zero bytes | sighash | pubkey | signature
static bool msg_is(const Msg* mp, const Triple& t)
{
    if (mp == nullptr) return false;
    const Msg& m = *mp;
    if (m.n != 64 + 32 + t.pklen + t.siglen) return false;
    bool ok = true;
    for (int i = 0; i < 32; i++) if (m.b[i] != g_nonce[i]) ok = false;
    if (m.b[32] != (unsigned char)t.kind) ok = false;
    for (int i = 33; i < 64; i++) if (m.b[i] != 0) ok = false;
    for (int i = 0; i < 32; i++) if (m.b[64 + i] != t.hash[i]) ok = false;
    for (unsigned i = 0; i < 65; i++) if (i < t.pklen && m.b[96 + i] != t.pk[i]) ok = false;
    for (unsigned i = 0; i < 80; i++) if (i < t.siglen && m.b[96 + t.pklen + i] != t.sig[i]) ok = false;
    return ok;
}
static bool same_payload(const Triple& a, const Triple& b)
{
    if (a.pklen + a.siglen != b.pklen + b.siglen) return false;
    unsigned char x[160], y[160];
    for (unsigned i = 0; i < 160; i++) { x[i] = 0; y[i] = 0; }
    for (unsigned i = 0; i < 65; i++) { if (i < a.pklen) x[i] = a.pk[i]; if (i < b.pklen) y[i] = b.pk[i]; }
    for (unsigned i = 0; i < 80; i++) { if (i < a.siglen) x[a.pklen + i] = a.sig[i]; if (i < b.siglen) y[b.pklen + i] = b.sig[i]; }
    return memcmp(a.hash, b.hash, 32) == 0 && memcmp(x, y, 160) == 0;
}
static void entry_of(SignatureCache& c, const Triple& t, uint256& out)
{
    if (t.kind == 'E') { const std::vector<unsigned char> sig(t.sig, t.sig + t.siglen); const CPubKey pk(t.pk, t.pk + t.pklen); c.ComputeEntryECDSA(out, uint256(std::span<const unsigned char>(t.hash, 32)), sig, pk); }
    else { const XOnlyPubKey pk(std::span<const unsigned char>(t.pk, 32)); c.ComputeEntrySchnorr(out, uint256(std::span<const unsigned char>(t.hash, 32)), std::span<const unsigned char>(t.sig, t.siglen), pk); }
}
static bool run_check(SignatureCache& c, const Triple& t, bool store)
{
    PrecomputedTransactionData txdata;
    const CAmount amount{0};
    CachingTransactionSignatureChecker chk(nullptr, 0, amount, store, c, txdata);
    if (t.kind == 'E') { const std::vector<unsigned char> sig(t.sig, t.sig + t.siglen); const CPubKey pk(t.pk, t.pk + t.pklen); return chk.VerifyECDSASignature(sig, pk, uint256(std::span<const unsigned char>(t.hash, 32))); }
    const XOnlyPubKey pk(std::span<const unsigned char>(t.pk, 32));
    return chk.VerifySchnorrSignature(std::span<const unsigned char>(t.sig, t.siglen), pk, uint256(std::span<const unsigned char>(t.hash, 32)));
}
static void reset_model() { g_nchunk = 0; g_ndig = 0; g_hash_model_overflow = false; g_verify_calls = 0; g_verify_args_ok = true; }

#if MODE == 1
extern "C" void h_entry()
{
    reset_model();
    SignatureCache cache(64);
    // an ECDSA triple and a Schnorr triple whose payloads have the same total length (PKLEN + SIGLEN == 32 + 64 when PKLEN=33, SIGLEN=63)
    Triple e1, e2, s1;
    draw_triple(e1, 'E', PKLEN, SIGLEN); draw_triple(e2, 'E', PKLEN, SIGLEN); draw_triple(s1, 'S', 32, 64);
    uint256 xe1, xe2, xs1, xe1b;
    entry_of(cache, e1, xe1); entry_of(cache, e2, xe2); entry_of(cache, s1, xs1); entry_of(cache, e1, xe1b);
    VASSERT(!g_hash_model_overflow, "harness: hash model capacity suffices");
    VASSERT(msg_is(msg_of(xe1), e1) && msg_is(msg_of(xe2), e2), "an ECDSA entry is the digest of nonce | 'E' | 0^31 | sighash | pubkey | signature");
    VASSERT(msg_is(msg_of(xs1), s1), "a Schnorr entry is the digest of nonce | 'S' | 0^31 | sighash | pubkey | signature");
    VASSERT(xe1 == xe1b, "entries are a function of the triple");
    VASSERT((xe1 == xe2) == same_payload(e1, e2), "two ECDSA entries are equal iff sighash, pubkey and signature are equal");
    VASSERT(xe1 != xs1, "an ECDSA entry never equals a Schnorr entry, even over byte-identical payloads (domain separation)");
    verif_observe(xe1 == xe2); verif_observe(msg_of(xs1) != nullptr);
#if PKLEN + SIGLEN == 96
    VWITNESS(same_payload(e1, s1), "ECDSA and Schnorr payloads can be byte-identical");
#endif
    VWITNESS(xe1 == xe2, "equal triples give equal entries"); VWITNESS(xe1 != xe2, "different triples give different entries");
    VREACH("end");
}
#elif MODE == 2
#ifndef KIND
#define KIND 'E'
#endif
extern "C" void h_checker()
{
    reset_model(); g_get_calls = g_set_calls = 0;
    SignatureCache cache(64);
    draw_triple(g_cur, KIND, KIND == 'E' ? PKLEN : 32, KIND == 'E' ? SIGLEN : 64);
    const bool store = nondet_bool(); g_hit = nondet_bool(); g_cur_verdict = nondet_bool();
    const bool r = run_check(cache, g_cur, store);
    verif_observe(r); verif_observe(g_set_calls);
    VASSERT(!g_hash_model_overflow, "harness: hash model capacity suffices");
    VASSERT(g_get_calls == 1 && msg_is(msg_of(g_get_entry), g_cur), "the cache is consulted exactly once, with the entry of exactly this (signature, pubkey, sighash) and kind");
    VASSERT(g_get_erase == !store, "the lookup asks to erase the entry iff the checker does not store (block validation consumes entries, mempool validation keeps them)");
    if (g_hit) {
        VASSERT(r, "a cache hit is reported as a valid signature");
        VASSERT(g_verify_calls == 0 && g_set_calls == 0, "on a hit neither the verifier nor Set is called");
    } else {
        VASSERT(g_verify_calls == 1 && g_verify_args_ok, "on a miss the underlying verifier is asked exactly once about exactly this triple");
        VASSERT(r == g_cur_verdict, "on a miss the result is the underlying verifier's verdict");
        VASSERT(g_set_calls == ((store && g_cur_verdict) ? 1u : 0u), "the entry is stored iff store is set and the signature verified");
        if (g_set_calls == 1) VASSERT(g_set_entry == g_get_entry, "the stored entry is the looked-up entry");
    }
    VWITNESS(g_hit, "hit"); VWITNESS(!g_hit && r && g_set_calls == 1, "verified and stored"); VWITNESS(!g_hit && !r, "invalid signature"); VWITNESS(!g_hit && r && !store, "verified, not stored");
    VREACH("end");
}
#else
#ifndef ESIG
#define ESIG 3
#endif
#ifndef NCALLS
#define NCALLS 2
#endif
#ifndef K1
#define K1 'E'
#define K2 'S'
#endif
#ifndef K3
#define K3 'E'
#endif
extern "C" void h_e2e()
{
    reset_model();
    SignatureCache cache(64);   // 64 bytes / sizeof(uint256) = 2 slots
    const int KS[3] = {K1, K2, K3};
    Triple t[NCALLS]; bool verdict[NCALLS], store[NCALLS], res[NCALLS];
    for (int i = 0; i < NCALLS; i++) {
        draw_triple(t[i], KS[i], KS[i] == 'E' ? 33 : 32, KS[i] == 'E' ? ESIG : ESIG + 1);   // 33 + ESIG == 32 + (ESIG + 1): payloads can coincide bytewise
        verdict[i] = nondet_bool(); store[i] = nondet_bool();
        // the cache-free verifier is a function of (kind, triple)
        for (int j = 0; j < i; j++) if (t[j].kind == t[i].kind && same_payload(t[j], t[i])) VASSUME(verdict[i] == verdict[j]);
    }
    bool ok = true;
    for (int i = 0; i < NCALLS; i++) {
        g_cur = t[i]; g_cur_verdict = verdict[i];
        res[i] = run_check(cache, t[i], store[i]);
        verif_observe(res[i]);
        if (res[i] != verdict[i]) ok = false;
    }
    VASSERT(!g_hash_model_overflow, "harness: hash model capacity suffices");
    VASSERT(g_verify_args_ok, "the underlying verifier is only ever asked about the triple being checked");
    VASSERT(ok, "with the cache enabled every signature check returns exactly the cache-free verdict for its (signature, pubkey, sighash) and kind");
#if K1 == K2 || (NCALLS == 3 && (K1 == K3 || K2 == K3))
    VWITNESS(g_verify_calls < NCALLS, "some check is answered from the cache");
#endif
    VWITNESS(g_verify_calls == NCALLS && res[0] && res[1], "valid signatures, none cached");
#if K1 != K2
    VWITNESS(same_payload(t[0], t[1]) && res[0] && !res[1] && store[0], "byte-identical payload, different kind, different verdicts");
#endif
    VREACH("end");
}
#endif
