from vlib import H
import itertools
PROPERTY = 'C13'
LEVEL = 'model_checking'
CLAIM = ('wip')
CK = {'i': 1, 'c': 2, 'e': 3}
def ck(size, seq, wit=None):
    """entry for cuckoo.cpp: table size, then a string over i(nsert) c(ontains, keep) e (contains + erase)"""
    ks = [CK[x] for x in seq] + [0] * (6 - len(seq))
    if wit is None: wit = (3 if ('c' in seq or 'e' in seq) else 0)
    return ('s%d_%s' % (size, seq), ', '.join([str(size), str(wit)] + [str(k) for k in ks]))
CK_QUICK = [ck(2, 'icie'), ck(2, 'iiic', wit=7), ck(3, 'ieic'), ck(2, 'ciei'), ck(3, 'iiii', wit=0), ck(4, 'iiec')]
HARNESSES = [
    H('cuckoo', 'cuckoo.cpp', 'h_cuckoo', link=[], entries=CK_QUICK, unwind=12, memunwind=40, timeout=300, objbits=10,
      functions=['CuckooCache::cache'], bounds='wip'),
]
