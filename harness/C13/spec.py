from vlib import H
import itertools
PROPERTY = 'C13'
LEVEL = 'model_checking'
CLAIM = ('(1) The real CuckooCache::cache<uint64_t, H> (cuckoocache.h: setup, insert with cuckoo displacement and depth limit, contains with/without erase, epoch ageing, bit-packed atomic flags) with a NONDETERMINISTIC hash functor H '
         '(the 8 hashes of every element are arbitrary 32-bit values; only "equal elements hash equally" is imposed): for every enumerated sequence of insert / contains / contains+erase over symbolic elements and table sizes 2..4, '
         'contains(e) is true only if e was inserted before (or e is the value-initialised element a fresh table is filled with), every slot always holds an inserted or initial element, the first insert is found, '
         'erase/keep flags change exactly as documented, and insert() never overwrites a kept element while an erasable location is available and no ageing is due. '
         '(2) The real sigcache.cpp under a recording, collision-free model of CSHA256 (digest equality <=> message equality, digest != 0): every cache entry is the digest of exactly nonce|tag|0^31|sighash|pubkey|signature with tag E (ECDSA) / S (Schnorr), '
         'so ECDSA and Schnorr entries never coincide even over byte-identical payloads and same-kind entries coincide iff the triples do; CachingTransactionSignatureChecker::VerifyECDSASignature/VerifySchnorrSignature with cache and verifier replaced by recorders: '
         'exactly one lookup of exactly this triple\'s entry with erase == !store, a hit returns true without verifying, a miss returns the verifier\'s verdict for exactly this triple and stores the entry iff store && verdict; '
         'end to end with the real 2-slot cache: for two consecutive checks (all kind combinations; payload bytes, store flags and the verifier\'s verdict function symbolic) each result equals the cache-free verdict. '
         'Not covered: the script-execution cache key in validation.cpp::CheckInputScripts (wtxid+flags; needs the whole of validation.cpp), histories longer than stated, concurrency (single-threaded model: shared_mutex is a no-op).')
CK = {'i': 1, 'c': 2, 'e': 3}
def ck(size, seq, wit=None):
    """entry for cuckoo.cpp: table size, then a string over i(nsert) c(ontains, keep) e (contains + erase)"""
    ks = [CK[x] for x in seq] + [0] * (6 - len(seq))
    if wit is None: wit = (3 if ('c' in seq or 'e' in seq) else 0)
    return ('s%d_%s' % (size, seq), ', '.join([str(size), str(wit)] + [str(k) for k in ks]))
CK_QUICK = [ck(2, 'icie'), ck(2, 'iiic', wit=7), ck(3, 'ieic'), ck(2, 'ciei'), ck(3, 'iiii', wit=0), ck(4, 'iiec'), ck(2, 'eici'), ck(3, 'iiei', wit=7)]
CK_THOROUGH = list(CK_QUICK)
for size in (2, 3):
    for seq in itertools.product('ice', repeat=4):
        seq = ''.join(seq)
        if 'i' in seq and (size == 2 or seq[0] == 'i') and seq not in [e[0].split('_')[1] for e in CK_THOROUGH if e[0].startswith('s%d_' % size)]: CK_THOROUGH.append(ck(size, seq))
CK_THOROUGH += [ck(2, 'iiciei'), ck(3, 'iiiici'), ck(2, 'ieieic'), ck(4, 'iiiiic')]
SIGLINK = ['script/sigcache.cpp', 'uint256.cpp']
E, S = ord('E'), ord('S')
SIGFN = ['SignatureCache::SignatureCache (salted hashers with the E / S padding block)', 'SignatureCache::ComputeEntryECDSA', 'SignatureCache::ComputeEntrySchnorr', 'SignatureCache::Get', 'SignatureCache::Set',
         'CachingTransactionSignatureChecker::VerifyECDSASignature', 'CachingTransactionSignatureChecker::VerifySchnorrSignature (script/sigcache.cpp)', 'CPubKey::Set/size/data, XOnlyPubKey (pubkey.h)']
SIGST = ['CSHA256 -> recording collision-free model (messages kept as chunk chains; digest chosen by the solver with: equal messages <=> equal digests, digest != 0)',
         'TransactionSignatureChecker::VerifyECDSASignature/VerifySchnorrSignature -> recorder returning a symbolic verdict (elliptic-curve verification is C10/C50)', 'GetRandBytes -> symbolic nonce',
         'util::log::Log, GetMockTime, ThreadGetInternalName, system_clock::now, pthread_rwlock_* -> no-ops (logging / single-threaded model)', 'tinyformat -> empty strings', 'log2f -> exact integer model for sizes < 256']
SIGAS = ['SHA256 is collision-free on the messages that occur and never outputs the all-zero string (the value CuckooCache::setup() fills the table with; contains() reports it as present on a fresh cache)',
         'the cache-free verifier is a function of (kind, sighash, pubkey, signature)']
HARNESSES = [
    H('cuckoo', 'cuckoo.cpp', 'h_cuckoo', link=[], entries=CK_QUICK, tentries=CK_THOROUGH, unwind=12, memunwind=40, timeout=600, objbits=10,
      functions=['CuckooCache::cache<Element,Hash>::setup, insert, contains, compute_hashes, epoch_check, allow_erase, please_keep', 'CuckooCache::bit_packed_atomic_flags (cuckoocache.h)', 'FastRange32 (util/fastrange.h)'],
      stubs=['Hash functor = nondeterministic function (arbitrary 8 x 32-bit values per distinct element)', 'log2f -> exact integer model for sizes < 256'],
      assumptions=['the value-initialised element (0) counts as present from the start: setup() fills the table with it (for the production uint256/SHA256 instantiation this value is not a feasible entry)'],
      bounds='table sizes 2, 3, 4; %d quick / %d thorough sequences of <= 4 (thorough: size 2: all 4-operation sequences containing an insert, size 3: those starting with an insert, plus four 6-operation ones) over {insert, contains, contains+erase}; 64-bit elements and all hash values symbolic' % (len(CK_QUICK), len(CK_THOROUGH))),
    H('entry', 'sigchk.cpp', 'h_entry', link=SIGLINK, defines={'MODE': 1}, variants=[{'PKLEN': 33, 'SIGLEN': 63}, {'PKLEN': 65, 'SIGLEN': 71}], tvariants=[{'PKLEN': 33, 'SIGLEN': 63}, {'PKLEN': 33, 'SIGLEN': 63, 'PKHDR33': 3}, {'PKLEN': 65, 'SIGLEN': 71}, {'PKLEN': 65, 'SIGLEN': 72, 'PKHDR65': 6}, {'PKLEN': 65, 'SIGLEN': 8, 'PKHDR65': 7}, {'PKLEN': 33, 'SIGLEN': 0}],
      shadow=['nofmt'], unwind=250, memunwind=170, timeout=600, objbits=11, functions=SIGFN[:3] + SIGFN[7:], stubs=SIGST, assumptions=SIGAS[:1],
      bounds='two ECDSA triples and one Schnorr triple per query; pubkey 33 or 65 bytes (header byte concrete), ECDSA signature 0/8/63/71/72 bytes, Schnorr 32+64 bytes; nonce, sighash, key and signature bytes symbolic; 33+63 == 32+64 makes byte-identical cross-kind payloads possible'),
    H('checker', 'sigchk.cpp', 'h_checker', link=SIGLINK, defines={'MODE': 2}, interpose=True, variants=[{'KIND': E, 'PKLEN': 33, 'SIGLEN': 71}, {'KIND': S}], shadow=['nofmt'], unwind=250, memunwind=170, timeout=600, objbits=12,
      functions=SIGFN[5:7] + SIGFN[1:3], stubs=SIGST + ['SignatureCache::Get/Set -> recorders with a symbolic hit/miss answer (sigcache.cpp compiled with semantic interposition so that the in-TU callers use them)', 'std::allocator<char> trivial members -> empty bodies'], assumptions=SIGAS[:1],
      bounds='one ECDSA (33-byte key, 71-byte signature) or Schnorr (32+64) check per query; store flag, cache answer, verifier verdict and all bytes symbolic'),
    H('e2e', 'sigchk.cpp', 'h_e2e', link=SIGLINK, defines={'MODE': 3}, variants=[{'K1': E, 'K2': S}, {'K1': E, 'K2': E}, {'K1': S, 'K2': S}], tvariants=[{'K1': E, 'K2': S}, {'K1': S, 'K2': E}, {'K1': E, 'K2': E}, {'K1': S, 'K2': S}, {'K1': E, 'K2': E, 'ESIG': 40}],
      backends=['default', 'kissat', 'cadical'], shadow=['nofmt'], unwind=250, memunwind=170, timeout=900, objbits=11,
      functions=SIGFN + ['CuckooCache::cache<uint256, SignatureCacheHasher> (real, 2 slots)', 'SignatureCacheHasher (util/hasher.h)'], stubs=SIGST, assumptions=SIGAS,
      bounds='two consecutive signature checks against one real SignatureCache(64 bytes = 2 slots); kinds concrete (EE, ES, SE, SS), ECDSA 33-byte key + 3-byte signature / Schnorr 32-byte key + 4-byte signature (so payloads can coincide bytewise), all bytes, both store flags and the verdict function symbolic'),
]
