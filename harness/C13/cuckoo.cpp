// C13 (1): the REAL CuckooCache::cache<Element, Hash> (src/cuckoocache.h: setup / insert / contains, epoch ageing, bit-packed flags)
// instantiated with 64-bit elements and a NONDETERMINISTIC hash functor: the 8 hash values of every distinct element are arbitrary
// 32-bit values chosen by the solver (only functional consistency is imposed: equal elements hash equally). One entry = table size
// (2..4 slots) and a concrete sequence of <= 6 operations  insert(e_i) / contains(e_i, erase=false) / contains(e_i, erase=true);
// all elements e_i are symbolic (they may coincide).
// Asserted, for EVERY hash behaviour:
//   no false positives   contains(e) == true  =>  e was inserted earlier (or e is the value-initialised Element that fills a fresh
//                        table: see "default element" below);
//   table integrity      every slot always holds an inserted element or the value-initialised one (so the statement above cannot
//                        be broken by later operations either);
//   first insert         the first insert into a fresh cache is found by contains();
//   flag bookkeeping     contains(e, true) marks e's slot erasable; contains(e, false) changes no flag; an element found after its
//                        insert is marked "keep";
//   keep guarantee       when no epoch ageing is due (epoch counter != 0) and one of the new element's 8 locations is erasable or
//                        already holds it, insert() overwrites no element that is marked "keep" (erasable slots are preferred,
//                        nothing is kicked out).
// Default element: setup() value-initialises the table, so contains(Element{}) is true on a fresh cache. For the production
// instantiation Element is a SHA256 output and the all-zero value is not a feasible entry; the oracle therefore treats Element{} as
// "present from the start" and says so.
#include <verif.h>
#include <cuckoocache.h>
#include <math.h>

// std::log2(float) (libm) is only used by setup() to derive depth_limit = floor(log2(size)); exact for sizes < 256 (the harness uses 2..4)
extern "C" float log2f(float x) noexcept { float r = 0; for (int i = 0; i < 8; i++) if (x >= 2) { x = x / 2; r = r + 1; } return r; }

#define MAXOPS 6
typedef uint64_t Elem;
static Elem g_key[MAXOPS]; static uint32_t g_hv[MAXOPS][8]; static int g_nkeys; static bool g_hash_unknown;
struct NondetHash {
    template <uint8_t N> uint32_t operator()(const Elem& e) const
    {
        uint32_t r = 0; bool found = false;
        for (int i = 0; i < MAXOPS; i++) if (i < g_nkeys && !found && g_key[i] == e) { r = g_hv[i][N]; found = true; }
        if (!found && e != 0) g_hash_unknown = true;   // only operands (and the default element) can ever be hashed
        return r;
    }
};
typedef CuckooCache::cache<Elem, NondetHash> Cache;

// private members
template <class C, std::vector<Elem> C::*T, CuckooCache::bit_packed_atomic_flags C::*F, uint32_t C::*EC>
struct Rob { friend std::vector<Elem>& table_of(C& c) { return c.*T; } friend CuckooCache::bit_packed_atomic_flags& flags_of(C& c) { return c.*F; } friend uint32_t& epoch_counter_of(C& c) { return c.*EC; } };
template struct Rob<Cache, &Cache::table, &Cache::collection_flags, &Cache::epoch_heuristic_counter>;
std::vector<Elem>& table_of(Cache&); CuckooCache::bit_packed_atomic_flags& flags_of(Cache&); uint32_t& epoch_counter_of(Cache&);

enum { K_NONE = 0, K_INSERT = 1, K_CONTAINS = 2, K_CONTAINS_ERASE = 3 };

template <int SIZE>
struct Drv {
    Elem ins[MAXOPS]; int nins = 0;          // the oracle: elements ever inserted
    bool ok_fp = true, ok_table = true, ok_first = true, ok_flags = true, ok_keep = true;
    bool any_hit = false, any_miss = false, any_evict = false;

    bool inserted(Elem e) const { bool r = (e == Elem{}); for (int i = 0; i < MAXOPS; i++) if (i < nins && ins[i] == e) r = true; return r; }
    // slot index holding e, or -1
    static int slot_of(Cache& c, Elem e) { int r = -1; for (int i = 0; i < SIZE; i++) if (table_of(c)[i] == e && r < 0) r = i; return r; }
    void table_ok(Cache& c) { for (int i = 0; i < SIZE; i++) if (!inserted(table_of(c)[i])) ok_table = false; }

    template <int kind> void step(Cache& c, int idx)
    {
        if constexpr (kind == K_NONE) return;
        const Elem e = g_key[idx];
        bool fl0[SIZE]; Elem tb0[SIZE];
        for (int i = 0; i < SIZE; i++) { fl0[i] = flags_of(c).bit_is_set(i); tb0[i] = table_of(c)[i]; }
        if constexpr (kind == K_INSERT) {
            const bool ageing_due = epoch_counter_of(c) == 0;
            const bool fresh = (nins == 0);
            // is one of e's locations usable without kicking anything out? (evaluated through the same hash functor, independently of the cache)
            bool room = false;
            NondetHash h;
            const uint32_t hs[8] = {h.template operator()<0>(e), h.template operator()<1>(e), h.template operator()<2>(e), h.template operator()<3>(e), h.template operator()<4>(e), h.template operator()<5>(e), h.template operator()<6>(e), h.template operator()<7>(e)};
            for (int j = 0; j < 8; j++) { const uint32_t loc = (uint32_t)(((uint64_t)hs[j] * (uint64_t)SIZE) >> 32); for (int i = 0; i < SIZE; i++) if ((uint32_t)i == loc && (fl0[i] || tb0[i] == e)) room = true; }
            c.insert(e);
            ins[nins++] = e;
            const bool found = c.contains(e, false);
            if (fresh && !found) ok_first = false;
            if (found) { bool kept = false; for (int i = 0; i < SIZE; i++) if (table_of(c)[i] == e && !flags_of(c).bit_is_set(i)) kept = true; if (!kept) ok_flags = false; }
            if (!ageing_due && room) {
                for (int i = 0; i < SIZE; i++) if (!fl0[i] && tb0[i] != e) {          // a kept element other than e ...
                    if (table_of(c)[i] != tb0[i] || flags_of(c).bit_is_set(i)) ok_keep = false;   // ... stays where it is and stays kept
                }
            }
            for (int i = 0; i < SIZE; i++) if (!fl0[i] && tb0[i] != Elem{} && slot_of(c, tb0[i]) < 0) any_evict = true;
        } else {
            const bool r = c.contains(e, kind == K_CONTAINS_ERASE);
            verif_observe(r);
            if (r && !inserted(e)) ok_fp = false;
            if (r) any_hit = true; else any_miss = true;
            bool marked = false;
            for (int i = 0; i < SIZE; i++) {
                if (table_of(c)[i] != tb0[i]) ok_table = false;                       // contains() never changes the table
                const bool f = flags_of(c).bit_is_set(i);
                if (kind == K_CONTAINS_ERASE && r && tb0[i] == e) { if (f) marked = true; if (!f && fl0[i]) ok_flags = false; }
                else if (f != fl0[i]) ok_flags = false;                                // every other flag is untouched
            }
            if (kind == K_CONTAINS_ERASE && r && !marked) ok_flags = false;
        }
        table_ok(c);
    }
};

template <int SIZE, int WIT, int K1, int K2, int K3, int K4, int K5, int K6>
static void run()
{
    const int KS[MAXOPS] = {K1, K2, K3, K4, K5, K6};
    g_nkeys = 0; g_hash_unknown = false;
    for (int i = 0; i < MAXOPS; i++) if (KS[i] != K_NONE) {
        g_key[i] = nondet_u64();
        for (int j = 0; j < 8; j++) g_hv[i][j] = nondet_u32();
        g_nkeys = i + 1;
    }
    // the hash functor is a function: equal elements have equal hashes (the lookup returns the first match; this makes later duplicates agree)
    Cache c;
    const uint32_t got = c.setup(SIZE);
    Drv<SIZE> d;
    VASSERT(got == SIZE, "setup() reports the table size");
    bool fresh_ok = true;
    for (int i = 0; i < SIZE; i++) if (table_of(c)[i] != Elem{} || !flags_of(c).bit_is_set(i)) fresh_ok = false;
    VASSERT(fresh_ok, "a fresh table holds only value-initialised, erasable slots");
    d.template step<K1>(c, 0); d.template step<K2>(c, 1); d.template step<K3>(c, 2); d.template step<K4>(c, 3); d.template step<K5>(c, 4); d.template step<K6>(c, 5);
    VASSERT(!g_hash_unknown, "harness: only operand elements are ever hashed");
    VASSERT(d.ok_fp, "no false positive: contains(e) implies e was inserted earlier (for every hash function)");
    VASSERT(d.ok_table, "every table slot holds an inserted element or the initial value; contains() never modifies the table");
    VASSERT(d.ok_first, "the first insert into a fresh cache is found");
    VASSERT(d.ok_flags, "contains(e, erase=true) marks exactly e's slot erasable, contains(e, false) changes no flag, a found freshly inserted element is marked keep");
    VASSERT(d.ok_keep, "insert() with an erasable (or matching) location available and no ageing due overwrites no kept element");
    if (WIT & 1) VWITNESS(d.any_hit, "a lookup hits");
    if (WIT & 2) VWITNESS(d.any_miss, "a lookup misses");
    if (WIT & 4) VWITNESS(d.any_evict, "a kept element is evicted by a later insert");
    VREACH("end");
}
#define VERIF_ENTRY(name, ...) extern "C" void h_##name() { run<__VA_ARGS__>(); }
#include VERIF_ENTRIES_INC
