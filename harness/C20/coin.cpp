// C20 (2): the per-coin commitment stream. Real code: kernel/coinstats.cpp TxOutSer / ApplyCoinHash(HashWriter&) / ApplyCoinHash(MuHash3072&) / ApplyHash
// (static functions reached by including the .cpp), serialize.h formatters for COutPoint / CTxOut / CScript / compact size, HashWriter (hash.h), DataStream.
// The hashers are RECORDERS: CSHA256::Write and MuHash3072::Insert log the bytes they are fed. Claim: the byte string fed for one coin has the documented
// layout, is the same for both commitment kinds, and determines every field of the coin (two coins with the same byte string are equal in txid, index,
// height, coinbase flag, amount, script length and script bytes), and no coin record is a proper prefix of another (concatenations decode uniquely).
#include <verif.h>
#include <verif_stubs_common.h>
#include <string.h>
#include <kernel/coinstats.cpp>

#define MAXREC 400
#define MAXSCRIPT 260

void memory_cleanse(void*, size_t) {}

// ---- recording hashers ----
static uint8_t g_sha[2 * MAXREC]; static unsigned g_sha_len;
CSHA256::CSHA256() { bytes = 0; }
CSHA256& CSHA256::Write(const unsigned char* data, size_t len)
{
    __CPROVER_assert(g_sha_len + len <= sizeof(g_sha), "sha recorder capacity");
    for (size_t i = 0; i < len; i++) g_sha[g_sha_len + i] = data[i];
    g_sha_len += len; return *this;
}
CSHA256& CSHA256::Reset() { return *this; }
void CSHA256::Finalize(unsigned char hash[OUTPUT_SIZE]) { for (int i = 0; i < 32; i++) hash[i] = nondet_u8(); }
static uint8_t g_mu[MAXREC]; static unsigned g_mu_len, g_mu_calls;
void Num3072::SetToOne() {}
MuHash3072& MuHash3072::Insert(std::span<const unsigned char> in) noexcept
{
    __CPROVER_assert(in.size() <= sizeof(g_mu), "muhash recorder capacity");
    for (size_t i = 0; i < in.size(); i++) g_mu[i] = in[i];
    g_mu_len = in.size(); g_mu_calls++; return *this;
}

struct Desc { uint8_t txid[32]; uint32_t n; uint32_t height; bool coinbase; int64_t value; uint8_t script[MAXSCRIPT]; };
static void draw(Desc& d, int len)
{
    for (int i = 0; i < 32; i++) d.txid[i] = nondet_u8();
    d.n = nondet_u32(); d.height = nondet_u32() & 0x7fffffffu; d.coinbase = nondet_bool(); d.value = nondet_i64();
    for (int i = 0; i < len; i++) d.script[i] = nondet_u8();
}
static COutPoint outpoint_of(const Desc& d) { uint256 h; memcpy(h.data(), d.txid, 32); return COutPoint(Txid::FromUint256(h), d.n); }
static Coin coin_of(const Desc& d, int len)
{
    CScript s; s.resize(len);
    for (int i = 0; i < len; i++) s[i] = d.script[i];
    return Coin(CTxOut(d.value, s), (int)d.height, d.coinbase);
}
// reference layout, written from the format description (doc/assumeutxo / coinstats comments): txid | n LE32 | (height*2 + coinbase) LE32 | amount LE64 | compactsize(len) | script
static unsigned ref_record(const Desc& d, int len, uint8_t* out)
{
    unsigned p = 0;
    for (int i = 0; i < 32; i++) out[p++] = d.txid[i];
    for (int i = 0; i < 4; i++) out[p++] = (uint8_t)(d.n >> (8 * i));
    const uint32_t code = d.height * 2 + (d.coinbase ? 1 : 0);
    for (int i = 0; i < 4; i++) out[p++] = (uint8_t)(code >> (8 * i));
    for (int i = 0; i < 8; i++) out[p++] = (uint8_t)((uint64_t)d.value >> (8 * i));
    if (len < 253) out[p++] = (uint8_t)len; else { out[p++] = 253; out[p++] = (uint8_t)len; out[p++] = (uint8_t)(len >> 8); }
    for (int i = 0; i < len; i++) out[p++] = d.script[i];
    return p;
}

// LA / LB: script lengths of coins A and B (concrete per entry)
template <int LA, int LB>
static void run_coin()
{
    Desc a, b; draw(a, LA); draw(b, LB);
    static uint8_t ra[MAXREC], rb[MAXREC], wa[MAXREC];
    // coin A through the hash_serialized path
    {
        const COutPoint op = outpoint_of(a); const Coin c = coin_of(a, LA);
        HashWriter hw; g_sha_len = 0;
        kernel::ApplyCoinHash(hw, op, c);
        const unsigned n = g_sha_len;
        const unsigned wn = ref_record(a, LA, wa);
        bool same = n == wn;
        for (unsigned i = 0; i < wn; i++) { if (g_sha[i] != wa[i]) same = false; ra[i] = g_sha[i]; verif_observe(g_sha[i]); }
        VASSERT(same, "hash_serialized: the bytes hashed for one coin are txid | n | height*2+coinbase | amount | compactsize(len) | script");
        // the same coin through the muhash path
        MuHash3072 mu; g_mu_calls = 0;
        kernel::ApplyCoinHash(mu, op, c);
        bool msame = g_mu_calls == 1 && g_mu_len == wn;
        for (unsigned i = 0; i < wn; i++) if (g_mu[i] != wa[i]) msame = false;
        VASSERT(msame, "muhash: exactly one element is inserted per coin and it is the same byte string");
    }
    // coin B (other shape) through the hash_serialized path; compare the two recorded streams directly
    {
        const COutPoint op = outpoint_of(b); const Coin c = coin_of(b, LB);
        HashWriter hw; g_sha_len = 0;
        kernel::ApplyCoinHash(hw, op, c);
        for (unsigned i = 0; i < g_sha_len && i < MAXREC; i++) rb[i] = g_sha[i];
    }
    const unsigned na = 32 + 4 + 4 + 8 + (LA < 253 ? 1 : 3) + LA, nb = 32 + 4 + 4 + 8 + (LB < 253 ? 1 : 3) + LB;
    VASSERT(g_sha_len == nb, "record length of coin B");
    bool common_prefix_equal = true;
    for (unsigned i = 0; i < (na < nb ? na : nb); i++) if (ra[i] != rb[i]) common_prefix_equal = false;
    bool fields_equal = LA == LB && a.n == b.n && a.height == b.height && a.coinbase == b.coinbase && a.value == b.value;
    for (int i = 0; i < 32; i++) if (a.txid[i] != b.txid[i]) fields_equal = false;
    for (int i = 0; i < (LA < LB ? LA : LB); i++) if (a.script[i] != b.script[i]) fields_equal = false;
    if (LA == LB) {
    VASSERT(!common_prefix_equal || fields_equal, "equal commitment bytes => equal outpoint, height, coinbase flag, amount and script (every field is committed)");
    VASSERT(!fields_equal || common_prefix_equal, "equal coins => equal commitment bytes");
    VWITNESS(common_prefix_equal, "two coins with equal records");
    VWITNESS(!common_prefix_equal && a.n == b.n && a.height == b.height && a.value == b.value, "records differing although index, height and amount agree");
    } else {
    VASSERT(!common_prefix_equal, "coins with different script lengths: neither record is a prefix of the other");
    VWITNESS(a.n == b.n && a.value == b.value, "reached with equal index and amount");
    }
    VREACH("end");
}

// ApplyHash: all outputs of one transaction, in ascending output-index order, each as one record (the loop ComputeUTXOStats runs per txid)
template <int LA, int LB>
static void run_applyhash()
{
    Desc a, b; draw(a, LA); draw(b, LB);
    for (int i = 0; i < 32; i++) b.txid[i] = a.txid[i];
    a.n = 1; b.n = 7;                       // concrete output indices (std::map shape must be concrete for symex); symbolic indices are covered by h_coin
    std::map<uint32_t, Coin> outputs;
    outputs[b.n] = coin_of(b, LB);          // inserted in descending order; the commitment must not depend on insertion order
    outputs[a.n] = coin_of(a, LA);
    uint256 h; memcpy(h.data(), a.txid, 32);
    HashWriter hw; g_sha_len = 0;
    kernel::ApplyHash(hw, Txid::FromUint256(h), outputs);
    static uint8_t wa[MAXREC], wb[MAXREC];
    const unsigned na = ref_record(a, LA, wa), nb = ref_record(b, LB, wb);
    bool same = g_sha_len == na + nb;
    for (unsigned i = 0; i < na; i++) if (g_sha[i] != wa[i]) same = false;
    for (unsigned i = 0; i < nb; i++) if (g_sha[na + i] != wb[i]) same = false;
    verif_observe(g_sha_len);
    VASSERT(same, "ApplyHash feeds record(lower index) || record(higher index) for the outputs of a transaction");
    kernel::CCoinsStats stats;
    stats.total_amount = 0;
    VASSUME(a.value >= 0 && b.value >= 0 && a.value <= MAX_MONEY && b.value <= MAX_MONEY);
    kernel::ApplyStats(stats, outputs);
    VASSERT(stats.nTransactions == 1 && stats.nTransactionOutputs == 2 && stats.total_amount.has_value() && *stats.total_amount == a.value + b.value, "ApplyStats counts the outputs and sums the amounts");
    VREACH("end");
}

#define VERIF_ENTRY(name, kind, ...) extern "C" void h_##name() { run_##kind<__VA_ARGS__>(); }
#include VERIF_ENTRIES_INC
