from vlib import H
PROPERTY = 'C20'
LEVEL = 'model_checking'
CLAIM = ('Commitment kernel of UTXO snapshots (kernel level only: activation logic, base-block/work checks, "existing chainstate untouched" and background validation live in ChainstateManager and are NOT claimed). '
         '(1) node::SnapshotMetadata::Unserialize on ANY byte string of the header length 51 (and every truncation / two extra bytes) with a symbolic node network magic: accepted <=> complete, bytes 0..4 == "utxo\\xff", '
         'version == 2 (only supported version), bytes 7..10 == node magic; otherwise an exception (std::ios_base::failure, the type loadtxoutset catches, except one corner noted in assumptions); accepted => base block hash and '
         'coin count are header bytes 11..42 / 43..50 LE, exactly 51 bytes consumed, Serialize(Unserialize(h)) == h. '
         '(2) the per-coin commitment bytes: real kernel::ApplyCoinHash(HashWriter&)/TxOutSer and ApplyCoinHash(MuHash3072&) with RECORDING hashers feed exactly txid | n LE32 | height*2+coinbase LE32 | amount LE64 | compactsize(len) | script '
         'for symbolic txid, index, 31-bit height, coinbase flag, 64-bit amount and script bytes; directly on the recorded streams: equal bytes <=> equal in every field (same script length), and for different script lengths neither record is a prefix '
         'of the other (so the concatenation hashed into hash_serialized decodes uniquely: any changed/missing/extra coin, height, value or script changes the hashed byte string). '
         '(3) kernel::ApplyHash over the std::map of a transaction\'s outputs feeds the records in ascending index order; ApplyStats counts/sums them.')
LINK = ['uint256.cpp', 'script/script.cpp', 'primitives/transaction.cpp', 'hash.cpp']
def ce(kind, la, lb): return ('%s_%d_%d' % (kind, la, lb), '%s, %d, %d' % (kind, la, lb))
coin_q = [ce('coin', a, b) for a, b in ((0, 0), (1, 1), (3, 3), (2, 3), (0, 1), (28, 28), (29, 29), (28, 29))] + [ce('applyhash', 2, 3), ce('applyhash', 0, 29)]
coin_t = coin_q + [ce('coin', a, b) for a, b in ((75, 75), (75, 76), (252, 253), (253, 253), (253, 254))] + [ce('applyhash', 34, 25)]
HARNESSES = [
    H('meta', 'meta.cpp', 'h_meta', link=['uint256.cpp'], entries=[('len%d' % l, '%d' % l) for l in (0, 5, 7, 11, 50, 51, 53)], tentries=[('len%d' % l, '%d' % l) for l in range(0, 54)],
      shadow=['nofmt'], unwind=60, memunwind=72, timeout=300, objbits=10,
      functions=['node::SnapshotMetadata::Unserialize / Serialize (node/utxo_snapshot.h)', 'SpanReader, DataStream (streams.h)', 'serialize.h array/uint16/uint64/uint256 formatters', 'std::set<uint16_t>::contains'],
      stubs=['GetNetworkForMagic (kernel/chainparams.cpp; used only to word the error message): nondeterministic known/unknown answer', 'ChainTypeToString -> empty string', 'tinyformat -> empty strings', 'memory_cleanse -> no-op', 'assertion_fail -> CBMC assertion'],
      assumptions=['observation, not a violation: if the node\'s own network magic is unknown to GetNetworkForMagic (custom signet) and the snapshot carries the magic of a known network, the rejection surfaces as std::bad_optional_access '
                   '(from node_network.value() while formatting the message) instead of std::ios_base::failure; the snapshot is still rejected. The harness asserts this is the ONLY case of a non-ios_base::failure exception.'],
      bounds='quick: input lengths 0,5,7,11,50,51,53 (thorough: every length 0..53); all byte values and all node magics symbolic'),
    H('coin', 'coin.cpp', 'h_coin', link=LINK, entries=coin_q, tentries=coin_t, shadow=['nofmt'], unwind=420, memunwind=420, timeout=600, objbits=10,
      functions=['kernel::TxOutSer, kernel::ApplyCoinHash(HashWriter&,..), kernel::ApplyCoinHash(MuHash3072&,..), kernel::ApplyHash, kernel::ApplyStats (kernel/coinstats.cpp, static functions via #include of the .cpp)',
                 'COutPoint / CTxOut / CScript / compact-size serialization (serialize.h, prevector.h)', 'HashWriter::write (hash.h)', 'DataStream (streams.h)', 'Coin (coins.h)'],
      stubs=['CSHA256 -> recorder of the bytes written (digest unconstrained)', 'MuHash3072::Insert -> recorder; Num3072::SetToOne -> no-op (3072-bit arithmetic is C21 material)', 'memory_cleanse -> no-op', 'tinyformat -> empty strings', 'assertion_fail -> CBMC assertion'],
      assumptions=['ApplyHash: output indices concrete (1 and 7) so that the std::map shape is concrete; symbolic indices are covered by the single-coin entries', 'ApplyStats: amounts in [0, MAX_MONEY]'],
      bounds='script lengths (A,B): (0,0) (1,1) (3,3) (2,3) (0,1) (28,28) (29,29: heap-allocated prevector) (28,29); thorough adds 75/76, 252/253/254 (3-byte compact size); every other field symbolic full width'),
]
