// C20 (1): snapshot header validation. Real code: node::SnapshotMetadata::Unserialize / Serialize (node/utxo_snapshot.h), SpanReader / DataStream (streams.h),
// serialize.h formatters, std::set<uint16_t> (supported versions).
// Input: ANY byte string of LEN bytes (LEN concrete per variant: the full header length 51 and every truncation), node network magic symbolic.
// Reference (file format documented in utxo_snapshot.h): 'u' 't' 'x' 'o' 0xff | version u16 LE (supported: 2) | network magic (4) | base block hash (32) | coin count u64 LE
#include <verif.h>
#include <verif_stubs_common.h>
#include <node/utxo_snapshot.h>
#include <streams.h>
#include <util/chaintype.h>
#include <ios>

#define HDR 51

// kernel/chainparams.cpp (builds every CChainParams object) and util/chaintype.cpp are only used to word the error message: nondeterministic stand-ins
static bool g_known_file, g_known_node;
static int g_calls;
std::optional<ChainType> GetNetworkForMagic(const MessageStartChars&)
{
    const bool known = (g_calls++ == 0) ? g_known_file : g_known_node;
    if (known) return ChainType::MAIN;
    return std::nullopt;
}
std::string ChainTypeToString(ChainType) { return std::string(); }
void memory_cleanse(void*, size_t) {}

// LEN: number of input bytes (concrete per entry)
template <int LEN>
static void run()
{
    constexpr int CAP = LEN > HDR ? LEN : HDR;
    uint8_t buf[CAP + 1];
    for (int i = 0; i < CAP; i++) buf[i] = i < LEN ? nondet_u8() : 0;
    MessageStartChars magic;
    for (int i = 0; i < 4; i++) magic[i] = nondet_u8();
    g_known_file = nondet_bool();
    g_known_node = nondet_bool();   // false: the node runs on a network GetNetworkForMagic does not know (custom signet)
    g_calls = 0;

    node::SnapshotMetadata md(magic);
    SpanReader rd{std::span<const uint8_t>(buf, LEN)};
    bool accepted = false, io_failure = false, other_exc = false;
    try {
        rd >> md;
        accepted = true;
    } catch (const std::ios_base::failure&) {
        io_failure = true;
    } catch (const std::exception&) {
        other_exc = true;           // std::bad_optional_access from `node_network.value()` while wording the error message
    }
    verif_observe(accepted); verif_observe(io_failure);

    static const uint8_t MAGIC[5] = {'u', 't', 'x', 'o', 0xff};
    bool magic_ok = true, net_ok = true;
    for (int i = 0; i < 5; i++) if (buf[i] != MAGIC[i]) magic_ok = false;
    const bool version_ok = buf[5] == 2 && buf[6] == 0;
    for (int i = 0; i < 4; i++) if (buf[7 + i] != magic[i]) net_ok = false;
    const bool want = LEN >= HDR && magic_ok && version_ok && net_ok;
    VASSERT(accepted == want, "header accepted <=> complete, snapshot magic, supported version (2) and this node's network magic");
    VASSERT(accepted || io_failure || other_exc, "a rejected header is reported by an exception");
    // the rejection is std::ios_base::failure (what the loadtxoutset caller catches) except in one corner: wrong-network snapshot of a known network on a node whose own network is unknown
    VASSERT(!other_exc || (LEN >= HDR && magic_ok && version_ok && !net_ok && g_known_file && !g_known_node), "non-ios_base::failure rejection only for known-network snapshot on an unknown-network node");
    if (accepted) {
        bool hash_ok = true; uint64_t cnt = 0;
        for (int i = 0; i < 32; i++) if (md.m_base_blockhash.data()[i] != buf[11 + i]) hash_ok = false;
        for (int i = 0; i < 8; i++) cnt |= (uint64_t)buf[43 + i] << (8 * i);
        verif_observe(md.m_coins_count);
        VASSERT(hash_ok, "base block hash = header bytes 11..42");
        VASSERT(md.m_coins_count == cnt, "coin count = header bytes 43..50 little endian");
        VASSERT(rd.size() == LEN - HDR, "exactly the header is consumed");
        // round trip: re-serializing the accepted metadata reproduces the header bytes
        DataStream out;
        out << md;
        bool same = out.size() == HDR;
        for (int i = 0; i < HDR; i++) if (same && (uint8_t)out[i] != buf[i]) same = false;
        VASSERT(same, "Serialize(Unserialize(header)) == header");
    }
    if (LEN >= HDR) {
    VWITNESS(accepted, "some header is accepted");
    VWITNESS(!accepted && magic_ok && version_ok, "rejected only for the network magic");
    VWITNESS(!accepted && magic_ok && net_ok, "rejected only for the version");
    VWITNESS(!accepted && version_ok && net_ok, "rejected only for the snapshot magic");
    } else {
    VWITNESS(!accepted && (LEN < 5 || magic_ok), "truncated header rejected");
    }
    VREACH("end");
}
#define VERIF_ENTRY(name, ...) extern "C" void h_##name() { run<__VA_ARGS__>(); }
#include VERIF_ENTRIES_INC
