// C19 (2): node::BlockManager::FindFilesToPrune / FindFilesToPruneManual / CalculateCurrentUsage (node/blockstorage.cpp) composed with the
// real Chainstate::GetPruneRange (validation.cpp), over a real m_blockfile_info vector of NF CBlockFileInfo with symbolic contents.
// Concrete per entry: NF (number of block files), NCS (number of chainstates in ChainstateManager::m_chainstates), WHICH (which of them
// is pruned), MODE (0 automatic, 1 manual). Everything else symbolic.
#include <verif.h>
#include <verif_open_access.h>
#include <validation.h>
#include <node/blockstorage.h>
#include <kernel/chainparams.h>
#include <verif_close_access.h>
#include <verif_stubs_common.h>
#include <verif_stubs_node.h>
#include <verif_phantom.h>

RecursiveMutex cs_main;     // kernel/cs_main.cpp (not linked)
using kernel::CBlockFileInfo;

// ---- recorder replacing PruneOneBlockFile (the real one walks the block index and the dirty sets, which are not part of this claim).
// It keeps the one effect the callers can observe afterwards: the file's info entry is reset.
// The record is indexed by file number (concrete at every call site of the unrolled loops), the sequence number is symbolic.
#define MAXF 4
struct Rec { int calls; int cnt[MAXF]; int seq[MAXF]; CBlockFileInfo info[MAXF]; };
static Rec g_rec;
void node::BlockManager::PruneOneBlockFile(const int fileNumber)
{
    VASSERT(fileNumber >= 0 && fileNumber < MAXF && (size_t)fileNumber < m_blockfile_info.size(), "PruneOneBlockFile called with an existing file number");
    if (fileNumber >= 0 && fileNumber < MAXF) { g_rec.cnt[fileNumber]++; g_rec.seq[fileNumber] = g_rec.calls; g_rec.info[fileNumber] = m_blockfile_info.at(fileNumber); }
    g_rec.calls++;
    m_blockfile_info.at(fileNumber) = CBlockFileInfo{};
}
#ifdef SETSTUB
static int g_ins[MAXF];
template <> template <> std::pair<std::_Rb_tree_iterator<int>, bool> std::_Rb_tree<int, int, std::_Identity<int>, std::less<int>, std::allocator<int>>::_M_insert_unique<const int&>(const int& v)
{
    if (v >= 0 && v < MAXF) g_ins[v]++;
    return {iterator(nullptr), true};
}
#endif
static CBlockIndex g_base;
static PhantomStore<ChainstateManager> cm_store; static PhantomStore<Chainstate> cs_store[2]; static PhantomStore<CChainParams> cp_store;
CBlockIndex* node::BlockManager::LookupBlockIndex(const uint256&) { return &g_base; }

struct CsIn { bool snapshot; unsigned au; bool target; bool target_utxo; };

template <int NF, int NCS, int WHICH, int MODE>
static void run()
{
    ChainstateManager& cm = cm_store.obj(); node::BlockManager& bm = cm.m_blockman; CChainParams& cp = cp_store.obj();
    memset(&g_rec, 0, sizeof(g_rec));

    // ---- chain parameters / options
    *(void**)&cm.m_options = &cp;                                  // ChainstateManagerOpts::chainparams (first member, a reference)
    VASSERT(&cm.GetParams() == &cp, "phantom chainparams wired");
    const uint64_t prune_after = nondet_u64(); cp.nPruneAfterHeight = prune_after;
    const uint64_t prune_target = nondet_u64();
    // assumption: configured target below 2^63 bytes, or the manual-only sentinel PRUNE_TARGET_MANUAL (2^64-1). Otherwise the debug log line of
    // FindFilesToPrune computes int64_t(target) - int64_t(usage) with signed overflow (only with -prune >= 8 EiB; see report)
    VASSUME(prune_target <= (uint64_t)INT64_MAX || prune_target == UINT64_MAX);
    poke(bm.m_opts.prune_target, prune_target);
    poke(bm.m_prune_mode, true);
    const bool ibd = nondet_bool(); new (&cm.m_cached_is_ibd) std::atomic_bool(ibd);
    static CBlockIndex best; const int best_h = (int)nondet_range(0, INT_MAX); best.nHeight = best_h; cm.m_best_header = &best;

    // ---- chainstates
    CsIn in[2]; int64_t hh[2];
    static Chainstate* cs_slots[2];                                // storage of std::vector<std::unique_ptr<Chainstate>> (one pointer per element)
    { Chainstate** raw[3] = {cs_slots, cs_slots + NCS, cs_slots + 2}; static_assert(sizeof(cm.m_chainstates) == sizeof(raw) && sizeof(std::unique_ptr<Chainstate>) == sizeof(Chainstate*)); memcpy((void*)&cm.m_chainstates, raw, sizeof(raw)); }
    for (int i = 0; i < NCS; i++) {
        Chainstate& c = cs_store[i].obj();
        new (&c.m_chain) CChain();
        void** slot = REF_SLOT_AFTER(c, Chainstate, m_last_script_check_reason_logged); slot[0] = &bm; slot[1] = &cm;
        VASSERT(&c.m_chainman == &cm && &c.m_blockman == &bm, "phantom reference members wired");
        in[i].snapshot = nondet_bool(); in[i].au = (unsigned)nondet_range(0, 2); in[i].target = nondet_bool(); in[i].target_utxo = nondet_bool();
        uint256 hash; hash.data()[0] = 1;
        if (in[i].snapshot) new ((void*)&c.m_from_snapshot_blockhash) std::optional<uint256>(hash); else new ((void*)&c.m_from_snapshot_blockhash) std::optional<uint256>();
        if (in[i].target) new (&c.m_target_blockhash) std::optional<uint256>(hash); else new (&c.m_target_blockhash) std::optional<uint256>();
        if (in[i].target_utxo) new (&c.m_target_utxohash) std::optional<AssumeutxoHash>(AssumeutxoHash{hash}); else new (&c.m_target_utxohash) std::optional<AssumeutxoHash>();
        c.m_assumeutxo = in[i].au == 0 ? Assumeutxo::VALIDATED : in[i].au == 1 ? Assumeutxo::UNVALIDATED : Assumeutxo::INVALID;
        c.m_cached_snapshot_base = &g_base;
        hh[i] = (int64_t)nondet_range(0, (uint64_t)INT_MAX) - 1;
        set_chain_height(c.m_chain, hh[i]);
        cs_slots[i] = &c;
    }
    Chainstate& cs = cs_store[WHICH].obj();
    const int64_t h = hh[WHICH];
    const int base_h = (int)nondet_range(0, (uint64_t)INT_MAX - 1); g_base.nHeight = base_h;

    // ---- block file table
    new (&bm.m_blockfile_info) std::vector<CBlockFileInfo>(NF);
    CBlockFileInfo T0[NF];
    for (int f = 0; f < NF; f++) {
        CBlockFileInfo& x = bm.m_blockfile_info[f];
        x.nBlocks = nondet_u32(); x.nSize = nondet_u32(); x.nUndoSize = nondet_u32(); x.nHeightFirst = nondet_u32(); x.nHeightLast = nondet_u32();
        // assumption: block + undo bytes of one file fit 32 bits (the code adds the two uint32 fields in 32-bit arithmetic; block files are
        // capped at MAX_BLOCKFILE_SIZE = 128 MiB by FindNextBlockPos, undo files stay far below 4 GiB - 128 MiB for any realistic chain)
        VASSUME((uint64_t)x.nSize + x.nUndoSize <= 0xffffffffULL);
        T0[f] = x;
    }
    // file cursors: the file currently written for normal / assumed-valid chainstates; the info table covers them (FindNextBlockPos resizes it first)
    const int cur_normal = (int)nondet_range(0, NF - 1); const bool have_assumed = nondet_bool(); const int cur_assumed = (int)nondet_range(0, NF - 1);
    new (&bm.m_blockfile_cursors) decltype(bm.m_blockfile_cursors){};
    bm.m_blockfile_cursors[0] = node::BlockfileCursor{cur_normal, 0};
    if (have_assumed) bm.m_blockfile_cursors[1] = node::BlockfileCursor{cur_assumed, 0}; else bm.m_blockfile_cursors[1] = std::nullopt;
    const int maxfile = (have_assumed && cur_assumed > cur_normal) ? cur_assumed : cur_normal;

    // ---- reference values, from the property text
    unsigned __int128 sum = 0; for (int f = 0; f < NF; f++) sum += (unsigned __int128)T0[f].nSize + T0[f].nUndoSize;
    const uint64_t usage0 = bm.CalculateCurrentUsage();
    VASSERT((unsigned __int128)usage0 == sum, "CalculateCurrentUsage is the exact sum of block and undo bytes of all files");
    const bool unvalidated_snapshot = in[WHICH].snapshot && in[WHICH].au != 0;

    std::set<int>& out = *new std::set<int>();       // never destroyed: the node-deallocation walk is not the subject
    int64_t req;
    if (MODE == 0) {
        req = (int64_t)nondet_range(0, INT_MAX);
        bm.FindFilesToPrune(out, (int)req, cs, cm);
    } else {
        req = (int64_t)nondet_range(1, INT_MAX);
        bm.FindFilesToPruneManual(out, (int)req, cs);
    }
    // allowed range: nothing in the last 288 blocks below the tip, nothing above the requested height, nothing at or below an unvalidated snapshot base
    const int64_t cap = h - 288 > 0 ? h - 288 : 0;
    const int64_t pend = h > 0 ? (req < cap ? req : cap) : 0;
    const int64_t pstart = (h > 0 && unvalidated_snapshot) ? (int64_t)base_h + 1 : 0;

    const int n = g_rec.calls;
    verif_observe(n); for (int f = 0; f < NF; f++) verif_observe(g_rec.cnt[f]);
    bool pruned[NF]; int total = 0;
    bool ok_range = true, ok_size = true, ok_order = true, ok_idx = true, ok_info = true;
    for (int f = 0; f < NF; f++) {
        pruned[f] = g_rec.cnt[f] > 0; total += g_rec.cnt[f];
        if (g_rec.cnt[f] > 1) ok_order = false;
        if (!pruned[f]) continue;
        if (f >= maxfile) ok_idx = false;
        if (!(T0[f].nSize > 0)) ok_size = false;
        if (!((int64_t)T0[f].nHeightLast <= pend && (int64_t)T0[f].nHeightFirst >= pstart)) ok_range = false;
        if (g_rec.info[f].nSize != T0[f].nSize || g_rec.info[f].nUndoSize != T0[f].nUndoSize || g_rec.info[f].nHeightLast != T0[f].nHeightLast || g_rec.info[f].nHeightFirst != T0[f].nHeightFirst) ok_info = false;
        for (int g = 0; g < f; g++) if (pruned[g] && !(g_rec.seq[g] < g_rec.seq[f])) ok_order = false;
    }
    VASSERT(total == n, "every PruneOneBlockFile call names a file of the table");
    VASSERT(ok_idx, "only files below the current write cursor(s) are pruned");
    VASSERT(ok_order, "every file is pruned at most once, in ascending file order");
    VASSERT(ok_size, "only files that hold data (nSize > 0) are pruned");
    VASSERT(ok_range, "every pruned file lies inside [prune_start, prune_end]: no block of the last 288 below the tip, above the requested height, or at/below an unvalidated snapshot base");
    VASSERT(ok_info, "the file info is untouched until the file is pruned");
#ifdef SETSTUB
    for (int f = 0; f < NF; f++) VASSERT((g_ins[f] >= 1) == pruned[f], "set of files to unlink equals the pruned files");
#else
    VASSERT((int)out.size() == n, "set of files to unlink has exactly the pruned files");
    for (int f = 0; f < NF; f++) VASSERT((out.count(f) == 1) == pruned[f], "set of files to unlink equals the pruned files");
#endif
    for (int f = 0; f < NF; f++) if (!pruned[f]) {
        const CBlockFileInfo& x = bm.m_blockfile_info[f];
        VASSERT(x.nSize == T0[f].nSize && x.nUndoSize == T0[f].nUndoSize && x.nHeightFirst == T0[f].nHeightFirst && x.nHeightLast == T0[f].nHeightLast && x.nBlocks == T0[f].nBlocks, "files not pruned keep their info");
    }
    bool eligible[NF]; bool any_left = false;
    for (int f = 0; f < NF; f++) {
        eligible[f] = f < maxfile && T0[f].nSize > 0 && (int64_t)T0[f].nHeightLast <= pend && (int64_t)T0[f].nHeightFirst >= pstart;
        if (eligible[f] && !pruned[f]) any_left = true;
    }
    if (MODE == 1) {
        // manual pruning removes exactly the eligible files
        for (int f = 0; f < NF; f++) VASSERT(pruned[f] == (h >= 0 && eligible[f]), "manual pruning removes exactly the files wholly inside the allowed range");
        if (NF > 1) VWITNESS(n == NF - 1, "all prunable files pruned");
        VWITNESS(n == 0 && h > 1000, "nothing pruned");
    } else {
        bool hist = false;
        for (int i = 0; i < NCS; i++) if (in[i].au != 2 && in[i].target && !in[i].target_utxo) hist = true;
        const uint64_t MiB = 1024 * 1024;
        uint64_t target = hist ? (prune_target >> 1) : prune_target; if (target < 550 * MiB) target = 550 * MiB;
        const unsigned __int128 base_buffer = 17 * MiB;              // one block-file chunk + one undo-file chunk of pre-allocation
        const bool gate = h >= 0 && (unsigned __int128)h > prune_after;
        if (!gate) VASSERT(n == 0, "nothing is pruned while the tip is not above PruneAfterHeight (or the chain is empty)");
        const bool over = !(sum + base_buffer < target);
        if (!over) VASSERT(n == 0, "nothing is pruned while usage plus the allocation buffer is below the target");
        // once over the target, pruning during initial block download aims lower by ~1 MB per block still to be downloaded
        unsigned __int128 buffer = base_buffer;
        if (ibd && (int64_t)best_h > h) buffer += (uint64_t)1000000 * (uint64_t)((int64_t)best_h - h);   // < 2^51
        unsigned __int128 left = sum; bool no_over = true;
        for (int f = 0; f < NF; f++) if (pruned[f]) {                 // files are pruned in ascending order (asserted above)
            if (left + buffer < target) no_over = false;               // this file was pruned although usage was already back under the target
            left -= (unsigned __int128)T0[f].nSize + T0[f].nUndoSize;
        }
        VASSERT(no_over, "pruning stops as soon as usage plus buffer is below the target");
        if (gate) VASSERT(left + base_buffer < target || !any_left, "on return usage (plus allocation buffer) is back under the target or no eligible file remains");
        if (gate && over) VASSERT(left + buffer < target || !any_left, "when pruning was triggered it continues down to the (IBD-enlarged) buffer or until no eligible file remains");
        VASSERT((unsigned __int128)bm.CalculateCurrentUsage() == left, "usage after pruning = usage before minus the pruned files (no wrap)");
        if (NF > 1) VWITNESS(n == NF - 1, "all prunable files pruned");
        if (NF > 1) VWITNESS(gate && n == 0 && any_left, "below target: eligible file kept");
        if (NF > 2) VWITNESS(gate && n > 0 && any_left, "stopped early with an eligible file left");
        VWITNESS(gate && n == 0 && over, "over target but nothing eligible");
        if (NF > 1) VWITNESS(gate && n > 0 && left + base_buffer < target && !(left + buffer < target) && !any_left, "IBD buffer makes pruning go below the plain target");
        if (NF > 1) VWITNESS(hist && n > 0, "historical chainstate halves the target");
    }
    VREACH("end");
}
#define VERIF_ENTRY(name, ...) extern "C" void h_##name() { run<__VA_ARGS__>(); }
#include VERIF_ENTRIES_INC
