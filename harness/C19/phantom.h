// Phantom node objects for the C19 harnesses ("under stubs", DESIGN 2.1): zeroed aligned storage of sizeof(Class) in which only the
// members read by the functions under test are placement-constructed. Access to private members: the including TU defines
// private/protected as public before including validation.h (layout unchanged).
#pragma once
#include <new>
#include <string.h>
template <class T> struct PhantomStore { alignas(64) unsigned char b[sizeof(T)]; T& obj() { return *reinterpret_cast<T*>(b); } };
// slot of a reference member that directly follows member `prev` (reference members have no address of their own)
template <class P> static inline void** ref_slot_after(const P& prev) { uintptr_t a = (uintptr_t)(const void*)&prev + sizeof(P); a = (a + 7) & ~(uintptr_t)7; return (void**)a; }
// store a value into a const member
template <class T, class V> static inline void poke(const T& member, V v) { *const_cast<T*>(&member) = (T)v; }
// CChain of symbolic height without allocating blocks: std::vector<CBlockIndex*> {begin, end, cap} with end = begin + (height+1).
// Only size() is ever read by the code under test (CChain::Height()).
__attribute__((no_sanitize("bounds"))) static inline void set_chain_height(CChain& c, int64_t height)
{
    static CBlockIndex* one_slot;
    CBlockIndex** raw[3]; raw[0] = &one_slot; raw[1] = &one_slot + (height + 1); raw[2] = raw[1];
    static_assert(sizeof(c.vChain) == sizeof(raw), "libstdc++ vector layout");
    memcpy((void*)&c.vChain, raw, sizeof(raw));
}
