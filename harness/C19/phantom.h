// Phantom node objects for the C19 harnesses ("under stubs", DESIGN 2.1): zeroed aligned storage of sizeof(Class) in which only the
// members read by the functions under test are placement-constructed. Access to private members: the including TU defines
// private/protected as public before including validation.h (layout unchanged).
#pragma once
#include <new>
#include <string.h>
// The storage is a *typed* zero-initialised global (a union whose only non-trivial member is never constructed/destroyed by the
// compiler), not a byte array: CBMC keeps typed struct members field-sensitive, whereas typed accesses into a large byte array lose
// every constant (pointers, sizes) stored there. Use at namespace scope: `static PhantomStore<Chainstate> g_cs;`.
template <class T> union PhantomStore {
    char zero_;
    T o;
    constexpr PhantomStore() : zero_{0} {}
    ~PhantomStore() {}
    T& obj() { return o; }
};
// slot of a reference member of `obj` that directly follows member `prev` (reference members have no address of their own).
// Pure pointer arithmetic relative to the object (no integer casts of addresses: CBMC would lose the target object).
template <class O, class P> static inline void** ref_slot_after(O& obj, const P& prev)
{
    size_t off = (size_t)((const char*)(const void*)&prev - (const char*)(const void*)&obj) + sizeof(P);
    off = (off + 7) & ~(size_t)7;
    return (void**)((char*)(void*)&obj + off);
}
// store a value into a const member
template <class T, class V> static inline void poke(const T& member, V v) { *const_cast<T*>(&member) = (T)v; }
// CChain of symbolic height without allocating blocks: std::vector<CBlockIndex*> {begin, end, cap} with end = begin + (height+1).
// Only size() is ever read by the code under test (CChain::Height()).
__attribute__((no_sanitize("bounds"))) static inline void set_chain_height(CChain& c, int64_t height)
{
    static CBlockIndex* one_slot;
    CBlockIndex** raw[3]; raw[0] = &one_slot; raw[1] = &one_slot + (height + 1); raw[2] = raw[1];
    static_assert(sizeof(c.vChain) == sizeof(raw), "libstdc++ vector layout");
    memcpy((void*)&c.vChain, raw, sizeof(raw));
}
