// C19 (1): Chainstate::GetPruneRange (validation.cpp) on a phantom Chainstate, for every tip height, requested height, snapshot state.
#include <verif.h>
#include <verif_open_access.h>
#include <validation.h>
#include <verif_close_access.h>
#include <verif_stubs_common.h>
#include <verif_phantom.h>
#include <limits.h>

static CBlockIndex g_base;
static PhantomStore<Chainstate> cs_store; static PhantomStore<ChainstateManager> cm_store;
// SnapshotBase() falls back to the block index lookup when the cached pointer is not set yet; the index always contains the
// snapshot base block (ActivateSnapshot refuses otherwise), so the lookup stub answers with it.
CBlockIndex* node::BlockManager::LookupBlockIndex(const uint256&) { return &g_base; }

extern "C" void h_prunerange()
{
    Chainstate& cs = cs_store.obj(); ChainstateManager& cm = cm_store.obj();
    new (&cs.m_chain) CChain();
    void** slot_blockman = REF_SLOT_AFTER(cs, Chainstate, m_last_script_check_reason_logged);
    slot_blockman[0] = &cm.m_blockman; slot_blockman[1] = &cm;
    VASSERT(&cs.m_chainman == &cm && &cs.m_blockman == &cm.m_blockman, "phantom reference members wired");

    const int64_t h = (int64_t)nondet_range(0, (uint64_t)INT_MAX) - 1;          // tip height, -1 = empty chain
    set_chain_height(cs.m_chain, h);
    VASSERT(cs.m_chain.Height() == (int)h, "phantom chain height");
    const bool snapshot = nondet_bool();
    const unsigned au = (unsigned)nondet_range(0, 2);
    if (snapshot) { uint256 hash; hash.data()[0] = 1; new ((void*)&cs.m_from_snapshot_blockhash) std::optional<uint256>(hash); }
    else new ((void*)&cs.m_from_snapshot_blockhash) std::optional<uint256>();
    cs.m_assumeutxo = au == 0 ? Assumeutxo::VALIDATED : au == 1 ? Assumeutxo::UNVALIDATED : Assumeutxo::INVALID;
    const int base_h = (int)nondet_range(0, (uint64_t)INT_MAX - 1);
    g_base.nHeight = base_h;
    cs.m_cached_snapshot_base = nondet_bool() ? &g_base : nullptr;
    const int req = (int)nondet_u32();                                            // any requested height, also negative

    const std::pair<int, int> r = cs.GetPruneRange(req);
    verif_observe((uint32_t)r.first); verif_observe((uint32_t)r.second);

    const int64_t keep = 288;
    const int64_t cap = h - keep > 0 ? h - keep : 0;                              // max(0, tip - 288)
    VASSERT(r.second <= cap, "prune_end <= max(0, tip - 288)");
    VASSERT(r.second <= 0 || (int64_t)r.second + keep <= h, "a positive prune_end leaves the last 288 blocks below the tip untouched");
    VASSERT(r.second <= std::max(req, 0), "prune_end <= requested height");
    if (h > 0) {
        VASSERT(r.second == std::min<int64_t>(req, cap), "prune_end is exactly min(requested, max(0, tip - 288))");
        const bool unvalidated_snapshot = snapshot && au != 0;
        VASSERT(r.first == (unvalidated_snapshot ? base_h + 1 : 0), "prune_start = snapshot base + 1 iff unvalidated snapshot chainstate, else 0");
    } else {
        VASSERT(r.first == 0 && r.second == 0, "empty/genesis-only chain: nothing prunable");
    }
    VWITNESS(r.second > 0 && r.second == req, "requested height limits");
    VWITNESS(r.second > 0 && r.second < req, "288-window limits");
    VWITNESS(r.first > 0, "snapshot start");
    VWITNESS(snapshot && au == 0 && h > 0, "validated snapshot");
    VWITNESS(h > 0 && h < 288 && r.second == 0, "short chain");
    VREACH("end");
}
