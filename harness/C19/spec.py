from vlib import H
PROPERTY = 'C19'
LEVEL = 'model_checking'
CLAIM = ('Kernel-level claim on the real pruning decision code. (1) Chainstate::GetPruneRange on a phantom Chainstate, for every tip height (incl. empty chain), every 32-bit requested height and every '
         'snapshot/assumeutxo state: prune_end == min(requested, max(0, tip-288)) and a positive prune_end is always <= tip-288; prune_start == snapshot base + 1 iff the chainstate was created from a snapshot that is not '
         'yet VALIDATED, else 0; {0,0} for tip <= 0. (2) node::BlockManager::FindFilesToPrune / FindFilesToPruneManual / CalculateCurrentUsage composed with the real GetPruneRange over a real m_blockfile_info vector of 1..3 '
         'CBlockFileInfo with symbolic sizes and height ranges (PruneOneBlockFile replaced by a recorder): every pruned file has nSize > 0, lies below the write cursors, has nHeightLast <= prune_end and nHeightFirst >= prune_start '
         '(so holds no block of the last 288 below the tip, above the requested/prune-lock-limited height, or at/below an unvalidated snapshot base); files are pruned at most once in ascending order; setFilesToPrune equals the '
         'pruned set; unpruned entries are untouched; automatic pruning prunes nothing while tip <= PruneAfterHeight, the chain is empty, or usage + 17 MiB < target (target = max(550 MiB, prune_target / (2 if a historical '
         'chainstate exists else 1))), never prunes a file once usage + (IBD-enlarged) buffer is below the target, and on return usage + buffer is below the target or no eligible file remains; usage bookkeeping equals '
         'the exact (128-bit) sum; manual pruning removes exactly the eligible files. NOT decided: prune locks (the min over m_prune_locks is computed inline in Chainstate::FlushStateToDisk and only enters here as '
         'last_prune), PruneOneBlockFile itself (block-index flags), UnlinkPrunedFiles/disk, block-file layout histories and reorgs. Observation (not a violation of the encoded oracle): for tips 1..288 prune_end is 0, '
         'so a block file containing only the genesis block is prunable although height 0 is within 288 blocks of the tip.')
RB = '_ZNSt8_Rb_treeIiiSt9_IdentityIiESt4lessIiESaIiEE'
RBSET = ','.join(x + ':4' for x in [RB + '16_M_insert_uniqueIRKiEESt4pairISt17_Rb_tree_iteratorIiEbEOT_.0', '_ZSt18_Rb_tree_decrementPSt18_Rb_tree_node_base.0', '_ZSt18_Rb_tree_decrementPSt18_Rb_tree_node_base.1'])
NOLOG = ['_ZN4util3log23LogPrintFormatInternal_[A-Za-z0-9_]*', '_ZN4util6detail24CheckNumFormatSpecifiersILj[0-9]+EEEvPKc']
def e(nf, ncs, which, mode): return ('f%d_c%d_w%d_%s' % (nf, ncs, which, 'auto' if mode == 0 else 'man'), '%d, %d, %d, %d' % (nf, ncs, which, mode))
ENT = [e(3, 1, 0, 0), e(3, 2, 1, 0), e(3, 1, 0, 1), e(2, 1, 0, 0), e(1, 1, 0, 0)]
TENT = ENT + [e(3, 2, 0, 0), e(3, 2, 1, 1), e(2, 2, 0, 0), e(2, 2, 1, 1)]
ENT_SET = [e(2, 1, 0, 0), e(2, 1, 0, 1)]
FN = ['node::BlockManager::FindFilesToPrune', 'node::BlockManager::FindFilesToPruneManual', 'node::BlockManager::CalculateCurrentUsage', 'node::BlockManager::MaxBlockfileNum/IsPruneMode/GetPruneTarget',
      'Chainstate::GetPruneRange', 'Chainstate::SnapshotBase', 'Chainstate::GetRole', 'ChainstateManager::HistoricalChainstate', 'ChainstateManager::IsInitialBlockDownload', 'ChainstateManager::GetParams', 'CChainParams::PruneAfterHeight', 'CChain::Height']
ST = ['node::BlockManager::PruneOneBlockFile -> recorder (per file: call count, sequence number, info at the time of the call) that resets the file info entry like the real one; block-index walk and dirty sets not executed',
      'phantom ChainstateManager (typed zeroed storage, no constructor): placement-constructed/poked members m_options.chainparams (reference slot), m_cached_is_ibd, m_best_header, m_chainstates (vector storage set directly to 1-2 phantom Chainstates), m_blockman',
      'phantom node::BlockManager (inside the phantom ChainstateManager): m_blockfile_info (real std::vector<CBlockFileInfo>), m_blockfile_cursors, m_prune_mode=true, m_opts.prune_target',
      'phantom Chainstate(s): m_chain (CChain whose vector size is set directly: only Height() is read), m_from_snapshot_blockhash, m_target_blockhash, m_target_utxohash, m_assumeutxo, m_cached_snapshot_base, m_blockman/m_chainman reference slots',
      'phantom CChainParams: nPruneAfterHeight', 'node::BlockManager::LookupBlockIndex -> the harness snapshot-base block', 'cs_main defined in the harness; pthread_mutex_lock/unlock/trylock -> success (single-threaded)',
      'util::log::ShouldDebugLog/ShouldTraceLog nondeterministic, util::log::Log drops the entry; LogPrintFormatInternal_<...> and CheckNumFormatSpecifiers<...> emptied at IR level (noop); tinyformat -> empty strings (ref/nofmt)',
      'assertion_fail -> CBMC assertion; std::__throw_system_error -> assertion']
AS = ['last_prune in [0, INT_MAX] (Chainstate::FlushStateToDisk passes the tip height or max(1, min over prune locks)); manual height in [1, INT_MAX] (asserted by the code)',
      'per file nSize + nUndoSize < 2^32 (the code adds the two uint32 fields in 32-bit arithmetic)',
      'prune target <= INT64_MAX bytes or == PRUNE_TARGET_MANUAL (the debug log line computes int64_t(target) - int64_t(usage))',
      'm_blockfile_info has an entry for every file number up to the write cursors (FindNextBlockPos resizes it before moving a cursor)']
HARNESSES = [
    H('prunerange', 'prunerange.cpp', 'h_prunerange', link=['validation.cpp'], shadow=['nofmt'], unwind=4, timeout=300, objbits=10,
      functions=['Chainstate::GetPruneRange', 'Chainstate::SnapshotBase', 'CChain::Height'],
      stubs=['phantom Chainstate (typed zeroed storage, no constructor): m_chain (CChain whose vector size is set directly: only Height() is read), m_from_snapshot_blockhash, m_assumeutxo, m_cached_snapshot_base (set or null), m_chainman/m_blockman reference slots',
             'node::BlockManager::LookupBlockIndex -> the harness snapshot-base block', 'assertion_fail -> CBMC assertion', 'tinyformat -> empty strings'],
      bounds='all 31-bit tip heights incl. empty chain, all 32-bit requested heights, all snapshot-base heights; loop-free'),
    H('prunefiles', 'prunefiles.cpp', 'h_prunefiles', link=['node/blockstorage.cpp', 'validation.cpp'], entries=ENT, tentries=TENT, shadow=['nofmt'], noop=NOLOG, unwind=6, defines={'SETSTUB': 1}, memunwind=168, timeout=300, objbits=10,
      functions=FN, stubs=ST + ['std::set<int>::insert (_Rb_tree<int>::_M_insert_unique) -> recorder of inserted file numbers (conditional inserts into a node container merge heap shapes; the real set is used by harness prunefiles_set)'],
      assumptions=AS, bounds='block-file tables of 1..3 files (the highest one is the file being written), 1..2 chainstates; all sizes/height ranges (32-bit), tip/best-header/requested/snapshot heights (31-bit), prune target, PruneAfterHeight (64-bit), IBD flag, cursors, assumeutxo/target/snapshot flags symbolic; shapes: ' + ', '.join(x[0] for x in ENT)),
    H('prunefiles_set', 'prunefiles.cpp', 'h_prunefiles_set', link=['node/blockstorage.cpp', 'validation.cpp'], entries=ENT_SET, shadow=['nofmt'], noop=NOLOG, unwind=6, unwindset=RBSET, memunwind=168, timeout=300, objbits=10,
      functions=FN + ['std::set<int>::insert/count/size'], stubs=ST, assumptions=AS,
      bounds='as prunefiles with a table of 2 files (one prunable file) and the real std::set<int> setFilesToPrune; shapes: ' + ', '.join(x[0] for x in ENT_SET)),
]
