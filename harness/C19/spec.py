from vlib import H
PROPERTY = 'C19'
LEVEL = 'model_checking'
CLAIM = 'wip'
RB = '_ZNSt8_Rb_treeIiiSt9_IdentityIiESt4lessIiESaIiEE'
RBSET = ','.join(x + ':4' for x in [RB + '16_M_insert_uniqueIRKiEESt4pairISt17_Rb_tree_iteratorIiEbEOT_.0', '_ZSt18_Rb_tree_decrementPSt18_Rb_tree_node_base.0', '_ZSt18_Rb_tree_decrementPSt18_Rb_tree_node_base.1'])
NOLOG = ['_ZN4util3log23LogPrintFormatInternal_[A-Za-z0-9_]*', '_ZN4util6detail24CheckNumFormatSpecifiersILj[0-9]+EEEvPKc']
def e(nf, ncs, which, mode): return ('f%d_c%d_w%d_%s' % (nf, ncs, which, 'auto' if mode == 0 else 'man'), '%d, %d, %d, %d' % (nf, ncs, which, mode))
ENT = [e(3, 1, 0, 0), e(3, 2, 1, 0), e(2, 2, 0, 0), e(3, 1, 0, 1), e(1, 1, 0, 0)]
HARNESSES = [
    H('prunerange', 'prunerange.cpp', 'h_prunerange', link=['validation.cpp'], shadow=['nofmt'], unwind=4, timeout=300, objbits=10,
      functions=['Chainstate::GetPruneRange', 'Chainstate::SnapshotBase', 'CChain::Height'],
      stubs=['phantom Chainstate: m_chain (CChain, vector size set directly), m_from_snapshot_blockhash, m_assumeutxo, m_cached_snapshot_base, m_chainman/m_blockman reference slots',
             'node::BlockManager::LookupBlockIndex -> the harness snapshot-base block', 'assertion_fail -> CBMC assertion', 'tinyformat -> empty strings'],
      bounds='all 31-bit tip heights incl. empty chain, all 32-bit requested heights, all snapshot-base heights; loop-free'),
    H('prunefiles', 'prunefiles.cpp', 'h_prunefiles', link=['node/blockstorage.cpp', 'validation.cpp'], entries=ENT, shadow=['nofmt'], noop=NOLOG, unwind=6, unwindset=RBSET, memunwind=168, timeout=300, objbits=10,
      functions=['node::BlockManager::FindFilesToPrune', 'FindFilesToPruneManual', 'CalculateCurrentUsage', 'MaxBlockfileNum', 'Chainstate::GetPruneRange', 'ChainstateManager::HistoricalChainstate', 'IsInitialBlockDownload'],
      stubs=['wip'],
      bounds='wip'),
]
