from vlib import H
PROPERTY = 'C08'
LEVEL = 'model_checking'
CLAIM = ('Kernel-level claim only: the real node::CBlockIndexWorkComparator (key order of setBlockIndexCandidates, whose last element FindMostWorkChain takes as the best tip) is a '
         'strict weak (here: total) order on block index entries for all 256-bit chain-work values, all 32-bit sequence ids and all address orders, and orders by chain work first '
         '(independent limb-wise reference), then earliest sequence id. Block-tree histories (FindMostWorkChain/ActivateBestChainStep/InvalidateBlock over delivery orders) are NOT decided: '
         'their state (std::set + multimap + CChain + disk) is outside what the encoding reaches; see also harness failure_flags.')
HARNESSES = [
    H('workcmp', 'workcmp.cpp', 'h_workcmp', link=['node/blockstorage.cpp', 'arith_uint256.cpp', 'uint256.cpp', 'chain.cpp'], unwind=10, timeout=300, objbits=10, shadow=['nofmt'],
      functions=['node::CBlockIndexWorkComparator::operator()', 'base_uint<256>::CompareTo', 'arith_uint256 shifts/or (harness setup)'],
      bounds='3 block index entries, all 256-bit nChainWork, all 32-bit nSequenceId, all address orders incl. aliasing; full width, no unbounded loops'),
]
