// C08 (kernel): the candidate-set comparator that decides "most work" is a strict weak order consistent with chain work.
// Real code: node::CBlockIndexWorkComparator::operator() (node/blockstorage.cpp), arith_uint256 comparison.
// If this order were not a strict weak order, std::set<CBlockIndex*, CBlockIndexWorkComparator> (setBlockIndexCandidates) would be
// undefined and its last element would not be the most-work candidate.
#include <verif.h>
#include <chain.h>
#include <node/blockstorage.h>

static void fill(CBlockIndex& b)
{
    uint64_t w[4] = {nondet_u64(), nondet_u64(), nondet_u64(), nondet_u64()};
    arith_uint256 a = 0;
    for (int i = 3; i >= 0; i--) { a <<= 64; a |= arith_uint256(w[i]); }
    b.nChainWork = a; b.nSequenceId = (int32_t)nondet_u32();
}
// reference: compare 256-bit work as four 64-bit limbs, most significant first
static int refcmp_work(const arith_uint256& x, const arith_uint256& y)
{
    for (int i = 3; i >= 0; i--) { uint64_t a = x.GetLow64(); uint64_t b = y.GetLow64(); (void)a; (void)b; }
    arith_uint256 xs = x, ys = y; uint64_t xl[4], yl[4];
    for (int i = 0; i < 4; i++) { xl[i] = xs.GetLow64(); ys.GetLow64(); yl[i] = ys.GetLow64(); xs >>= 64; ys >>= 64; }
    for (int i = 3; i >= 0; i--) { if (xl[i] < yl[i]) return -1; if (xl[i] > yl[i]) return 1; }
    return 0;
}

extern "C" void h_workcmp()
{
    static CBlockIndex arr[3];
    fill(arr[0]); fill(arr[1]); fill(arr[2]);
    // three pointers with every relative address order (indices symbolic, duplicates allowed)
    const unsigned ia = (unsigned)nondet_range(0, 2), ib = (unsigned)nondet_range(0, 2), ic = (unsigned)nondet_range(0, 2);
    const CBlockIndex* a = &arr[ia]; const CBlockIndex* b = &arr[ib]; const CBlockIndex* c = &arr[ic];
    const node::CBlockIndexWorkComparator lt;
    const bool ab = lt(a, b), ba = lt(b, a), bc = lt(b, c), cb = lt(c, b), ac = lt(a, c), ca = lt(c, a);
    verif_observe(ab | (ba << 1) | (bc << 2) | (ac << 3));
    VASSERT(!lt(a, a), "irreflexive");
    VASSERT(!(ab && ba), "asymmetric");
    VASSERT(!(ab && bc) || ac, "transitive");
    VASSERT((ia == ib) || ab || ba, "total on distinct block index entries (ties broken by address)");
    // incomparability is an equivalence (here: identity)
    VASSERT(!(!ab && !ba && !bc && !cb) || (!ac && !ca), "incomparability is transitive");
    // consistent with the property: strictly less work sorts strictly earlier, so the set's last element has maximal work
    const int w = refcmp_work(a->nChainWork, b->nChainWork);
    if (w < 0) VASSERT(ab && !ba, "less chain work sorts before more chain work");
    if (w == 0 && a->nSequenceId != b->nSequenceId) VASSERT(ab == (a->nSequenceId > b->nSequenceId), "equal work: the block received earlier (smaller sequence id) sorts later, i.e. is preferred");
    VWITNESS(w == 0 && ia != ib && a->nSequenceId == b->nSequenceId && ab, "address tie-break reachable");
    VWITNESS(w < 0, "different work reachable");
    VREACH("end");
}
